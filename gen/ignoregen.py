"""Programs for C12 (ignore comments): a Python tree of subroutines / statements whose simple
statements are drawn from templates that each raise known, independent lint diagnostics (different
rules), rendered one statement per line so that every source line belongs to exactly one node.

The same tree is rendered (a) to VCL source, with directive comments attached to `slots`
(leading comments of a node, the trailing comment of a simple statement, the comments before the
closing brace of a block) and (b) to the S-expression consumed by the extracted model
(Model/Ignore.v: decl / stmt / sblock / sbranch / scase), where each node carries the
diagnostics the real linter reported for its line in the directive-free baseline run.
"""
import itertools

# ------------------------------------------------------------------------------ statement templates
# {n} is replaced by a per-program counter so that header / variable names never collide
SIMPLE = [
    'set req.http.A{n} = undefined.v{n};',                      # rule-less undefined variable + operator/assignment
    'set req.http.B{n} = std.itoa(0, 1, 2);',                   # function/arguments
    'set req.http.C{n} = std.itoa(req.http.D);',                # function/argument-type
    'declare local var.u{n} STRING;',                           # unused/variable (deferred to the end of the sub)
    'call undefined_sub{n};',                                   # call-statement/subroutine-notfound
    'add req.url = "x{n}";',                                    # add-statement/syntax
    'error 1000;',                                              # error-statement/code
    'unset req.http.Fastly-FF;',                                # rule-less protected header
    'set req.http.H{n} = 10;',                                  # operator/assignment
    'set req.http.I{n} = req.http.A + 1;',                      # operator/conditional
    'set resp.http.Vary = "x{n}";',                             # overwrite-vary / undefined in most scopes
    'set req.http.G{n} = table.lookup(undefined_table, "k");',  # rule-less + function/argument-type
    'set req.http.K{n} = "clean";',                             # no diagnostic
    'set req.http.L{n} = req.http.Host;',                       # no diagnostic
    'esi;',                                                     # no diagnostic
    'synthetic "x{n}";',                                        # synthetic-statement/scope outside vcl_error
    'restart;',                                                 # restart-statement/scope in some scopes
    'set beresp.ttl = 10;',                                     # scope dependent
    'set req.http.M{n} = std.itoa(req.http.D) + std.itoa(0, 1, 2);',  # two named rules on one line
]
CONDS = [
    'req.http.X{n}',                      # clean
    'req.http.X{n} == undefined.c{n}',    # rule-less
    '"lit{n}"',                           # condition/literal
    'req.http.X{n} == "a"',               # clean
    'std.itoa(0, 1, 2) == "a"',           # function/arguments
]
CTRLS = ['req.http.S{n}', 'undefined.ctl{n}', 'std.itoa(0, 1, 2)']
FASTLY_SUBS = ["vcl_recv", "vcl_hash", "vcl_hit", "vcl_miss", "vcl_pass", "vcl_fetch", "vcl_error",
               "vcl_deliver", "vcl_log"]
DEFERRED_RULES = ("unused/variable", "unused/declaration", "unused/goto")


# comment placeholders of docs/parser.md besides "before the statement" / "after the statement":
#   kw          after the keyword:  if /*c*/ (   else if /*c*/ (   switch /*c*/ (   sub /*c*/ name   case /*c*/ "a"   set /*c*/ x = ...
#   open close  inside the parentheses, before / after the condition or control expression
#   brace       before the opening brace:  ) /*c*/ {    else /*c*/ {    sub name /*c*/ {
#   after_brace after the opening brace, same line
#   colon after before / after the colon of a case label
#   before_close (switch) before the closing brace;  after_close (block) after the closing brace, same line
SLOTS = {
    "sub": ["kw", "brace", "after_brace"],
    "if": ["kw", "open", "close", "brace", "after_brace"],
    "elseif": ["kw", "open", "close", "brace", "after_brace"],
    "else": ["brace", "after_brace"],
    "switch": ["kw", "open", "close", "brace", "before_close"],
    "case": ["kw", "colon", "after"],
    "default": ["colon", "after"],
    "block": ["after_close"],
    "set": ["kw"],
}
LINE_END_SLOTS = ("after_brace", "after", "after_close")     # a line comment may be used there


class Node:
    """kind: sub | simple | if | branch (else-if / else) | switch | case | block"""
    def __init__(self, kind, text="", kids=None):
        self.kind = kind
        self.text = text          # statement text / condition / control / case label / sub name
        self.kids = kids or []    # sub:[block]  if:[block, branch...]  branch:[block]  switch:[case...]  case:[stmt...]  block:[stmt...]
        self.lead = []            # directive comments on their own lines before the node
        self.trail = []           # comments after the statement on the same line (simple only)
        self.infix = []           # block only: comments before the closing brace
        self.extra = {}           # slot name -> comments at the other placeholders
        self.fixed_lead = []      # leading comments that are part of the program itself (the #FASTLY macro, comments of a snippet)
        self.pre_lead = []        # directive comments above the fixed ones (lead: below them)
        self.line = None
        self.id = None
        self.is_else = False
        self.file = None          # statements of an embedded managed snippet: the snippet file name
        self.srcline = None       # ... and their line in it

    def walk(self):
        yield self
        for k in self.kids:
            yield from k.walk()

    def slot_kind(self):
        if self.kind == "branch":
            return "else" if self.is_else else "elseif"
        if self.kind == "case":
            return "default" if self.text.startswith("default") else "case"
        if self.kind == "simple":
            return "set" if self.text.startswith("set ") else None
        return self.kind

    def slots(self):
        return SLOTS.get(self.slot_kind(), [])


class Tagged(str):
    """a comment text whose identity is kept, so that the place it is rendered at can be looked up"""


class Program:
    def __init__(self, subs):
        self.subs = subs
        self.cline = {}
        self.cpos = {}
        self.crlf = False
        self.snippet_scope = "recv"
        self.snippet_req = ""

    def nodes(self):
        for s in self.subs:
            yield from s.walk()

    def number(self):
        for i, n in enumerate(self.nodes()):
            n.id = i
        return self

    def clear(self):
        for n in self.nodes():
            n.lead, n.trail, n.infix, n.extra, n.pre_lead = [], [], [], {}, []

    # ---------------------------------------------------------------- rendering
    def render(self):
        """source text; sets node.line (1-based) for every node that owns a line; records line (cline) and
        position (cpos, 1-based byte column) of every comment"""
        out = []
        included = set()
        self.cline, self.cpos = {}, {}

        def emit(s):
            out.append(s)
            return len(out)

        def compose(parts):
            """parts: strings and comment lists -> one line; comment positions recorded"""
            line, where = "", []
            for p in parts:
                if isinstance(p, str):
                    line += p
                else:
                    for c in p:
                        if line and not line.endswith((" ", "(")):
                            line += " "
                        where.append((c, len(line.encode()) + 1))
                        line += c + " "
            ln = emit(line.rstrip())
            for c, col in where:
                self.cline[id(c)] = ln
                self.cpos[id(c)] = col
            return ln

        def comments(cs, ind):
            for c in cs:
                self.cline[id(c)] = emit(ind + c)
                self.cpos[id(c)] = len(ind) + 1

        def x(n, slot):
            return n.extra.get(slot, [])

        def stmts(lst, ind):
            for s in lst:
                if s.file is not None:
                    # embedded from a managed snippet: not part of this file; from an include module: the include statement
                    if s.file.startswith("mod::") and s.file not in included:
                        included.add(s.file)
                        emit(ind + 'include "%s";' % s.file[5:])
                    continue
                comments(s.pre_lead + s.fixed_lead + s.lead, ind)
                if s.kind == "simple":
                    if x(s, "kw"):
                        kw, _, rest = s.text.partition(" ")
                        s.line = compose([ind + kw + " ", x(s, "kw"), rest + " " if s.trail else rest, s.trail])
                    else:
                        s.line = compose([ind + s.text + (" " if s.trail else ""), s.trail])
                elif s.kind == "if":
                    s.line = compose([ind + "if ", x(s, "kw"), "(", x(s, "open"), s.text + " " if x(s, "close") else s.text, x(s, "close"), ") ",
                                      x(s, "brace"), "{ ", x(s, "after_brace")])
                    block(s.kids[0], ind)
                    for b in s.kids[1:]:
                        compose([ind + "} ", x(b.prev_block, "after_close")])
                        comments(b.lead, ind)
                        if b.is_else:
                            b.line = compose([ind + "else ", x(b, "brace"), "{ ", x(b, "after_brace")])
                        else:
                            b.line = compose([ind + "else if ", x(b, "kw"), "(", x(b, "open"), b.text + " " if x(b, "close") else b.text, x(b, "close"),
                                              ") ", x(b, "brace"), "{ ", x(b, "after_brace")])
                        block(b.kids[0], ind)
                    compose([ind + "} ", x(s.kids[-1].kids[0] if len(s.kids) > 1 else s.kids[0], "after_close")])
                elif s.kind == "switch":
                    s.line = compose([ind + "switch ", x(s, "kw"), "(", x(s, "open"), s.text + " " if x(s, "close") else s.text, x(s, "close"), ") ",
                                      x(s, "brace"), "{"])
                    for c in s.kids:
                        comments(c.lead, ind + "  ")
                        if c.text.startswith("default"):
                            c.line = compose([ind + "  default ", x(c, "colon"), ": ", x(c, "after")])
                        else:
                            label = c.text[len("case "):-1]
                            c.line = compose([ind + "  case ", x(c, "kw"), label + " ", x(c, "colon"), ": ", x(c, "after")])
                        stmts(c.kids, ind + "    ")
                    comments(x(s, "before_close"), ind + "  ")
                    emit(ind + "}")
                else:
                    raise ValueError(s.kind)

        def block(b, ind):
            # the block's own line is the line of the opening brace = the line of its owner
            stmts(b.kids, ind + "  ")
            comments(b.infix, ind + "  ")

        for s in self.subs:
            if s.kind == "decl":
                comments(s.pre_lead + s.fixed_lead + s.lead, "")
                s.line = compose([s.text + (" " if s.trail else ""), s.trail])
                continue
            for k in s.walk():
                if k.kind == "if":
                    prev = k.kids[0]
                    for br in k.kids[1:]:
                        br.prev_block = prev
                        prev = br.kids[0]
            comments(s.lead, "")
            s.line = compose(["sub ", x(s, "kw"), s.text + " ", x(s, "brace"), "{ ", x(s, "after_brace")])
            block(s.kids[0], "")
            compose(["} ", x(s.kids[0], "after_close")])
        self.render_snippets()
        text = "\n".join(out) + "\n"
        return text.replace("\n", "\r\n") if self.crlf else text

    def comment_order(self):
        """position of every leading / trailing / before-closing-brace comment in the statement stream the linter walks
        (embedded snippet statements included)"""
        seq = {}

        def go(n):
            for c in n.pre_lead + n.fixed_lead + n.lead + n.trail:
                seq[id(c)] = len(seq)
            for k in n.kids:
                go(k)
            for c in n.infix:
                seq[id(c)] = len(seq)
        for s in self.subs:
            go(s)
        return seq

    def render_snippets(self):
        """managed snippets embedded at the #FASTLY macro: their text (from the nodes that carry a file name), the request
        suffix for `implrun lint-ignore`, and the line of each of their statements"""
        files = {}
        for n in self.nodes():
            if n.file is None:
                continue
            lines = files.setdefault(n.file, [])
            for c in n.pre_lead + n.fixed_lead + n.lead:
                lines.append(c)
                self.cline[id(c)] = -len(lines)
            lines.append(n.text + "".join(" " + c for c in n.trail))
            n.srcline = len(lines)
            for c in n.trail:
                self.cline[id(c)] = -len(lines)
        self.snippet_req = "".join((" mod:%s:%s" % (f[5:], ("\n".join(ls) + "\n").encode().hex())) if f.startswith("mod::") else
                                   (" scoped:%s:%s:%s" % (self.snippet_scope, f[len("snippet::"):], ("\n".join(ls) + "\n").encode().hex()))
                                   for f, ls in files.items())
        return files

    def line_map(self):
        m = {}
        for n in self.nodes():
            if n.kind != "block" and n.line is not None:
                m[n.line] = n
        return m

    # ---------------------------------------------------------------- model input
    def sexp(self, diags):
        """diags: {node id: [rule, ...]} from the baseline run"""
        def hx(s):
            return '"' + s.encode().hex() + '"'

        def meta(n):
            return "(m (%s) (%s) (%s))" % (" ".join(map(hx, n.pre_lead + n.fixed_lead + n.lead)), " ".join(map(hx, n.trail)), " ".join(map(hx, n.infix)))

        def rules(n, later):
            rs = [r for r in diags.get(n.id, []) if (r in DEFERRED_RULES) == later]
            return "(" + " ".join(hx(r) for r in rs) + ")"

        def stmt(s):
            if s.kind == "simple":
                return "(simple %s %s %s)" % (meta(s), rules(s, False), rules(s, True))
            if s.kind == "if":
                others = [b for b in s.kids[1:] if not b.is_else]
                alt = [b for b in s.kids[1:] if b.is_else]
                return "(if %s %s %s (%s) %s)" % (meta(s), rules(s, False), block(s.kids[0]),
                                                    " ".join(map(branch, others)), branch(alt[0]) if alt else "_")
            if s.kind == "switch":
                return "(switch %s %s (%s))" % (meta(s), rules(s, False), " ".join(
                    "(case %s (%s))" % (meta(c), " ".join(map(stmt, c.kids))) for c in s.kids))
            raise ValueError(s.kind)

        def branch(b):
            return "(branch %s %s %s)" % (meta(b), rules(b, False), block(b.kids[0]))

        def block(b):
            return "(block %s (%s))" % (meta(b), " ".join(map(stmt, b.kids)))

        return "(" + " ".join(("(other %s %s %s)" % (meta(s), rules(s, False), rules(s, True))) if s.kind == "decl" else
                              ("(sub %s %s %s %s)" % (meta(s), rules(s, False), rules(s, True), block(s.kids[0])))
                              for s in self.subs) + ")"

    def model_paths(self):
        """path (as the model prints it) -> node, following Model/Ignore.v node_of_*"""
        m = {}

        def go(n, p):
            m[".".join(map(str, p))] = n
            for i, k in enumerate(n.kids):
                go(k, p + [i])
        for i, s in enumerate(self.subs):
            go(s, [i])
        return m

    # ---------------------------------------------------------------- slots and coverage
    def lists(self):
        """every statement list: (owner node or None for the program, [nodes])"""
        yield None, self.subs
        for n in self.nodes():
            if n.kind in ("block", "case"):
                yield n, n.kids

    def subtree_ids(self, n):
        return {x.id for x in n.walk()}


# ------------------------------------------------------------------------------ construction

class Builder:
    def __init__(self, rng):
        self.r = rng
        self.n = 0
        self.stats = {}

    def _c(self, k):
        self.stats[k] = self.stats.get(k, 0) + 1

    def fresh(self, tpl):
        self.n += 1
        return tpl.replace("{n}", str(self.n))

    def simple(self, idx=None):
        self._c("simple")
        tpl = SIMPLE[idx % len(SIMPLE)] if idx is not None else self.r.choice(SIMPLE)
        return Node("simple", self.fresh(tpl))

    def block(self, stmts):
        return Node("block", "", stmts)

    def branch(self, stmts, cond=None, is_else=False):
        b = Node("branch", "" if is_else else self.fresh(cond or self.r.choice(CONDS)), [self.block(stmts)])
        b.is_else = is_else
        return b

    def if_(self, cons, others=(), alt=None, cond=None):
        self._c("if")
        kids = [self.block(cons)] + [self.branch(o) for o in others]
        if alt is not None:
            kids.append(self.branch(alt, is_else=True))
        return Node("if", self.fresh(cond or self.r.choice(CONDS)), kids)

    def switch(self, cases):
        self._c("switch")
        kids = []
        for i, body in enumerate(cases):
            label = 'case "c%d":' % i if i < len(cases) - 1 or self.r.random() < 0.5 else "default:"
            brk = Node("simple", self.r.choice(["break;", "break;", "fallthrough;"]) if i < len(cases) - 1 else "break;")
            kids.append(Node("case", label, list(body) + [brk]))
        return Node("switch", self.fresh(self.r.choice(CTRLS)), kids)

    def stmts(self, n, depth):
        """a list holding n statements in total (compound statements count 1 + their bodies)"""
        out = []
        while n > 0:
            k = self.r.random()
            if depth <= 0 or n < 2 or k < 0.5:
                out.append(self.simple())
                n -= 1
                continue
            m = self.r.randint(1, n - 1)   # statements inside the compound
            n -= 1 + m
            if k < 0.8:
                parts = self.split(m, self.r.choice([1, 1, 2, 2, 3]))
                bodies = [self.stmts(p, depth - 1) for p in parts]
                has_else = len(bodies) > 1 and self.r.random() < 0.6
                alt = bodies.pop() if has_else else None
                out.append(self.if_(bodies[0], bodies[1:], alt))
            else:
                parts = self.split(m, self.r.choice([1, 2, 2, 3]))
                out.append(self.switch([self.stmts(p, depth - 1) for p in parts]))
        return out

    def split(self, m, k):
        k = max(1, min(k, m))
        cuts = sorted(self.r.sample(range(1, m), k - 1)) if k > 1 else []
        parts = [b - a for a, b in zip([0] + cuts, cuts + [m])]
        return parts

    def program(self, nsubs=None, nstmts=None, depth=3):
        nsubs = nsubs or self.r.choice([1, 2, 2, 3])
        names = self.r.sample(FASTLY_SUBS, min(nsubs, len(FASTLY_SUBS)))
        subs = []
        for i in range(nsubs):
            name = names[i]
            if self.r.random() < 0.3:
                name = "custom_%d" % i          # unrecognised scope (+ unused/declaration when never called)
            body = self.stmts(nstmts or self.r.randint(1, 6), depth)
            if name.startswith("custom_") and self.r.random() < 0.5 and i + 1 < nsubs:
                pass
            subs.append(Node("sub", name, [self.block(body)]))
        # sometimes call an earlier custom sub from a later one
        for i, s in enumerate(subs):
            if s.text.startswith("custom_") and self.r.random() < 0.5:
                for t in subs[i + 1:]:
                    t.kids[0].kids.insert(0, Node("simple", "call %s;" % s.text))
                    break
        # root declarations other than subroutines: unused ones (unused/declaration, emitted after the program), a broken one
        for k in range(self.r.choice([0, 0, 1, 2])):
            self.n += 1
            text = self.r.choice(['acl a%d { "10.0.0.0"/8; }', 'acl a%d { "999.0.0.1"; }', 'table t%d { "k": "v" }',
                                  'table t%d INTEGER { "k": "v" }', 'backend b%d { .host = "example.com"; .bogus = 1; }']) % self.n
            subs.insert(self.r.randrange(len(subs) + 1), Node("decl", text))
            self._c("decl")
        self._c("program")
        return Program(subs).number()


# ------------------------------------------------------------------------------ exhaustive shapes

def shapes(n):
    """all statement-list shapes with exactly n statements.
    shape := list of items; item := 's' | ('if', body) | ('ifelse', body, body) | ('ifelif', body, body)
                                 | ('switch', body) | ('switch2', body, body)"""
    if n == 0:
        return [[]]
    out = []
    for first_size in range(1, n + 1):
        rests = shapes(n - first_size)
        for item in items(first_size):
            for r in rests:
                out.append([item] + r)
    return out


_items_cache = {}


def items(size):
    """single statements (with their bodies) made of `size` statements"""
    if size in _items_cache:
        return _items_cache[size]
    out = []
    if size == 1:
        out.append("s")
    inner = size - 1
    if inner >= 1:
        for b in shapes(inner):
            out.append(("if", b))
            out.append(("switch", b))
        for a in range(1, inner):
            for b1 in shapes(a):
                for b2 in shapes(inner - a):
                    out.append(("ifelse", b1, b2))
                    out.append(("ifelif", b1, b2))
                    out.append(("switch2", b1, b2))
    _items_cache[size] = out
    return out


def build_shape(bld, shape, counter):
    out = []
    for it in shape:
        if it == "s":
            out.append(bld.simple(next(counter)))
        elif it[0] == "if":
            out.append(bld.if_(build_shape(bld, it[1], counter), cond=CONDS[next(counter) % len(CONDS)]))
        elif it[0] == "ifelse":
            out.append(bld.if_(build_shape(bld, it[1], counter), alt=build_shape(bld, it[2], counter), cond=CONDS[next(counter) % len(CONDS)]))
        elif it[0] == "ifelif":
            out.append(bld.if_(build_shape(bld, it[1], counter), others=[build_shape(bld, it[2], counter)], cond=CONDS[next(counter) % len(CONDS)]))
        elif it[0] == "switch":
            out.append(bld.switch([build_shape(bld, it[1], counter)]))
        elif it[0] == "switch2":
            out.append(bld.switch([build_shape(bld, it[1], counter), build_shape(bld, it[2], counter)]))
    return out


def shape_program(bld, shape, start=0):
    """one vcl_recv holding the shape, followed by a one-statement vcl_deliver (leak detector)"""
    counter = itertools.count(start)
    body = build_shape(bld, shape, counter)
    tail = Node("sub", "vcl_deliver", [bld.block([bld.simple(0), bld.simple(3)])])
    return Program([Node("sub", "vcl_recv", [bld.block(body)]), tail]).number()


# ------------------------------------------------------------------------------ directives

MARKERS = ["#", "//", "/*"]


def comment(marker, kind, rules, rng=None):
    """kind: next-line | this-line | start | end"""
    word = {"next-line": "falco-ignore-next-line", "this-line": "falco-ignore",
            "start": "falco-ignore-start", "end": "falco-ignore-end"}[kind]
    sep = ", "
    if rng is not None and rng.random() < 0.3:
        sep = rng.choice([",", " , ", ",  "])
    body = word + ((" " + sep.join(rules)) if rules else "")
    if marker == "/*":
        return "/* " + body + " */"
    sp = " " if rng is None or rng.random() < 0.8 else ""
    return marker + sp + body
