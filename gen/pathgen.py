"""Lifecycle action paths x cache state for C08 (implrun simrun): on ONE simulator a warming request (or none:
cold) followed by requests whose subroutines take, per restart round (req.restarts = 0, 1, 2), an assignment of
actions: the round either RESTARTS from some scope (restart; / return(restart);) or ENDS (delivered through
lookup or pass, or an error raised in recv / hit / miss / pass / fetch / deliver, handled by vcl_error).
The thin slice for the totality oracle: all paths with 0 and 1 restart, all 2-restart paths (quick: those whose
first round goes through the cache - hit / deliver / error-after-hit - with one restart spelling for the second
round; thorough: all), warm and cold.  Oracle: response or reported error, no panic / hang, restarts <= 3."""
from gen import simgen

HOWS = ["restart;", "return(restart);"]
LOOKUP, PASS = "return(lookup);", "return(pass);"


def restart_rounds():
    """name -> function(how) -> {scope: statement} : a round that reaches `scope` and restarts there"""
    return {
        "restart in recv": lambda h: {"recv": h},
        "restart in hit": lambda h: {"recv": LOOKUP, "hit": h},
        "restart in miss": lambda h: {"recv": LOOKUP, "miss": h},
        "restart in pass": lambda h: {"recv": PASS, "pass": h},
        "restart in fetch (lookup)": lambda h: {"recv": LOOKUP, "fetch": h},
        "restart in fetch (pass)": lambda h: {"recv": PASS, "fetch": h},
        "restart in error (error in recv)": lambda h: {"recv": "error 601;", "error": h},
        "restart in error (error in hit)": lambda h: {"recv": LOOKUP, "hit": "error 603;", "error": h},
        "restart in error (error in fetch)": lambda h: {"recv": LOOKUP, "fetch": "error 602;", "error": h},
        "restart in deliver (lookup)": lambda h: {"recv": LOOKUP, "deliver": h},
        "restart in deliver (pass)": lambda h: {"recv": PASS, "deliver": h},
        "restart in deliver (after error)": lambda h: {"recv": "error 601;", "deliver": h},
    }


THROUGH_CACHE = ["restart in hit", "restart in error (error in hit)", "restart in deliver (lookup)", "restart in fetch (lookup)"]

END_ROUNDS = {
    "delivered (lookup)": {"recv": LOOKUP},
    "delivered (pass)": {"recv": PASS},
    "error in recv": {"recv": "error 601;"},
    "error in hit": {"recv": LOOKUP, "hit": "error 603;"},
    "error in miss": {"recv": LOOKUP, "miss": "error 605;"},
    "error in pass": {"recv": PASS, "pass": "error 606;"},
    "error in fetch": {"recv": LOOKUP, "fetch": "error 602;"},
    "error in deliver": {"recv": LOOKUP, "deliver": "error 604;"},
    "error in recv, synthetic in error": {"recv": "error 601;", "error": 'set obj.status = 200; synthetic "x"; return(deliver);'},
    "deliver_stale from hit": {"recv": LOOKUP, "hit": "return(deliver_stale);"},
    "pass from hit": {"recv": LOOKUP, "hit": "return(pass);"},
}

SCOPES = ["recv", "hit", "miss", "pass", "fetch", "error", "deliver"]


def render(rounds):
    """rounds: list of {scope: statement}; round k applies when req.restarts == k (the last one also for later rounds)"""
    out = simgen.BACKEND
    for sc in SCOPES:
        arms = [(k, r[sc]) for k, r in enumerate(rounds) if sc in r]
        if not arms and sc != "recv":
            continue
        body = ""
        first = True
        for k, st in arms:
            cond = "req.restarts == %d" % k if k < len(rounds) - 1 else "req.restarts >= %d" % k
            body += "    %sif (%s) {\n      %s\n    }\n" % ("" if first else "else ", cond, st)
            first = False
        warm = "  if (req.http.Warm) {\n    return(lookup);\n  }\n" if sc == "recv" else ""
        out += "sub vcl_%s {\n%s  if (!req.http.Warm) {\n%s  }\n}\n" % (sc, warm, body)
    return out


WARM = ("GET", "/obj", "Warm: 1")
TEST = ("GET", "/obj", "")


def paths(thorough):
    rr = restart_rounds()
    for name, r in END_ROUNDS.items():
        yield [name], [r]
    for n1, f1 in rr.items():
        for h1 in HOWS:
            for ne, e in END_ROUNDS.items():
                yield [n1 + " by " + h1, ne], [f1(h1), e]
    firsts = list(rr) if thorough else THROUGH_CACHE
    for n1 in firsts:
        for h1 in HOWS:
            for i2, (n2, f2) in enumerate(rr.items()):
                hows2 = HOWS if thorough else [HOWS[(i2 + HOWS.index(h1)) % 2]]
                for h2 in hows2:
                    for ne, e in END_ROUNDS.items():
                        yield [n1 + " by " + h1, n2 + " by " + h2, ne], [rr[n1](h1), f2(h2), e]


def histories(thorough):
    """-> (label, main VCL, requests)  requests = (method, url, header lines)"""
    for names, rounds in paths(thorough):
        prog = render(rounds)
        yield "warm: " + " -> ".join(names), prog, [WARM, TEST, TEST]
        yield "cold: " + " -> ".join(names), prog, [TEST, TEST]
