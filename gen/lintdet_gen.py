"""C11 generator: programs whose subroutine call structure is known to the generator.

A configuration is
  * a list of subroutine declarations (text + the callee names the linter's call graph must see),
  * other root declarations (acl / table / backend, used, unused and duplicated),
  * optionally a module graph (files main.vcl, m1.vcl ... written by the check).
The declarations can be permuted; the model input (name, fastly?, explicit scope, callees) is
derived here, independently of linter/scope_inference.go.
"""
import itertools
import re
from gen import vclgen

SC = {"recv": 0x1, "hash": 0x10, "hit": 0x100, "miss": 0x1000, "pass": 0x10000, "fetch": 0x100000,
      "error": 0x1000000, "deliver": 0x10000000, "log": 0x100000000, "pipe": 0x1000000000}
FASTLY = {"vcl_" + k: v for k, v in SC.items()}
SUFFIXES = ["recv", "hash", "hit", "miss", "pass", "fetch", "error", "deliver", "log"]   # no _pipe suffix rule
ANNOT = ["recv", "hash", "hit", "miss", "pass", "fetch", "error", "deliver", "log"]
# names of builtin functions / function namespaces: a subroutine of that name is rejected as a duplicate
# definition and never registered in ctx.Subroutines (observed on the real linter, see notes/C11.md)
REJECTED = ["math", "h2", "h3", "std", "digest", "time", "regsub", "uuid", "header", "ratelimit", "fastly",
            "accept", "bin", "crypto", "json"]
IGNORES = ["// falco-ignore-next-line", "# falco-ignore-next-line", "# falco-ignore-next-line unused/declaration",
           "/* falco-ignore-next-line */", "// falco-ignore-start", "# plain comment"]


def load_generated_tables(gen_dir):
    """replace the tables above by those regenerated from the Go sources (coq/Gen/InferScopes.v: scope constants,
    fastlyScopes, the suffix rule and the annotation names); returns True when the file was read"""
    import os
    import re
    global SC, FASTLY, SUFFIXES, ANNOT
    p = os.path.join(gen_dir, "InferScopes.v")
    if not os.path.exists(p):
        return False
    txt = open(p).read()
    consts = {m.group(1): int(m.group(2)) for m in re.finditer(r"Definition SC_(\w+) : N := (\d+)\.", txt)}

    def table(name):
        m = re.search(r"Definition %s : list \(string \* N\) := \[(.*?)\]\." % name, txt, re.S)
        return [(a, consts[b]) for a, b in re.findall(r'\("([^"]+)"%string, SC_(\w+)\)', m.group(1))] if m else []
    fastly, suffix, annot = table("fastly_scopes"), table("suffix_scopes"), table("annotation_scopes")
    if not (fastly and suffix and annot):
        return False
    m = re.search(r"Definition builtin_top_names : list string := \[(.*?)\]\.", txt, re.S)
    if m:
        global REJECTED
        tops = re.findall(r'"([^"]+)"%string', m.group(1))
        kw = set()
        tt = os.path.join(gen_dir, "TokenTypes.v")
        if os.path.exists(tt):
            km = re.search(r"Definition keywords : list \(string \* ttype\) := \[(.*?)\]\.", open(tt).read(), re.S)
            kw = set(re.findall(r'\("([^"]+)",', km.group(1))) if km else set()
        rej = [t for t in tops if re.fullmatch(r"[a-z][a-z0-9_]*", t) and t not in kw]
        if len(rej) >= 10:
            REJECTED = rej
    SC = {k.lower(): v for k, v in consts.items() if v}
    FASTLY = dict(fastly)
    SUFFIXES = [a[1:] for a, _ in suffix]
    ANNOT = [a.lower() for a, _ in annot]
    return True


def explicit_scope(name, annots):
    """fastlyScopes[name], else the name-suffix rule, else the union of the @scope annotations, else 0"""
    if name in FASTLY:
        return FASTLY[name]
    for s in SUFFIXES:
        if name.endswith("_" + s):
            return SC[s]
    v = 0
    for a in annots:
        v |= SC.get(a.lower(), 0) if a.lower() in ANNOT else 0
    return v


RETURN_LITERAL = {"INTEGER": "1", "STRING": '"x"', "BOOL": "true", "FLOAT": "1.5", "RTIME": "10s", "TIME": "now",
                  "IP": "client.ip"}


class Sub:
    def __init__(self, name, rtype, annots, items, pre=()):
        self.name, self.rtype, self.annots, self.items = name, rtype, annots, items
        self.pre = list(pre)          # comment lines in front of the declaration (ignore directives ...)
        self.params = ""              # parameter list of a functional subroutine, e.g. "STRING var.a, INTEGER var.b"

    def callees(self):
        out = []
        for _, cs in self.items:
            out += cs
        return out

    def text(self, macro=True):
        head = "".join(c + "\n" for c in self.pre)
        if self.annots:
            head += "# @scope: %s\n" % ", ".join(self.annots)
        sig = "sub %s%s%s {\n" % (self.name, ("(%s)" % self.params) if self.params else "", (" " + self.rtype) if self.rtype else "")
        body = ""
        if self.name in FASTLY and macro:
            body += "#FASTLY %s\n" % self.name[4:]
        body += "".join("  " + t + "\n" for t, _ in self.items)
        if self.rtype:
            body += "  return %s;\n" % RETURN_LITERAL[self.rtype]
        return head + sig + body + "}\n"


class Raw:
    """a root declaration other than a subroutine (backend, director, table, acl, penaltybox, ratecounter):
    takes part in the permutation of the declarations, not in the call graph"""
    name, rtype, annots, items, pre = "", None, (), (), ()

    def __init__(self, text):
        self._text = text

    def callees(self):
        return []

    def text(self, macro=True):
        return self._text


class LintGen:
    def __init__(self, rng):
        self.r = rng
        self.filler = vclgen.Gen(rng, max_depth=2, long_strings=False, unicode_strings=False)
        self.stats = {}

    def _c(self, k):
        self.stats[k] = self.stats.get(k, 0) + 1

    def sub_names(self, n):
        r = self.r
        pool_f = list(FASTLY)
        names = []
        used = set()
        kinds = []
        for i in range(n):
            k = r.random()
            if k < 0.35:
                nm = r.choice(pool_f[:9]) if r.random() < 0.93 else "vcl_pipe"
                kind = "fastly"
            elif k < 0.5:
                nm = "u%d_%s" % (i, r.choice(SUFFIXES))
                kind = "suffix"
            elif k < 0.62:
                nm = "an%d" % i
                kind = "annot"
            elif k < 0.8:
                nm = "fn%d" % i
                kind = "func"
            elif k < 0.94:
                nm = "hp%d" % i
                kind = "plain"
            else:
                nm = r.choice(REJECTED)
                kind = "rejected"
            if kind != "fastly" and names and r.random() < 0.06:
                j = r.randrange(len(names))              # a duplicate declaration of an earlier subroutine
                if kinds[j] != "fastly":
                    nm, kind = names[j], kinds[j]
            used.add(nm)
            names.append(nm)
            kinds.append(kind)
        return names, kinds

    def item(self, names, funcs, depth=1, later=()):
        """one body statement: (text, callee names in the order extractCallees visits them)"""
        r = self.r
        # mostly call "later" subroutines (acyclic), sometimes anything (recursion, ghosts)
        tgt = lambda: (r.choice(list(later)) if later and r.random() < 0.75 else r.choice(names + ["ghost"]))
        fn = lambda: r.choice(funcs) if funcs and r.random() < 0.8 else "std.strlen"
        k = r.random()
        if k < 0.05:
            # per-subroutine context state: the re.group.N bookkeeping
            m = r.random()
            if m < 0.4:
                self._c("item:regex-match-then-read")
                return ('if (req.url ~ "^/(a)(b)?(c)") { set req.http.G = re.group.%d; } set req.http.H = re.group.%d;'
                        % (r.randint(0, 4), r.randint(0, 4))), []
            if m < 0.7:
                self._c("item:regex-read-without-match")
                return "set req.http.G = re.group.%d;" % r.randint(0, 3), []
            self._c("item:regex-match-only")
            return r.choice(['if (req.http.A ~ "x(y)(z)") { esi; }', 'if (req.http.A !~ "(q)") { esi; }',
                             'set req.http.R = if(req.url ~ "(u)", "1", "0");']), []
        if k < 0.30:
            self._c("item:call")
            t = tgt()
            return "call %s;" % t, [t]
        if k < 0.42:
            self._c("item:if-call")
            a, b, c = tgt(), tgt(), tgt()
            f = fn()
            cond2 = '%s("q")' % f if f == "std.strlen" else "%s()" % f
            return ('if (req.http.A == "1") { call %s; } else if (%s) { call %s; } else { call %s; }'
                    % (a, cond2 if f != "std.strlen" else 'std.strlen("q") > 0', b, c)), [a, f, b, c]
        if k < 0.52:
            self._c("item:set-funcexpr")
            f = fn()
            arg = '"q"' if f == "std.strlen" else ""
            return 'set req.http.V = "a" %s(%s);' % (f, arg), [f]
        if k < 0.58:
            self._c("item:switch-call")
            a, b = tgt(), tgt()
            return ('switch (req.http.K) { case "a": call %s; break; case "b": call %s; break; default: break; }'
                    % (a, b)), [a, b]
        if k < 0.63:
            self._c("item:log-funcexpr")
            f = fn()
            arg = '"q"' if f == "std.strlen" else ""
            return 'log "x" + %s(%s);' % (f, arg), [f]
        if k < 0.68:
            self._c("item:unused-local")
            return "declare local var.u%d %s;" % (r.randint(0, 3), r.choice(["STRING", "INTEGER", "BOOL"])), []
        if k < 0.72:
            self._c("item:used-local")
            n = r.randint(4, 6)
            return 'declare local var.v%d STRING; set var.v%d = "x"; set req.http.L = var.v%d;' % (n, n, n), []
        if k < 0.77:
            self._c("item:goto")
            n = r.randint(0, 2)
            m = r.random()
            if m < 0.5:
                return "goto g%d; set req.http.G = \"1\"; g%d:" % (n, n), []
            if m < 0.75:
                return "goto g%d;" % n, []          # destination missing: unused goto
            return "g%d: set req.http.G = \"2\"; goto g%d;" % (n, n), []     # backward jump
        if k < 0.82:
            self._c("item:error")
            return r.choice(["error;", "error 601;", 'error 700 "x";', "restart;", "return(lookup);",
                             "return(deliver);", "esi;"]), []
        if k < 0.88:
            self._c("item:illtyped")
            return r.choice(['set req.http.X = 10;', "set var.nodecl = 1;", 'set beresp.ttl = "x";',
                             "set req.http.Y = req.http.Z req.backend;", 'unset now;', 'set client.ip = "1.2.3.4";',
                             'add req.url = "x";']), []
        if k < 0.90:
            self._c("item:block-include")
            return 'include "sm%d";' % r.randint(1, 3), []
        if k < 0.94 and depth > 0:
            self._c("item:block")
            t1, c1 = self.item(names, funcs, depth - 1, later)
            t2, c2 = self.item(names, funcs, depth - 1, later)
            return "{ %s %s }" % (t1, t2), c1 + c2
        self._c("item:filler")
        s = self.filler.stmt(1).replace("\n", " ").strip()
        # a filler must not call a bare builtin function (regsub, substr, urlencode ...): a subroutine may be
        # declared under such a name (REJECTED), and extractCallees would then see an edge the model input lacks
        calls_rejected = any(re.search(r"(?<![\w.])%s\s*\(" % re.escape(n), s) for n in REJECTED)
        if "goto" in s or "include" in s or "call " in s or calls_rejected:
            s = 'set req.http.F = "f";'
        return s, None if False else self._filler_callees(s)

    @staticmethod
    def _filler_callees(s):
        # filler statements call only built-in functions / names that are never declared here;
        # undeclared callees have no effect on scopes or cycles and are left out of the model input
        return []

    def program(self, nsubs=None):
        r = self.r
        n = nsubs if nsubs is not None else r.choice([1, 2, 2, 3, 3, 3, 4, 4, 5, 5])
        names, kinds = self.sub_names(n)
        funcs = [nm for nm, k in zip(names, kinds) if k == "func"]
        subs = []
        for si, (nm, kind) in enumerate(zip(names, kinds)):
            annots = []
            if kind == "annot":
                annots = r.sample(ANNOT, r.choice([1, 1, 2, 3]))
                if r.random() < 0.2:
                    annots.append("bogus")
            rtype = r.choice(["INTEGER", "STRING", "BOOL", "STRING", "BOOL", "FLOAT", "RTIME", "TIME", "IP"]) if kind == "func" else None
            if kind == "func" and r.random() < 0.3:
                annots = r.sample(ANNOT, r.choice([1, 2]))
            later = [x for x in names[si + 1:] if x != nm]
            lfuncs = [f for f in funcs if f in later] if r.random() < 0.75 else funcs
            items = [self.item(names, lfuncs, 1, later) for _ in range(r.choice([0, 1, 1, 2, 2, 3, 4]))]
            pre = [r.choice(IGNORES)] if r.random() < (0.5 if kind == "rejected" else 0.12) else []
            if pre and pre[0].endswith("-start"):
                items = items + [("// falco-ignore-end", [])]
            sb = Sub(nm, rtype, annots, items, pre)
            if kind == "func" and r.random() < 0.3:
                sb.params = r.choice(["STRING var.a", "STRING var.a, INTEGER var.b", "BOOL var.f"])
                sb.items = list(sb.items) + [r.choice([('set req.http.P = var.a;', []), ('if (var.f) { esi; }', []),
                                                         ('set req.http.P = "p" var.b;', [])])]
                self._c("sub:func-with-parameters")
            subs.append(sb)
            self._c("sub:" + kind)
            self._c("sub:return-" + str(rtype))
        return self.with_declarations(subs), []

    def with_declarations(self, subs):
        """add root declarations of every other kind, cross references between them and uses from the
        subroutine bodies (some stay unused, some are declared twice); returns one list in random order"""
        r = self.r
        decls = []
        nb = r.choice([0, 1, 2, 2, 3])
        backends = ["F_b%d" % i for i in range(nb)]
        for b in backends:
            decls.append(Raw('backend %s { .host = "example.com"; .port = "80"; }\n' % b))
            self._c("decl:backend")
        directors = []
        if backends and r.random() < 0.6:
            for di in range(r.choice([1, 1, 2])):
                members = r.sample(backends, r.randint(1, len(backends)))
                kind = r.choice(["random", "hash", "client", "fallback"])
                body = "".join("  { .backend = %s; %s}\n" % (m, ".weight = 1; " if kind != "fallback" else "") for m in members)
                decls.append(Raw("director d%d %s {\n%s%s}\n" % (di, kind, "  .quorum = 50%;\n" if kind != "fallback" else "", body)))
                directors.append("d%d" % di)
                self._c("decl:director")
        tables = []
        for ti in range(r.choice([0, 1, 1, 2])):
            if backends and r.random() < 0.3:
                decls.append(Raw('table t%d BACKEND { "k": %s, }\n' % (ti, r.choice(backends))))
                self._c("decl:table-backend")
            else:
                decls.append(Raw('table t%d { "k": "v%d", }\n' % (ti, ti)))
                self._c("decl:table")
            tables.append("t%d" % ti)
        acls = []
        for ai in range(r.choice([0, 1, 1, 2])):
            decls.append(Raw('acl a%d { "10.0.0.%d"; }\n' % (ai, ai)))
            acls.append("a%d" % ai)
            self._c("decl:acl")
        pbs, rcs = [], []
        if r.random() < 0.4:
            decls.append(Raw("penaltybox pb0 {}\n"))
            pbs.append("pb0")
            self._c("decl:penaltybox")
        if r.random() < 0.4:
            decls.append(Raw("ratecounter rc0 {}\n"))
            rcs.append("rc0")
            self._c("decl:ratecounter")
        # duplicates (identical text: the first one is registered, the second reported)
        for d in list(decls):
            if r.random() < 0.08:
                decls.append(Raw(d.text()))
                self._c("decl:duplicate")
        # uses from the subroutine bodies
        uses = []
        for b in backends + directors:
            if r.random() < 0.45:
                uses.append("set req.backend = %s;" % b)
        for t in tables:
            if r.random() < 0.6:
                uses.append('set req.http.TL = table.lookup(%s, "k");' % t if "BACKEND" not in "".join(d.text() for d in decls if ("table %s " % t) in d.text())
                            else 'set req.backend = table.lookup_backend(%s, "k", %s);' % (t, backends[0]))
        for a in acls:
            if r.random() < 0.6:
                uses.append("if (client.ip ~ %s) { esi; }" % a)
        if pbs and rcs and r.random() < 0.7:
            uses.append('if (ratelimit.check_rate("c", rc0, 1, 10, 100, pb0, 1m)) { esi; }')
        elif pbs and r.random() < 0.5:
            uses.append('if (ratelimit.penaltybox_has(pb0, "e")) { esi; }')
        elif rcs and r.random() < 0.5:
            uses.append('set req.http.RC = ratelimit.ratecounter_increment(rc0, "e", 1);')
        real = [s for s in subs if not isinstance(s, Raw)]
        for u in uses:
            if real:
                sb = r.choice(real)
                sb.items = list(sb.items)
                sb.items.insert(r.randint(0, len(sb.items)), (u, []))
                self._c("use:" + u.split()[0] + " " + (u.split()[1] if u.startswith("set") else "cond"))
        out = list(subs) + decls
        r.shuffle(out)
        return out

    # ---------------------------------------------------------------- call-graph shapes
    LEAF_SENSITIVE = ['if (req.url ~ "^/(a)(b)") { esi; }', "set req.http.G = re.group.1;", "set req.http.G = re.group.2;", "restart;", "esi;", "error 601;", "set beresp.ttl = 10s;", 'set resp.http.L = "1";',
                      "set req.http.S = resp.status;", 'set bereq.http.B = "1";', "set obj.status = 500;",
                      "return(pass);", "return(deliver);", 'synthetic "x";', "set req.http.O = obj.status;",
                      'set req.http.C = beresp.http.Cache-Control;', "return(lookup);"]

    def shaped_program(self):
        """layered call graphs: several Fastly entry points reach shared subroutines through paths of
        different length (depth up to 5, diamonds of unequal depth); the leaves hold statements whose
        diagnostics depend on the inferred scope; sometimes a user function, an explicitly scoped
        subroutine in the middle, a back edge (recursion) or a call inside a nested block"""
        r = self.r
        n = r.randint(3, 8)
        inner = ["k%d" % i for i in range(n)]
        kinds = {}
        for nm in inner:
            k = r.random()
            kinds[nm] = "func" if k < 0.1 else "suffix" if k < 0.17 else "annot" if k < 0.24 else "rejected" if k < 0.28 else "plain"
        names = {}
        rej = r.sample(REJECTED, len(REJECTED))
        for i, nm in enumerate(inner):
            names[nm] = rej.pop() if kinds[nm] == "rejected" else nm + ("_" + r.choice(SUFFIXES) if kinds[nm] == "suffix" else "")
        entries = r.sample(list(FASTLY)[:9], r.randint(2, 4))
        edges = {nm: [] for nm in inner}
        for i, nm in enumerate(inner[:-1]):
            later = inner[i + 1:]
            for _ in range(r.choice([1, 1, 2, 2, 3])):
                # short and long jumps: the same leaf is reached at different depths
                j = r.choice([0, 0, len(later) - 1, r.randrange(len(later))])
                edges[nm].append(later[j])
        if r.random() < 0.15:
            edges[inner[-1]].append(r.choice(inner))          # recursion
        eedges = {}
        for e in entries:
            eedges[e] = [r.choice(inner[: max(1, n // 2)])] if r.random() < 0.6 else [r.choice(inner)]
            if r.random() < 0.4:
                eedges[e].append(inner[-1] if r.random() < 0.5 else r.choice(inner))
        self._c("shape:n%d" % n)
        self._c("shape:entries%d" % len(entries))

        def call_item(callee):
            cn = names.get(callee, callee)
            if kinds.get(callee) == "func":
                k = r.random()
                if k < 0.5:
                    return 'set req.http.V = "a" %s();' % cn, [cn]
                return "if (%s()) { esi; }" % cn, [cn]
            k = r.random()
            if k < 0.6:
                return "call %s;" % cn, [cn]
            if k < 0.8:
                return 'if (req.http.A == "1") { call %s; }' % cn, [cn]
            if k < 0.9:
                return 'if (req.http.A) { esi; } else { { call %s; } }' % cn, [cn]
            return 'switch (req.http.K) { case "a": call %s; break; default: break; }' % cn, [cn]
        subs = []
        for e in entries:
            subs.append(Sub(e, None, [], [call_item(c) for c in eedges[e]]))
        for nm in inner:
            items = [call_item(c) for c in edges[nm]]
            if not edges[nm] or r.random() < 0.5:
                for _ in range(r.choice([1, 1, 2])):
                    items.insert(r.randint(0, len(items)), (r.choice(self.LEAF_SENSITIVE), []))
            annots = r.sample(ANNOT, r.choice([1, 2])) if kinds[nm] == "annot" else []
            rtype = "BOOL" if kinds[nm] == "func" else None          # used in if (f()) conditions
            if rtype:
                items = [(t, c) for t, c in items if not t.startswith("return")]
            pre = [r.choice(IGNORES[:4])] if r.random() < (0.5 if kinds[nm] == "rejected" else 0.08) else []
            subs.append(Sub(names[nm], rtype, annots, items, pre))
        r.shuffle(subs)
        return (self.with_declarations(subs) if r.random() < 0.5 else subs), []

    # ---------------------------------------------------------------- scale
    def scale_program(self):
        """65-300 subroutines: a long call chain with extra forward calls, a few recursions anywhere
        (also among the last names), entered from vcl_recv; returns (subs, number of module files to split into)"""
        r = self.r
        n = r.choice([65, 70, 100, 130, 200, 300])
        names = ["s%03d" % i for i in range(n)]
        subs = [Sub("vcl_recv", None, [], [("call s000;", ["s000"])])]
        cyc = set(r.sample(range(n), r.choice([0, 1, 2, 3]))) | ({n - 1, n - 2} if r.random() < 0.6 else set())
        for i, nm in enumerate(names):
            items = []
            if i + 1 < n and r.random() < 0.9:
                items.append(("call %s;" % names[i + 1], [names[i + 1]]))
            for _ in range(r.choice([0, 0, 1, 2])):
                j = r.randrange(i, n) if i + 1 < n else i
                if j > i:
                    items.append(('if (req.http.A) { call %s; }' % names[j], [names[j]]))
            if i in cyc:
                j = r.randrange(max(0, i - 3), i + 1)
                items.append(("call %s;" % names[j], [names[j]]))          # back edge / self call
            if not items:
                items.append(('set req.http.L = "1";', []))
            subs.append(Sub(nm, None, [], items))
        self._c("scale:n%d" % n)
        r.shuffle(subs)
        return subs, r.choice([0, 0, 10, 40])

    # ---------------------------------------------------------------- statement-level include graphs
    def stmt_graph(self, k=None):
        """module files sm1..smk used at statement level; their bodies nest includes inside blocks
        (if / else / bare block, depth <= 3); target k+1 is a missing file.
        returns (main items, {i: items}, broken, ids that are managed snippets); items: ("s", tag) | ("i", target) | ("b", [items])"""
        r = self.r
        k = k or r.choice([1, 1, 2, 2, 3])
        tag = [0]

        def items(depth):
            out = []
            for _ in range(r.choice([1, 1, 2, 3])):
                x = r.random()
                if x < 0.3:
                    tag[0] += 1
                    out.append(("s", tag[0]))
                elif x < 0.65 or depth <= 0:
                    out.append(("i", r.randint(1, k + 1)))
                else:
                    out.append(("b", items(depth - 1)))
            return out
        mods = {i: items(3) for i in range(1, k + 1)}
        main = items(2)
        if not any(True for _ in _walk_inc(main)):
            main.append(("i", 1))
        broken = tuple(i for i in range(1, k + 1) if r.random() < 0.05)
        # some modules are Fastly managed snippets (include "snippet::g<i>") instead of files; so may be the missing one
        return main, mods, broken, frozenset(i for i in range(1, k + 2) if r.random() < 0.35)

    def stmt_modules(self):
        """statement-level module files sm1..sm2 (sm3 is missing), possibly including themselves / each other"""
        r = self.r
        out = {}
        for i in (1, 2):
            body = 'set req.http.S%d = "1";\n' % i
            for t in (1, 2, 3):
                if r.random() < 0.3:
                    body += 'include "sm%d";\n' % t
            if r.random() < 0.1:
                body = "set req.http.S = ;\n"          # does not parse
            out["sm%d.vcl" % i] = body
        return out


def render(subs, others, order=None, includes=()):
    """subs: Sub and Raw declarations (permuted by order); others: fixed text in front"""
    order = list(range(len(subs))) if order is None else order
    return "".join(others) + "".join(subs[i].text() for i in order) + "".join('include "%s";\n' % m for m in includes)


def model_decls(subs, order=None):
    """S-expression for `modelrun_lintdet infer`: names are numbered in order of first appearance"""
    order = list(range(len(subs))) if order is None else order
    ids = {}

    def nid(n):
        if n not in ids:
            ids[n] = len(ids)
        return ids[n]
    rows = []
    for i in order:
        s = subs[i]
        if isinstance(s, Raw):
            continue
        rows.append("(%d %d %d%s)" % (nid(s.name), 1 if s.name in FASTLY else 2 if s.name in REJECTED else 0,
                                      explicit_scope(s.name, s.annots),
                                      "".join(" %d" % nid(c) for c in s.callees())))
    return "(" + " ".join(rows) + ")", ids


def _walk_inc(items):
    for it in items:
        if it[0] == "i":
            yield it[1]
        elif it[0] == "b":
            yield from _walk_inc(it[1])


def _stmt_text(items, snip, ind="  "):
    snip = snip or ()
    out = ""
    for it in items:
        if it[0] == "s":
            out += ind + 'set req.http.S%d = "1";\n' % it[1]
        elif it[0] == "i":
            out += ind + ('include "snippet::g%d";\n' if it[1] in snip else 'include "sm%d";\n') % it[1]
        else:
            form = it[1] and (len(it[1]) + sum(1 for _ in _walk_inc(it[1]))) % 3
            if form == 0:
                out += ind + "if (req.http.A) {\n" + _stmt_text(it[1], snip, ind + "  ") + ind + "}\n"
            elif form == 1:
                out += ind + "if (req.http.A) { esi; } else {\n" + _stmt_text(it[1], snip, ind + "  ") + ind + "}\n"
            else:
                out += ind + "{\n" + _stmt_text(it[1], snip, ind + "  ") + ind + "}\n"
    return out


def _stmt_model(items, top_inert=False):
    """top_inert: the include statements at the top level of a managed snippet are NOT expanded
    (resolveSnippetInclusion: "snippet could not have nested include statement"); those nested in blocks are"""
    out = []
    for it in items:
        if it[0] == "s":
            out.append("(s %d)" % it[1])
        elif it[0] == "i":
            out.append("(s 0)" if top_inert else "(i %d)" % it[1])
        else:
            out.append("(b %s)" % " ".join(_stmt_model(it[1])))
    return out


def stmt_graph_files(main, mods, broken=(), snip=()):
    import json as _json
    files = {"main.vcl": "sub vcl_recv {\n#FASTLY recv\n" + _stmt_text(main, snip) + "}\n"}
    inc = {}
    for i, body in mods.items():
        text = "set req.http.S = ;\n" if i in broken else _stmt_text(body, snip, "")
        if i in snip:
            inc["g%d" % i] = text
        else:
            files["sm%d.vcl" % i] = text
    if snip:
        files["snippets.json"] = _json.dumps({"include": inc})
    return files


def stmt_graph_model(main, mods, broken=(), snip=()):
    tbl = []
    for i, body in mods.items():
        tbl.append("(%d B)" % i if i in broken else "(%d L %s)" % (i, " ".join(_stmt_model(body, i in snip))))
    return "inc (%s) (%s)" % (" ".join(tbl), " ".join(_stmt_model(main)))


# ---------------------------------------------------------------- include graphs
def all_graphs(k):
    """every include graph over module files m1..mk plus one missing name: for main and for each
    module, the set of include targets (a subset of {m1..mk, missing}), in a fixed order"""
    targets = list(range(1, k + 1)) + [9]
    subsets = []
    for n in range(len(targets) + 1):
        subsets += [list(c) for c in itertools.combinations(targets, n)]
    for combo in itertools.product(subsets, repeat=k + 1):
        yield combo[0], {i + 1: combo[i + 1] for i in range(k)}


def graph_files(main_inc, mods, broken=()):
    """file name -> text; module i declares subroutine t<10 i> before and t<10 i + 1> after its includes"""
    files = {"main.vcl": "sub t0 {}\n" + "".join('include "m%d";\n' % t for t in main_inc) + "sub t1 {}\n"}
    for i, inc in mods.items():
        if i in broken:
            files["m%d.vcl" % i] = "sub {\n"
        else:
            files["m%d.vcl" % i] = ("sub t%d {}\n" % (10 * i) + "".join('include "m%d";\n' % t for t in inc)
                                    + "sub t%d {}\n" % (10 * i + 1))
    return files


def graph_model(main_inc, mods, broken=()):
    tbl = []
    for i, inc in mods.items():
        if i in broken:
            tbl.append("(%d B)" % i)
        else:
            tbl.append("(%d L (s %d) %s (s %d))" % (i, 10 * i, " ".join("(i %d)" % t for t in inc), 10 * i + 1))
    main = "((s 0) %s (s 1))" % " ".join("(i %d)" % t for t in main_inc)
    return "inc (%s) %s" % (" ".join(tbl), main)
