"""C11 generator: programs whose subroutine call structure is known to the generator.

A configuration is
  * a list of subroutine declarations (text + the callee names the linter's call graph must see),
  * other root declarations (acl / table / backend, used, unused and duplicated),
  * optionally a module graph (files main.vcl, m1.vcl ... written by the check).
The declarations can be permuted; the model input (name, fastly?, explicit scope, callees) is
derived here, independently of linter/scope_inference.go.
"""
import itertools
from gen import vclgen

SC = {"recv": 0x1, "hash": 0x10, "hit": 0x100, "miss": 0x1000, "pass": 0x10000, "fetch": 0x100000,
      "error": 0x1000000, "deliver": 0x10000000, "log": 0x100000000, "pipe": 0x1000000000}
FASTLY = {"vcl_" + k: v for k, v in SC.items()}
SUFFIXES = ["recv", "hash", "hit", "miss", "pass", "fetch", "error", "deliver", "log"]   # no _pipe suffix rule
ANNOT = ["recv", "hash", "hit", "miss", "pass", "fetch", "error", "deliver", "log"]


def explicit_scope(name, annots):
    """fastlyScopes[name], else the name-suffix rule, else the union of the @scope annotations, else 0"""
    if name in FASTLY:
        return FASTLY[name]
    for s in SUFFIXES:
        if name.endswith("_" + s):
            return SC[s]
    v = 0
    for a in annots:
        v |= SC.get(a.lower(), 0) if a.lower() in ANNOT else 0
    return v


class Sub:
    def __init__(self, name, rtype, annots, items):
        self.name, self.rtype, self.annots, self.items = name, rtype, annots, items

    def callees(self):
        out = []
        for _, cs in self.items:
            out += cs
        return out

    def text(self, macro=True):
        head = ""
        if self.annots:
            head = "# @scope: %s\n" % ", ".join(self.annots)
        sig = "sub %s%s {\n" % (self.name, (" " + self.rtype) if self.rtype else "")
        body = ""
        if self.name in FASTLY and macro:
            body += "#FASTLY %s\n" % self.name[4:]
        body += "".join("  " + t + "\n" for t, _ in self.items)
        if self.rtype:
            body += "  return %s;\n" % {"INTEGER": "1", "STRING": '"x"', "BOOL": "true"}[self.rtype]
        return head + sig + body + "}\n"


class LintGen:
    def __init__(self, rng):
        self.r = rng
        self.filler = vclgen.Gen(rng, max_depth=2, long_strings=False, unicode_strings=False)
        self.stats = {}

    def _c(self, k):
        self.stats[k] = self.stats.get(k, 0) + 1

    def sub_names(self, n):
        r = self.r
        pool_f = list(FASTLY)
        names = []
        used = set()
        kinds = []
        for i in range(n):
            k = r.random()
            if k < 0.35:
                nm = r.choice(pool_f[:9]) if r.random() < 0.93 else "vcl_pipe"
                kind = "fastly"
            elif k < 0.5:
                nm = "u%d_%s" % (i, r.choice(SUFFIXES))
                kind = "suffix"
            elif k < 0.62:
                nm = "an%d" % i
                kind = "annot"
            elif k < 0.8:
                nm = "fn%d" % i
                kind = "func"
            else:
                nm = "hp%d" % i
                kind = "plain"
            if kind != "fastly" and names and r.random() < 0.06:
                j = r.randrange(len(names))              # a duplicate declaration of an earlier subroutine
                if kinds[j] != "fastly":
                    nm, kind = names[j], kinds[j]
            used.add(nm)
            names.append(nm)
            kinds.append(kind)
        return names, kinds

    def item(self, names, funcs, depth=1, later=()):
        """one body statement: (text, callee names in the order extractCallees visits them)"""
        r = self.r
        # mostly call "later" subroutines (acyclic), sometimes anything (recursion, ghosts)
        tgt = lambda: (r.choice(list(later)) if later and r.random() < 0.75 else r.choice(names + ["ghost"]))
        fn = lambda: r.choice(funcs) if funcs and r.random() < 0.8 else "std.strlen"
        k = r.random()
        if k < 0.30:
            self._c("item:call")
            t = tgt()
            return "call %s;" % t, [t]
        if k < 0.42:
            self._c("item:if-call")
            a, b, c = tgt(), tgt(), tgt()
            f = fn()
            cond2 = '%s("q")' % f if f == "std.strlen" else "%s()" % f
            return ('if (req.http.A == "1") { call %s; } else if (%s) { call %s; } else { call %s; }'
                    % (a, cond2 if f != "std.strlen" else 'std.strlen("q") > 0', b, c)), [a, f, b, c]
        if k < 0.52:
            self._c("item:set-funcexpr")
            f = fn()
            arg = '"q"' if f == "std.strlen" else ""
            return 'set req.http.V = "a" %s(%s);' % (f, arg), [f]
        if k < 0.58:
            self._c("item:switch-call")
            a, b = tgt(), tgt()
            return ('switch (req.http.K) { case "a": call %s; break; case "b": call %s; break; default: break; }'
                    % (a, b)), [a, b]
        if k < 0.63:
            self._c("item:log-funcexpr")
            f = fn()
            arg = '"q"' if f == "std.strlen" else ""
            return 'log "x" + %s(%s);' % (f, arg), [f]
        if k < 0.68:
            self._c("item:unused-local")
            return "declare local var.u%d %s;" % (r.randint(0, 3), r.choice(["STRING", "INTEGER", "BOOL"])), []
        if k < 0.72:
            self._c("item:used-local")
            n = r.randint(4, 6)
            return 'declare local var.v%d STRING; set var.v%d = "x"; set req.http.L = var.v%d;' % (n, n, n), []
        if k < 0.77:
            self._c("item:goto")
            n = r.randint(0, 2)
            m = r.random()
            if m < 0.5:
                return "goto g%d; set req.http.G = \"1\"; g%d:" % (n, n), []
            if m < 0.75:
                return "goto g%d;" % n, []          # destination missing: unused goto
            return "g%d: set req.http.G = \"2\"; goto g%d;" % (n, n), []     # backward jump
        if k < 0.82:
            self._c("item:error")
            return r.choice(["error;", "error 601;", 'error 700 "x";', "restart;", "return(lookup);",
                             "return(deliver);", "esi;"]), []
        if k < 0.88:
            self._c("item:illtyped")
            return r.choice(['set req.http.X = 10;', "set var.nodecl = 1;", 'set beresp.ttl = "x";',
                             "set req.http.Y = req.http.Z req.backend;", 'unset now;', 'set client.ip = "1.2.3.4";',
                             'add req.url = "x";']), []
        if k < 0.90:
            self._c("item:block-include")
            return 'include "sm%d";' % r.randint(1, 3), []
        if k < 0.94 and depth > 0:
            self._c("item:block")
            t1, c1 = self.item(names, funcs, depth - 1, later)
            t2, c2 = self.item(names, funcs, depth - 1, later)
            return "{ %s %s }" % (t1, t2), c1 + c2
        self._c("item:filler")
        s = self.filler.stmt(1).replace("\n", " ").strip()
        if "goto" in s or "include" in s or "call " in s:
            s = 'set req.http.F = "f";'
        return s, None if False else self._filler_callees(s)

    @staticmethod
    def _filler_callees(s):
        # filler statements call only built-in functions / names that are never declared here;
        # undeclared callees have no effect on scopes or cycles and are left out of the model input
        return []

    def program(self, nsubs=None):
        r = self.r
        n = nsubs if nsubs is not None else r.choice([1, 2, 2, 3, 3, 3, 4, 4, 5, 5])
        names, kinds = self.sub_names(n)
        funcs = [nm for nm, k in zip(names, kinds) if k == "func"]
        subs = []
        for si, (nm, kind) in enumerate(zip(names, kinds)):
            annots = []
            if kind == "annot":
                annots = r.sample(ANNOT, r.choice([1, 1, 2, 3]))
                if r.random() < 0.2:
                    annots.append("bogus")
            rtype = r.choice(["INTEGER", "STRING", "BOOL"]) if kind == "func" else None
            if kind == "func" and r.random() < 0.3:
                annots = r.sample(ANNOT, r.choice([1, 2]))
            later = [x for x in names[si + 1:] if x != nm]
            lfuncs = [f for f in funcs if f in later] if r.random() < 0.75 else funcs
            items = [self.item(names, lfuncs, 1, later) for _ in range(r.choice([0, 1, 1, 2, 2, 3, 4]))]
            subs.append(Sub(nm, rtype, annots, items))
            self._c("sub:" + kind)
        others = []
        for _ in range(r.choice([0, 0, 1, 2, 3])):
            k = r.random()
            i = r.randint(0, 2)
            if k < 0.35:
                others.append('acl acl%d { "10.0.0.%d"; }\n' % (i, i))
                self._c("decl:acl")
            elif k < 0.7:
                others.append('table tbl%d { "k": "v%d", }\n' % (i, i))
                self._c("decl:table")
            else:
                others.append('backend be%d { .host = "example.com"; .port = "80"; }\n' % i)
                self._c("decl:backend")
        return subs, others

    def stmt_modules(self):
        """statement-level module files sm1..sm2 (sm3 is missing), possibly including themselves / each other"""
        r = self.r
        out = {}
        for i in (1, 2):
            body = 'set req.http.S%d = "1";\n' % i
            for t in (1, 2, 3):
                if r.random() < 0.3:
                    body += 'include "sm%d";\n' % t
            if r.random() < 0.1:
                body = "set req.http.S = ;\n"          # does not parse
            out["sm%d.vcl" % i] = body
        return out


def render(subs, others, order=None, includes=()):
    order = list(range(len(subs))) if order is None else order
    return "".join(others) + "".join(subs[i].text() for i in order) + "".join('include "%s";\n' % m for m in includes)


def model_decls(subs, order=None):
    """S-expression for `modelrun_lintdet infer`: names are numbered in order of first appearance"""
    order = list(range(len(subs))) if order is None else order
    ids = {}

    def nid(n):
        if n not in ids:
            ids[n] = len(ids)
        return ids[n]
    rows = []
    for i in order:
        s = subs[i]
        rows.append("(%d %d %d%s)" % (nid(s.name), 1 if s.name in FASTLY else 0, explicit_scope(s.name, s.annots),
                                      "".join(" %d" % nid(c) for c in s.callees())))
    return "(" + " ".join(rows) + ")", ids


# ---------------------------------------------------------------- include graphs
def all_graphs(k):
    """every include graph over module files m1..mk plus one missing name: for main and for each
    module, the set of include targets (a subset of {m1..mk, missing}), in a fixed order"""
    targets = list(range(1, k + 1)) + [9]
    subsets = []
    for n in range(len(targets) + 1):
        subsets += [list(c) for c in itertools.combinations(targets, n)]
    for combo in itertools.product(subsets, repeat=k + 1):
        yield combo[0], {i + 1: combo[i + 1] for i in range(k)}


def graph_files(main_inc, mods, broken=()):
    """file name -> text; module i declares subroutine t<10 i> before and t<10 i + 1> after its includes"""
    files = {"main.vcl": "sub t0 {}\n" + "".join('include "m%d";\n' % t for t in main_inc) + "sub t1 {}\n"}
    for i, inc in mods.items():
        if i in broken:
            files["m%d.vcl" % i] = "sub {\n"
        else:
            files["m%d.vcl" % i] = ("sub t%d {}\n" % (10 * i) + "".join('include "m%d";\n' % t for t in inc)
                                    + "sub t%d {}\n" % (10 * i + 1))
    return files


def graph_model(main_inc, mods, broken=()):
    tbl = []
    for i, inc in mods.items():
        if i in broken:
            tbl.append("(%d B)" % i)
        else:
            tbl.append("(%d L (s %d) %s (s %d))" % (i, 10 * i, " ".join("(i %d)" % t for t in inc), 10 * i + 1))
    main = "((s 0) %s (s 1))" % " ".join("(i %d)" % t for t in main_inc)
    return "inc (%s) %s" % (" ".join(tbl), main)
