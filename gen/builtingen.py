"""Built-in function calls for C08 (implrun builtin): every function of __generator__/builtin.yml x
its declared signatures x boundary arguments (empty, not-set, 64 KiB string, +-2^63, NaN, ...).
The table is read from the repository on every run."""
import os
import yaml
from gen import evalgen

BIG = b"a" * 65536


def load_functions(repo):
    with open(os.path.join(repo, "__generator__", "builtin.yml")) as f:
        d = yaml.safe_load(f)
    out = []
    for name, spec in sorted(d.items()):
        sigs = spec.get("arguments") or [[]]
        out.append((name, sigs, spec.get("on") or ["RECV"], spec.get("return")))
    return out


def _s(b, notset=0):
    return ("S", b, notset)


CLASSES = ["empty", "notset", "big", "min", "max", "nan", "typical", "random"]


def arg_of(rng, ty, cls):
    """(text for implrun, class actually used)"""
    form = "v" if rng.random() < 0.6 else "l"
    if ty in ("ID", "TABLE", "BACKEND", "ACL", "RATECOUNTER", "PENALTYBOX", "SUBROUTINE", "REGEX") or ty not in \
            ("STRING", "INTEGER", "FLOAT", "BOOL", "RTIME", "TIME", "IP", "STRING_LIST"):
        names = {"TABLE": [b"t0", b"t1", b"nope"], "BACKEND": [b"b0", b"nope"], "ACL": [b"a0", b"nope"],
                 "ID": [b"t0", b"a0", b"b0", b"req.http.Cookie", b"req.http.X", b"rc0", b"pb0", b"f0", b"nope", b"req.url"],
                 "RATECOUNTER": [b"rc0", b"nope"], "PENALTYBOX": [b"pb0", b"nope"], "SUBROUTINE": [b"f0", b"nope"]}
        if ty == "REGEX":
            return evalgen.impl_text("l", _s(rng.choice([b"a", b"(", b".*", b"", b"(a|b)+$"]))), cls
        return "i" + rng.choice(names.get(ty, names["ID"])).hex(), cls
    if ty in ("STRING", "STRING_LIST"):
        if cls == "empty":
            v = _s(b"")
        elif cls == "notset":
            v, form = _s(b"", 1), "v"
        elif cls == "big":
            v = _s(BIG)
        elif cls == "typical":
            v = _s(rng.choice([b"abc", b"a=1&b=2", b"1.2.3.4", b"Mon, 02 Jan 2006 15:04:05 GMT", b"%41%zz", b"aGVsbG8=", b"12", b"-1", b"0x10",
                               b"en, fr;q=0.5", b"(", b"\xff\xfe\x00", b"1e400", b"9223372036854775808", b"%Y-%m-%d", b"utf-8"]))
        else:
            v = _s(bytes(rng.choice(b"ab01%.:/ =&;,-+\\\"(") for _ in range(rng.randint(0, 12))))
        return evalgen.impl_text(form, v), cls
    if ty == "INTEGER":
        n = {"empty": 0, "notset": 0, "big": 2**31, "min": -2**63, "max": 2**63 - 1, "nan": -1}.get(cls)
        if n is None:
            n = rng.choice([1, 2, 10, 16, 36, 37, 64, 100, 1000, -5, rng.randint(-2**63, 2**63 - 1)])
        flags = (1, 0, 0) if (cls == "nan" and form == "v") else (0, 0, 0)
        return evalgen.impl_text(form, ("I", n) + flags), cls
    if ty == "FLOAT":
        b = {"empty": 0, "notset": 0x8000000000000000, "big": evalgen.fbits(1e300), "min": evalgen.fbits(-1.7976931348623157e308),
             "max": evalgen.fbits(1.7976931348623157e308)}.get(cls)
        if cls == "nan":
            b, form = 0x7FF8000000000001, "v"
        if b is None:
            b = rng.choice([evalgen.fbits(x) for x in (1.0, 0.5, -2.5, 1e19, 1e-9)])
        if form == "l" and (b >> 52) & 0x7FF == 0x7FF:
            form = "v"
        return evalgen.impl_text(form, ("F", b, 0, 0, 0)), cls
    if ty == "BOOL":
        return evalgen.impl_text(form, ("B", rng.randint(0, 1))), cls
    if ty == "RTIME":
        if form == "l":
            txt, ns = rng.choice(evalgen.RT_LIT)
            return evalgen.impl_text("l", ("R", ns, txt)), cls
        ns = {"empty": 0, "min": -2**63, "max": 2**63 - 1, "nan": -1}.get(cls, rng.choice(evalgen.RT_B))
        return evalgen.impl_text("v", ("R", ns, None)), cls
    if ty == "TIME":
        s, n = {"empty": (0, 0), "min": (-62135596800, 0), "max": (253402300799, 999999999), "big": (2**40, 0)}.get(cls, rng.choice(evalgen.TIME_B))
        return evalgen.impl_text("v", ("T", s, n, 1 if cls == "nan" else 0)), cls
    if ty == "IP":
        if cls in ("notset", "empty"):
            return evalgen.impl_text("v", ("P", None, 1 if cls == "notset" else 0)), cls
        a = rng.choice([a for a in evalgen.IP_B if a])
        return evalgen.impl_text(form, ("P", a, 0)), cls
    raise ValueError(ty)


def gen_calls(rng, functions, per_sig):
    """-> list of (request text, function, signature, classes)"""
    out = []
    for name, sigs, scopes, ret in functions:
        for sig in sigs:
            for k in range(per_sig):
                scope = rng.choice(scopes) if k % 3 else scopes[0]
                base = CLASSES[k % len(CLASSES)] if k < len(CLASSES) else None
                args, classes = [], []
                for ty in sig:
                    cls = base if (base and rng.random() < 0.8) else rng.choice(CLASSES)
                    t, c = arg_of(rng, ty, cls)
                    args.append(t)
                    classes.append(c)
                out.append(("%s %s %s" % (name, scope, " ".join(args)), name, sig, classes))
    return out
