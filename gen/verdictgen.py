"""Programs for C04 (lint verdict): a main file, optional included modules, of every class the
property quantifies over: lint-clean, warnings only, infos only, errors, syntax error in the main
file, syntax error in an included module, statement-only snippets with and without `@scope`,
programs with ignore comments.  Bodies come from gen/ignoregen.py (many different rules)."""
from gen import ignoregen as G

SEEDS = [
    ("clean", 'sub vcl_recv {\n  #FASTLY RECV\n  set req.http.K = "v";\n}\n', {}),
    ("clean-two-subs", 'sub vcl_recv {\n  #FASTLY RECV\n  set req.http.K = "v";\n}\nsub vcl_deliver {\n  #FASTLY DELIVER\n  set resp.http.X = "1";\n}\n', {}),
    ("warn-only", 'sub vcl_recv {\n  set req.http.K = "v";\n}\n', {}),
    ("info-only", 'sub vcl_recv {\n  #FASTLY RECV\n  error 1000;\n}\n', {}),
    ("warn+info", 'sub vcl_recv {\n  error 1000;\n  error 1001;\n}\n', {}),
    ("errors", 'sub vcl_recv {\n  #FASTLY RECV\n  set req.http.A = undefined.v;\n  set req.http.B = std.itoa(0, 1, 2);\n}\n', {}),
    ("all-severities", 'sub vcl_recv {\n  error 1000;\n  set req.http.B = std.itoa(0, 1, 2);\n}\nsub custom_x {\n  esi;\n}\n', {}),
    ("syntax-main", 'sub vcl_recv {\n  #FASTLY RECV\n  set req.http.K = ;\n}\n', {}),
    ("syntax-main-eof", 'sub vcl_recv {\n  #FASTLY RECV\n  set req.http.K = "v";\n', {}),
    ("syntax-main-after-errors", 'sub vcl_recv {\n  set req.http.A = undefined.v;\n}\nsub vcl_fetch {\n  set = ;\n}\n', {}),
    ("syntax-included", 'include "mod_bad";\nsub vcl_recv {\n  #FASTLY RECV\n  set req.http.K = "v";\n}\n',
     {"mod_bad": 'sub helper {\n  set req.http.K = ;\n}\n'}),
    ("syntax-included-with-lint-errors-in-main", 'include "mod_bad";\nsub vcl_recv {\n  set req.http.A = undefined.v;\n}\n',
     {"mod_bad": 'sub helper {\n'}),
    ("included-ok", 'include "mod_ok";\nsub vcl_recv {\n  #FASTLY RECV\n  call helper;\n}\n',
     {"mod_ok": 'sub helper {\n  set req.http.K = "v";\n}\n'}),
    ("included-with-lint-errors", 'include "mod_err";\nsub vcl_recv {\n  #FASTLY RECV\n  call helper;\n}\n',
     {"mod_err": 'sub helper {\n  set req.http.A = undefined.v;\n  error 1000;\n}\n'}),
    ("syntax-included-first-of-two", 'include "mod_bad";\ninclude "mod_ok";\nsub vcl_recv {\n  #FASTLY RECV\n  set req.http.K = "v";\n}\n',
     {"mod_bad": 'sub helper_b {\n  set req.http.K = ;\n}\n', "mod_ok": 'sub helper {\n  set req.http.K = "v";\n}\n'}),
    ("syntax-included-second-of-two", 'include "mod_ok";\ninclude "mod_bad";\nsub vcl_recv {\n  #FASTLY RECV\n  set req.http.K = "v";\n}\n',
     {"mod_bad": 'sub helper_b {\n  set req.http.K = ;\n}\n', "mod_ok": 'sub helper {\n  set req.http.K = "v";\n}\n'}),
    ("syntax-included-nested", 'include "mod_outer";\nsub vcl_recv {\n  #FASTLY RECV\n  set req.http.K = "v";\n}\n',
     {"mod_outer": 'include "mod_bad";\nsub helper {\n  set req.http.K = "v";\n}\n', "mod_bad": 'sub helper_b {\n  set req.http.K = ;\n}\n'}),
    ("include-not-found", 'include "nowhere";\nsub vcl_recv {\n  #FASTLY RECV\n}\n', {}),
    ("snippet-scope", '# @scope: recv\nset req.http.K = "v";\n', {}),
    ("snippet-scope-errors", '# @scope: deliver\nset req.http.A = undefined.v;\nerror 1000;\n', {}),
    ("snippet-no-scope", 'set req.http.K = "v";\n', {}),
    ("snippet-no-scope-errors", 'set req.http.A = undefined.v;\nset req.http.B = std.itoa(0, 1, 2);\n', {}),
    ("snippet-syntax", '# @scope: recv\nset req.http.K = ;\n', {}),
    ("ignored-errors", 'sub vcl_recv {\n  #FASTLY RECV\n  # falco-ignore-next-line\n  set req.http.A = undefined.v;\n  set req.http.B = std.itoa(0, 1, 2); // falco-ignore\n}\n', {}),
    ("ignored-by-rule", 'sub vcl_recv {\n  #FASTLY RECV\n  # falco-ignore-start function/arguments\n  set req.http.B = std.itoa(0, 1, 2);\n  error 1000;\n  # falco-ignore-end function/arguments\n}\n', {}),
    ("empty", '', {}),
]

SCOPES = ["recv", "hash", "hit", "miss", "pass", "fetch", "error", "deliver", "log"]


def random_case(rng, idx):
    """(class label, main text, modules)"""
    bld = G.Builder(rng)
    k = rng.random()
    if k < 0.45:
        prog = bld.program()
        # boilerplate macro in some subroutines (removes the warning), directives sometimes
        for s in prog.subs:
            if s.text.startswith("vcl_") and rng.random() < 0.6:
                first = s.kids[0].kids[0]
                first.lead.append("#FASTLY " + s.text[4:].upper())
        nodes = [n for n in prog.nodes() if n.kind == "simple"]
        if rng.random() < 0.4 and nodes:
            n = rng.choice(nodes)
            n.lead.append(G.comment(rng.choice(G.MARKERS), "next-line", []))
        src = prog.render()
        mods = {}
        if rng.random() < 0.35:
            # an include graph: 1-3 modules of independent kinds, included from main in a random order,
            # sometimes nested (a module including a later one); the verdict must not depend on which
            # of several includes is the broken one or on what is included after it
            n = rng.randint(1, 3)
            kinds = [rng.choice(["ok", "err", "bad"]) for _ in range(n)]
            names = ["mod_%d_%d" % (idx, j) for j in range(n)]
            top = list(range(n))
            for j in range(n):
                body = {"ok": 'sub helper_%d_%d {\n  set req.http.K = "v";\n}\n' % (idx, j),
                        "err": 'sub helper_%d_%d {\n  set req.http.A = undefined.v;\n}\n' % (idx, j),
                        "bad": 'sub helper_%d_%d {\n  set req.http.K = ;\n}\n' % (idx, j)}[kinds[j]]
                if j + 1 < n and kinds[j] != "bad" and rng.random() < 0.3:
                    body = 'include "%s";\n' % names[j + 1] + body
                    if (j + 1) in top:
                        top.remove(j + 1)
                mods[names[j]] = body
            rng.shuffle(top)
            src = "".join('include "%s";\n' % names[j] for j in top) + src
            return "gen-program-include-" + "+".join(kinds[j] for j in top) + ("-nested" if len(top) < n else ""), src, mods
        return "gen-program", src, mods
    if k < 0.6:
        # clean-ish program: only diagnostic-free statements
        lines = ["sub vcl_recv {", "  #FASTLY RECV"]
        for i in range(rng.randint(1, 4)):
            lines.append(rng.choice(['  set req.http.K%d = "v";' % i, "  set req.http.L%d = req.http.Host;" % i, "  esi;"]))
        if rng.random() < 0.5:
            lines.append("  error 1000;")         # info
        lines.append("}")
        if rng.random() < 0.4:
            lines += ["sub custom_%d {" % idx, "  esi;", "}"]   # warnings
        return "gen-mostly-clean", "\n".join(lines) + "\n", {}
    if k < 0.8:
        # statement-only snippet
        stmts = [bld.simple().text for _ in range(rng.randint(1, 4))]
        head = []
        if rng.random() < 0.65:
            head = [rng.choice(["# @scope: ", "// @scope: ", "#@scope:"]) + rng.choice(SCOPES)]
        return "gen-snippet" + ("-scope" if head else "-noscope"), "\n".join(head + stmts) + "\n", {}
    # syntax errors: damage a generated program
    prog = bld.program()
    src = prog.render()
    lines = src.split("\n")
    i = rng.randrange(len(lines))
    how = rng.choice(["truncate", "drop-semicolon", "garbage", "unclosed-string"])
    if how == "truncate":
        lines = lines[: max(1, i)]
    elif how == "drop-semicolon":
        js = [j for j, l in enumerate(lines) if l.endswith(";")]
        if js:
            j = rng.choice(js)
            lines[j] = lines[j][:-1]
    elif how == "garbage":
        lines.insert(i, "  set = = ;")
    else:
        lines.insert(i, '  set req.http.Q = "unclosed;')
    return "gen-damaged-" + how, "\n".join(lines) + "\n", {}
