"""SCALE dimension for the formatter checks (C03 / C14 / C15): programs whose tokens, lines or lists are very long.

Nothing here is decided by a new oracle: the programs go through the same pipeline as every other input (re-parse, tree,
second pass, comments, token correspondence).  What is varied:
  * one token / one OUTPUT LINE of 4 KiB, 64 KiB - 1, 64 KiB, 64 KiB + 1, 200 KiB: quoted strings, long strings on one
    line, long strings over many lines (an inlined page), comments, identifiers - in a synthetic / set / log / table
    value / if condition, at the top level and inside nested blocks;
  * hundreds of operands in one condition (flat &&, ||, nested groups) or one concatenation, hundreds of arguments;
  * hundreds of statements, else-if branches, cases, properties, table / acl entries, declarations, nesting depth;
always next to groups of empty lines (every statement list of these programs contains runs of 2-3 empty lines, so the
empty-line squeezing of blocks, case bodies and of the whole file runs over the long lines).
"""

KIB = 1024
SIZES = [4 * KIB, 64 * KIB - 1, 64 * KIB, 64 * KIB + 1, 200 * KIB]
SIZES_QUICK_MULTI = [64 * KIB + 1, 200 * KIB]


def filler(n, rng=None, line=None):
    """n bytes of text without a quote; line: insert a line feed every `line` bytes (the count includes them)"""
    unit = "Lorem ipsum dolor sit amet, consectetur adipiscing elit; 0123456789 <p class='x'>&amp;</p> "
    s = (unit * (n // len(unit) + 1))[:n]
    if line:
        b = list(s)
        for k in range(line - 1, n - 1, line):
            b[k] = "\n"
        s = "".join(b)
    return s


def gaps(rng):
    return "\n" * rng.choice([2, 3, 4])


def wrap_block(rng, stmts, depth=0):
    """statements separated by runs of empty lines, inside `depth` nested if blocks of a subroutine"""
    ind = "  " * (depth + 1)
    body = ""
    for i, st in enumerate(stmts):
        body += ind + st + ("\n" if i == len(stmts) - 1 else gaps(rng))
    for d in range(depth, 0, -1):
        i2 = "  " * d
        body = i2 + "if (req.http.D%d) {\n" % d + body + i2 + "}\n"
    return "sub vcl_recv {\n" + body + "}\n"


def big_token_programs(rng, sizes):
    """-> [(label, text)]: one very long token (= one very long output line) next to empty-line groups"""
    out = []
    small = ['set req.http.A = "a";', "esi;", 'log "b";', 'set req.http.Z = "z";']
    for n in sizes:
        q = '"' + filler(n - 2) + '"'                                   # quoted string of n bytes (with its quotes)
        ls = '{"' + filler(n - 4) + '"}'                                 # long string on one line
        page = '{"' + filler(n - 4, line=rng.choice([72, 120, 300])) + '"}'    # long string over many lines: ONE token
        ident = "req.http." + ("X" * (n - 9))
        com_l = "// " + filler(n - 3).replace("\n", " ")
        com_b = "/* " + filler(n - 6).replace("*/", "* ") + " */"
        variants = [
            ("synthetic-page", ["synthetic " + page + ";"]),
            ("synthetic-line", ["synthetic " + ls + ";"]),
            ("set-quoted", ["set req.http.X = " + q + ";"]),
            ("set-concat", ['set req.http.X = "a" ' + q + ' req.http.B ' + ls + ";"]),
            ("log-page", ["log " + page + ";"]),
            ("if-condition", ["if (req.http.X == " + q + " || req.http.Y ~ " + ls + ") {\n    esi;\n  }"]),
            ("identifier", ["set " + ident + ' = "v";', "unset " + ident + ";"]),
            ("line-comment", [com_l + "\n  esi;"]),
            ("block-comment", [com_b + "\n  esi;", "esi; " + com_b]),
        ]
        for name, sts in variants:
            depth = rng.choice([0, 0, 1, 3])
            k = rng.randint(0, len(small))
            stmts = small[:k] + sts + small[k:]
            out.append(("scale:%s:%d:depth%d" % (name, n, depth), wrap_block(rng, stmts, depth)))
        # the same at the top level: table value, backend property, include behind empty lines
        out.append(("scale:table-value:%d" % n,
                    "table t STRING {\n  \"a\": \"b\",%s  \"k\": %s,%s  \"z\": \"y\",\n}%ssub vcl_recv {\n}\n" % (
                        gaps(rng), rng.choice([q, ls]), gaps(rng), gaps(rng))))
        out.append(("scale:backend-value:%d" % n,
                    "backend b {\n  .host = \"h\";%s  .probe = {\n    .request = %s;%s    .timeout = 1s;\n  }\n}%s%s\nsub vcl_recv {\n}\n" % (
                        gaps(rng), q, gaps(rng), gaps(rng), com_l)))
    return out


def many_programs(rng, n=300):
    """-> [(label, text)]: hundreds of operands / arguments / statements / branches / entries"""
    out = []
    hdr = lambda i: "req.http.H%d" % i
    flat_and = " && ".join(hdr(i) for i in range(n))
    mixed = ""
    for i in range(n):
        mixed += hdr(i) + ("" if i == n - 1 else rng.choice([" && ", " || "]))
    nested = hdr(0)
    for i in range(1, 40):
        nested = "(%s %s %s)" % (nested, rng.choice(["&&", "||"]), rng.choice(["!" + hdr(i), hdr(i) + ' == "v"']))
    groups = " || ".join("(%s && %s ~ \"x%d\")" % (hdr(i), hdr(i + 1), i) for i in range(0, n, 2))
    concat = " ".join(rng.choice(['"s%d"' % i, hdr(i), '{"l%d"}' % i]) for i in range(n))
    concat_plus = " + ".join(rng.choice(['"s%d"' % i, hdr(i), "std.itoa(%d)" % i]) for i in range(n))
    args = ", ".join(rng.choice(['"a%d"' % i, hdr(i), str(i)]) for i in range(n))
    conds = [("flat-and", flat_and), ("mixed", mixed), ("nested-40", nested), ("groups", groups)]
    for name, cnd in conds:
        out.append(("scale:condition-%s:%d" % (name, n),
                    wrap_block(rng, ['set req.http.A = "a";', "if (%s) {\n    esi;\n  } else if (%s) {\n    restart;\n  }" % (cnd, cnd),
                                     "esi;"], rng.choice([0, 2]))))
    out.append(("scale:concat:%d" % n, wrap_block(rng, ["set req.http.X = " + concat + ";", "log " + concat_plus + ";",
                                                        "synthetic " + concat + ";"])))
    out.append(("scale:arguments:%d" % n, wrap_block(rng, ["std.collect(" + args + ");", "set req.http.X = f(" + args + ");",
                                                           "error 700 f(" + args + ");"])))
    # statements, branches, cases
    sts = []
    for i in range(n):
        sts.append(rng.choice(['set req.http.S%d = "v%d";', 'unset req.http.S%d; // t%d', 'log "l%d" req.http.S%d;',
                               '# c%d\n  add req.http.S%d = "w";']) % (i, i))
    out.append(("scale:statements:%d" % n, wrap_block(rng, sts, rng.choice([0, 1]))))
    chain = "if (%s) {\n    esi;\n  }" % hdr(0)
    for i in range(1, n):
        chain += " %s (%s) {\n    set req.http.B = \"%d\";\n  }" % (rng.choice(["else if", "elseif", "elsif"]), hdr(i), i)
    chain += " else {\n    restart;\n  }"
    out.append(("scale:else-if-chain:%d" % n, wrap_block(rng, ["esi;", chain, "esi;"])))
    cases = "".join("  case \"c%d\":%s    set req.http.C = \"%d\";\n    %s;\n" % (i, rng.choice(["\n", "\n\n\n"]), i, rng.choice(["break", "break", "fallthrough"] if i < n - 1 else ["break"]))
                    for i in range(n))
    out.append(("scale:cases:%d" % n, "sub vcl_recv {\n  switch (req.url) {\n%s  default:\n    break;\n  }\n}\n" % cases))
    deep = "esi;"
    for d in range(60, 0, -1):
        deep = "if (%s) {\n%s\n}" % (hdr(d), deep)
    out.append(("scale:nesting-60", "sub vcl_recv {\n" + deep + "\n}\n"))
    # declarations
    props = "".join("  .p%d = %s;%s" % (i, rng.choice(['"v%d"' % i, str(i), "%ds" % i, "true"]), rng.choice(["\n", "\n", "\n\n", " # t%d\n" % i]))
                    for i in range(n))
    out.append(("scale:backend-properties:%d" % n, "backend b {\n" + props + "}\n"))
    ents = "".join('  "k%d": "v%d",%s' % (i, i, rng.choice(["\n", "\n", "\n\n\n", " // e%d\n" % i])) for i in range(n))
    out.append(("scale:table-entries:%d" % n, "table t STRING {\n" + ents + "}\n"))
    cidr = "".join('  %s"10.%d.%d.0"/24;%s' % (rng.choice(["", "!"]), i // 250, i % 250, rng.choice(["\n", "\n\n", " # a%d\n" % i])) for i in range(n))
    out.append(("scale:acl-entries:%d" % n, "acl a {\n" + cidr + "}\n"))
    objs = "".join("  { .backend = F_%d; .weight = %d; }%s" % (i, i + 1, rng.choice(["\n", "\n\n"])) for i in range(n // 3))
    out.append(("scale:director-backends:%d" % (n // 3), "director d random {\n  .quorum = 50%;\n" + objs + "}\n"))
    decls = "".join("%s\n%s" % (rng.choice(["sub s%d {\n  esi;\n}" % i, "acl a%d {\n}" % i, "backend b%d {\n  .host = \"h\";\n}" % i,
                                            "table t%d {\n}" % i, "import m%d;" % i, "include \"i%d\";" % i]),
                                rng.choice(["", "\n", "\n\n\n", "// d%d\n" % i])) for i in range(n))
    out.append(("scale:declarations:%d" % n, decls))
    return out


def programs(rng, thorough=False):
    """-> [(label, text)].  Quick: every size for the single-line tokens is too much for ~60 s x 3 checks, so the very
    long tokens are drawn: all five sizes are met over the variants, every variant gets 64 KiB + 1 or 200 KiB."""
    rows = big_token_programs(rng, SIZES)
    many = many_programs(rng, 300)
    if thorough:
        return rows + many + many_programs(rng, 1000)
    keep = []
    by_variant = {}
    for lab, text in rows:
        by_variant.setdefault(lab.split(":")[1], []).append((lab, text))
    for k, (v, lst) in enumerate(sorted(by_variant.items())):
        # one program beyond the 64 KiB limit for every variant, plus one of the other sizes (rotating)
        big = [x for x in lst if int(x[0].split(":")[2]) > 64 * KIB]
        other = [x for x in lst if int(x[0].split(":")[2]) <= 64 * KIB]
        keep.append(big[k % len(big)])
        keep.append(other[k % len(other)])
    return keep + many
