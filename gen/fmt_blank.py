"""RUNS OF EMPTY / WHITESPACE-ONLY LINES for the formatter checks (C03 / C14 / C15).

A run of k lines (k = 0..8), each empty or holding only blanks / tabs, at every place where text passes through the
formatter verbatim or through its empty-line squeezing:
  inside block comments (before the first declaration, between declarations, behind the last one, leading a statement,
  before a closing brace, trailing a statement / a declaration, inside a condition), inside long strings (synthetic,
  set value, table value, backend property), between declarations, statements, properties, table / acl entries, case
  clauses, branches, at the start and at the end of the file, after an opening brace.
Exhaustive (place x k x kind of line); the pipeline's oracles decide (second pass, comment text, tree, tokens).
"""

LINE_KINDS = [("empty", ""), ("blanks", "   "), ("tab", "\t"), ("mixed", " \t ")]
KS = list(range(0, 9))

# every place is a program with one hole "@"; the run is written into the hole
PLACES = [
    ("comment:file-start", "/* a\n@b */\nsub vcl_recv {\n  esi;\n}\n"),
    ("comment:between-decls", "sub a {\n}\n/* a\n@b */\nsub b {\n}\n"),
    ("comment:between-decls-own-paragraph", "sub a {\n}\n\n/* a\n@b */\n\nsub b {\n}\n"),
    ("comment:file-end", "sub a {\n}\n/* a\n@b */\n"),
    ("comment:decl-trailing", "sub a {\n} /* a\n@b */\nsub b {\n}\n"),
    ("comment:stmt-leading", "sub vcl_recv {\n  esi;\n  /* a\n@  b */\n  restart;\n}\n"),
    ("comment:stmt-trailing", "sub vcl_recv {\n  esi; /* a\n@  b */\n  restart;\n}\n"),
    ("comment:block-infix", "sub vcl_recv {\n  esi;\n  /* a\n@  b */\n}\n"),
    ("comment:in-nested-block", "sub vcl_recv {\n  if (req.http.A) {\n    /* a\n@    b */\n    esi;\n  }\n}\n"),
    ("comment:in-condition", "sub vcl_recv {\n  if (/* a\n@ b */ req.http.A && req.http.B) {\n    esi;\n  }\n}\n"),
    ("comment:inline", "sub vcl_recv {\n  set /* a\n@ b */ req.http.X = \"1\";\n}\n"),
    ("comment:property-leading", "backend b {\n  /* a\n@  b */\n  .host = \"h\";\n}\n"),
    ("comment:case-leading", "sub vcl_recv {\n  switch (req.url) {\n  /* a\n@  b */\n  case \"x\":\n    break;\n  }\n}\n"),
    ("string:synthetic", "sub vcl_recv {\n  synthetic {\"a\n@b\"};\n  esi;\n}\n"),
    ("string:set", "sub vcl_recv {\n  set req.http.X = \"p\" {\"a\n@b\"} \"q\";\n}\n"),
    ("string:table", "table t {\n  \"k\": {\"a\n@b\"},\n}\n"),
    ("string:backend", "backend b {\n  .host = {\"a\n@b\"};\n  .port = \"80\";\n}\n"),
    ("string:condition", "sub vcl_recv {\n  if (req.http.A == {\"a\n@b\"} || req.http.B) {\n    esi;\n  }\n}\n"),
    ("lines:file-start", "@sub vcl_recv {\n  esi;\n}\n"),
    ("lines:file-end", "sub vcl_recv {\n  esi;\n}\n@"),
    ("lines:file-end-before-comment", "sub vcl_recv {\n  esi;\n}\n@// tail\n"),
    ("lines:between-decls", "sub a {\n}\n@sub b {\n}\n"),
    ("lines:between-decl-and-comment", "sub a {\n}\n@// c\n@sub b {\n}\n"),
    ("lines:between-statements", "sub vcl_recv {\n  esi;\n@  restart;\n}\n"),
    ("lines:statement-and-comment", "sub vcl_recv {\n  esi;\n@  // c\n@  restart;\n}\n"),
    ("lines:after-open-brace", "sub vcl_recv {\n@  esi;\n}\n"),
    ("lines:before-close-brace", "sub vcl_recv {\n  esi;\n@}\n"),
    ("lines:empty-block", "sub vcl_recv {\n@}\n"),
    ("lines:between-branches", "sub vcl_recv {\n  if (req.http.A) {\n    esi;\n  }\n@  else {\n    esi;\n  }\n}\n"),
    ("lines:between-cases", "sub vcl_recv {\n  switch (req.url) {\n  case \"a\":\n    esi;\n@    break;\n@  default:\n    break;\n  }\n}\n"),
    ("lines:between-properties", "backend b {\n  .host = \"h\";\n@  .port = \"80\"; # t\n@  .probe = {\n@    .request = \"GET\";\n@  }\n}\n"),
    ("lines:between-table-entries", "table t {\n  \"a\": \"b\",\n@  \"c\": \"d\", // t\n@}\n"),
    ("lines:between-acl-entries", "acl a {\n  \"10.0.0.0\"/8;\n@  \"::1\";\n@}\n"),
    ("lines:director", "director d random {\n  .quorum = 50%;\n@  { .backend = F_a; .weight = 1; }\n@  { .backend = F_b; .weight = 2; }\n}\n"),
    ("lines:inside-expression", "sub vcl_recv {\n  set req.http.X = \"a\"\n@    \"b\";\n}\n"),
]


def programs():
    """-> [(label, text)]"""
    out = []
    for name, tpl in PLACES:
        for k in KS:
            for kn, line in (LINE_KINDS if k > 0 else LINE_KINDS[:1]):
                out.append(("blank:%s:%d:%s" % (name, k, kn), tpl.replace("@", (line + "\n") * k)))
    return out
