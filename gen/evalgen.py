"""Cells for C07/C08: (kind, operator, left operand, right operand) with boundary operands.
Values are structured tuples; `impl_text` renders the harness form (implrun evalcell), `model_text`
the model form (modelrun_eval cell), `canon_impl` / `canon_model` parse the replies to one canonical
tuple.  Everything random comes from the rng that the caller passes in."""
import struct
from gen import aclgen

U2I = 62135596800
M63 = 1 << 63


def wrap64(z):
    return (z + M63) % (1 << 64) - M63


AOPS = ["set", "add", "sub", "mul", "div", "rem", "or", "and", "xor", "shl", "shr", "rol", "ror", "lor", "land"]
BOPS = ["eq", "ne", "lt", "gt", "le", "ge", "match", "nmatch", "and", "or"]
TYPES = ["I", "F", "S", "B", "R", "T", "P", "K"]


def fbits(x):
    return struct.unpack(">Q", struct.pack(">d", x))[0]


INF = float("inf")
INT_B = [0, 1, -1, 2, -2, 3, 7, 10, 63, 64, 65, 127, 128, 1000, 2**31 - 1, 2**31, -2**31, 2**32, 10**9, 9223372036, 9223372037,
         2**53, 2**53 + 1, 2**55, 2**62, 2**63 - 1, -2**63, -2**63 + 1, -64, -63, -65, -10**9]
FLT_B = [fbits(x) for x in (0.0, -0.0, 1.0, -1.0, 0.5, -0.5, 0.999, 1.5, -1.5, 2.0, 2.5, 0.0005, 0.0015, 1e-9, 63.0, 64.0, 65.0, 1000.0,
                            2.0**31, 2.0**32, 2.0**53, 2.0**62, 2.0**63, -2.0**63, 2.0**63 - 1024, 2.0**64, 9.3e9, 1e18, 1e19, -1e19,
                            1e300, -1e300, 1.7976931348623157e308, -1.7976931348623157e308, 5e-324, INF, -INF)] + [0x7FF8000000000001]
STR_B = [b"", b"abc", b"a", b"b", b"0", b"1", b"1.2.3.4", b"10.1.2.3", b"::1", b"2001:db8::1", b"(null)", b"^a", b"(", b"a+", b"\xff\xfe",
         b"01.2.3.4", b"1.2.3", b" 1.2.3.4", b"NAN", b"inf"]
RT_LIT = [("0s", 0), ("1s", 10**9), ("5m", 300 * 10**9), ("2h", 7200 * 10**9), ("1d", 86400 * 10**9), ("1y", 365 * 86400 * 10**9),
          ("1500ms", 1500 * 10**6), ("10ms", 10**7), ("1ms", 10**6), ("3s", 3 * 10**9)]
RT_B = [0, 1, -1, 999999, 10**6, 1500 * 10**6, -1500 * 10**6, 10**9, -10**9, 10**9 - 1, 10**9 + 1, 64 * 10**9, 86400 * 10**9,
        9223372036 * 10**9, 2**63 - 1, -2**63, -2**63 + 1, 2**55, 2**62]
TIME_B = [(0, 0), (1, 0), (-1, 0), (0, 999999999), (1758800000, 5), (2**31, 0), (253402300799, 0), (-U2I, 0), (-U2I - 86400 * 366, 0),
          (2**33, 1), (4102444800, 0), (951782400, 0), (-2**31, 500),
          # leap-day boundaries: 2000-02-29, 2024-02-29 12:00, 1900-02-28 23:59:59 / 1900-03-01, 2100-02-28 / 2100-03-01, year 0000
          (951782400 + 86399, 0), (1709208000, 0), (-2203891201, 0), (-2203891200, 0), (4107456000, 0), (4107542400, 0), (-62167219200, 0),
          (253402300799, 999999999), (-1577923200, 0)]
IP_B = [None, (4, 0x01020304), (4, 0x0A010203), (4, 0), (4, 0xFFFFFFFF), (6, 1), (6, 0x20010DB8 << 96 | 1), (6, (1 << 128) - 1),
        (6, 0x20010DB8 << 96 | 1 << 64), (6, 1 << 112 | 1 << 16)]

ACL0 = [aclgen.Entry(False, 4, 10 << 24, 8), aclgen.Entry(True, 4, (10 << 24) | (1 << 16), 16),
        aclgen.Entry(False, 4, (10 << 24) | (1 << 16) | (2 << 8) | 3, None), aclgen.Entry(False, 6, 0x20010DB8 << 96, 32)]
ACL_BAD = [aclgen.Entry(False, 4, 10 << 24, 33)]


def values_of(t, form):
    """boundary values of a type for the given form (v variable, l literal)"""
    out = []
    if t == "I":
        out = [("I", v, 0, 0, 0) for v in INT_B]
        if form == "v":
            out += [("I", 5, 1, 0, 0), ("I", 0, 0, 1, 0), ("I", 7, 0, 0, 1), ("I", -3, 1, 0, 1), ("I", 0, 1, 0, 0)]
    elif t == "F":
        out = [("F", b, 0, 0, 0) for b in FLT_B if form == "v" or (b >> 52) & 0x7FF != 0x7FF]
        if form == "v":
            out += [("F", fbits(5.0), 1, 0, 0), ("F", 0, 0, 1, 0), ("F", fbits(7.5), 0, 0, 1), ("F", fbits(2.0), 1, 1, 0)]
    elif t == "S":
        out = [("S", s, 0) for s in STR_B]
        if form == "v":
            out += [("S", b"", 1)]
    elif t == "B":
        out = [("B", 0), ("B", 1)]
    elif t == "R":
        out = [("R", ns, txt) for txt, ns in RT_LIT] if form == "l" else [("R", ns, None) for ns in RT_B]
    elif t == "T":
        out = [("T", s, n, 0) for s, n in TIME_B] + [("T", 1758800000, 0, 1)] if form == "v" else []
    elif t == "P":
        if form == "v":
            out = [("P", None, 1), ("P", None, 0)] + [("P", a, 0) for a in IP_B if a]
        else:
            out = [("P", a, 0) for a in IP_B if a]
    elif t == "K":
        out = [("K", b"b0"), ("K", b"b1"), ("K", b"d0")] + ([("K", None)] if form == "v" else [])
    elif t == "A":
        out = [("A", b"a0", ACL0), ("A", b"a1", ACL_BAD)] if form == "l" else []
    return out


def random_value(rng, t, form):
    if t == "I":
        v = rng.choice([rng.randint(-2**63, 2**63 - 1), rng.randint(-200, 200), rng.randint(-2**33, 2**33)])
        return ("I", v, 0, 0, 0)
    if t == "F":
        while True:
            b = rng.choice([rng.getrandbits(64), fbits(rng.uniform(-1000, 1000)), fbits(rng.uniform(-1e19, 1e19)), fbits(float(rng.randint(-10**6, 10**6)) / 1000)])
            if form == "v" or (b >> 52) & 0x7FF != 0x7FF:
                return ("F", b, 0, 0, 0)
    if t == "S":
        return ("S", bytes(rng.choice(b"ab01.:/ x") for _ in range(rng.randint(0, 6))), 0)
    if t == "R":
        if form == "l":
            txt, ns = rng.choice(RT_LIT)
            return ("R", ns, txt)
        return ("R", rng.choice([rng.randint(-2**63, 2**63 - 1), rng.randint(-10**12, 10**12)]), None)
    if t == "T":
        return ("T", rng.randint(-2**35, 2**35), rng.randint(0, 999999999), 0)
    if t == "P":
        f = rng.choice([4, 6])
        return ("P", (f, aclgen._avoid_mapped(f, rng.getrandbits(aclgen.W[f]))), 0)
    vs = values_of(t, form)
    return rng.choice(vs) if vs else None


def _hex(n):
    return "%x" % n


def impl_text(form, v):
    k = v[0]
    if k == "I":
        return "%sI:%d:%d%d%d" % (form, v[1], v[2], v[3], v[4])
    if k == "F":
        return "%sF:%016x:%d%d%d" % (form, v[1], v[2], v[3], v[4])
    if k == "S":
        return "%sS:%s:%d" % (form, v[1].hex(), v[2])
    if k == "B":
        return "%sB:%d" % (form, v[1])
    if k == "R":
        return "%sR:%d%s" % (form, v[1], (":" + v[2]) if v[2] else "")
    if k == "T":
        return "%sT:%d:%d:%d" % (form, v[1], v[2], v[3])
    if k == "P":
        return "%sP:nil:%d" % (form, v[2]) if v[1] is None else "%sP:%d:%x:%d" % (form, v[1][0], v[1][1], v[2])
    if k == "K":
        return "%sK:%s" % (form, "nil" if v[1] is None else v[1].hex())
    if k == "A":
        return "%sA:%s:%s" % (form, v[1].hex(), (",".join(e.text() for e in v[2]) or "-").encode().hex())
    raise ValueError(v)


def model_text(form, v):
    k = v[0]
    if k == "F":
        return "%sF:%x:%d%d%d" % (form, v[1], v[2], v[3], v[4])
    if k == "R":
        return "%sR:%d" % (form, v[1])
    if k == "T":
        return "%sT:%d:%d:%d" % (form, wrap64(v[1] + U2I), v[2], v[3])
    if k == "A":
        return "%sA:%s:%s" % (form, v[1].hex(), ",".join(e.model().replace(":", ";") for e in v[2]) or "-")
    return impl_text(form, v)


def _canon_val(txt, side):
    p = txt.split(":")
    k = p[0]
    if k == "F":
        return ("F", "nan" if p[1] == "nan" else int(p[1], 16), p[2])
    if k == "T":
        sec = int(p[1])
        if side == "model":
            sec = wrap64(sec - U2I)
        return ("T", sec, int(p[2]), p[3])
    if k == "I":
        return ("I", int(p[1]), p[2])
    if k == "R":
        return ("R", int(p[1]))
    if k == "P" and p[1] != "nil":
        return ("P", p[1], int(p[2], 16), p[3])
    return tuple(p)


def canon(reply, side):
    """(status, value-or-None); status in ok err crash hang died other"""
    if reply is None:
        return ("none", None)
    f = reply.split()
    if not f:
        return ("none", None)
    st = f[0]
    if st in ("ok", "err"):
        val = None
        if len(f) > 1 and "=" not in f[1]:
            val = _canon_val(f[1], side)
        return (st, val)
    return (st, None)


def oracle_words(reply):
    return [w for w in (reply or "").split()[1:] if "=" in w]


class Cell:
    __slots__ = ("kind", "op", "lform", "l", "rform", "r")

    def __init__(self, kind, op, lform, l, rform, r):
        self.kind, self.op, self.lform, self.l, self.rform, self.r = kind, op, lform, l, rform, r

    def impl(self):
        return "%s %s %s %s" % (self.kind, self.op, impl_text(self.lform, self.l), impl_text(self.rform, self.r))

    def model(self, impl_reply):
        return "cell %s %s %s %s %s" % (self.kind, self.op, model_text(self.lform, self.l), model_text(self.rform, self.r),
                                        " ".join(oracle_words(impl_reply)))

    def key(self):
        return (self.kind, self.op, self.lform, self.l[0], self.rform, self.r[0])

    def describe(self):
        return "%s %s %s %s" % ({"a": "set var.l", "o": "expr", "c": "Concat"}[self.kind], self.op,
                                impl_text(self.lform, self.l), impl_text(self.rform, self.r))


RTYPES_A = ["I", "F", "S", "B", "R", "T", "P", "K", "A"]


def assign_cells_exhaustive(ops=None):
    """every assignment operator x left boundary value x right boundary value x {literal, variable}"""
    for op in (ops or AOPS):
        for lt in TYPES:
            for lv in values_of(lt, "v"):
                for rt in RTYPES_A:
                    for form in ("v", "l"):
                        for rv in values_of(rt, form):
                            yield Cell("a", op, "v", lv, form, rv)


def oper_cells_exhaustive():
    for op in BOPS:
        for lt in TYPES:
            for lform in ("v", "l"):
                for lv in values_of(lt, lform):
                    for rt in RTYPES_A:
                        for form in ("v", "l"):
                            for rv in values_of(rt, form):
                                yield Cell("o", op, lform, lv, form, rv)
    for lt in TYPES:
        for lform in ("v", "l"):
            for lv in values_of(lt, lform):
                for rt in RTYPES_A:
                    for form in ("v", "l"):
                        for rv in values_of(rt, form):
                            yield Cell("c", "concat", lform, lv, form, rv)


def _pick(rng, t, form):
    vs = values_of(t, form)
    if not vs:
        return None
    if rng.random() < 0.2:
        v = random_value(rng, t, form)
        if v is not None:
            return v
    return rng.choice(vs)


def sample_cells(rng, n_assign, n_oper):
    """seeded sample: operator uniform, type pair uniform with a bias to the pairs the operator
    defines, operands from the boundary lists (80 %) or random (20 %)"""
    out = []
    defined = {"I": "IFRT", "F": "IFRT", "S": "SIFRTKBP", "R": "IFRT", "T": "IFRT", "B": "B", "P": "SP", "K": "K"}
    while len(out) < n_assign:
        op = rng.choice(AOPS)
        lt = rng.choice(TYPES)
        if op in ("or", "and", "xor", "shl", "shr", "rol", "ror") and rng.random() < 0.8:
            lt = "I"
        if op in ("lor", "land") and rng.random() < 0.8:
            lt = "B"
        rt = rng.choice(defined[lt]) if rng.random() < 0.85 else rng.choice(RTYPES_A)
        form = "v" if rng.random() < 0.65 else "l"
        lv, rv = _pick(rng, lt, "v"), _pick(rng, rt, form)
        if lv is None or rv is None:
            continue
        out.append(Cell("a", op, "v", lv, form, rv))
    n0 = len(out)
    cmpdef = {"I": "IR", "F": "IFR", "R": "IFR", "T": "T", "S": "SA", "P": "APS", "B": "BS", "K": "K"}
    while len(out) - n0 < n_oper:
        op = rng.choice(BOPS + ["concat"])
        lt = rng.choice(TYPES)
        rt = rng.choice(cmpdef[lt]) if rng.random() < 0.85 else rng.choice(RTYPES_A)
        lform = "v" if rng.random() < 0.85 else "l"
        form = rng.choice("vl")
        lv, rv = _pick(rng, lt, lform), _pick(rng, rt, form)
        if lv is None or rv is None:
            continue
        out.append(Cell("c" if op == "concat" else "o", op, lform, lv, form, rv))
    return out
