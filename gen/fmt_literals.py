"""String-literal CONTENT for the formatter checks (C03 / C14): every kind of inner whitespace.

The grammar generator (gen/vclgen.py) varies the SHAPE of programs; its string bodies are short
and never end a line with a blank.  A formatter works on text, so what it may damage inside a
literal is exactly what looks like layout: blanks before a line feed, tabs, blank-only lines, runs
of empty lines, CR / CRLF, leading indentation of continuation lines.  `relit` rewrites the string
literals of an existing program (any context the grammar reaches) with such content; `matrix` puts
one literal of every feature x kind into every syntactic context that takes a string.

Nothing here judges the implementation: the checks compare the decoded value of every literal of
the re-parsed output byte for byte (harness fmt_ast.go projects ast.String.Value as hex) and the
token literals through the Go lexer.
"""

# feature name -> list of line fragments joined by "\n" (None = generated)
FEATURES = {
    "trailing_space": ["<pre> ", "x"],
    "trailing_spaces": ["a   ", "b  ", "c"],
    "trailing_tab": ["a\t", "b"],
    "trailing_mixed": ["a \t ", "\tb \t", "c"],
    "blank_only_line": ["a", "   ", "b"],
    "tab_only_line": ["a", "\t", "b"],
    "empty_lines": ["a", "", "", "", "b"],
    "many_empty_lines": ["a", "", "", "", "", "", "b", "", ""],
    "leading_indent": ["a", "    b", "\t\tc", " d"],
    "crlf": ["a\r", "b \r", "\r", "c"],
    "lone_cr": ["a\rb", "c\r"],
    "ends_with_newline": ["a", ""],
    "ends_with_blank_line": ["a", "  "],
    "starts_with_newline": ["", "a"],
    "starts_with_blank": ["  ", " a"],
    "only_whitespace": [" \t ", " ", "\t"],
    "inner_tabs": ["a\tb\t\tc"],
    "trailing_blank_single_line": ["abc  "],
    "looks_like_code": ["if (x) {  ", "  set y = 1;\t", "}", "# not a comment ", "// neither  "],
    "percent_and_blank": ["100%25 ", " %20 ", "x"],
}
SINGLE_LINE_ONLY = ("inner_tabs", "trailing_blank_single_line")


def body_of(feature, rng=None):
    return "\n".join(FEATURES[feature])


def render(kind, body, delim="xyz"):
    """kind: quoted | long | delim; returns source text or None when the body cannot be written in that kind"""
    if kind == "quoted":
        if '"' in body:
            return None
        return '"' + body + '"'
    if kind == "long":
        if '"}' in body:
            return None
        return '{"' + body + '"}'
    if ('"' + delim + "}") in body:
        return None
    return "{" + delim + '"' + body + '"' + delim + "}"


def random_body(rng):
    """a random multi-line body mixing several features"""
    n = rng.choice([1, 2, 3, 4, 6])
    lines = []
    for _ in range(n):
        k = rng.random()
        if k < 0.15:
            ln = ""
        elif k < 0.3:
            ln = rng.choice([" ", "  ", "\t", " \t", "    "])
        else:
            ln = rng.choice(["", " ", "  ", "\t", "    "]) + rng.choice(["a", "<p>", "x y", "é", "k=v;", "{ }", "# c", "// c"]) \
                 + rng.choice(["", "", " ", "  ", "\t", " \t ", "\r"])
        lines.append(ln)
    return "\n".join(lines)


def relit(rng, src, toks, share=0.5):
    """replace a share of the string literals of `src` (str) by whitespace-rich ones.
    toks: gen.decorate.parse_fmtlex(..., with_pos=True).  Returns (new source, {feature: count}) or (None, reason)."""
    lines = src.split("\n")
    starts = [0]
    for ln in lines:
        starts.append(starts[-1] + len(ln) + 1)

    def off(t):
        return starts[t["line"] - 1] + t["col"] - 1

    sig = [t for t in toks if t["k"] == "T"]
    edits = []
    stats = {}
    top = None
    depth = 0
    for i, t in enumerate(sig):
        ty = t["ty"]
        if depth == 0 and ty in ("ACL", "BACKEND", "DIRECTOR", "TABLE", "SUBROUTINE", "PENALTYBOX", "RATECOUNTER", "IMPORT", "INCLUDE"):
            top = ty
        if ty == "LEFT_BRACE":
            depth += 1
        elif ty == "RIGHT_BRACE":
            depth -= 1
        if ty != "STRING" or top in ("ACL", "IMPORT", "INCLUDE", None):
            continue
        prev = sig[i - 1]["ty"] if i else ""
        if prev == "INCLUDE":
            continue                      # a module name, not a value
        nxt = sig[i + 1]["ty"] if i + 1 < len(sig) else ""
        in_long = prev == "OPEN_LONG_STRING"
        if in_long:
            op = sig[i - 1]
            o = off(op)
            delim = op["lit"]
            old = "{" + delim + '"' + t["lit"] + '"' + delim + "}"
        else:
            o = off(t)
            old = '"' + t["lit"] + '"'
        if src[o:o + len(old)] != old:
            continue                      # extent not verified (escapes, odd delimiters): leave it alone
        if rng.random() >= share:
            continue
        # table keys and case labels must stay double-quoted strings
        must_quote = nxt == "COLON" or prev == "CASE" or (prev == "REGEX" and i >= 2 and sig[i - 2]["ty"] == "CASE") \
            or (prev == "LEFT_PAREN" and i >= 2 and sig[i - 2]["ty"] == "SWITCH")
        feature = rng.choice(list(FEATURES) + ["random"] * 6)
        body = random_body(rng) if feature == "random" else body_of(feature)
        kinds = ["quoted"] if must_quote else ["quoted", "long", "long", "delim"]
        text = None
        for kind in rng.sample(kinds, len(kinds)):
            text = render(kind, body, delim=rng.choice(["xyz", "EOS", "a1"]))
            if text is not None:
                break
        if text is None:
            continue
        edits.append((o, len(old), text))
        stats[feature] = stats.get(feature, 0) + 1
        stats["kind:" + kind] = stats.get("kind:" + kind, 0) + 1
    if not edits:
        return None, "no literal replaced"
    out = src
    for o, n, text in sorted(edits, reverse=True):
        out = out[:o] + text + out[o + n:]
    return out, stats


# every syntactic position that takes a string expression; %s = the literal
CONTEXTS = {
    "set": "sub vcl_recv {\n  set req.http.X = %s;\n}\n",
    "set_concat": "sub vcl_recv {\n  set req.http.X = \"a\" %s req.http.B + %s;\n}\n",
    "add": "sub vcl_deliver {\n  add resp.http.Set-Cookie = %s;\n}\n",
    "declare_init": "sub vcl_recv {\n  declare local var.s STRING = %s;\n}\n",
    "log": "sub vcl_log {\n  log %s;\n}\n",
    "synthetic": "sub vcl_error {\n  synthetic %s;\n}\n",
    "synthetic_base64": "sub vcl_error {\n  synthetic.base64 %s;\n}\n",
    "error_arg": "sub vcl_recv {\n  error 601 %s;\n}\n",
    "return_functional": "sub f STRING {\n  return %s;\n}\n",
    "if_condition": "sub vcl_recv {\n  if (req.http.A == %s && req.http.B) {\n    esi;\n  }\n}\n",
    "if_condition_regex": "sub vcl_recv {\n  if (req.http.A ~ %s) {\n    esi;\n  } else if (req.http.B != %s) {\n    esi;\n  }\n}\n",
    "if_expression": "sub vcl_recv {\n  set req.http.X = if(req.http.A, %s, %s);\n}\n",
    "function_arg": "sub vcl_recv {\n  set req.http.X = regsub(req.url, %s, %s);\n}\n",
    "function_statement_arg": "sub vcl_recv {\n  std.collect(req.http.A, %s);\n}\n",
    "call_arg": "sub vcl_recv {\n  call custom_a(%s);\n}\n",
    "grouped": "sub vcl_recv {\n  set req.http.X = (%s) + \"b\";\n}\n",
    "nested_block": "sub vcl_recv {\n  if (req.http.A) {\n    if (req.http.B) {\n      set req.http.X = %s;\n    }\n  }\n}\n",
    "wrapping_expression": "sub vcl_recv {\n  set req.http.X = req.http.Aaaaaaaaaaaaaaaaaaaaaaaaaaaaaaaaaaaaaaaa + req.http.Bbbbbbbbbbbbbbbbbbbbbbbbbbbbbbbbbbbbbbbbbbb + %s + req.http.Ccccccccccccccccccccccccccccccccccccccccccc + \"tail\";\n}\n",
    "backend_property": "backend b {\n  .host = \"h\";\n  .probe = {\n    .request = \"GET / HTTP/1.1\" %s;\n  }\n}\n",
    "table_value": "table t {\n  \"k\": %s,\n}\n",
}
QUOTED_ONLY_CONTEXTS = {
    "switch_control": "sub vcl_recv {\n  switch (%s) {\n  case \"a\":\n    break;\n  default:\n    break;\n  }\n}\n",
    "table_key": "table t {\n  %s: \"v\",\n}\n",
    "case_literal": "sub vcl_recv {\n  switch (req.url) {\n  case %s:\n    break;\n  default:\n    break;\n  }\n}\n",
    "case_regex": "sub vcl_recv {\n  switch (req.url) {\n  case ~ %s:\n    break;\n  default:\n    break;\n  }\n}\n",
}


def matrix():
    """-> [(context, feature, kind, source)]: one literal of every feature x kind in every context (exhaustive)"""
    out = []
    for ctx, tpl in list(CONTEXTS.items()) + list(QUOTED_ONLY_CONTEXTS.items()):
        kinds = ("quoted",) if ctx in QUOTED_ONLY_CONTEXTS else ("quoted", "long", "delim")
        for feature in FEATURES:
            body = body_of(feature)
            for kind in kinds:
                text = render(kind, body)
                if text is None:
                    continue
                out.append((ctx, feature, kind, tpl.replace("%s", text)))
    return out
