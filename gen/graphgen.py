"""PROGRAM SIZE / SHAPE for the static passes that run before execution (limitations.CheckFastlyCallTreeLimit,
declaration processing) - C08: call graphs with 10-100 subroutines, fan-out 1-3, cycles of length 1-50,
ladders (every link calls the next k times), deep chains (1000 links), trees, random graphs.  vcl_recv either
does not call into the graph at all (the pre-pass alone must end) or calls its entry.
graph = list of call lists: graph[i] = [callee indices] (one `call` statement each, some inside if blocks)."""
from gen import simgen


def render(graph, execute):
    out = simgen.BACKEND + simgen.VCL_ERROR
    for i, calls in enumerate(graph):
        body = ""
        for j, c in enumerate(calls):
            body += ("  if (req.http.Go) { call g%04d; }\n" % c) if (i + j) % 5 == 4 else ("  call g%04d;\n" % c)
        out += "sub g%04d {\n%s}\n" % (i, body)
    out += "sub vcl_recv {\n%s  error 601;\n}\n" % ("  call g0000;\n" if execute else "")
    return out


def model_text(graph, execute):
    """callee lists in the order Go's sorted names visit them: g0000.. , vcl_error, vcl_recv"""
    subs = [",".join(str(c) for c in calls) or "-" for calls in graph]
    subs.append("-")                                    # vcl_error
    subs.append("0" if execute else "-")                # vcl_recv
    return "calltree " + "|".join(subs)


def cycle(length, fanout, tail=0):
    g = [[(i + 1) % length] * fanout for i in range(length)]
    for t in range(tail):                               # an acyclic tail hanging off the cycle
        g.append([len(g) + 1] if t < tail - 1 else [])
        if t == 0:
            g[0].append(length)
    return g


def ladder(length, fanout):
    return [[i + 1] * fanout for i in range(length - 1)] + [[]]


def gen_graph(rng, stats):
    k = rng.random()
    if k < 0.3:
        L, f = rng.randint(1, 50), rng.choice([1, 2, 2, 3])
        stats["cycle"] = stats.get("cycle", 0) + 1
        return cycle(L, f, rng.choice([0, 0, 5]))
    if k < 0.45:
        stats["ladder"] = stats.get("ladder", 0) + 1
        return ladder(rng.randint(2, 100), rng.choice([1, 2, 3]))
    if k < 0.5:
        stats["deep chain"] = stats.get("deep chain", 0) + 1
        return ladder(rng.choice([300, 1000]), 1)
    n = rng.randint(10, 100)
    if k < 0.75:                                        # random DAG, fan-out 0-3
        stats["dag"] = stats.get("dag", 0) + 1
        return [[rng.randint(i + 1, n - 1) for _ in range(rng.randint(0, 3))] if i < n - 1 else [] for i in range(n)]
    stats["random graph"] = stats.get("random graph", 0) + 1   # cycles of any length
    return [[rng.randrange(n) for _ in range(rng.randint(0, 3))] for i in range(n)]


def shape_sweep():
    """always: cycles of length {1,2,5,10,20,30,40,50} x fan-out {1,2,3}, ladders likewise, one deep chain"""
    for L in (1, 2, 5, 10, 20, 30, 40, 50):
        for f in (1, 2, 3):
            yield "cycle L=%d fan-out=%d" % (L, f), cycle(L, f)
            yield "ladder L=%d fan-out=%d" % (L, f), ladder(L + 1, f)
    yield "deep chain 1000", ladder(1000, 1)
