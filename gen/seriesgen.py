"""Concatenation series for C07 (implrun evalseries vs Model/Concat.v): 1-5 operands, every type mix
(INTEGER incl. flags, FLOAT incl. boundary floats, STRING set / empty / not-set, BOOL, RTIME, TIME, IP
set / nil / not-set, BACKEND, ACL), operands juxtaposed or joined by an explicit +, RTIME literals
(+ 5m, + -5m) behind any operand.  Each series is rendered as expression text for the interpreter and
as the model's item list; both contexts (header/log and local-variable assignment) are evaluated."""
from gen import evalgen

STRS = [b"", b"a", b"ab", b"x y", b"(null)", b"1.500", b"-"]
RT_LITS = [("5m", 300 * 10**9), ("1s", 10**9), ("0s", 0), ("2h", 7200 * 10**9), ("1d", 86400 * 10**9), ("10ms", 10**7)]
TIMES = [(1758800000, 0, 0), (0, 0, 0), (951782400, 5, 0), (253402300799, 0, 0), (1758800000, 0, 1), (-1, 999999999, 0), (4102444800, 0, 0)]


def var_values(t):
    if t == "T":
        return [("T",) + x for x in TIMES]
    if t == "A":
        return [("A", b"a0", [])]
    return evalgen.values_of(t, "v")


TYPES = ["I", "F", "S", "S", "B", "R", "T", "P", "K", "A"]


def gen_series(rng, stats, n=None):
    n = n or rng.choice([1, 2, 2, 3, 3, 4, 5])
    items = []          # (sign, kind, payload)
    vars_ = []          # values of var.v0 ...
    text = ""
    for i in range(n):
        k = rng.random()
        prev_time = bool(items) and items[-1][1] == "V" and items[-1][2][0] == "T"
        if i > 0 and (k < 0.12 or (prev_time and k < 0.55)):
            lit, ns = rng.choice(RT_LITS)
            minus = rng.random() < 0.4
            items.append(("-" if minus else "+", "R", ns))
            text += " + %s%s" % ("-" if minus else "", lit)
            stats["rtime-literal"] = stats.get("rtime-literal", 0) + 1
            continue
        explicit = i > 0 and rng.random() < 0.35
        if k < 0.35 + (0.0 if i else 0.1):
            s = rng.choice(STRS)
            items.append(("+" if explicit else "_", "L", s))
            text += (" + " if explicit else " ") + '"%s"' % s.decode()
            stats["literal"] = stats.get("literal", 0) + 1
            continue
        t = rng.choice(TYPES)
        vs = var_values(t)
        v = rng.choice(vs) if rng.random() < 0.85 else (evalgen.random_value(rng, t, "v") or rng.choice(vs))
        if t in "SP" and rng.random() < 0.3:
            v = ("S", b"", 1) if t == "S" else ("P", None, 1)
        minus = explicit and rng.random() < 0.08
        vars_.append(v)
        items.append(("-" if minus else ("+" if explicit else "_"), "V", v))
        text += (" + " if explicit else " ") + ("-" if minus else "") + "var.v%d" % (len(vars_) - 1)
        stats["var " + v[0] + (" notset" if (v[0] in "SP" and v[-1] == 1) else "")] = stats.get("var " + v[0] + (" notset" if (v[0] in "SP" and v[-1] == 1) else ""), 0) + 1
    stats["length %d" % n] = stats.get("length %d" % n, 0) + 1
    return items, vars_, text.strip()


def impl_request(items, vars_, text):
    vs = ";".join("v%d=%s" % (i, evalgen.impl_text("", v)) for i, v in enumerate(vars_)) or "-"
    return "%s %s" % (vs, text.encode().hex())


def model_request(items):
    out = []
    for sg, kind, p in items:
        if kind == "L":
            out.append("%sL%s" % (sg, p.hex()))
        elif kind == "R":
            out.append("%sR%d" % (sg, p))
        else:
            out.append("%sV%s" % (sg, evalgen.model_text("", p)))
    return "series " + "|".join(out)


def canon(reply, side):
    """-> {'nl': ..., 'lo': ...} with canonical values"""
    out = {}
    for w in (reply or "").split():
        k, _, v = w.partition("=")
        if k in ("nl", "lo"):
            out[k] = ("ok", evalgen._canon_val(v[3:], side)) if v.startswith("ok:") else (v,)
    return out
