"""Expression generator for C02 that emits the source text TOGETHER WITH the tree the documented
grammar dictates (the generator's intent), in the S-expression projection printed by
`implrun parse` / `modelrun_parse`.

The intent is computed from a hand-written copy of the documented precedence table
(docs/parser.md + property text): || < && < ~ !~ < == != < < > <= >= < concatenation
(explicit + or juxtaposition, left to right) < prefix ! -; parentheses are kept as `group`
nodes.  Nothing here looks at the parser.
"""

DOC_LEVELS = [["||"], ["&&"], ["~", "!~"], ["==", "!="], ["<", ">", "<=", ">="], ["+", ""]]   # "" = juxtaposition
PREC = {op: i + 2 for i, ops in enumerate(DOC_LEVELS) for op in ops}
ALL_INFIX = [op for ops in DOC_LEVELS for op in ops]


def hx(b):
    if isinstance(b, str):
        b = b.encode()
    return '"' + b.hex() + '"'


# ------------------------------------------------------------------ reference literal semantics
def ref_decode_escapes(raw):
    """spec of decodeStringEscapes on the raw bytes of a double-quoted literal: bytes or None (error).
    %XX.. : 1-4 escaped bytes forming ONE well-formed UTF-8 character; %uXXXX; %u{X..X} (1-6 digits);
    a NUL (literal, %00, %u0000, %u{0}) ends the string; ill-formed UTF-8 in the text -> U+FFFD."""
    out = bytearray()
    s = raw
    i = 0
    hexd = b"0123456789abcdefABCDEF"

    def ishex(k):
        return k < len(s) and s[k] in hexd
    while i < len(s):
        # one rune of the text
        c = s[i]
        if c == 0:
            break
        if c != 0x25:
            if c < 0x80:
                out.append(c)
                i += 1
                continue
            # decode one UTF-8 character as Go does
            ch = None
            for n in (2, 3, 4):
                try:
                    t = s[i:i + n].decode("utf-8")
                    if len(t) == 1:
                        ch = (t, n)
                        break
                except UnicodeDecodeError:
                    pass
            if ch is None:
                out += "�".encode()
                i += 1
            else:
                out += ch[0].encode()
                i += ch[1]
            continue
        i += 1
        if i < len(s) and s[i] == 0x75:          # %u
            i += 1
            if i < len(s) and s[i] == 0x7b:      # {
                i += 1
                j = i
                while j < len(s) and j - i < 6 and ishex(j):
                    j += 1
                if j == i:
                    return None
                x = int(s[i:j], 16)
                if j >= len(s) or s[j] != 0x7d:
                    return None
                i = j + 1
            else:
                if not all(ishex(i + k) for k in range(4)):
                    return None
                x = int(s[i:i + 4], 16)
                i += 4
            if x == 0:
                break
            if x > 0x10FFFF or 0xD800 <= x <= 0xDFFF:
                return None
            out += chr(x).encode()
            continue
        # %XX sequence
        if not (ishex(i) and ishex(i + 1)):
            return None
        b1 = int(s[i:i + 2], 16)
        i += 2
        if b1 < 0x80:
            if b1 == 0:
                break
            out.append(b1)
            continue
        if 0xC0 <= b1 <= 0xDF:
            n = 2
        elif 0xE0 <= b1 <= 0xEF:
            n = 3
        elif 0xF0 <= b1 <= 0xF7:
            n = 4
        else:
            return None
        bs = bytearray([b1])
        for _ in range(n - 1):
            if not (i < len(s) and s[i] == 0x25 and ishex(i + 1) and ishex(i + 2)):
                return None
            bs.append(int(s[i + 1:i + 3], 16))
            i += 3
        try:
            t = bytes(bs).decode("utf-8")
        except UnicodeDecodeError:
            return None
        if len(t) != 1 or t == "�":
            return None
        out += bs
    return bytes(out)


def ref_int(lit, negated):
    """value of an INT literal (decimal, or hex behind 0x/0X), or None if rejected"""
    if len(lit) > 2 and lit[0] == "0" and lit[1] in "xX":
        digits, base = lit[2:], 16
    else:
        digits, base = lit, 10
    try:
        v = int(digits, base)
    except ValueError:
        return None
    if "_" in digits or digits[:1] in "+-" or digits != digits.strip():
        return None
    if v <= 2 ** 63 - 1:
        return v
    if v == 2 ** 63 and negated:
        return -2 ** 63
    return None


def ref_float_bits(lit):
    """IEEE-754 bits of the correctly rounded (nearest, ties to even) value of a FLOAT literal, computed by
    CPython (dtoa for decimal, float.fromhex for hexadecimal: independent of Go's strconv); None when the
    value overflows (strconv.ParseFloat reports a range error, the parser rejects the literal)"""
    import struct
    try:
        if len(lit) > 2 and lit[0] == "0" and lit[1] in "xX":
            v = float.fromhex(lit)
        else:
            v = float(lit)
    except (OverflowError, ValueError):
        return None
    if v in (float("inf"), float("-inf")) or v != v:
        return None
    return "x%016x" % struct.unpack(">Q", struct.pack(">d", v))[0]


def float_node(lit):
    b = ref_float_bits(lit)
    return None if b is None else "(float %s %s)" % (hx(lit), b)


# ------------------------------------------------------------------ trees
# A generated node is (text_tokens, sexp, first) : list of token texts, intended S-expression,
# kind of its first token (for the juxtaposition rule)

DEC = "0123456789"
HEXD = "0123456789abcdefABCDEF"


def digits(r, n, alphabet, lead_zero_p=0.3):
    out = "".join(r.choice(alphabet) for _ in range(n))
    if n > 0 and r.random() < lead_zero_p:
        z = r.randint(1, n)
        out = "0" * z + out[z:]
    return out


def random_float_literal(r, max_digits=40, max_exp=400):
    """a FLOAT literal of the lexer's shapes with mantissas far beyond the 53-bit / 17-digit precision"""
    if r.random() < 0.5:                     # decimal: D+ . D*  [e[+-]D+]  |  D+ e[+-]D+
        ip = digits(r, r.randint(1, 25), DEC)
        k = r.random()
        if k < 0.75:
            lit = ip + "." + (digits(r, r.randint(1, max_digits), DEC, 0.4) if r.random() < 0.95 else "")
            if r.random() < 0.4:
                lit += "e" + r.choice(["", "+", "-"]) + str(r.randint(0, max_exp))
        else:
            lit = ip + "e" + r.choice(["", "+", "-"]) + str(r.randint(0, max_exp))
        return lit
    # hexadecimal: 0x H* . H*  [p[+-]D+]  |  0x H+ p[+-]D+
    pre = r.choice(["0x", "0x", "0X"])
    ip = digits(r, r.randint(0, max_digits), HEXD, 0.4)
    fp = digits(r, r.randint(0 if ip else 1, max_digits), HEXD, 0.4)
    k = r.random()
    if k < 0.6:
        lit = pre + ip + "." + fp
        if r.random() < 0.5:
            lit += "p" + r.choice(["", "+", "-"]) + str(r.randint(0, 1100))
    else:
        lit = pre + (ip or "1") + "p" + r.choice(["", "+", "-"]) + str(r.randint(0, 1100))
    return lit


class ExprGen:
    IDENTS = ["req.http.Host", "req.url", "var.s", "client.ip", "beresp.ttl", "a", "b", "x-y", "obj.status",
              "req.http.Cookie:sid", "now"]
    FUNCS = ["std.strlen", "regsub", "f", "substr", "header.get"]

    def __init__(self, rng):
        self.r = rng
        self.stats = {}

    def _c(self, k):
        self.stats[k] = self.stats.get(k, 0) + 1

    # ---- atoms
    def ident(self):
        self._c("ident")
        v = self.r.choice(self.IDENTS)
        return ([v], "(ident %s)" % hx(v), "IDENT")

    def dq_string(self):
        self._c("string")
        parts = []
        for _ in range(self.r.randint(0, 5)):
            k = self.r.random()
            if k < 0.6:
                parts.append(self.r.choice("abcXYZ019 _-/.:;,=+*?&{}()[]<>!@#$^|~'`\\"))
            elif k < 0.85:
                parts.append(self.r.choice(["%20", "%41", "%u0041", "%u{1F600}", "%u{41}", "%0a", "%25", "%7e",
                                            "%C3%A9", "%e6%97%a5", "%F0%9F%98%80", "%u00e9", "%u{10FFFF}", "%uD7FF"]))
            else:
                parts.append(self.r.choice(["é", "日本", "😀", "ß"]))
        raw = "".join(parts).encode()
        val = ref_decode_escapes(raw)
        assert val is not None
        return (['"' + raw.decode() + '"'], "(str %s 0 %s %s 2)" % (hx(val), hx(""), hx(raw)), "STRING")

    def long_string(self):
        self._c("longstring")
        d = self.r.choice(["", "", "xyz", "EOS", "a1"])
        body = "".join(self.r.choice(["a", "b", " ", "%20", "%u0041", '"', "}", "{", "\n", "é", "x"]) for _ in range(self.r.randint(0, 6)))
        while '"' + d + "}" in body:       # the body must not contain its own closing delimiter
            body = body.replace('"' + d + "}", "")
        raw = body.encode()
        off = 2 + 2 * (len(d) + 1)
        return (["{" + d + '"' + body + '"' + d + "}"], "(str %s 1 %s %s %d)" % (hx(raw), hx(d), hx(raw), off), "OPEN_LONG_STRING")

    def integer(self):
        self._c("int")
        k = self.r.random()
        if k < 0.4:
            lit = str(self.r.choice([0, 1, 2, 7, 10, 200, 404, 65535, 2147483647]))
        elif k < 0.6:
            lit = self.r.choice(["0x1F", "0XfF", "0x7FFFFFFFFFFFFFFF", "0755", "9223372036854775807", "0x0", "007", "0x00ff"])
        elif k < 0.8:
            lit = str(self.r.randint(0, 10 ** self.r.randint(1, 18)))
        else:
            while True:
                lit = digits(self.r, self.r.randint(1, 25), DEC) if self.r.random() < 0.5 else \
                    self.r.choice(["0x", "0X"]) + digits(self.r, self.r.randint(1, 25), HEXD)
                if ref_int(lit, False) is not None:
                    break
        return ([lit], "(int %d %s)" % (ref_int(lit, False), hx(lit)), "INT")

    def floatlit(self):
        self._c("float")
        k = self.r.random()
        if k < 0.5:
            lit = self.r.choice(["1e3", "1.5e3", "1e-3", "1e+3", "0x1.8p3", "0xA.Bp3", "0x1.8", "0.000", "10.0", "1.",
                                 "%d.%d" % (self.r.randint(0, 999), self.r.randint(0, 999))])
        else:
            lit = random_float_literal(self.r)
            while float_node(lit) is None:
                lit = random_float_literal(self.r)
        return ([lit], float_node(lit), "FLOAT")

    def rtime(self):
        self._c("rtime")
        lit = self.r.choice(["1", "10", "60", "1.5", "0", "365", "100"]) + self.r.choice(["ms", "s", "m", "h", "d", "y"])
        return ([lit], "(rtime %s)" % hx(lit), "RTIME")

    def boolean(self):
        self._c("bool")
        b = self.r.choice(["true", "false"])
        return ([b], "(bool %d)" % (b == "true"), "BOOL")

    def group(self, depth):
        self._c("group")
        t, s, _ = self.level(2, depth - 1)
        return (["("] + t + [")"], "(group %s)" % s, "LEFT_PAREN")

    def ifexp(self, depth):
        self._c("ifexp")
        c, t, e = self.level(2, depth - 1), self.level(2, depth - 1), self.level(2, depth - 1)
        return (["if", "("] + c[0] + [","] + t[0] + [","] + e[0] + [")"], "(ifexp %s %s %s)" % (c[1], t[1], e[1]), "IF")

    def call(self, depth):
        self._c("call")
        f = self.r.choice(self.FUNCS)
        args = [self.level(2, depth - 1) for _ in range(self.r.randint(0, 3))]
        toks = [f, "("]
        for i, a in enumerate(args):
            if i:
                toks.append(",")
            toks += a[0]
        toks.append(")")
        return (toks, "(call %s%s)" % (hx(f), "".join(" " + a[1] for a in args)), "IDENT")

    def atom(self, depth, juxta=False):
        """juxta: the atom must start with STRING / long string / IDENT / if"""
        while True:
            k = self.r.random()
            if k < 0.28:
                n = self.ident()
            elif k < 0.45:
                n = self.dq_string()
            elif k < 0.52:
                n = self.long_string()
            elif k < 0.60:
                n = self.integer()
            elif k < 0.64:
                n = self.floatlit()
            elif k < 0.68:
                n = self.rtime()
            elif k < 0.72:
                n = self.boolean()
            elif depth <= 0:
                n = self.ident()
            elif k < 0.80:
                n = self.call(depth)
            elif k < 0.92:
                n = self.group(depth)
            else:
                n = self.ifexp(depth)
            if juxta and n[2] not in ("STRING", "OPEN_LONG_STRING", "IDENT", "IF"):
                continue
            # postfix % (binds tighter than anything else)
            if self.r.random() < 0.04:
                self._c("postfix")
                n = (n[0] + ["%"], "(postfix %s %s)" % (n[1], hx("%")), n[2])
            return n

    def prefix(self, depth, juxta=False):
        if not juxta and depth > 0 and self.r.random() < 0.15:
            op = self.r.choice(["!", "-"])
            self._c("prefix" + op)
            t, s, _ = self.prefix(depth - 1)
            return ([op] + t, "(prefix %s %s)" % (hx(op), s), "NOT" if op == "!" else "MINUS")
        return self.atom(depth, juxta)

    def level(self, lv, depth):
        """an expression all of whose top-level operators have documented precedence >= lv"""
        if lv > 7:
            return self.prefix(depth)
        if depth <= 0 or self.r.random() < 0.45:
            return self.level(lv + 1, depth)
        ops = DOC_LEVELS[lv - 2]
        n = self.r.choice([2, 2, 2, 3, 4])
        cur = self.level(lv + 1, depth - 1)
        for _ in range(n - 1):
            op = self.r.choice(ops)
            if op == "":
                rhs = self.prefix(depth - 1, juxta=True)
                self._c("juxta")
                cur = (cur[0] + rhs[0], "(infix %s %s 0 %s)" % (cur[1], hx("+"), rhs[1]), cur[2])
            else:
                rhs = self.level(lv + 1, depth - 1)
                self._c("infix" + op)
                cur = (cur[0] + [op] + rhs[0], "(infix %s %s %d %s)" % (cur[1], hx(op), op == "+", rhs[1]), cur[2])
        return cur

    def expression(self, depth):
        return self.level(2, depth)

    # ---- rendering with legal white space
    def render(self, toks):
        out = []
        for i, t in enumerate(toks):
            if i:
                prev = toks[i - 1]
                tight = (prev in ("(", "!") or t in (")", ",", "%")) or (t == "(" and prev not in ALL_INFIX and prev not in ("if", ",", "(", "!", "-"))
                if prev == "-" and not t[0].isdigit():
                    tight = False
                if tight and self.r.random() < 0.7:
                    sep = ""
                else:
                    sep = self.r.choice([" ", " ", " ", "  ", "\n", "\t", " \n  "])
                eol = getattr(self, "eol", None)
                if eol and "\n" in sep:
                    # line-end style of the whole source: CRLF, CR LF mixed with LF, CR before white space
                    sep = sep.replace("\n", eol if eol != "mixed" else self.r.choice(["\r\n", "\n", "\r \n", "\r\r\n"]))
                elif eol == "\r" and sep:
                    sep = self.r.choice([sep, "\r", " \r", "\r\t"])     # a lone CR is white space for the lexer
                out.append(sep)
            out.append(t)
        return "".join(out)


def pair_cases():
    """all ordered pairs of infix operators (juxtaposition included) x {no paren, left paren, right paren},
    operands are double-quoted strings so that every operator (juxtaposition too) applies; plus prefix
    operators in front of the first operand.  Yields (label, text, intended sexp)."""
    def s(v):
        return ('"%s"' % v, "(str %s 0 %s %s 2)" % (hx(v), hx(""), hx(v)))

    def node(l, op, r):
        return "(infix %s %s %d %s)" % (l, hx(op or "+"), op == "+", r)

    def txt(l, op, r):
        return l + (" " + op + " " if op else " ") + r
    a, b, c = s("a"), s("b"), s("c")
    out = []
    for o1 in ALL_INFIX:
        for o2 in ALL_INFIX:
            if PREC[o2] > PREC[o1]:
                flat = node(a[1], o1, node(b[1], o2, c[1]))
            else:
                flat = node(node(a[1], o1, b[1]), o2, c[1])
            out.append(("pair %r %r flat" % (o1, o2), txt(txt(a[0], o1, b[0]), o2, c[0]), flat))
            out.append(("pair %r %r left" % (o1, o2), txt("(" + txt(a[0], o1, b[0]) + ")", o2, c[0]),
                        node("(group %s)" % node(a[1], o1, b[1]), o2, c[1])))
            if o1 != "":   # a parenthesis does not start a juxtaposed operand (`"a" ("b")` is a call attempt)
                out.append(("pair %r %r right" % (o1, o2), txt(a[0], o1, "(" + txt(b[0], o2, c[0]) + ")"),
                            node(a[1], o1, "(group %s)" % node(b[1], o2, c[1]))))
    for p in ("!", "-"):
        for o in ALL_INFIX:
            out.append(("prefix %s %r" % (p, o), p + txt(a[0], o, b[0]),
                        node("(prefix %s %s)" % (hx(p), a[1]), o, b[1])))
            if o != "":     # `"a" -"b"` / `"a" !"b"` are not juxtapositions (- and ! do not start one)
                out.append(("infix %r prefix %s" % (o, p), txt(a[0], o, p + b[0]),
                            node(a[1], o, "(prefix %s %s)" % (hx(p), b[1]))))
            out.append(("prefix %s group %r" % (p, o), p + "(" + txt(a[0], o, b[0]) + ")",
                        "(prefix %s (group %s))" % (hx(p), node(a[1], o, b[1]))))
    return out


INT_CASES = [
    # (source, negated form?) decimal / hex boundary literals
    "0", "1", "007", "0755", "9223372036854775806", "9223372036854775807", "9223372036854775808",
    "9223372036854775809", "18446744073709551615", "18446744073709551616", "99999999999999999999999",
    "0x0", "0x1", "0X1f", "0x7FFFFFFFFFFFFFFF", "0x8000000000000000", "0x8000000000000001",
    "0xFFFFFFFFFFFFFFFF", "0x10000000000000000", "0x00000000000000000001", "0xabcdef", "0XABCDEF", "0x",
]


def int_cases():
    out = []
    for lit in INT_CASES:
        for neg in (False, True):
            v = ref_int(lit, neg)
            text = ("-" if neg else "") + lit
            if v is None:
                out.append(("int " + text, text, None))
            else:
                node = "(int %d %s)" % (v, hx(lit))
                out.append(("int " + text, text, "(prefix %s %s)" % (hx("-"), node) if neg else node))
            # a minus that is not directly in front does not license 2^63
        v = ref_int(lit, False)
        text = "-(" + lit + ")"
        out.append(("int " + text, text, None if v is None else "(prefix %s (group (int %d %s)))" % (hx("-"), v, hx(lit))))
    return out


ESCAPE_CASES = [
    "%20", "%41%42", "a%25b", "%7e", "%7E", "%0a", "%C3%A9", "%c3%a9", "%E6%97%A5", "%F0%9F%98%80", "%F4%8F%BF%BF",
    "%u0041", "%u00e9", "%u00E9", "%uD7FF", "%uE000", "%uFFFF", "%u{41}", "%u{e9}", "%u{1F600}", "%u{10FFFF}", "%u{000041}",
    # NUL truncation
    "ab%00cd", "ab%u0000cd", "ab%u{0}cd", "%00",
    # errors
    "%", "%2", "%zz", "%4g", "%C3", "%C3%", "%C3%4", "%C3%41", "%C3A9", "%80", "%BF", "%F8%80%80%80", "%FF",
    "%C0%80", "%E0%80%80", "%ED%A0%80", "%F4%90%80%80", "%EF%BF%BD",
    "%u", "%u004", "%u00g1", "%uD800", "%uDFFF", "%u{}", "%u{110000}", "%u{1F600", "%u{1F6000}", "%u{D800}", "%u{g}",
    # not escapes
    "100%", "a % b", "%%41", "u0041", "\\u0041",
]


def escape_cases():
    """(label, text, intended) for double-quoted strings and the same bytes inside a long string
    (where nothing is decoded)"""
    out = []
    for e in ESCAPE_CASES:
        raw = e.encode()
        val = ref_decode_escapes(raw)
        out.append(("escape dq " + e, '"' + e + '"',
                    None if val is None else "(str %s 0 %s %s 2)" % (hx(val), hx(""), hx(raw))))
        out.append(("escape long " + e, '{"' + e + '"}', "(str %s 1 %s %s 4)" % (hx(raw), hx(""), hx(raw))))
        out.append(("escape delim " + e, '{xy"' + e + '"xy}', "(str %s 1 %s %s 8)" % (hx(raw), hx("xy"), hx(raw))))
    return out


def literal_length_cases(rng, n):
    """numeric literals at every length up to well beyond the precision limit: (label, text, intended sexp or None)"""
    out = []
    for i in range(n):
        k = rng.random()
        if k < 0.2:
            lit = digits(rng, rng.randint(1, 25), DEC)
        elif k < 0.4:
            lit = rng.choice(["0x", "0X"]) + digits(rng, rng.randint(1, 25), HEXD)
        else:
            lit = random_float_literal(rng)
        isint = not any(c in lit for c in ".p") and not ("e" in lit and not lit[:2] in ("0x", "0X"))
        if lit[:2] in ("0x", "0X"):
            isint = "." not in lit and "p" not in lit
        neg = rng.random() < 0.3
        if isint:
            v = ref_int(lit, neg)
            node = None if v is None else "(int %d %s)" % (v, hx(lit))
        else:
            node = float_node(lit)
        text = ("-" if neg else "") + lit
        if node is not None and neg:
            node = "(prefix %s %s)" % (hx("-"), node)
        out.append(("literal " + text, text, node))
    # the precision boundary, systematically: 1 followed by k zeros and a 1 (hex, no exponent / with exponent)
    for k in range(0, 41):
        for tail in ("1", "8", "80000000001", "7fffffffff"):
            for suffix in ("", "p0", "p-3", "p+10"):
                lit = "0x1." + "0" * k + tail + suffix
                out.append(("hexfloat " + lit, lit, float_node(lit)))
                lit = "0x" + "0" * k + "1." + tail + suffix
                out.append(("hexfloat " + lit, lit, float_node(lit)))
                lit = "0x0." + "0" * k + tail + suffix
                out.append(("hexfloat " + lit, lit, float_node(lit)))
        lit = "0." + "0" * k + "1"
        out.append(("decfloat " + lit, lit, float_node(lit)))
        lit = "1" + "0" * k + ".5"
        out.append(("decfloat " + lit, lit, float_node(lit)))
        lit = "9007199254740993" + "0" * k + ".0"
        out.append(("decfloat " + lit, lit, float_node(lit)))
    return out


def long_string_cases(rng):
    """strings / escapes at lengths around the 4096-byte reader window and the 65536 boundary"""
    out = []
    for n in (4094, 4095, 4096, 4097, 8192, 65535, 65536, 65537):
        plain = "".join(rng.choice("abcXYZ019 _-/.") for _ in range(n))
        out.append(("dq plain %d" % n, '"' + plain + '"', "(str %s 0 %s %s 2)" % (hx(plain), hx(""), hx(plain))))
        # escapes spread over the literal, one right at the end
        parts = []
        while sum(len(p) for p in parts) < n - 12:
            parts.append(rng.choice(["a", "bc", "%20", "%u0041", "%u{1F600}", "%C3%A9", " ", "x" * rng.randint(1, 40)]))
        raw = "".join(parts)
        raw += "y" * (n - len(raw) - 3) + "%41"
        val = ref_decode_escapes(raw.encode())
        out.append(("dq escapes %d" % n, '"' + raw + '"', "(str %s 0 %s %s 2)" % (hx(val), hx(""), hx(raw))))
        out.append(("long %d" % n, '{"' + raw + '"}', "(str %s 1 %s %s 4)" % (hx(raw), hx(""), hx(raw))))
        out.append(("delim %d" % n, '{xy"' + raw + '"xy}', "(str %s 1 %s %s 8)" % (hx(raw), hx("xy"), hx(raw))))
    # NUL truncation far into a long literal
    raw = "a" * 5000 + "%00" + "b" * 5000
    out.append(("dq nul 10003", '"' + raw + '"', "(str %s 0 %s %s 2)" % (hx("a" * 5000), hx(""), hx(raw))))
    return out


# ---------------------------------------------------------------- literal content x line-end style
LINE_END_SPECIALS = ["\r\n", "\r", "\n", "\t", "\n\r", "\r\r\n", "\r\n\r\n", "\x01", "\x07", "\x08", "\x0b", "\x0c", "\x1b", "\x1f", "\x7f",
                     "\u00e9", "\u65e5\u672c", "\U0001F600", "\u0085", "\u2028", "\ufeff"]


def line_end_contents(rng, n_random):
    """literal contents: every special (CR, LF, CRLF, lone CR, tab, C0 controls, multi-byte runes) alone, at the start,
    in the middle, at the end, doubled, and random mixtures"""
    out = []
    for sp in LINE_END_SPECIALS:
        out += [sp, sp + "ab", "a" + sp + "b", "ab" + sp, sp + sp, "a" + sp + "b" + sp, sp + "a" + sp]
    pieces = LINE_END_SPECIALS + ["a", "b c", "xyz", " ", "0", "/", "{", "}", "'"]
    for _ in range(n_random):
        out.append("".join(rng.choice(pieces) for _ in range(rng.randint(1, 8))))
    return out


def string_literal(rng, content, form=None, allow_escape=False):
    """(source text, intended sexp) of one string literal holding `content` byte for byte.
    form: dq | long | delim.  With allow_escape a dq literal may spell CR / LF / TAB as %0D / %0A / %09."""
    form = form or rng.choice(["dq", "long", "delim"])
    if form == "dq":
        raw = content
        if allow_escape and rng.random() < 0.3:
            raw = "".join({"\r": "%0D", "\n": "%0a", "\t": "%09"}.get(ch, ch) if rng.random() < 0.5 else ch for ch in content)
        val = ref_decode_escapes(raw.encode())
        assert val == content.encode(), (raw, val)
        return '"' + raw + '"', "(str %s 0 %s %s 2)" % (hx(content), hx(""), hx(raw))
    if form == "long":
        if '"}' in content:
            content = content.replace('"}', "'}")
        return '{"' + content + '"}', "(str %s 1 %s %s 4)" % (hx(content), hx(""), hx(content))
    d = rng.choice(["x", "EOS", "a1", "_"])
    return '{%s"%s"%s}' % (d, content, d), "(str %s 1 %s %s %d)" % (hx(content), hx(d), hx(content), 4 + 2 * len(d))


def line_end_expr_cases(rng, n_random):
    """every content in every literal form, as an expression; white space around it in every line-end style"""
    out = []
    for c in line_end_contents(rng, n_random):
        for form in ("dq", "long", "delim"):
            text, sexp = string_literal(rng, c, form, allow_escape=True)
            pre = rng.choice(["", "\r\n", "\r", "\n", " \r\n\t", "\r\r\n"])
            post = rng.choice(["", "\r\n", "\r", "\n", " \r\n"])
            out.append(("line-end %s %r" % (form, c[:12]), pre + text + post, sexp))
    return out


# a program with a string literal in every position of the grammar that takes one; @n@ = literal n.
# The intended tree is this hand copy of the projection with the literals' intended nodes filled in.
LINE_END_TEMPLATE = (
    'acl a {¶ @0@;¶ !@1@/8;¶}¶'
    'table t STRING {¶ @2@: @3@,¶ @4@: @5@,¶}¶'
    'backend b {¶ .host = @6@;¶ .probe = {¶ .request = @7@ @8@;¶ }¶}¶'
    '# note\n'
    'sub vcl_recv {¶ set req.http.A = @9@ @10@;¶ error 600 @11@;¶ synthetic @12@;¶ log @13@;¶ include @14@;¶'
    ' if (req.http.B ~ @15@) {¶ }¶ switch (req.http.C) {¶ case @16@:¶ break;¶ case ~ @17@:¶ break;¶ }¶}¶'
    'include @18@;¶')
LINE_END_INTENT = (
    '0 ((acl "61" (cidr 0 #0# _) (cidr 1 #1# 8)) '
    '(table "74" "535452494e47" (tprop @2@ @3@ 1) (tprop @4@ @5@ 1)) '
    '(backend "62" (prop "686f7374" @6@) (probe "70726f6265" (prop "72657175657374" (infix @7@ "2b" 0 @8@)))) '
    '(sub "76636c5f72656376" () _ ((set "7265712e687474702e41" "3d" (infix @9@ "2b" 0 @10@)) (error (int 600 "363030") @11@) '
    '(synthetic @12@) (log @13@) (include @14@) (if "6966" (infix (ident "7265712e687474702e42") "7e" 0 @15@) () () _) '
    '(switch (ident "7265712e687474702e43") ((case (test "3d3d" @16@) ((break)) 0) (case (test "7e" @17@) ((break)) 0)) -1))) '
    '(include @18@))')


def line_end_program_cases(rng, n):
    """the template with random contents / literal forms in every slot and one line-end style for the whole source"""
    out = []
    contents = line_end_contents(rng, 40)
    for i in range(n):
        style = rng.choice(["\n", "\r\n", "\r", "mixed", "mixed"])
        src, intent = LINE_END_TEMPLATE, LINE_END_INTENT
        for k in range(18, -1, -1):
            c = rng.choice(contents) if rng.random() < 0.8 else "plain%d" % k
            if k in (0, 1):
                text, sexp = string_literal(rng, c, "dq")          # acl entries: quoted strings, the node keeps the value
                intent = intent.replace("#%d#" % k, hx(c))
            else:
                # include paths and the test of a plain `case` are quoted strings (ParseCaseStatement takes STRING only)
                text, sexp = string_literal(rng, c, None if k not in (14, 16, 18) else "dq", allow_escape=k not in (14, 18))
                intent = intent.replace("@%d@" % k, sexp)
            src = src.replace("@%d@" % k, text)
        parts = src.split("\u00b6")
        res = []
        for j, part in enumerate(parts[:-1]):
            res.append(part)
            res.append({"\n": "\n", "\r\n": "\r\n", "\r": "\r"}.get(style) or rng.choice(["\n", "\r\n", "\r", "\r\r\n", "\n\r"]))
        res.append(parts[-1])
        out.append(("line-end-program %d %r" % (i, style), "".join(res), intent))
    return out


class ProgGen:
    """programs with their intended tree: every compound construct nested in every other (blocks, if / else-if
    chains, switch in a case of a switch, several subs), names drawn from SMALL pools so that equal case
    labels / identifiers / goto labels recur in sibling, nested and following constructs"""
    IDS = ["req.http.A", "var.s", "x"]
    LABELS = ["a", "b", "c"]
    GOTOS = ["l1", "l2"]
    SUBS = ["vcl_recv", "f", "g"]

    def __init__(self, rng, eg):
        self.r = rng
        self.eg = eg
        self.stats = {}

    def _c(self, k):
        self.stats[k] = self.stats.get(k, 0) + 1

    def expr(self, d=2, no_paren_first=False):
        while True:
            t, s, first = self.eg.expression(self.r.randint(0, d))
            if no_paren_first and first == "LEFT_PAREN":
                continue
            return t, s

    def lit(self, v):
        return (['"%s"' % v], "(str %s 0 %s %s 2)" % (hx(v), hx(""), hx(v)))

    def block(self, depth, in_case=False):
        ss = [self.stmt(depth) for _ in range(self.r.choice([0, 1, 1, 2, 3]))]
        return sum((t for t, _ in ss), []), "(%s)" % " ".join(s for _, s in ss)

    def stmt(self, depth):
        kinds = ["set", "unset", "esi", "restart", "log", "return", "call", "declare", "goto", "label", "funcall",
                 "error", "add", "remove", "synthetic", "include"]
        if depth > 0:
            kinds = kinds[:6] + ["if", "if", "switch", "switch", "block"] * 2
        k = self.r.choice(kinds)
        self._c("stmt:" + k)
        r = self.r
        if k in ("set", "add"):
            i, op = r.choice(self.IDS), r.choice(["=", "+=", "||="]) if k == "set" else "="
            t, s = self.expr()
            return ([k, i, op] + t + [";"], "(%s %s %s %s)" % (k, hx(i), hx(op), s))
        if k in ("unset", "remove"):
            i = r.choice(self.IDS)
            return ([k, i, ";"], "(%s %s)" % (k, hx(i)))
        if k in ("esi", "restart"):
            return ([k, ";"], "(%s)" % k)
        if k in ("log", "synthetic"):
            t, s = self.expr()
            return ([k] + t + [";"], "(%s %s)" % (k, s))
        if k == "return":
            m = r.random()
            if m < 0.25:
                return (["return", ";"], "(return 0 _)")
            if m < 0.6:
                t, s = self.expr()
                return (["return", "("] + t + [")", ";"], "(return 1 %s)" % s)
            t, s = self.expr(no_paren_first=True)
            return (["return"] + t + [";"], "(return 0 %s)" % s)
        if k == "call":
            f = r.choice(self.SUBS)
            if r.random() < 0.5:
                return (["call", f, ";"], "(call %s)" % hx(f))
            args = [self.expr(1) for _ in range(r.randint(0, 3))]
            toks = ["call", f, "("]
            for j, a in enumerate(args):
                toks += a[0] + ([","] if j < len(args) - 1 or r.random() < 0.2 else [])
            return (toks + [")", ";"], "(call %s%s)" % (hx(f), "".join(" " + a[1] for a in args)))
        if k == "declare":
            n, ty = "var." + r.choice(["s", "t"]), r.choice(["STRING", "INTEGER", "BOOL"])
            if r.random() < 0.5:
                return (["declare", "local", n, ty, ";"], "(declare %s %s _)" % (hx(n), hx(ty)))
            t, s = self.expr()
            return (["declare", "local", n, ty, "="] + t + [";"], "(declare %s %s %s)" % (hx(n), hx(ty), s))
        if k == "goto":
            g = r.choice(self.GOTOS)
            return (["goto", g, ";"], "(goto %s)" % hx(g))
        if k == "label":
            # a label directly in front of a statement starting with `(` would be a call: every statement starts with a keyword / ident
            g = r.choice(self.GOTOS) + ":"
            return ([g], "(gotodest %s)" % hx(g))
        if k == "funcall":
            t, s, _ = self.eg.call(1)
            return (t + [";"], "(funcall" + s[len("(call"):])
        if k == "error":
            m = r.random()
            if m < 0.2:
                return (["error", ";"], "(error _ _)")
            code = r.choice([("404", "(int 404 %s)" % hx("404")), ("var.s", "(ident %s)" % hx("var.s"))])
            if m < 0.5:
                return (["error", code[0], ";"], "(error %s _)" % code[1])
            t, s = self.expr(no_paren_first=True)
            return (["error", code[0]] + t + [";"], "(error %s %s)" % (code[1], s))
        if k == "include":
            v = r.choice(["m1", "m2"])
            semi = r.random() < 0.7
            # without `;` the next token must not be `;` (never: statements do not start with it)
            return (["include", '"%s"' % v] + ([";"] if semi else []), "(include (str %s 0 %s %s 2))" % (hx(v), hx(""), hx(v)))
        if k == "block":
            t, s = self.block(depth - 1)
            return (["{"] + t + ["}"], "(block %s)" % s)
        if k == "if":
            ct, cs = self.expr()
            bt, bs = self.block(depth - 1)
            toks = ["if", "("] + ct + [")", "{"] + bt + ["}"]
            an = []
            for _ in range(r.choice([0, 0, 1, 2])):
                kw = r.choice(["else if", "elseif", "elsif"])
                ct2, cs2 = self.expr()
                bt2, bs2 = self.block(depth - 1)
                toks += kw.split(" ") + ["("] + ct2 + [")", "{"] + bt2 + ["}"]
                an.append("(elif %s %s %s)" % (hx(kw), cs2, bs2))
            alt = "_"
            if r.random() < 0.5:
                bt3, bs3 = self.block(depth - 1)
                toks += ["else", "{"] + bt3 + ["}"]
                alt = bs3
            return (toks, "(if %s %s %s (%s) %s)" % (hx("if"), cs, bs, " ".join(an), alt))
        if k == "switch":
            m = r.random()
            if m < 0.5:
                i = r.choice(self.IDS)
                ctl = ([i], "(ident %s)" % hx(i))
            elif m < 0.7:
                t, s, _ = self.eg.call(1)
                ctl = (t, s)
            elif m < 0.85:
                ctl = self.lit(r.choice(self.LABELS))
            else:
                ctl = (["true"], "(bool 1)")
            n = r.randint(1, 4)
            dflt = r.randrange(n) if r.random() < 0.5 else -1
            seen = set()
            toks = ["switch", "("] + ctl[0] + [")", "{"]
            cases = []
            for j in range(n):
                if j == dflt:
                    toks += ["default", ":"]
                    test = "_"
                else:
                    for _ in range(20):
                        op, lab = r.choice(["==", "==", "~"]), r.choice(self.LABELS)
                        if (op, lab) not in seen:
                            break
                    else:
                        break
                    if (op, lab) in seen:
                        break
                    seen.add((op, lab))
                    lt, ls = self.lit(lab)
                    toks += ["case"] + (["~"] if op == "~" else []) + lt + [":"]
                    test = "(test %s %s)" % (hx(op), ls)
                body = [self.stmt(depth - 1) for _ in range(r.choice([0, 1, 1, 2]))]
                cases.append([test, body])
            if not cases:
                return self.stmt(depth)
            out = []
            real_dflt = -1
            for j, (test, body) in enumerate(cases):
                last = j == len(cases) - 1
                ft = (not last) and r.random() < 0.3
                if test == "_":
                    real_dflt = j
                out.append((test, body, "fallthrough" if ft else "break", ft))
            # rebuild the token list in order (heads were appended eagerly above: redo cleanly)
            toks = ["switch", "("] + ctl[0] + [")", "{"]
            sx = []
            for test, body, fin, ft in out:
                if test == "_":
                    toks += ["default", ":"]
                else:
                    op = bytes.fromhex(test.split('"')[1]).decode()
                    lab = bytes.fromhex(test.split('"')[3]).decode()
                    toks += ["case"] + (["~"] if op == "~" else []) + ['"%s"' % lab] + [":"]
                for t, _ in body:
                    toks += t
                toks += [fin, ";"]
                sx.append("(case %s (%s) %d)" % (test, " ".join([s for _, s in body] + ["(%s)" % fin]), ft))
            toks += ["}"]
            return (toks, "(switch %s (%s) %d)" % (ctl[1], " ".join(sx), real_dflt))
        raise AssertionError(k)

    def sub(self, depth):
        name = self.r.choice(self.SUBS)
        toks = ["sub", name]
        params = []
        if self.r.random() < 0.3:
            ps = [(self.r.choice(["STRING", "INTEGER"]), self.r.choice(["p", "q"])) for _ in range(self.r.randint(0, 2))]
            toks += ["("]
            for j, (ty, nm) in enumerate(ps):
                toks += [ty, nm] + ([","] if j < len(ps) - 1 else [])
            toks += [")"]
            params = ["(param %s %s)" % (hx(ty), hx(nm)) for ty, nm in ps]
        ret = "_"
        if self.r.random() < 0.3:
            ty = self.r.choice(["BOOL", "STRING"])
            toks += [ty]
            ret = hx(ty)
        ss = [self.stmt(depth) for _ in range(self.r.randint(1, 4))]
        toks += ["{"] + sum((t for t, _ in ss), []) + ["}"]
        return toks, "(sub %s (%s) %s (%s))" % (hx(name), " ".join(params), ret, " ".join(s for _, s in ss))

    def program(self, depth):
        ds = [self.sub(depth) for _ in range(self.r.randint(1, 3))]
        return sum((t for t, _ in ds), []), "(%s)" % " ".join(s for _, s in ds)

    def nested_switch_shapes(self):
        """systematic: a switch nested in a case (first / middle / last clause) of a switch, depth 2 and 3,
        with the nested labels recurring in the clauses that follow"""
        out = []
        for pos in range(3):
            for op_in in ("==", "~"):
                for op_out in ("==", "~"):
                    inner = 'switch (x) { case %s"a": break; case %s"b": break; }' % ("~ " if op_in == "~" else "", "~ " if op_in == "~" else "")
                    inner3 = 'switch (x) { case "c": %s break; default: break; }' % inner
                    for body in (inner, inner3, "if (x) { %s } else { %s }" % (inner, inner), "{ %s }" % inner):
                        clauses = ['case %s"%s": %s break;' % ("~ " if op_out == "~" else "", lab, body if j == pos else "esi;")
                                   for j, lab in enumerate(["c", "a", "b"])]
                        out.append('sub f { switch (var.s) { %s } switch (var.s) { case "a": break; } }' % " ".join(clauses))
        return out
