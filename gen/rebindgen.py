"""SEQUENCES over mutable bindings for C07 (implrun evalprog vs Model/Eval.v, plus a metamorphic oracle on
the implementation alone): every pooled variable - ACL, BACKEND, IP, STRING, INTEGER, FLOAT, BOOL, RTIME - is
assigned in each of 2-4 rounds (from a declared name / literal or from another variable of its type), and after
each round the SAME set of expressions is evaluated again (IP ~ ACL-local, IP !~ ACL-local, STRING ~ fixed
pattern, comparisons, conversions, a concatenation) into fresh result variables.  Whatever an implementation
remembers about an operand from an earlier evaluation (parsed ACL, compiled pattern, converted text) shows up
as a result of round k that differs from the model - and from a fresh interpreter that only runs round k."""
from gen import aclgen, evalgen

E = aclgen.Entry
ACLS = {
    b"za": [E(False, 4, 10 << 24, 8)],
    b"zb": [E(False, 4, (192 << 24) | (168 << 16), 16), E(True, 4, (192 << 24) | (168 << 16) | (1 << 8), 24)],
    b"zc": [E(False, 4, (10 << 24) | (1 << 16), 16), E(True, 4, (10 << 24) | (1 << 16) | (2 << 8), 24), E(False, 6, 0x20010DB8 << 96, 32)],
    b"zd": [],
}
ACL_VCL = "".join("acl %s {\n%s}\n" % (n.decode(), "".join('  %s"%s"%s;\n' % ("!" if e.neg else "", aclgen.addr_text(e.fam, e.bits),
                  "" if e.mask is None else "/%d" % e.mask) for e in es)) for n, es in ACLS.items())
IPS = [b"10.0.0.1", b"10.1.0.1", b"10.1.2.3", b"192.168.0.7", b"192.168.1.7", b"11.0.0.1", b"2001:db8::1"]
IPVAL = {b"10.0.0.1": (4, 0x0A000001), b"10.1.0.1": (4, 0x0A010001), b"10.1.2.3": (4, 0x0A010203), b"192.168.0.7": (4, 0xC0A80007),
         b"192.168.1.7": (4, 0xC0A80107), b"11.0.0.1": (4, 0x0B000001), b"2001:db8::1": (6, (0x20010DB8 << 96) | 1)}
STRS = [b"abc", b"ab", b"b", b"xyz", b"", b"a-b", b"cab"]
PATS = [b"^a", b"b$", b"ab", b"z"]
BACKENDS = [b"b0", b"b1", b"d0"]
POOL = [("A", 0), ("A", 1), ("P", 2), ("K", 3), ("S", 4), ("I", 5), ("F", 6), ("B", 7), ("R", 8)]
TYPENAME = {"A": "ACL", "P": "IP", "K": "BACKEND", "S": "STRING", "I": "INTEGER", "F": "FLOAT", "B": "BOOL", "R": "RTIME"}


def _lit(rng, t):
    """-> (vcl text, model rexp text)"""
    if t == "A":
        n = rng.choice(sorted(ACLS))
        return n.decode(), "(lit %s)" % evalgen.model_text("", ("A", n, ACLS[n]))
    if t == "P":
        s = rng.choice(IPS)
        # an IP variable is assigned from a string; the model needs the parsed address: literal IP value
        return '"%s"' % s.decode(), "(lit %s)" % evalgen.model_text("", ("P", IPVAL[s], 0))
    if t == "K":
        n = rng.choice(BACKENDS)
        return n.decode(), "(lit %s)" % evalgen.model_text("", ("K", n))
    if t == "S":
        s = rng.choice(STRS)
        return '"%s"' % s.decode(), "(lit %s)" % evalgen.model_text("", ("S", s, 0))
    if t == "I":
        v = rng.choice([0, 1, 5, 9, 10, 11, 100, -3])
        return str(v), "(lit I:%d:000)" % v
    if t == "F":
        v = rng.choice([0.5, 1.5, 2.5, 1.0, 100.25])
        return repr(v), "(lit %s)" % evalgen.model_text("", ("F", evalgen.fbits(v), 0, 0, 0))
    if t == "B":
        v = rng.randint(0, 1)
        return ("true" if v else "false"), "(lit B:%d)" % v
    if t == "R":
        txt, ns = rng.choice(evalgen.RT_LIT)
        return txt, "(lit R:%d)" % ns
    raise ValueError(t)


READS = [   # (kind, vcl condition / rhs, model)
    ("cond", "var.v2 ~ var.v0", "(infix match (op (var 2)) (op (var 0)))"),
    ("cond", "var.v2 !~ var.v1", "(infix nmatch (op (var 2)) (op (var 1)))"),
    ("cond", "var.v2 ~ var.v1", "(infix match (op (var 2)) (op (var 1)))"),
] + [("cond", 'var.v4 ~ "%s"' % p.decode(), "(infix match (op (var 4)) (op (lit S:%s:0)))" % p.hex()) for p in PATS] + [
    ("cond", 'var.v4 == "ab"', "(infix eq (op (var 4)) (op (lit S:6162:0)))"),
    ("cond", "var.v5 < 10", "(infix lt (op (var 5)) (op (lit I:10:000)))"),
    ("cond", "var.v6 > 1.5", "(infix gt (op (var 6)) (op (lit %s)))" % evalgen.model_text("", ("F", evalgen.fbits(1.5), 0, 0, 0))),
    ("cond", "var.v7", "(op (var 7))"),
    ("cond", "var.v8 >= var.v8", "(infix ge (op (var 8)) (op (var 8)))"),
    ("str", "var.v3", "(var 3)"),
    ("str", "var.v2", "(var 2)"),
    ("str", "var.v6", "(var 6)"),
    ("str", "var.v8", "(var 8)"),
    ("cat", 'var.v4 "/" var.v5 var.v7', '((_ (var 4)) (_ (lit "2f")) (_ (var 5)) (_ (var 7)))'),
]


def gen_rebind(rng, stats, rounds=None):
    rounds = rounds or rng.randint(2, 4)
    vcl = "".join("declare local var.v%d %s;\n" % (x, TYPENAME[t]) for t, x in POOL)
    sx = ["(decl %d %s)" % (x, TYPENAME[t]) for t, x in POOL]
    names = []
    nxt = 10
    round_src = []          # VCL of each round alone (for the metamorphic run in a fresh interpreter)
    round_results = []
    for r in range(rounds):
        rv = ""
        for t, x in POOL:
            if t == "A" and x == 1 and rng.random() < 0.35:
                rv += "set var.v1 = var.v0;\n"          # ACL = ACL between locals
                sx.append("(set 1 set (var 0))")
                stats["acl from acl local"] = stats.get("acl from acl local", 0) + 1
                continue
            a, b = _lit(rng, t)
            rv += "set var.v%d = %s;\n" % (x, a)
            sx.append("(set %d set %s)" % (x, b))
        res = []
        for kind, v, m in READS:
            y = nxt
            nxt += 1
            res.append(y)
            if kind == "cond":
                rv += "declare local var.v%d BOOL;\nif (%s) {\nset var.v%d = true;\n}\n" % (y, v, y)
                sx.append("(decl %d BOOL)" % y)
                sx.append("(if %s ((set %d set (lit B:1))) () _)" % (m, y))
            elif kind == "str":
                rv += "declare local var.v%d STRING;\nset var.v%d = %s;\n" % (y, y, v)
                sx.append("(decl %d STRING)" % y)
                sx.append("(set %d set %s)" % (y, m))
            else:
                rv += "declare local var.v%d STRING;\nset var.v%d = %s;\n" % (y, y, v)
                sx.append("(decl %d STRING)" % y)
                sx.append("(setcat %d set %s)" % (y, m))
        vcl += rv
        round_src.append(rv)
        round_results.append(res)
        names += ["var.v%d" % y for y in res]
    stats["rounds %d" % rounds] = stats.get("rounds %d" % rounds, 0) + 1
    decls = "".join("declare local var.v%d %s;\n" % (x, TYPENAME[t]) for t, x in POOL)
    # "set var.v1 = var.v0" in a round alone needs var.v0 of that round: it is assigned earlier in the same round
    fresh = [(decls + src, ["var.v%d" % y for y in res]) for src, res in zip(round_src, round_results)]
    return vcl, "(" + " ".join(sx) + ")", names, fresh


# ---- implementation-only part: REGEX locals (table.lookup_regex is a REGEX source too) and re.group after
# repeated matches; the model has no REGEX type, the oracle is the fresh interpreter
def gen_regex_rebind(rng, stats):
    decl = "declare local var.v0 REGEX;\ndeclare local var.v1 STRING;\n"
    rounds = []
    y = 10
    for r in range(rng.randint(2, 4)):
        pat = rng.choice([b"^(a)(b)?", b"(b)$", b"(x)(y)(z)", b"^c(a)", b"a"])
        subj = rng.choice(STRS)
        src = 'set var.v0 = "%s";\nset var.v1 = "%s";\n' % (pat.decode(), subj.decode())
        res = []
        for cond in ("var.v1 ~ var.v0", 'var.v1 ~ "%s"' % rng.choice(PATS).decode()):
            src += "declare local var.v%d BOOL;\nif (%s) {\nset var.v%d = true;\n}\n" % (y, cond, y)
            res.append(y)
            y += 1
            src += 'declare local var.v%d STRING;\nset var.v%d = "<" re.group.0 "|" re.group.1 "|" re.group.2 ">";\n' % (y, y)
            res.append(y)
            y += 1
        rounds.append((src, res))
    stats["regex rebind"] = stats.get("regex rebind", 0) + 1
    whole = decl + "".join(s for s, _ in rounds)
    return whole, [(decl + s, ["var.v%d" % v for v in res]) for s, res in rounds]
