"""Type-directed generator of store programs for C13 (and the statement language of C10).

A program is generated ONCE as a small Python AST and rendered twice: as Fastly VCL text for the
real interpreter (one statement per line, so that a line number identifies a statement) and as an
S-expression for the extracted Coq model (Model/Store.v).  `core` programs stay inside the fragment
the model's value-level instance (Model/StoreOps.v) computes exactly; `wild` programs add types,
operators, sub-fields, `add`, computed variables ... and are checked by the direct oracle only.

AST
  name : ('l', k) | ('g', k) | ('h', o, h) | ('r', j) | ('x', text)          (x: wild, text only)
  val  : ('I', int, lit) ('F', bits, lit) ('S', bytes, notset, lit) ('B', bool, lit) ('R', ns, lit)
  expr : ('var', name) ('lit', val, text) ('not', e) ('neg', e) ('pos', e) ('grp', e) ('bin', op, a, b)
         ('match', neg, a, pat) ('cat', [atom], explicit) ('if', c, a, b) ('bi', f, [e]) ('call', f, [e])
         ('raw', text, info)                                                (wild only)
  pat  : ('pre', bytes) | ('spl', byte)
  atom : ('s', bytes) | ('v', name)
  stmt : ('decl', k, ty, init|None) ('set', name, op, e) ('unset', name) ('log', e)
         ('if', c, [s], [(c, [s])], [s]|None) ('call', f, [e]) ('ret', e|None) ('rawstmt', text, info)
"""
import struct

TYN = {"I": "INTEGER", "F": "FLOAT", "S": "STRING", "B": "BOOL", "R": "RTIME", "T": "TIME", "P": "IP",
       "K": "BACKEND", "A": "ACL", "X": "REGEX"}
CORE = "IFSBR"
WILD_TYPES = "TPKAX"          # with CORE: every type value.Create knows
BACKENDS = ["F_a", "F_b", "F_c"]
ACLS = ["A_a", "A_b"]
WILD_DECLS = "".join('backend %s { .host = "127.0.0.%d"; .port = "80"; }\n' % (b, i + 1) for i, b in enumerate(BACKENDS)) + \
    "".join('acl %s { "10.%d.0.0"/16; }\n' % (a, i) for i, a in enumerate(ACLS)) + \
    'table rt REGEX { "a": "^a+", "b": "b$", "k": "^(k)=", }\n'
FIELDS = ["k1", "k2"]
STATES = ["lookup", "pass", "deliver"]
ERROR_SCOPES = ("recv", "fetch")                  # of the four scopes used here (RECV HIT MISS PASS FETCH)
RESTART_SCOPES = ("recv", "fetch", "deliver", "error")
HIDDEN = [("@obj.status", "I"), ("@obj.response", "S"), ("@obj.body", "S")]   # ctx cells only `error` writes; read by the harness, never by a program
SCOPES = {
    "recv": {"globals": [("req.max_stale_if_error", "R"), ("req.max_stale_while_revalidate", "R"),
                         ("req.hash_always_miss", "B"), ("req.hash_ignore_busy", "B")],
             "objs": ["req"]},
    "fetch": {"globals": [("beresp.ttl", "R"), ("beresp.grace", "R"), ("beresp.cacheable", "B"),
                          ("beresp.gzip", "B"), ("client.socket.cwnd", "I"), ("beresp.response", "S")],
              "objs": ["req", "bereq", "beresp"]},
    "deliver": {"globals": [("req.max_stale_if_error", "R"), ("req.max_stale_while_revalidate", "R")],
                "objs": ["req", "resp"]},
    "error": {"globals": [("obj.ttl", "R"), ("obj.grace", "R"), ("obj.response", "S")],
              "objs": ["req", "obj"]},
}
HDRS = ["ha", "hb", "hc"]


def load_writable():
    """(plain, odd): scope -> [(name, type)].
    plain: the ctx variables the scope's Set method (interpreter/variable/<scope>.go, falling back to all.go) assigns
    straight into one context field AND whose Get returns that same field - cells in the sense of the model.
    odd: assigned into a field that the scope's Get does not return (the value read is computed or simulated):
    writing them can be observed by nobody, so they are kept out of the programs and listed in the evidence.
    Read from coq/Gen/StoreWritable.v (translator; distinct names are distinct cells by
    C13_writable_cells_distinct).  None if the table is not there (the C13 check reports that)."""
    import os
    import re
    path = os.path.join(os.path.dirname(os.path.dirname(os.path.abspath(__file__))), "coq", "Gen", "StoreWritable.v")
    try:
        txt = open(path).read()
    except OSError:
        return None
    if "Definition writable" not in txt or "Definition readable" not in txt:
        return None

    def table(defn):
        body = txt[txt.index("Definition " + defn):]
        body = body[:body.index("\n].") + 3]
        return {m.group(1): re.findall(r'\("([^"]+)", \("([^"]*)", "([A-Z])"\)\)', m.group(2))
                for m in re.finditer(r'  \("([a-z]+)", \[(.*?)\]\)', body, re.S)}
    wt, rt = table("writable"), table("readable")
    plain, odd = {}, {}
    for sc in wt:
        if sc == "all":
            continue
        own = {n: (f, t) for n, f, t in wt[sc]}
        for n, f, t in wt["all"]:
            own.setdefault(n, (f, t))
        rown = {n: f for n, f, _ in rt.get(sc, [])}
        rall = {n: f for n, f, _ in rt.get("all", [])}
        plain[sc], odd[sc] = [], []
        for n, (f, t) in sorted(own.items()):
            if not f:
                continue
            g = rown[n] if n in rown else rall.get(n, "")
            (plain if g == f else odd)[sc].append((n, t))
    return plain, odd


_W = load_writable()
WRITABLE, WRITE_ONLY = _W if _W is not None else (None, None)
NGROUPS = 4
BUILTINS = {0: ("std.strlen", ["S"], "I"), 1: ("std.toupper", ["S"], "S"), 2: ("std.tolower", ["S"], "S")}
FLOATS = [("1.500", 1.5), ("0.250", 0.25), ("3.000", 3.0), ("10.125", 10.125), ("0.000", 0.0)]
RTIMES = [("5s", 5 * 10**9), ("100ms", 10**8), ("2m", 120 * 10**9), ("0s", 0), ("1h", 3600 * 10**9), ("1500ms", 15 * 10**8)]
WORDS = [b"abc", b"a-b", b"x", b"", b"hello", b"k=v", b"A1", b"abc-def", b"zz-top", b"a=b=c", b"Mixed"]


def fbits(x):
    return struct.unpack(">Q", struct.pack(">d", x))[0]


class Prog:
    def __init__(self):
        self.scope = None
        self.globals = []      # (name text, ty)
        self.objs = []
        self.subs = []         # (fid, [(k, ty)], ret ty|None, body)
        self.main = []
        self.wild = False
        self.local_ty = {}     # k -> ty
        self.stats = {}
        self.extra_pool = []   # wild programs: sub-fields, computed variables

    # ---------------------------------------------------------------- names
    def name_text(self, n):
        if n[0] == "l":
            return "var.v%d" % n[1]
        if n[0] == "g":
            return self.globals[n[1]][0]
        if n[0] == "h":
            return "%s.http.%s" % (self.objs[n[1]], HDRS[n[2]])
        if n[0] == "r":
            return "re.group.%d" % n[1]
        if n[0] == "f":
            return "%s.http.%s:k%d" % (self.objs[n[1]], HDRS[n[2]], n[3])
        return n[1]

    def pool(self):
        """non-local names whose value is snapshotted around every statement, in model order"""
        out = [g for g, _ in self.globals]
        out += ["%s.http.%s" % (o, h) for o in self.objs for h in HDRS]
        out += ["re.group.%d" % j for j in range(NGROUPS)]
        out += ["%s.http.%s:k%d" % (o, h, k) for o in self.objs for h in HDRS[:2] for k in (1, 2)]
        return out + list(self.extra_pool)

    # ---------------------------------------------------------------- VCL text
    def pat_text(self, p):
        if p[0] == "pre":
            return "^(%s)(.*)$" % p[1].decode()
        return "^([^%s]*)%s(.*)$" % (chr(p[1]), chr(p[1]))

    def etext(self, e):
        k = e[0]
        if k == "var":
            return self.name_text(e[1])
        if k == "lit":
            return e[2]
        if k == "not":
            return "!" + self.etext(e[1])
        if k == "neg":
            return "-" + self.etext(e[1])
        if k == "pos":
            return "+" + self.etext(e[1])
        if k == "grp":
            return "(" + self.etext(e[1]) + ")"
        if k == "bin":
            return "%s %s %s" % (self.etext(e[2]), e[1], self.etext(e[3]))
        if k == "match":
            return '%s %s "%s"' % (self.etext(e[2]), "!~" if e[1] else "~", self.pat_text(e[3]))
        if k == "cat":
            parts = ['"%s"' % a[1].decode() if a[0] == "s" else self.name_text(a[1]) for a in e[1]]
            return (" + " if e[2] else " ").join(parts)
        if k == "if":
            return "if(%s, %s, %s)" % (self.etext(e[1]), self.etext(e[2]), self.etext(e[3]))
        if k == "bi":
            return "%s(%s)" % (BUILTINS[e[1]][0], ", ".join(self.etext(a) for a in e[2]))
        if k == "call":
            return "f%d(%s)" % (e[1], ", ".join(self.etext(a) for a in e[2]))
        if k == "raw":
            return e[1]
        raise ValueError(k)

    def vcl(self, snapshot_logs=False):
        """returns (text, linemap): linemap[line] = ('stmt', s, frame) | ('elif', cond, frame); frame = fid or 'main'.
        snapshot_logs: after every statement of every frame append one `log` line per visible name
        (the independent, in-language observation of the store)."""
        lines = []
        linemap = {}

        def emit(t, ind):
            lines.append("  " * ind + t)
            return len(lines)

        def snaplogs(ind, frame_locals):
            if not snapshot_logs:
                return
            for k in sorted(frame_locals):
                linemap[emit("log var.v%d;" % k, ind)] = ("snaplog", "var.v%d" % k, None)
            for n in self.pool():
                if not n.startswith("@"):               # a ctx cell no variable of the language reads
                    linemap[emit("log %s;" % n, ind)] = ("snaplog", n, None)

        def block(ss, ind, frame, visible):
            for s in ss:
                one(s, ind, frame, visible)

        def one(s, ind, frame, visible):
            k = s[0]
            if k == "decl":
                t = "declare local var.v%d %s" % (s[1], TYN.get(s[2], s[2]))
                if s[3] is not None:
                    t += " = " + self.etext(s[3])
                ln = emit(t + ";", ind)
                visible.add(s[1])
            elif k == "set":
                ln = emit("set %s %s %s;" % (self.name_text(s[1]), s[2], self.etext(s[3])), ind)
            elif k == "unset":
                ln = emit("unset %s;" % self.name_text(s[1]), ind)
            elif k == "log":
                ln = emit("log %s;" % self.etext(s[1]), ind)
            elif k == "call":
                args = "(%s)" % ", ".join(self.etext(a) for a in s[2]) if s[2] else ""
                ln = emit("call f%d%s;" % (s[1], args), ind)
            elif k == "ret":
                # `return (e);` is the state-return syntax: a grouped value needs its own parentheses
                rt = "" if s[1] is None else " " + (("(%s)" if s[1][0] == "grp" else "%s") % self.etext(s[1]))
                ln = emit("return%s;" % rt, ind)
                linemap[ln] = ("stmt", s, frame)
                return
            elif k == "rawstmt":
                ln = emit(s[1], ind)
            elif k == "add":
                ln = emit("add %s = %s;" % (self.name_text(s[1]), self.etext(s[2])), ind)
            elif k == "unsetwild":
                ln = emit("unset %s.http.%s*;" % (self.objs[s[1]], s[2].decode()), ind)
            elif k == "synth":
                ln = emit("synthetic %s;" % self.etext(s[1]), ind)
            elif k == "restart":
                ln = emit("restart;", ind)
                linemap[ln] = ("stmt", s, frame)
                return
            elif k == "error":
                ln = emit("error%s%s;" % ("" if s[1] is None else " " + self.etext(s[1]), "" if s[2] is None else " " + self.etext(s[2])), ind)
                linemap[ln] = ("stmt", s, frame)
                return
            elif k == "label":
                ln = emit(s[1] + ":", ind)
                linemap[ln] = ("stmt", ("nop", s[1]), frame)
                return
            elif k == "nop":
                ln = emit(s[1] + ";", ind)          # must stay the last statement of its case: no snapshot logs after it
                linemap[ln] = ("stmt", s, frame)
                return
            elif k == "retstate":
                ln = emit("return (%s);" % STATES[s[1]], ind)
                linemap[ln] = ("stmt", s, frame)
                return
            elif k == "switch":
                ln = emit("switch (%s) {" % self.etext(s[1]), ind)
                linemap[ln] = ("stmt", s, frame)
                for t, ft, b in s[3]:
                    if t is None:
                        emit("default:", ind)
                    elif t[0] == "str":
                        emit('case "%s":' % t[1].decode(), ind)
                    else:
                        emit('case ~ "%s":' % self.pat_text(t[1]), ind)
                    block(b, ind + 1, frame, visible)
                emit("}", ind)
                snaplogs(ind, visible)
                return
            elif k == "if":
                ln = emit("if (%s) {" % self.etext(s[1]), ind)
                linemap[ln] = ("stmt", s, frame)
                block(s[2], ind + 1, frame, visible)
                for c, b in s[3]:
                    l2 = emit("} else if (%s) {" % self.etext(c), ind)
                    linemap[l2] = ("elif", c, frame)
                    block(b, ind + 1, frame, visible)
                if s[4] is not None:
                    emit("} else {", ind)
                    block(s[4], ind + 1, frame, visible)
                emit("}", ind)
                snaplogs(ind, visible)
                return
            else:
                raise ValueError(k)
            linemap[ln] = ("stmt", s, frame)
            snaplogs(ind, visible)

        if self.wild:
            for ln in WILD_DECLS.splitlines():
                emit(ln, 0)
        for fid, params, ret, body in self.subs:
            ps = ", ".join("%s var.v%d" % (TYN.get(t, t), k) for k, t in params)
            emit("sub f%d%s%s {" % (fid, "(%s)" % ps if params else "", " " + TYN.get(ret, ret) if ret else ""), 0)
            block(body, 1, fid, set(k for k, _ in params))
            emit("}", 0)
        emit("sub t_main {", 0)
        block(self.main, 1, "main", set())
        emit("}", 0)
        return "\n".join(lines) + "\n", linemap

    # ---------------------------------------------------------------- model S-expression
    @staticmethod
    def vsexp(v):
        if v[0] in ("I", "R"):
            return "(%s x%016x %d)" % (v[0], v[1] & (2**64 - 1), int(v[2]))
        if v[0] == "F":
            return "(F x%016x %d)" % (v[1], int(v[2]))
        if v[0] == "S":
            return '(S "%s" %d %d)' % (v[1].hex(), int(v[2]), int(v[3]))
        if v[0] == "B":
            return "(B %d %d)" % (int(v[1]), int(v[2]))
        raise ValueError(v)

    @staticmethod
    def nsexp(n):
        return "(" + " ".join(str(x) for x in n) + ")"

    def esexp(self, e):
        k = e[0]
        if k == "var":
            return "(var %s)" % self.nsexp(e[1])
        if k == "lit":
            return "(lit %s)" % self.vsexp(e[1])
        if k in ("not", "neg", "pos", "grp"):
            return "(%s %s)" % (k, self.esexp(e[1]))
        if k == "bin":
            return "(bin %s %s %s)" % (e[1], self.esexp(e[2]), self.esexp(e[3]))
        if k == "match":
            p = '(pre "%s")' % e[3][1].hex() if e[3][0] == "pre" else "(spl %d)" % e[3][1]
            return "(match %d %s %s)" % (int(e[1]), self.esexp(e[2]), p)
        if k == "cat":
            return "(cat %s)" % " ".join('(s "%s")' % a[1].hex() if a[0] == "s" else "(v %s)" % self.nsexp(a[1]) for a in e[1])
        if k == "if":
            return "(if %s %s %s)" % (self.esexp(e[1]), self.esexp(e[2]), self.esexp(e[3]))
        if k == "bi":
            return "(bi %d%s)" % (e[1], "".join(" " + self.esexp(a) for a in e[2]))
        if k == "call":
            return "(call %d%s)" % (e[1], "".join(" " + self.esexp(a) for a in e[2]))
        raise ValueError(k)

    def ssexp(self, s):
        k = s[0]
        if k == "decl":
            return "(decl %d %s %s)" % (s[1], s[2], "_" if s[3] is None else self.esexp(s[3]))
        if k == "set":
            return "(set %s %s %s)" % (self.nsexp(s[1]), s[2], self.esexp(s[3]))
        if k == "unset":
            return "(unset %s)" % self.nsexp(s[1])
        if k == "log":
            return "(log %s)" % self.esexp(s[1])
        if k == "call":
            return "(call %d%s)" % (s[1], "".join(" " + self.esexp(a) for a in s[2]))
        if k == "ret":
            return "(ret %s)" % ("_" if s[1] is None else self.esexp(s[1]))
        if k in ("nop", "label"):
            return "(nop)"
        if k == "add":
            return "(add %d %d %s)" % (s[1][1], s[1][2], self.esexp(s[2]))
        if k == "unsetwild":
            return '(unsetwild %d "%s")' % (s[1], s[2].hex())
        if k == "synth":
            return "(synth %d %s)" % (self.gb, self.esexp(s[1]))
        if k == "restart":
            return "(restart %d)" % int(self.scope in RESTART_SCOPES)
        if k == "error":
            return "(error %d %d %d %s %s)" % (int(self.scope in ERROR_SCOPES), self.gs, self.gr,
                                               "_" if s[1] is None else self.esexp(s[1]), "_" if s[2] is None else self.esexp(s[2]))
        if k == "retstate":
            return "(retstate %d)" % s[1]
        if k == "switch":
            def tsx(t):
                if t is None:
                    return "_"
                if t[0] == "str":
                    return '(str "%s")' % t[1].hex()
                return "(re %s)" % ('(pre "%s")' % t[1][1].hex() if t[1][0] == "pre" else "(spl %d)" % t[1][1])
            return "(switch %s %s%s)" % (self.esexp(s[1]), "_" if s[2] is None else str(s[2]),
                                         "".join(" (case %s %d (%s))" % (tsx(t), int(ft), " ".join(map(self.ssexp, b))) for t, ft, b in s[3]))
        if k == "if":
            return "(if %s (%s) (%s) %s)" % (
                self.esexp(s[1]), " ".join(map(self.ssexp, s[2])),
                " ".join("(%s (%s))" % (self.esexp(c), " ".join(map(self.ssexp, b))) for c, b in s[3]),
                "_" if s[4] is None else "(" + " ".join(map(self.ssexp, s[4])) + ")")
        raise ValueError(k)

    def sexp(self, global_vals):
        subs = " ".join("(sub %d (params%s) %s (body%s))" % (
            fid, "".join(" (%d %s)" % (k, t) for k, t in params), ret or "_",
            "".join(" " + self.ssexp(s) for s in body)) for fid, params, ret, body in self.subs)
        return "(prog (globals%s) (subs%s) (main%s))" % (
            "".join(" " + g for g in global_vals), (" " + subs) if subs else "",
            "".join(" " + self.ssexp(s) for s in self.main))


# ------------------------------------------------------------------ syntactic facts used by the direct oracle
def expr_has(e, kinds):
    """does expression e contain a node whose kind is in kinds (recursively)?"""
    if e is None:
        return False
    if e[0] in kinds:
        return True
    if e[0] == "raw":
        return bool(set(e[2].get("has", ())) & set(kinds))
    if e[0] in ("not", "neg", "pos", "grp"):
        return expr_has(e[1], kinds)
    if e[0] == "bin":
        return expr_has(e[2], kinds) or expr_has(e[3], kinds)
    if e[0] == "match":
        return expr_has(e[2], kinds)
    if e[0] == "if":
        return any(expr_has(x, kinds) for x in e[1:4])
    if e[0] in ("bi", "call"):
        return any(expr_has(x, kinds) for x in e[2])
    return False


class StoreGen:
    def __init__(self, rng, wild=False, max_stmts=14, errors=0.08, focus=False):
        """focus: spend about half of the statements on the property's sharp dimensions - expression SHAPES
        (prefix operators over groups / if() / function results / unary plus, groups and if() as operands and
        as right-hand sides of every assignment operator) and, for wild programs, locals / parameters /
        results of EVERY type passed to subroutines that assign to them"""
        self.r = rng
        self.wild = wild
        self.focus = focus
        self.max_stmts = max_stmts
        self.errors = errors
        self.stats = {}

    def _c(self, k):
        self.stats[k] = self.stats.get(k, 0) + 1

    # ------------------------------------------------------------ literals
    def lit(self, ty):
        r = self.r
        if ty == "I":
            v = r.choice([0, 1, 2, 3, 5, 7, 10, 42, 100, 255, 1000, r.randint(0, 99999)])
            return ("lit", ("I", v, True), str(v))
        if ty == "F":
            t, x = r.choice(FLOATS)
            return ("lit", ("F", fbits(x), True), t)
        if ty == "S":
            w = r.choice(WORDS)
            return ("lit", ("S", w, False, True), '"%s"' % w.decode())
        if ty == "B":
            b = r.random() < 0.5
            return ("lit", ("B", b, True), "true" if b else "false")
        if ty == "R":
            t, ns = r.choice(RTIMES)
            return ("lit", ("R", ns, True), t)
        raise ValueError(ty)

    # ------------------------------------------------------------ expressions
    def vars_of(self, fr, ty, kinds="lghr"):
        out = []
        if "l" in kinds:
            out += [("l", k) for k, t in fr["locals"].items() if t == ty]
        if "g" in kinds:
            out += [("g", i) for i, (n, t) in enumerate(self.p.globals) if t == ty and not n.startswith("@")]
        if ty == "S":
            if "h" in kinds:
                out += [("h", o, h) for o in range(len(self.p.objs)) for h in range(len(HDRS))]
            if "r" in kinds:
                out += [("r", j) for j in range(NGROUPS)]
            if "h" in kinds:
                out += [("f", o, h, k) for o in range(len(self.p.objs)) for h in range(2) for k in (1, 2)]
        return out

    def var(self, fr, ty):
        vs = self.vars_of(fr, ty)
        if not vs:
            return None
        # locals are the interesting cells: prefer them
        ls = [v for v in vs if v[0] == "l"]
        if ls and self.r.random() < 0.6:
            return ("var", self.r.choice(ls))
        return ("var", self.r.choice(vs))

    def funcs_returning(self, fr, ty):
        return [f for f in fr["callable"] if f[2] == ty]

    def args_for(self, fr, params, d):
        args = []
        for _, t in params:
            if t in WILD_TYPES:
                args.append(self.wild_typed(fr, t, d + 1, arg=True))
                continue
            k = self.r.random()
            if k < 0.55:
                a = self.var(fr, t) or self.lit(t)       # a variable of the same type: the aliasing case
            elif k < 0.75:
                a = self.lit(t)
            elif k < 0.85 and t == "S":
                a = self.var(fr, self.r.choice(["I", "B"])) or self.lit(t)   # converted argument
            else:
                a = self.expr(fr, t, d + 1, top=False)
            args.append(a)
        return args

    def expr(self, fr, ty, d=0, top=False, cond=False):
        """an expression of VCL type ty.  top: directly the right-hand side of set/declare
        (isValidStatementExpression applies); cond: evaluated in condition mode."""
        r = self.r
        self._c("expr:" + ty)
        if ty in WILD_TYPES:
            return self.wild_typed(fr, ty, d)
        if self.wild and r.random() < 0.3:
            w = self.wild_expr(fr, ty, d)
            if w is not None:
                return w
        deep = d >= 3
        k = r.random()
        v = self.var(fr, ty)
        if deep or k < 0.30:
            if v is not None and (deep and r.random() < 0.7 or r.random() < 0.7):
                return v
            return self.lit(ty)
        if k < 0.38:
            fs = self.funcs_returning(fr, ty)
            if fs:
                f = r.choice(fs)
                self._c("expr:call")
                return ("call", f[0], self.args_for(fr, f[1], d))
        if k < 0.46:
            self._c("expr:if()")
            return ("if", self.condition(fr, d + 1), self.expr(fr, ty, d + 1), self.expr(fr, ty, d + 1))
        if ty in ("I", "F", "R"):
            if k < 0.75:
                self._c("expr:neg")
                return ("neg", self.shaped(fr, ty, d + 1, "neg"))
            if ty == "I" and k < 0.88:
                self._c("expr:builtin")
                return ("bi", 0, [self.expr(fr, "S", d + 1)])
            if k < 0.93 and v is not None:
                self._c("expr:pos")
                return ("pos", v)
            return v or self.lit(ty)
        if ty == "S":
            if k < 0.75:
                self._c("expr:concat")
                n = r.randint(2, 4)
                atoms = []
                for _ in range(n):
                    if r.random() < 0.45:
                        atoms.append(("s", r.choice(WORDS)))
                    else:
                        t2 = r.choice(["S", "S", "S", "I", "B", "F", "R"])
                        vv = self.var(fr, t2)
                        atoms.append(("v", vv[1]) if vv else ("s", r.choice(WORDS)))
                return ("cat", atoms, r.random() < 0.5)
            if k < 0.90:
                self._c("expr:builtin")
                return ("bi", r.choice([1, 2]), [self.expr(fr, "S", d + 1)])
            return v or self.lit(ty)
        if ty == "B":
            return self.condition(fr, d + 1, as_value=True)
        return v or self.lit(ty)

    def shaped(self, fr, ty, d, under):
        """the operand of a prefix minus: a variable's own cell reached through every construct that
        returns its operand's cell (group, if(), unary plus, a function returning its parameter ...)"""
        r = self.r
        v = self.var(fr, ty)
        k = r.random()
        base = 0.25 if self.focus else 0.55
        if v is None or k < base:
            if v is not None and r.random() < 0.8:
                return v
            return self.lit(ty)
        fs = self.funcs_returning(fr, ty)
        sh = r.choice(["grp", "grp", "if", "if", "pos", "neg", "grpif"] + (["call", "call"] if fs else []))
        self._c("dim:shape:%s-over-%s" % (under, sh))
        v2 = self.var(fr, ty) or self.lit(ty)
        if sh == "grp":
            return ("grp", v)
        if sh == "if":
            a, b = (v, v2) if r.random() < 0.5 else (v2, v)
            return ("if", self.condition(fr, d + 1), a, b)
        if sh == "grpif":
            return ("grp", ("if", self.condition(fr, d + 1), v, v2))
        if sh == "pos":
            return ("pos", v)
        if sh == "neg":
            return ("neg", self.shaped(fr, ty, d + 1, under) if d < 3 else v)
        f = r.choice(fs)
        return ("call", f[0], self.args_for(fr, f[1], d))

    def shape_stmt(self, fr):
        """one statement of the SHAPES dimension: every assignment operator with a right-hand side that
        reaches a variable's cell through a prefix operator / group / if() / function result"""
        r = self.r
        core = sorted(kk for kk, t in fr["locals"].items() if t in "IFRB")
        if not core:
            return None
        kk = r.choice(core)
        ty = fr["locals"][kk]
        T = ("l", kk)
        if ty == "B":
            op = r.choice(["=", "||=", "&&="])
            c = self.condition(fr, 1, as_value=True)
            if c[0] != "grp":
                c = ("grp", ("not", c)) if r.random() < 0.5 else c
            self._c("dim:shape:stmt-bool" + op)
            return ("set", T, op, c)
        op = r.choice({"I": ["=", "+=", "-="], "F": ["=", "+=", "-="], "R": ["=", "+="]}[ty])
        k = r.random()
        if k < 0.6:
            e = ("neg", self.shaped(fr, ty, 1, "neg"))
        elif k < 0.8:
            v = self.var(fr, ty) or self.lit(ty)
            e = ("if", self.condition(fr, 1), v, ("neg", self.shaped(fr, ty, 2, "neg")))
        else:
            e = ("pos", self.var(fr, ty)) if self.var(fr, ty) else self.lit(ty)
        self._c("dim:shape:stmt-%s%s" % (ty, op))
        return ("set", T, op, e)

    def operand(self, fr, ty, d, nonlit=False):
        """an operand of a comparison: atomic in the concrete syntax"""
        v = self.var(fr, ty)
        k = self.r.random()
        if v is not None and ty in "IRSB" and self.r.random() < (0.35 if self.focus else 0.12):
            # a stored cell reached through a group / an if() / unary plus: still the variable's own cell
            v2 = self.var(fr, ty) or v
            sh = self.r.choice(["grp", "if", "pos"] if ty in "IR" else ["grp", "if"])
            self._c("dim:shape:operand-" + sh)
            if sh == "grp":
                return ("grp", v)
            if sh == "if":
                return ("if", self.condition(fr, d + 2), v, v2)
            return ("pos", v)
        if nonlit:
            if v is not None and k < 0.8:
                return v
            if ty == "I":
                return ("bi", 0, [self.var(fr, "S") or self.lit("S")])
            if ty == "S":
                return ("bi", self.r.choice([1, 2]), [self.var(fr, "S") or self.lit("S")])
            return v
        if k < 0.45 and v is not None:
            return v
        if k < 0.8:
            return self.lit(ty)
        if ty in ("I", "R") and k < 0.9:
            return ("neg", v or self.lit(ty))
        return v or self.lit(ty)

    def condition(self, fr, d=0, as_value=False):
        """a BOOL expression in the shape `if (...)` accepts (evaluated in condition mode).
        as_value: wrap non-atomic forms in a group."""
        r = self.r
        k = r.random()
        deep = d >= 3
        bv = self.var(fr, "B")

        def wrap(e):
            return ("grp", e) if as_value else e
        if deep or k < 0.15:
            return bv or self.lit("B")
        if k < 0.45:
            ty = r.choice(["I", "I", "S", "S", "B", "R", "F"])
            op = r.choice(["==", "!="]) if ty != "I" else r.choice(["==", "!=", "<", ">", "<=", ">="])
            left = self.operand(fr, ty, d, nonlit=True)
            if left is None:
                return bv or self.lit("B")
            self._c("cond:cmp")
            return wrap(("bin", op, left, self.operand(fr, ty, d)))
        if k < 0.65:
            sv = self.vars_of(fr, "S")
            if sv:
                self._c("cond:match")
                w = r.choice([w for w in WORDS if w])
                if r.random() < 0.6:
                    pat = ("pre", bytes(c for c in w[: r.randint(1, 3)] if chr(c).isalnum()) or b"a")
                else:
                    pat = ("spl", ord(r.choice("-=")))
                return wrap(("match", r.random() < 0.25, ("var", r.choice(sv)), pat))
        if k < 0.78:
            self._c("cond:logic")
            a = self.condition(fr, d + 1, as_value=True)
            b = self.condition(fr, d + 1, as_value=True)
            return wrap(("bin", r.choice(["&&", "||"]), a, b))
        if k < 0.90:
            self._c("cond:not")
            if bv is not None and r.random() < (0.5 if self.focus else 0.2):
                fs = self.funcs_returning(fr, "B")
                sh = r.choice(["if", "if", "call"] if fs else ["if"])
                self._c("dim:shape:not-over-" + sh)
                if sh == "if":
                    return wrap(("not", ("if", self.condition(fr, d + 2), bv, self.var(fr, "B") or self.lit("B"))))
                f = r.choice(fs)
                return wrap(("not", ("call", f[0], self.args_for(fr, f[1], d + 1))))
            if r.random() < 0.5:
                sv = self.vars_of(fr, "S")
                if sv:
                    # `!req.http.x` is only legal in condition mode: directly under if / a group
                    return wrap(("not", ("var", r.choice(sv))))
            inner = self.condition(fr, d + 1, as_value=True)
            return wrap(("not", inner))
        sv = self.vars_of(fr, "S")
        if sv and r.random() < 0.5 and not as_value:
            self._c("cond:string")
            return ("var", r.choice(sv))
        return bv or self.lit("B")

    # ------------------------------------------------------------ statements
    def rhs_for(self, fr, ty, op, header=False):
        r = self.r
        if header:
            t2 = r.choice(["S", "S", "S", "S", "I", "B", "F", "R"])
            if t2 == "S":
                return self.expr(fr, "S", 1, top=True)
            return self.var(fr, t2) or self.expr(fr, "S", 1, top=True)
        if ty == "F" and op == "=" and r.random() < 0.25:
            v = self.var(fr, "I")                 # FLOAT = INTEGER
            if v is not None:
                return v if r.random() < 0.7 else self.lit("I")
        if ty == "I" and op == "=" and r.random() < 0.15:
            v = self.var(fr, "F")                 # INTEGER = FLOAT (a FLOAT literal is refused)
            if v is not None:
                return v
        if ty == "S" and op == "=" and r.random() < 0.25:
            t2 = r.choice(["I", "B", "R", "F"])
            if t2 == "B":
                return self.var(fr, "B") or self.lit("B")
            v = self.var(fr, t2)          # INTEGER / RTIME literals cannot be assigned to a STRING
            if v is not None:
                return v
        return self.expr(fr, ty, 1, top=True)

    def set_stmt(self, fr):
        r = self.r
        k = r.random()
        core = sorted(kk for kk, t in fr["locals"].items() if t in "IFSBR")
        if k < 0.55 and core:
            kk = r.choice(core)
            ty, T = fr["locals"][kk], ("l", kk)
        elif k < 0.75 and self.p.globals:
            i = r.randrange(len(self.p.globals) - len(self.p.hidden))
            ty, T = self.p.globals[i][1], ("g", i)
        elif k < 0.88:
            T = ("h", r.randrange(len(self.p.objs)), r.randrange(len(HDRS)))
            self._c("stmt:set-header")
            return ("set", T, "=", self.rhs_for(fr, "S", "=", header=True))
        else:
            T = ("f", r.randrange(len(self.p.objs)), r.randrange(2), r.choice([1, 2]))
            self._c("dim:field:set")
            return ("set", T, "=", self.rhs_for(fr, "S", "=", header=True))
        ops = {"I": ["=", "=", "+=", "-="], "F": ["=", "=", "+=", "-="], "S": ["="], "B": ["=", "=", "||=", "&&="], "R": ["=", "=", "+="]}[ty]
        op = r.choice(ops)
        self._c("stmt:set-" + T[0])
        return ("set", T, op, self.rhs_for(fr, ty, op))

    def error_stmt(self, fr):
        """a statement that raises a runtime error on both sides (kept rare)"""
        r = self.r
        self._c("stmt:error")
        iv = self.var(fr, "I")
        k = r.random()
        if k < 0.3 and iv is not None:
            return ("set", iv[1], "=", self.lit("S"))
        if k < 0.5:
            return ("log", ("var", ("l", 9000 + r.randint(0, 9))))       # undefined local
        if k < 0.7 and fr["locals"]:
            return ("unset", ("l", r.choice(sorted(fr["locals"]))))
        bv = self.var(fr, "B")
        if bv is not None:
            return ("set", bv[1], "=", self.lit("I"))
        return ("log", ("var", ("l", 9000)))

    def stmts(self, fr, n, d=0):
        out = []
        for _ in range(n):
            if self.r.random() < (0.16 if self.focus else 0.05):
                out += self.alias_chain(fr)
            out.append(self.stmt(fr, d))
        return out

    def alias_chain(self, fr):
        """copy-then-mutate: `set b = a;` then a statement that mutates a (compound assignment where the type
        has one, so that an implementation working in place shows), then one that mutates b, between cells
        of every kind (local, ctx variable, header).  The statements are ordinary `set`s: the model runs them
        too, and the oracle sees b change on a line that names only a."""
        r = self.r
        ty = r.choice("IFSBR")
        vs = self.vars_of(fr, ty, "lgh")
        vs = [v for v in vs if not (v[0] == "g" and v[1] >= len(self.p.globals) - len(self.p.hidden))]
        if len(vs) < 2:
            return []
        a, b = r.sample(vs, 2)
        if r.random() < 0.6:        # prefer a local on one side: locals are the cells handed around by pointer
            ls = [v for v in vs if v[0] == "l"]
            if ls:
                a = r.choice(ls)
                if a == b:
                    return []
                if r.random() < 0.5:
                    a, b = b, a
        self._c("dim:alias:%s:%s<-%s" % (ty, b[0], a[0]))
        mut = {"I": ["+=", "-="], "F": ["+=", "-="], "S": ["="], "B": ["||=", "&&=", "="], "R": ["+="]}[ty]

        def mutate(x):
            op = r.choice(mut) if x[0] != "h" else "="
            return ("set", x, op, self.rhs_for(fr, ty if x[0] != "h" else "S", op, header=(x[0] == "h")) if x[0] == "h"
                    else self.rhs_for(fr, ty, op))
        out = [("set", b, "=", ("var", a)), mutate(a)]
        if r.random() < 0.7:
            out.append(mutate(b))
        if r.random() < 0.5:
            out.append(("set", a, "=", ("var", b)))      # and back: a cycle of copies
            out.append(mutate(b))
        return out

    def stmt(self, fr, d):
        r = self.r
        k = r.random()
        if r.random() < self.errors / 25:
            return self.error_stmt(fr)
        if r.random() < (0.35 if self.focus else 0.06):
            w = self.shape_stmt(fr)
            if w is not None:
                return w
        if self.wild and r.random() < (0.55 if self.focus else 0.4):
            w = self.wild_stmt(fr)
            if w is not None:
                return w
        if k < 0.50:
            return self.set_stmt(fr)
        if k < 0.58:
            self._c("stmt:log")
            return ("log", self.expr(fr, r.choice(["S", "S", "I", "B", "R", "F"]), 1))
        if k < 0.63:
            if r.random() < 0.35:
                self._c("dim:field:unset")
                return ("unset", ("f", r.randrange(len(self.p.objs)), r.randrange(2), r.choice([1, 2])))
            self._c("stmt:unset")
            return ("unset", ("h", r.randrange(len(self.p.objs)), r.randrange(len(HDRS))))
        if k < 0.70 and d < 2:
            return self.switch_stmt(fr, d)
        if k < 0.735:
            kk = r.random()
            if kk < 0.45:
                self._c("dim:add")
                rhs = self.lit("S") if r.random() < 0.5 else ("cat", [("s", r.choice([w for w in WORDS if w])), ("v", (self.var(fr, "S") or ("var", ("r", 0)))[1])], True)
                if rhs[0] == "lit" and not rhs[1][1]:
                    rhs = ("lit", ("S", b"x", False, True), '"x"')
                return ("add", ("h", r.randrange(len(self.p.objs)), r.randrange(len(HDRS))), rhs)
            if kk < 0.55:
                # unset <obj>.http.<prefix>*: the prefix as written, in either case, also one that matches nothing
                self._c("dim:unset-wildcard")
                return ("unsetwild", r.randrange(len(self.p.objs)), r.choice([b"h", b"H", b"ha", b"hA", b"HB", b"hc", b"hx", b"x", b"hab"]))
            if kk < 0.62 and self.p.scope == "error":
                self._c("dim:synthetic")
                return ("synth", self.lit("S") if r.random() < 0.4 else self.expr(fr, "S", 1, top=True))
            if kk < 0.65:
                self.nlabel = getattr(self, "nlabel", 0) + 1
                self._c("dim:goto")
                return ("nop", "goto L%d" % self.nlabel) if r.random() < 0.6 else ("label", "L%d" % self.nlabel)
            # like restart / return(state): not inside a FUNCTIONAL subroutine - a state produced there turns the
            # function's value into value.Null, which is outside the model (wild programs keep them: oracle only)
            if (d > 0 or r.random() < 0.25) and (self.p.scope in ERROR_SCOPES or r.random() < 0.1) and (fr["ret"] is None or self.wild):
                self._c("dim:error")
                code = r.choice([None, self.lit("I"), self.lit("I"), self.var(fr, "I")])
                arg = None if code is None else r.choice([None, self.lit("S"), self.var(fr, "S")])
                return ("error", code, arg)
            if (d > 0 or r.random() < 0.25) and fr["ret"] is None:
                self._c("dim:restart")
                return ("restart",)
        if k < 0.715 and fr["ret"] is None and (d > 0 or r.random() < 0.3):
            self._c("dim:return-state")
            return ("retstate", r.randrange(len(STATES)))
        if k < 0.78:
            procs = [f for f in fr["callable"]]
            if procs:
                f = r.choice(procs)
                self._c("stmt:call")
                return ("call", f[0], self.args_for(fr, f[1], 1))
        if k < 0.92 and d < 2:
            self._c("stmt:if")
            th = self.stmts(fr, r.randint(1, 3), d + 1)
            elifs = [(self.condition(fr, 1), self.stmts(fr, r.randint(1, 2), d + 1)) for _ in range(r.choice([0, 0, 1, 2]))]
            el = self.stmts(fr, r.randint(1, 2), d + 1) if r.random() < 0.5 else None
            return ("if", self.condition(fr, 1), th, elifs, el)
        if k < 0.96 and d == 0:
            # a declaration in the middle of a frame (also re-declaration of an existing name)
            ty = r.choice("IFSBR")
            if fr["locals"] and r.random() < 0.3:
                kk = r.choice(sorted(fr["locals"]))
            else:
                kk = self.fresh_local()
            fr["locals"][kk] = ty
            self.p.local_ty[kk] = ty
            self._c("stmt:declare")
            init = self.expr(fr, ty, 1, top=True) if r.random() < 0.4 else None
            if init is not None and init[0] == "grp":
                init = None
            return ("decl", kk, ty, init)
        if fr["ret"] is None and fr["fid"] != "main" and d > 0 and r.random() < 0.5:
            self._c("stmt:return")
            return ("ret", None)
        if fr["ret"] is not None and d > 0 and r.random() < 0.5:
            self._c("stmt:return-value")
            return ("ret", self.expr(fr, fr["ret"], 1))
        return self.set_stmt(fr)

    def switch_stmt(self, fr, d):
        r = self.r
        self._c("dim:switch")
        ty = r.choice(["S", "S", "I", "B"])
        ctl = self.var(fr, ty) or self.lit("S")
        if ty == "S" and r.random() < 0.2:
            ctl = ("bi", r.choice([1, 2]), [ctl])
        n = r.randint(2, 4)
        dflt = r.choice([None, n - 1, r.randrange(n)])
        lits = r.sample([w for w in WORDS if w] + [b"0", b"1", b"5", b"42", b"100"], n)
        cases = []
        seen = set()
        for i in range(n):
            t = None
            if i != dflt and r.random() < 0.3:
                w = r.choice([w for w in WORDS if w])
                t = ("re", ("pre", bytes(c for c in w[: r.randint(1, 2)] if chr(c).isalnum()) or b"a") if r.random() < 0.6 else ("spl", ord(r.choice("-="))))
                if t in seen:
                    t = None                  # the parser rejects a duplicate case label
                seen.add(t)
            if i == dflt:
                t = None
            elif t is not None:
                self._c("dim:switch:regex-case")
            else:
                t = ("str", lits[i])
            ft = i < n - 1 and r.random() < 0.3
            if ft:
                self._c("dim:switch:fallthrough")
            body = self.stmts(fr, r.randint(0, 2), d + 1)
            if r.random() < 0.1:
                body.insert(r.randrange(len(body) + 1), ("nop", "break"))     # a break in the middle does not break
            body.append(("nop", "fallthrough" if ft else "break"))
            cases.append((t, ft, body))
        return ("switch", ctl, dflt, cases)

    def fresh_local(self):
        self.nlocal += 1
        return self.nlocal - 1

    def frame(self, fid, params, ret, callable_):
        fr = {"fid": fid, "locals": {}, "ret": ret, "callable": callable_}
        body = []
        for k, t in params:
            fr["locals"][k] = t
            self.p.local_ty[k] = t
        # a pool of locals of every type, declared up front
        for ty in "IFSBR":
            for _ in range(self.r.choice([1, 2]) if fid == "main" else self.r.choice([0, 1])):
                kk = self.fresh_local()
                body.append(("decl", kk, ty, None))
                fr["locals"][kk] = ty
                self.p.local_ty[kk] = ty
        if self.wild:
            for ty in WILD_TYPES:
                for _ in range(2 if (fid == "main" and ty == "K") else 1):
                  if self.r.random() < (0.9 if fid == "main" else 0.3):
                    kk = self.fresh_local()
                    body.append(("decl", kk, ty, None))
                    fr["locals"][kk] = ty
                    self.p.local_ty[kk] = ty
                    self._c("dim:types:local-" + TYN[ty])
        return fr, body

    def program(self):
        r = self.r
        p = self.p = Prog()
        p.wild = self.wild
        p.scope = r.choice(sorted(SCOPES))
        p.globals = list(SCOPES[p.scope]["globals"])
        if WRITABLE is not None and WRITABLE.get(p.scope):
            # drawn from the source's own table: any writable ctx variable of a modelled type, a few per program
            cand = [(n, t) for n, t in WRITABLE[p.scope] if t in CORE]
            if cand and r.random() < 0.8:
                p.globals = sorted(r.sample(cand, min(len(cand), r.randint(3, 6))))
                self._c("dim:ctx-cells-from-source")
        names = [n for n, _ in p.globals]
        # in the ERROR scope obj.response IS ctx.ObjectResponse: one cell must not get two pool names
        p.hidden = [h for h in HIDDEN if h[0][1:] not in names]
        p.globals += p.hidden
        p.gs = [n for n, _ in p.globals].index("@obj.status")
        p.gr = [n.lstrip("@") for n, _ in p.globals].index("obj.response")
        p.gb = [n for n, _ in p.globals].index("@obj.body")
        p.objs = list(SCOPES[p.scope]["objs"])
        if self.wild:
            p.extra_pool = ["req.url", "req.url.path", "req.url.qs", "req.method", "@fastly.error", "@workspace", "req.restarts"]
        self.nlocal = 0
        callable_ = []
        can_state = set()

        def states(ss):
            for st in ss:
                if st[0] in ("retstate", "error", "restart") or (st[0] == "call" and st[1] in can_state):
                    return True
                if st[0] == "if" and (states(st[2]) or any(states(b) for _, b in st[3]) or (st[4] is not None and states(st[4]))):
                    return True
                if st[0] == "switch" and any(states(b) for _, _, b in st[3]):
                    return True
            return False
        for fid in range(r.choice([0, 1, 2, 2, 3])):
            if self.wild:
                npar = r.choice([1, 1, 2, 2, 3]) if self.focus else r.choice([0, 1, 1, 2])
                params = [(self.fresh_local(), r.choice(CORE + WILD_TYPES + "KKTP")) for _ in range(npar)]
                ret = r.choice([None, None, "I", "S", "B", "R", "F", "K", "K", "T", "P"])    # REGEX / ACL cannot be returned
                for _, t in params:
                    self._c("dim:types:param-" + TYN[t])
                if ret:
                    self._c("dim:types:result-" + TYN[ret])
            else:
                params = [(self.fresh_local(), r.choice("IFSBR" if r.random() < 0.5 else "IS")) for _ in range(r.choice([0, 1, 1, 2]))]
                ret = r.choice([None, None, "I", "S", "B", "R", "F"])
            # a state returned inside a functional subroutine turns its value into value.Null (not modelled):
            # functions only call subroutines that cannot return a state
            fr, body = self.frame(fid, params, ret, [c for c in callable_ if ret is None or c[0] not in can_state])
            if self.wild:
                # the callee assigns to its parameters: by-value passing is what is being observed
                for k, t in params:
                    if r.random() < 0.7:
                        w = self.assign_any(fr, k, t)
                        if w is not None:
                            body.append(w)
            body += self.stmts(fr, r.randint(1, 5))
            if ret is not None:
                body.append(("ret", self.expr(fr, ret, 1)))
            elif r.random() < 0.2:
                # the state travels through every caller: what follows the call must not run
                body.append(("retstate", r.randrange(len(STATES))))
                self._c("dim:return-state")
            p.subs.append((fid, params, ret, body))
            if states(body):
                can_state.add(fid)
            callable_.append((fid, params, ret))
            self._c("sub:function" if ret else "sub:procedure")
        fr, body = self.frame("main", [], None, callable_)
        # give the variables values first so that later statements have something to disturb
        for k in sorted(fr["locals"]):
            if r.random() < 0.8 and fr["locals"][k] in "IFSBR":
                body.append(("set", ("l", k), "=", self.lit(fr["locals"][k])))
        if self.wild:
            for k in sorted(fr["locals"]):
                if fr["locals"][k] in "KTP" and r.random() < 0.8:
                    body.append(self.assign_any(fr, k, fr["locals"][k], literal=True))
        for o in range(len(p.objs)):
            for h in range(len(HDRS)):
                if r.random() < 0.6:
                    body.append(("set", ("h", o, h), "=", self.lit("S")))
        if r.random() < 0.012:
            # a LONG program: state carried over many statements (every one of them snapshotted)
            self._c("dim:long-program")
            body += self.stmts(fr, r.randint(40, 80))
        else:
            body += self.stmts(fr, r.randint(3, self.max_stmts))
        p.main = body
        p.stats = dict(self.stats)
        return p


class WildGen(StoreGen):
    """programs outside the model's fragment (direct oracle and log cross-check only): locals of type
    TIME and IP, every assignment operator, cross-type assignments, header sub-fields, `add`,
    computed variables (req.url, req.method), more built-in functions, general regular expressions"""

    def __init__(self, rng, **kw):
        StoreGen.__init__(self, rng, wild=True, **kw)

    def lv(self, fr, ty):
        ks = [k for k, t in fr["locals"].items() if t == ty]
        return ("l", self.r.choice(ks)) if ks else None

    def stext(self, fr):
        """text of a STRING-valued operand"""
        v = self.var(fr, "S")
        if v is not None and self.r.random() < 0.7:
            return self.p.name_text(v[1])
        return '"%s"' % self.r.choice(WORDS).decode()

    def wild_typed(self, fr, ty, d, arg=False):
        """an expression of type TIME / IP / BACKEND / ACL: preferably a variable's own cell, also through
        if() and through functions returning that type"""
        r = self.r
        vs = [("l", k) for k, t in fr["locals"].items() if t == ty]
        lits = {"T": ["now"], "P": ['"10.0.0.1"', "client.ip", '"192.168.7.7"'], "K": BACKENDS, "A": ACLS,
                "X": ['table.lookup_regex(rt, "a")', 'table.lookup_regex(rt, "b")', 'table.lookup_regex(rt, "k")',
                      'table.lookup_regex(rt, "nokey")', '"^ab"', '"c$"']}[ty]
        lit = ("raw", r.choice(lits), {})
        k = r.random()
        if vs and (k < 0.6 or ty == "A"):
            return ("var", r.choice(vs))
        fs = self.funcs_returning(fr, ty)
        if fs and k < 0.75 and d < 3:
            f = r.choice(fs)
            self._c("dim:types:call-returning-" + TYN[ty])
            return ("call", f[0], self.args_for(fr, f[1], d + 1))
        if vs and k < 0.9 and d < 3 and ty != "A":
            self._c("dim:types:if()-of-" + TYN[ty])
            return ("if", self.condition(fr, d + 1), ("var", r.choice(vs)), ("var", r.choice(vs)) if r.random() < 0.5 else lit)
        return lit

    def assign_any(self, fr, k, t, literal=False):
        """a statement that assigns to local / parameter k of type t"""
        r = self.r
        T = ("l", k)
        if t in CORE:
            return ("set", T, "=", self.lit(t) if (literal or r.random() < 0.5) else self.expr(fr, t, 1, top=True))
        if t == "A":
            return None                       # ACL locals cannot be assigned in this interpreter
        self._c("dim:types:assign-" + TYN[t])
        if literal:
            return ("set", T, "=", ("raw", {"T": "now", "P": '"10.9.8.7"', "K": r.choice(BACKENDS),
                                            "X": 'table.lookup_regex(rt, "%s")' % r.choice("abk")}[t], {}))
        return ("set", T, "=", self.wild_typed(fr, t, 1))

    def wild_expr(self, fr, ty, d):
        r = self.r
        p = self.p
        if ty == "S":
            x = self.stext(fr)
            iv = self.var(fr, "I")
            c = r.choice(["regsub", "regsuball", "substr", "itoa", "strrev", "replace", "strpad", "basename", "urlencode"])
            self._c("wexpr:" + c)
            if c == "regsub":
                return ("raw", 'regsub(%s, "%s", "%s")' % (x, r.choice(["b", "^a", "(.)-(.)", "[0-9]+"]), r.choice(["X", "\\1", ""])), {})
            if c == "regsuball":
                return ("raw", 'regsuball(%s, "%s", "%s")' % (x, r.choice(["b", "a|c", "-"]), r.choice(["Y", ""])), {})
            if c == "substr":
                return ("raw", "substr(%s, %d, %d)" % (x, r.randint(0, 3), r.randint(0, 4)), {})
            if c == "itoa" and iv is not None:
                return ("raw", "std.itoa(%s)" % p.name_text(iv[1]), {})
            if c == "strrev":
                return ("raw", "std.strrev(%s)" % x, {})
            if c == "replace":
                return ("raw", 'std.replace(%s, "%s", "%s")' % (x, r.choice(["a", "-", "b"]), r.choice(["", "zz"])), {})
            if c == "strpad":
                return ("raw", 'std.strpad(%s, %d, "%s")' % (x, r.randint(-6, 6), r.choice(["*", "ab"])), {})
            if c == "basename":
                return ("raw", "std.basename(%s)" % x, {})
            return ("raw", "urlencode(%s)" % x, {})
        if ty == "I":
            self._c("wexpr:atoi")
            iv = self.var(fr, "I")
            arg = "std.itoa(%s)" % p.name_text(iv[1]) if (iv is not None and r.random() < 0.5) else '"%d"' % r.randint(0, 999)
            return ("raw", "std.atoi(%s)" % arg, {})
        if ty == "B":
            c = r.choice(["prefixof", "regex", "strstr"])
            self._c("wexpr:" + c)
            if c == "prefixof":
                return ("raw", '(std.%s(%s, "%s"))' % (r.choice(["prefixof", "suffixof"]), self.stext(fr), r.choice(["a", "c", ""])), {})
            sv = self.vars_of(fr, "S")
            if c == "regex" and sv:
                return ("raw", '(%s %s "%s")' % (p.name_text(r.choice(sv)), r.choice(["~", "!~"]),
                                                   r.choice(["^(a+)(b*)", "(.)(.)(.)", "c$", "[a-z]+-([a-z]+)"])), {"has": ["match"]})
        return None

    def operand_form_stmt(self, fr):
        r = self.r
        forms = {f[0]: f for f in OPERAND_FORMS}
        for _ in range(6):
            ty, fid = r.choice(self.accepted)
            _, res, tmpl, has = forms[fid]
            if tmpl is None or res == STMT and fid in ("error-argument", "synthetic-argument") or "f0(" in tmpl or "f1(" in tmpl:
                continue
            own = [k for k, t in fr["locals"].items() if t == ty]
            if not own:
                continue
            a = r.choice(own)
            b = r.choice(own)
            sub = {}
            ok = True
            for ref, t in (("var.v2", "S"), ("var.v3", "B"), ("var.v4", "R"), ("var.v6", "T")):
                if ref in tmpl or (ref == {"S": "var.v2", "B": "var.v3", "T": "var.v6"}.get(res)):
                    ks = [k for k, tt in fr["locals"].items() if tt == t and k != a]
                    if not ks:
                        ok = False
                        break
                    sub[ref] = "var.v%d" % r.choice(ks)
            if res == SAME:
                ks = [k for k in own if k != a]
                if not ks or ty == "A":
                    ok = False
                else:
                    sub["var.v5"] = "var.v%d" % r.choice(ks)
            if not ok:
                continue
            text = tmpl.format(a="\0A", b="\0B")
            for ref, new in sub.items():
                text = text.replace(ref, "\0" + ref)
            for ref, new in sub.items():
                text = text.replace("\0" + ref, new)
            text = text.replace("\0A", "var.v%d" % a).replace("\0B", "var.v%d" % b)
            if res == STMT:
                tgt = sub.get("var.v2") if "var.v2" in tmpl else ("req.http.hb" if tmpl.startswith("add ") else
                                                                 ("req.http.ha:k1" if tmpl.startswith("set req.http.ha:k1") else None))
                stmt = text
            else:
                tgt = {"B": sub.get("var.v3"), "S": sub.get("var.v2"), "T": sub.get("var.v6"), SAME: sub.get("var.v5"), HDR: "req.http.hc"}.get(res)
                if tgt is None:
                    continue
                stmt = "set %s = %s;" % (tgt, text)
            self._c("dim:opform:%s:%s" % (TYN[ty], fid))
            return ("rawstmt", stmt, {"target": tgt, "has": list(has)})
        return None

    def wild_stmt(self, fr):
        r = self.r
        p = self.p
        kinds = ["intop", "floatop", "cross", "cross", "field", "field", "add", "url", "time", "ip", "rtimeop",
                 "typed", "typed", "typedcall", "typedcall", "builtin", "builtin", "opform", "opform", "opform"]
        if self.focus:
            kinds += ["typed", "typedcall"] * 6
        c = r.choice(kinds)
        iv, fv, sv, rv = self.lv(fr, "I"), self.lv(fr, "F"), self.lv(fr, "S"), self.lv(fr, "R")
        tv, pv = self.lv(fr, "T"), self.lv(fr, "P")
        nt = p.name_text

        def st(text, target, has=()):
            self._c("wstmt:" + c)
            return ("rawstmt", text, {"target": target, "has": list(has)})
        if c == "opform" and getattr(self, "accepted", None):
            # a cell of the operand matrix (type x expression form, the ones the interpreter accepted in this run's
            # exhaustive pass) inside a random program: operands that are parameters, re-declared, copied, in branches
            w = self.operand_form_stmt(fr)
            if w is not None:
                return w
        if c == "builtin":
            # built-in functions WITH side effects, as statements: what they may write is read off the Go
            # source (Gen/StoreEffects.v); the check allows exactly the named header of the named object
            o, h = r.choice(p.objs), r.choice(HDRS)
            n = "%s.http.%s" % (o, h)
            c = "builtin:" + r.choice(["header.set", "header.set", "header.unset", "header.filter", "header.filter_except",
                                       "header.get", "std.collect"])
            f = c[8:]
            if f == "header.set":
                return st('header.set(%s, "%s", %s);' % (o, h, self.stext(fr)), n)
            if f in ("header.unset", "header.filter"):
                return st('%s(%s, "%s");' % (f, o, h), n)
            if f == "header.filter_except":
                return st('header.filter_except(%s, %s);' % (o, ", ".join('"%s"' % x for x in HDRS if x != h)), n)
            if f == "std.collect":
                return st("std.collect(%s);" % n, n)
            if sv:
                return st('set %s = header.get(%s, "%s");' % (nt(sv), o, h), nt(sv))
            return None
        if c == "typed":
            ws = [(k, t) for k, t in fr["locals"].items() if t in "TPKXX"]
            xs = [k for k, t in fr["locals"].items() if t == "X"]
            bs = [k for k, t in fr["locals"].items() if t == "B"]
            sv = self.vars_of(fr, "S")
            if xs and bs and sv and r.random() < 0.2:
                # a REGEX local used as a pattern (never assigned: matches nothing)
                self._c("dim:types:match-with-REGEX-local")
                bk = r.choice(bs)
                return ("rawstmt", "set var.v%d = (%s ~ var.v%d);" % (bk, self.p.name_text(r.choice(sv)), r.choice(xs)),
                        {"target": "var.v%d" % bk, "has": ["match"]})
            if ws:
                k, t = r.choice(ws)
                return self.assign_any(fr, k, t)
        if c == "typedcall":
            fs = [f for f in fr["callable"] if any(t in WILD_TYPES for _, t in f[1])]
            if fs:
                f = r.choice(fs)
                self._c("dim:types:call-with-typed-args")
                if f[2] is not None and f[2] in "TPK" and r.random() < 0.6:
                    ws = [k for k, t in fr["locals"].items() if t == f[2]]
                    if ws:
                        return ("set", ("l", r.choice(ws)), "=", ("call", f[0], self.args_for(fr, f[1], 1)))
                return ("call", f[0], self.args_for(fr, f[1], 1))
        if c == "intop" and iv:
            op = r.choice(["*=", "/=", "%=", "|=", "&=", "^=", "<<=", ">>=", "rol=", "ror="])
            other = self.lv(fr, "I")
            rhs = nt(other) if (op in ("*=", "|=", "&=", "^=") and r.random() < 0.5) else str(r.randint(1, 7))
            return st("set %s %s %s;" % (nt(iv), op, rhs), nt(iv))
        if c == "floatop" and fv:
            op = r.choice(["+=", "-=", "*=", "/="])
            other = self.lv(fr, "F")
            rhs = nt(other) if (op != "/=" and r.random() < 0.5) else r.choice(["1.500", "0.250", "3.000"])
            return st("set %s %s %s;" % (nt(fv), op, rhs), nt(fv))
        if c == "rtimeop" and rv:
            op = r.choice(["-=", "+=", "*="])
            rhs = r.choice(["5s", "100ms"]) if op != "*=" else str(r.randint(1, 4))
            return st("set %s %s %s;" % (nt(rv), op, rhs), nt(rv))
        if c == "cross":
            pairs = [(iv, fv), (fv, iv), (sv, fv), (sv, tv), (sv, pv), (rv, iv), (fv, rv), (iv, rv), (sv, rv)]
            pairs = [(a, b) for a, b in pairs if a and b]
            if pairs:
                a, b = r.choice(pairs)
                return st("set %s = %s;" % (nt(a), nt(b)), nt(a))
        if c == "field":
            o = r.choice(p.objs)
            n = "%s.http.%s:%s" % (o, r.choice(HDRS[:2]), r.choice(FIELDS))
            if r.random() < 0.75:
                return st("set %s = %s;" % (n, self.stext(fr)), n)
            return st("unset %s;" % n, n)
        if c == "add":
            n = "%s.http.%s" % (r.choice(p.objs), r.choice(HDRS))
            return st("add %s = %s;" % (n, self.stext(fr)), n)
        if c == "url" and p.scope == "recv":
            if r.random() < 0.7:
                return st('set req.url = "/p%d/" %s "?a=%d&b=x";' % (r.randint(0, 9), self.stext(fr), r.randint(0, 9)), "req.url")
            return st('set req.method = "%s";' % r.choice(["POST", "HEAD", "GET"]), "req.method")
        if c == "time" and tv:
            k = r.random()
            if k < 0.4:
                return st("set %s = now;" % nt(tv), nt(tv))
            if k < 0.7:
                return st("set %s %s %s;" % (nt(tv), r.choice(["+=", "-="]), r.choice(["5s", "2m"])), nt(tv))
            if iv:
                return st("set %s = %s;" % (nt(iv), nt(tv)), nt(iv))
        if c == "ip" and pv:
            k = r.random()
            if k < 0.5:
                return st('set %s = "%s";' % (nt(pv), r.choice(["10.0.0.1", "192.168.1.20", "2001:db8::1"])), nt(pv))
            if k < 0.8:
                return st("set %s = client.ip;" % nt(pv), nt(pv))
            if sv:
                return st("set %s = %s;" % (nt(sv), nt(pv)), nt(sv))
        return None


# ---------------------------------------------------------------------------------------------------------
# The operand matrix: EVERY value type, as a local and as a ctx variable, under EVERY expression form that
# takes an operand - one tiny program per cell, run exhaustively (not sampled) on every quick run.
#   "evaluating an expression changes only what it names"  =>  its operands read the same afterwards.
# The statement is executed twice (an operand that is shifted in place accumulates) and followed by another
# statement, so that the store is read after the evaluation; the frame oracle (checks/c13.py) then sees
# every local and every pooled name that changed although the line only READS it.
# Which (type, form) cells the interpreter accepts is not transcribed: every cell is run, a cell whose
# program does not parse or raises is listed as refused in the evidence.
SAME, HDR, STMT = "same", "hdr", "stmt"
OPERAND_FORMS = [
    # id, kind of result (type letter | SAME | HDR | STMT), text with {a} {b} (operands), facts for the oracle
    ("eq", "B", "({a} == {b})", ()), ("ne", "B", "({a} != {b})", ()),
    ("lt", "B", "({a} < {b})", ()), ("gt", "B", "({a} > {b})", ()),
    ("le", "B", "({a} <= {b})", ()), ("ge", "B", "({a} >= {b})", ()),
    ("match", "B", '({a} ~ "a")', ("match",)), ("not-match", "B", '({a} !~ "a")', ("match",)),
    ("match-acl", "B", "({a} ~ A_a)", ("match",)), ("ip-match-this-acl", "B", "(client.ip ~ {a})", ("match",)),
    ("str-match-this-regex", "B", '("aab" ~ {a})', ("match",)),
    ("and", "B", "({a} && {b})", ()), ("or", "B", "({a} || {b})", ()), ("not", "B", "(!{a})", ()),
    ("neg", SAME, "-{a}", ()), ("pos", SAME, "+{a}", ()),
    ("concat", "S", "{a} {b}", ()), ("concat-plus", "S", "{a} + {b}", ()),
    ("concat-after-literal", "S", '"x" {a}', ()), ("concat-before-literal", "S", '{a} "x"', ()),
    ("time-plus-literal", "S", "{a} + 5m", ()), ("time-minus-literal", "S", "{a} - 5m", ()),
    ("time-plus-signed-literal", "S", "{a} +5m", ()), ("time-minus-signed-literal", "S", "{a} -5m", ()),
    ("time-minus-inside-concat", "S", '"x" {a} -1h "y"', ()), ("time-plus-inside-concat", "S", '"x" + {a} + 1h + "y"', ()),
    ("time-plus-in-comparison", "B", "({a} + 5m > {b})", ()), ("time-minus-in-comparison", "B", "({a} - 5m < {b})", ()),
    ("time-plus-as-builtin-argument", "I", "std.strlen({a} + 5m)", ()), ("time-plus-to-header", HDR, "{a} + 5m", ()),
    ("time-plus-in-condition", STMT, 'if ({a} + 5m == {b}) {{ set var.v2 = "y"; }}', ()),
    ("time-plus-literal-to-TIME", "T", "{a} + 5m", ()), ("time-minus-literal-to-TIME", "T", "{a} - 1h", ()),
    ("time-plus-rtime-variable", "T", "{a} + var.v4", ()), ("time-literal-plus-this", "T", "var.v6 + {a}", ()),
    ("copy", SAME, "{a}", ()), ("to-string", "S", "{a}", ()), ("to-header", HDR, "{a}", ()),
    ("if-expression-branch", SAME, "if(var.v3, {a}, {b})", ()),
    ("if-expression-condition", "S", 'if({a} == {b}, "y", "n")', ()),
    ("if-expression-bool-condition", "S", 'if({a}, "y", "n")', ()),
    ("argument-of-procedure", STMT, "call f0({a});", ("call",)),
    ("argument-of-function", SAME, "f1({a})", ("call",)),
    ("argument-of-builtin", None, None, ()),         # per type, see OPERAND_BUILTINS
    ("condition-of-if", STMT, 'if ({a} == {b}) {{ set var.v2 = "y"; }}', ()),
    ("bool-condition-of-if", STMT, 'if ({a}) {{ set var.v2 = "y"; }}', ()),
    ("condition-of-else-if", STMT, 'if (var.v3) {{ set var.v2 = "y"; }} else if ({a} != {b}) {{ set var.v2 = "z"; }}', ()),
    ("log", STMT, "log {a};", ()),
    ("switch-control", STMT, 'switch ({a}) {{ case "x": set var.v2 = "y"; break; default: set var.v2 = "d"; break; }}', ()),
    ("compound-plus-rhs", SAME, None, ()), ("compound-minus-rhs", SAME, None, ()),
    ("compound-and-rhs", SAME, None, ()), ("compound-or-rhs", SAME, None, ()),
    ("rtime-onto-time-rhs", "T", None, ()),
    ("error-argument", STMT, "error 700 {a};", ()),
    ("synthetic-argument", STMT, "synthetic {a};", ()),
    ("add-header", STMT, "add req.http.hb = {a};", ()),
    ("sub-field-rhs", STMT, "set req.http.ha:k1 = {a};", ()),
]
OPERAND_BUILTINS = {
    "I": ["std.itoa({a})", "std.itoa_charset({a}, \"01\")"], "F": ["math.floor({a})", "math.sqrt({a})"],
    "S": ["std.strlen({a})", "std.toupper({a})", 'regsub({a}, "a", "b")', "std.atoi({a})"],
    "B": [], "R": ["time.add(var.v6, {a})", "time.sub(var.v6, {a})"],
    "T": ['strftime({{"%Y"}}, {a})', "time.add({a}, 5m)", "time.sub({a}, 5m)", "time.is_after({a}, {b})",
          "time.add({a}, var.v4)"],
    "P": ["std.ip2str({a})", "addr.is_ipv4({a})", "addr.extract_bits({a}, 0, 8)"],
    "K": [], "A": [], "X": [],
}
# ctx variables used as operands, by type: from the regenerated table where it has them (plain cells), and the
# well-known computed ones for the types no context field of a simple case has
OPERAND_CTX_FIXED = {"T": ["time.start"], "P": ["client.ip", "server.ip"], "K": ["req.backend"]}
OPERAND_INIT = {"I": ("7", "9"), "F": ("1.500", "2.250"), "S": ('"aab"', '"x"'), "B": ("true", "false"), "R": ("3s", "2m"),
                "T": ("time.start", "time.start"), "P": ('"10.0.0.1"', '"192.168.7.7"'), "K": ("F_a", "F_b"),
                "A": (None, None), "X": ('table.lookup_regex(rt, "a")', 'table.lookup_regex(rt, "b")')}


def operand_ctx_names(scope):
    out = {t: list(v) for t, v in OPERAND_CTX_FIXED.items()}
    for n, t in (WRITABLE or {}).get(scope, []):
        out.setdefault(t, [])
        if len(out[t]) < 2:
            out[t].append(n)
    return out


def operand_matrix():
    """[(Prog, (type, source, form id, text))]: the full cross product, deterministic."""
    out = []
    for ty in "IFSBRTPKAX":
        sources = [("local", "var.v0", "var.v1")]
        for scope in ("recv", "fetch"):
            for n in operand_ctx_names(scope).get(ty, []):
                if scope == "recv" or not any(s[1] == n for s in sources):
                    sources.append(("ctx:" + scope, n, n))
        for src, a, b in sources:
            scope = src.split(":")[1] if ":" in src else "recv"
            for fid, res, tmpl, has in OPERAND_FORMS:
                texts = []
                if fid == "argument-of-builtin":
                    for t in OPERAND_BUILTINS[ty]:
                        rt = "B" if t.startswith(("time.is_after", "addr.is_")) else ("I" if t.startswith(("std.strlen", "std.atoi", "addr.extract")) else
                                                                                         ("T" if t.startswith("time.") else ("F" if t.startswith("math.") else "S")))
                        texts.append((rt, t, has))
                elif tmpl is None:
                    op = {"compound-plus-rhs": "+=", "compound-minus-rhs": "-=", "compound-and-rhs": "&&=", "compound-or-rhs": "||=",
                          "rtime-onto-time-rhs": "+="}[fid]
                    texts.append(("T" if fid == "rtime-onto-time-rhs" else SAME, (op, "{a}"), has))
                else:
                    texts.append((res, tmpl, has))
                for res_k, tm, hs in texts:
                    p = Prog()
                    p.wild = True
                    p.scope = scope
                    p.globals = list(HIDDEN)
                    p.hidden = list(HIDDEN)
                    p.gs, p.gr, p.gb = 0, 1, 2
                    p.objs = list(SCOPES[scope]["objs"])
                    p.extra_pool = ["@fastly.error", "req.restarts"] + ([a] if src != "local" else [])
                    tys = {0: ty, 1: ty, 2: "S", 3: "B", 4: "R", 5: ty, 6: "T"}
                    p.local_ty = dict(tys)
                    body = [("decl", k, t, None) for k, t in sorted(tys.items())]
                    ia, ib = OPERAND_INIT[ty]

                    def raw(text, target, has=()):
                        return ("rawstmt", text, {"target": target, "has": list(has)})
                    if ia is not None:
                        body += [raw("set var.v0 = %s;" % ia, "var.v0"), raw("set var.v1 = %s;" % ib, "var.v1"),
                                 raw("set var.v5 = %s;" % ib, "var.v5")]
                    body += [raw('set var.v2 = "s";', "var.v2"), raw("set var.v3 = true;", "var.v3"), raw("set var.v4 = 3s;", "var.v4"),
                             raw("set var.v6 = time.start;", "var.v6")]
                    if isinstance(tm, tuple):
                        op, e = tm
                        tgt = "var.v6" if res_k == "T" else "var.v5"
                        stmt = raw("set %s %s %s;" % (tgt, op, e.format(a=a, b=b)), tgt, hs)
                        shown = "set %s %s %s;" % (tgt, op, e)
                    elif res_k == STMT:
                        text = tm.format(a=a, b=b)
                        tgt = "var.v2" if "var.v2" in text else ("req.http.hb" if text.startswith("add ") else
                                                                  ("req.http.ha:k1" if text.startswith("set req.http.ha:k1") else None))
                        stmt = raw(text, tgt, hs)
                        shown = tm.replace("{{", "{").replace("}}", "}")
                    else:
                        tgt = {"B": "var.v3", "S": "var.v2", "T": "var.v6", "I": "var.v7", "F": "var.v8", SAME: "var.v5", HDR: "req.http.hc"}[res_k]
                        if tgt in ("var.v7", "var.v8"):
                            k = int(tgt[5:])
                            tys[k] = "I" if k == 7 else "F"
                            p.local_ty[k] = tys[k]
                            body.insert(0, ("decl", k, tys[k], None))
                        stmt = raw("set %s = %s;" % (tgt, tm.format(a=a, b=b)), tgt, hs)
                        shown = "set %s = %s;" % (tgt, tm.replace("{{", "{").replace("}}", "}"))
                    if "f0(" in stmt[1]:
                        p.subs.append((0, [(90, ty)], None, [("decl", 91, "S", None), raw('set var.v91 = "in";', "var.v91")]))
                        p.local_ty.update({90: ty, 91: "S"})
                    if "f1(" in stmt[1]:
                        p.subs.append((1, [(92, ty)], ty, [("ret", ("var", ("l", 92)))]))
                        p.local_ty[92] = ty
                    # twice (an operand shifted in place accumulates), then one more statement: the store is read
                    # after the evaluation, from the same frame
                    body += [stmt, stmt, raw('set var.v2 = "end";', "var.v2")]
                    p.main = body
                    p.cell = (ty, src, fid, shown)
                    out.append(p)
    return out
