"""C17 generators: operation histories on HTTP header variables.

An op is a tuple:  ("g", target) | ("s", target, value) | ("a", name, value) | ("u", target)
target = "Name" or "Name:key"; value = bytes or None (the not-set STRING).
Wire form (implrun hdr / modelrun_hdr):  g T | s T =<hex>|_ | a N =<hex>|_ | u T   joined by ';'.
"""

NAMES = [("Foo", "fOO"), ("X-Bar", "x-bAR"), ("Vary", "VARY")]          # 3 names x 2 spellings
WILDCARDS = ["X-*", "x-*", "fO*", "V*", "*"]                            # wildcard unsets: prefix in both cases, everything
KEYS = ["a", "bc", "k-1"]                                               # 3 sub-field keys
VALUES = [b"x", b"p q,r", b"", None]                                    # token, spaces+separator, empty, not set

SPECIALS = b" =@()[]{}?/\\;:'<>,\t"


def enc_val(v):
    return "_" if v is None else "=" + v.hex()


def wire(ops):
    out = []
    for o in ops:
        if o[0] in ("g", "u", "hg", "B"):
            out.append("%s %s" % (o[0], o[1]))
        else:
            out.append("%s %s %s" % (o[0], o[1], enc_val(o[2])))
    return ";".join(out)


def all_reads(names=None, keys=None):
    """reads of every observable of the small alphabet (first spelling for whole headers, second for sub-fields)"""
    out = []
    for a, b in (names or NAMES):
        out.append(("g", a))
        out.append(("g", b))
        for k in (keys or KEYS):
            out.append(("g", "%s:%s" % (b, k)))
    return out


def small_mutators(names=None, keys=None, values=None, wild=True):
    names = names or NAMES
    keys = keys or KEYS
    values = VALUES if values is None else values
    ops = []
    for pair in names:
        for n in pair:
            for v in values:
                ops.append(("s", n, v))
                ops.append(("a", n, v))
                for k in keys:
                    ops.append(("s", "%s:%s" % (n, k), v))
            ops.append(("u", n))
            for k in keys:
                ops.append(("u", "%s:%s" % (n, k)))
    if wild:
        ops += [("u", w) for w in WILDCARDS]
    return ops


# ---------------------------------------------------------------- random values

def token(rng, n=None):
    n = n or rng.randint(1, 5)
    return bytes(rng.choice(b"abcxyz019-_.!*+") for _ in range(n))


def plain_value(rng):
    """a field value of the property's alphabet without the recorded trouble makers"""
    k = rng.random()
    if k < 0.3:
        return token(rng)
    if k < 0.4:
        return b""
    n = rng.randint(1, 8)
    s = bytes(rng.choice(b"abxy01 " + SPECIALS) for _ in range(n))
    return s


def tricky_value(rng, keys):
    """values aimed at the scanner: embedded `,key=`, quotes, backslashes, newlines"""
    k = rng.random()
    key = rng.choice(keys).encode()
    if k < 0.3:      # embedded key inside a value that will be quoted
        return rng.choice([b"x,", b"x, ", b",", b"a b,"]) + key + rng.choice([b"=1", b" ", b"=", b",", b"", b"=\"q\"", b" =2"])
    if k < 0.45:     # backslashes
        return rng.choice([b"x \\", b"\\", b"a\\\"b c", b"x\\", b"a \\\\", b"\\\" y"])
    if k < 0.6:      # quotes
        return rng.choice([b'"a"', b'"', b'""', b'a"b', b'"a b"', b'x "y" z', b'"a', b'a"'])
    if k < 0.7:      # newline and other blanks
        return rng.choice([b"a\nb", b"a b\nc d", b"\n", b"a\tb", b"a\rb", b" lead", b"trail "])
    if k < 0.8:      # non-ASCII
        return rng.choice(["é".encode(), "日本 語".encode(), b"\xff\xfe", "a,é=1".encode()])
    return bytes(rng.choice(b"ab ,=\"\\;1") for _ in range(rng.randint(1, 10)))


def dict_value(rng, keys, messy=False):
    """a whole-header value that is a list of sub-fields"""
    items = []
    pool = list(keys) + ["zz", "max-age", "Q"]
    rng.shuffle(pool)
    for k in pool[: rng.randint(0, 4)]:
        lead = rng.choice(["", "", " ", "  ", "\t"])
        r = rng.random()
        if r < 0.3:
            it = k
        elif r < 0.7:
            it = "%s=%s" % (k, token(rng).decode())
        else:
            it = '%s="%s"' % (k, rng.choice(["x y", "a;b", "p=q", "1 2 3", "u/v"]))
        if messy:
            it = it + rng.choice(["", " ", "  "])
            if rng.random() < 0.15:
                it = it.replace("=", rng.choice([" =", "= ", " = "]), 1)
        items.append(lead + it)
    if messy and rng.random() < 0.2:
        items.insert(rng.randrange(len(items) + 1), rng.choice(["", " ", "a", "A=9"]))
    return ",".join(items).encode()


def random_name(rng):
    r = rng.random()
    if r < 0.9:
        return rng.choice(rng.choice(NAMES))
    if r < 0.94:
        return rng.choice(["Te", "content-length", "Expect", "fastly-ff"])
    if r < 0.97:
        return rng.choice(["X-*", "x-*", "Fo*", "*"])
    return rng.choice(["Accept", "x_y.z", "A1"])


def random_key(rng):
    r = rng.random()
    k = rng.choice(KEYS)
    if r < 0.2:
        return k.upper()
    if r < 0.25:
        return rng.choice(["zz", "max-age", "q"])
    return k


def random_history(rng, n=None, safe=False):
    """safe=True: only the constructs the C17 theorems cover (the direct oracle is applied to these)"""
    n = n or rng.randint(1, 9)
    ops = []
    for _ in range(n):
        r = rng.random()
        name = rng.choice(rng.choice(NAMES)) if safe else random_name(rng)
        if safe and rng.random() < 0.06:
            name = rng.choice(WILDCARDS + ["X-b*", "x-BAR*", "Foo*", "vAr*", "Fooo*"])
        if name.endswith("*"):
            ops.append(("u", name))
            continue
        key = rng.choice(KEYS) if safe else random_key(rng)
        if safe and rng.random() < 0.3:
            key = key.upper()
        target = name if rng.random() < 0.45 else "%s:%s" % (name, key)
        if r < 0.45:
            if ":" in target:
                if safe:
                    v = plain_value(rng) if rng.random() < 0.9 else None
                else:
                    v = rng.choice([plain_value(rng), tricky_value(rng, KEYS), tricky_value(rng, KEYS), None])
            else:
                q = rng.random()
                if q < 0.5:
                    v = dict_value(rng, KEYS, messy=(not safe and rng.random() < 0.5))
                elif q < 0.6:
                    v = None
                elif q < 0.7:
                    v = b""
                elif safe:
                    v = token(rng)
                else:
                    v = rng.choice([plain_value(rng), tricky_value(rng, KEYS)])
            ops.append(("s", target, v))
        elif r < 0.6:
            q = rng.random()
            v = dict_value(rng, KEYS) if q < 0.5 else (token(rng) if safe else rng.choice([plain_value(rng), b"", None, tricky_value(rng, KEYS)]))
            ops.append(("a", name, v))
        elif r < 0.8:
            ops.append(("u", target))
        else:
            ops.append(("g", target))
    return ops


# ---------------------------------------------------------------- the theorems' value class (Python port of fv_ok)
WS = b"\t\n\x0c\r "
QUOTE_CLASS = b"=@()[]{}?/\;:'<>,"
ALL_KEYS = [k.encode() for k in KEYS] + [b"zz", b"max-age", b"q"]


def needs_quote(s):
    return any(c in WS or c in QUOTE_CLASS for c in s)


def embeds_at(k, b):
    i = 0
    while i < len(b) and b[i] in WS:
        i += 1
    if len(b) < i + len(k) or b[i:i + len(k)].lower() != k.lower():
        return False
    rest = b[i + len(k):]
    return bool(rest) and (rest[0] in WS or rest[0] in b"=,")


def noembed(k, s):
    return not any(s[i] == 0x2C and embeds_at(k, s[i + 1:]) for i in range(len(s)))


def classify_value(s, keys=ALL_KEYS):
    """None when a sub-field value is in the class the C17 theorems cover, else the construct that excludes it"""
    if s is None or s == b"":
        return None
    if b"\n" in s:
        return "newline"
    if any(c >= 0x80 for c in s):
        return None if not needs_quote(s) or all(noembed(k, s) for k in keys) else "embedded-key"
    if needs_quote(s):
        if s.endswith(b"\\"):
            return "trailing-backslash"
        if any(not noembed(k, s.replace(b'"', b'\\"')) for k in keys):
            return "embedded-key"
        return None
    if s.startswith(b'"'):
        return "quoted-token"
    return None


def safe_value(rng):
    while True:
        v = plain_value(rng)
        if classify_value(v) is None:
            return v


def ows_dict_value(rng, keys):
    """a list of sub-fields with optional blanks BEFORE the commas as well (outside the proved class,
    inside the property's alphabet; the direct oracle is applied to it)"""
    items = []
    pool = list(keys) + ["zz", "max-age"]
    rng.shuffle(pool)
    for k in pool[: rng.randint(1, 4)]:
        r = rng.random()
        it = k if r < 0.3 else ("%s=%s" % (k, token(rng).decode()) if r < 0.7 else '%s="%s"' % (k, rng.choice(["x y", "a;b", "1 2"])))
        items.append(rng.choice(["", " ", "  "]) + it + rng.choice(["", " ", "  ", "\t"]))
    return ",".join(items).encode().rstrip(b" \t") if rng.random() < 0.5 else ",".join(items).encode()


def oracle_history(rng, n=None, tricky=False):
    """histories inside the direct oracle's domain: whole-header values are well-formed sub-field lists
    (or tokens / empty / not set), sub-field values are in the proved class - or, with tricky=True,
    sometimes one of the recorded trouble makers (the oracle then attributes a violation to it)"""
    n = n or rng.randint(1, 8)
    ops = []
    for _ in range(n):
        r = rng.random()
        if rng.random() < 0.07:
            ops.append(("u", rng.choice(WILDCARDS + ["X-b*", "x-BAR*", "Foo*", "vAr*", "Fooo*", "X-Bar-*"])))
            continue
        name = rng.choice(rng.choice(NAMES))
        key = rng.choice(KEYS)
        if rng.random() < 0.3:
            key = key.upper()
        target = name if rng.random() < 0.4 else "%s:%s" % (name, key)
        if r < 0.5:
            if ":" in target:
                q = rng.random()
                if q < 0.1:
                    v = None
                elif tricky and q < 0.45:
                    v = tricky_value(rng, KEYS)
                    if classify_value(v) == "newline" or any(c >= 0x80 for c in v):
                        v = safe_value(rng)
                else:
                    v = safe_value(rng)
            else:
                q = rng.random()
                v = (dict_value(rng, KEYS) if q < 0.4 else ows_dict_value(rng, KEYS) if q < 0.6 else None if q < 0.7
                     else b"" if q < 0.8 else token(rng))
            ops.append(("s", target, v))
        elif r < 0.62:
            ops.append(("a", name, dict_value(rng, KEYS) if rng.random() < 0.6 else token(rng)))
        elif r < 0.85:
            ops.append(("u", target))
        else:
            ops.append(("g", target))
    return ops


def instrument(ops, reads):
    """append the full read set after every mutating operation"""
    out = []
    for o in ops:
        out.append(o)
        if o[0] not in ("g", "hg"):
            out.extend(reads)
    return out


def cut_lf(v):
    return v.split(b"\n", 1)[0]


def oracle(ops, reads, replies):
    """Direct oracle on ONE side's replies (independent of the model): the store laws of C17 evaluated on
    an instrumented history.  Returns a list of (message, kind) - kind names the recorded construct
    the violation is attributed to (or None)."""
    out = []
    nread = len(reads)
    prev = {t[1]: "N" for t in reads}
    taint = {}          # lower-cased header name -> kind
    i = 0
    for o in ops:
        if o[0] == "g":
            i += 1
            continue
        st = replies[i]
        cur = dict(zip([t[1] for t in reads], replies[i + 1:i + 1 + nread]))
        i += 1 + nread
        if len(cur) != nread:
            out.append(("short reply", None))
            break
        if st != "ok":
            out.append(("%s %s -> %s (expected ok)" % (o[0], o[1], st), None))
            prev = cur
            continue
        if o[0] == "u" and o[1].endswith("*"):
            # wildcard unset: every header whose name starts with the prefix (without case) reads as not set, as a whole
            # and in every sub-field; every other read is unchanged; the spellings of a name agree
            pre = o[1][:-1].lower()
            for g_ in [x for x in taint if x.startswith(pre)]:
                taint.pop(g_, None)
            for a, b in NAMES:
                if cur.get(a) != cur.get(b):
                    out.append(("spellings %s / %s read %s / %s after u %s" % (a, b, cur.get(a), cur.get(b), o[1]), None))
            for t, rep in cur.items():
                th = t.partition(":")[0]
                if th.lower().startswith(pre):
                    if rep != "N":
                        out.append(("after wildcard unset %s: %s reads %s, expected N (not set)" % (o[1], t, rep), None))
                elif rep != prev[t]:
                    out.append(("wildcard unset %s changed the read of %s: %s -> %s" % (o[1], t, prev[t], rep), None))
            prev = cur
            continue
        hname, _, key = o[1].partition(":")
        g = hname.lower()
        if o[0] == "s" and key and o[2] is not None:
            kd = classify_value(o[2])
            if kd and g not in taint:
                taint[g] = kd
        if o[0] in ("s", "u") and not key:
            taint.pop(g, None)
        kind = taint.get(g)
        # spellings agree
        for a, b in NAMES:
            if cur.get(a) != cur.get(b):
                out.append(("spellings %s / %s read %s / %s after %s %s" % (a, b, cur.get(a), cur.get(b), o[0], o[1]), None))
        for t, rep in cur.items():
            th, _, tk = t.partition(":")
            if th.lower() != g:
                if rep != prev[t]:
                    out.append(("%s %s changed the read of %s: %s -> %s" % (o[0], o[1], t, prev[t], rep), None))
                continue
            exp = None
            if not key:
                if o[0] == "s" and o[2] is not None and not tk:
                    exp = ["S" + cut_lf(o[2]).hex()]
                elif o[0] == "u" or (o[0] == "s" and o[2] is None):
                    exp = ["N"]
                elif o[0] == "a":
                    # add appends: a header that already had a non-empty first value keeps every read
                    whole = prev.get(th, "N")
                    if whole.startswith("S") and len(whole) > 1:
                        exp = [prev[t]]
            else:
                if tk and tk.lower() == key.lower():
                    if o[0] == "s" and o[2] is not None:
                        exp = ["S" + o[2].hex()]
                    elif o[0] == "s":
                        exp = ["S"] + (["N"] if len(key) == 1 else [])
                    else:
                        exp = ["N"]
                elif tk:
                    exp = [prev[t]]
            if exp is not None and rep not in exp:
                out.append(("after %s %s%s: %s reads %s, expected %s" % (
                    o[0], o[1], "" if len(o) < 3 else (" = " + repr(o[2])), t, rep, " or ".join(exp)), kind))
        prev = cur
    return out


# ---------------------------------------------------------------- several objects of one request
SCOPE_OBJS = {"RECV": ["req"], "HASH": ["req"], "HIT": ["req", "obj"], "MISS": ["req", "bereq"], "PASS": ["req", "bereq"],
              "FETCH": ["req", "bereq", "beresp"], "ERROR": ["req", "obj"], "DELIVER": ["req", "resp"], "LOG": ["req", "resp"]}
MULTI_SCOPES = ["HIT", "MISS", "PASS", "FETCH", "ERROR", "DELIVER", "LOG"]
# walks through the state machine; a response object may be rebuilt from another on the way
PATHS = [["MISS", "FETCH", "DELIVER", "LOG"], ["PASS", "FETCH", "DELIVER", "LOG"], ["HIT", "DELIVER", "LOG"],
         ["MISS", "FETCH", "ERROR", "DELIVER", "LOG"], ["RECV", "HASH", "MISS", "FETCH", "DELIVER"], ["RECV", "ERROR", "DELIVER"],
         ["FETCH"], ["MISS"], ["PASS"], ["DELIVER", "LOG"], ["FETCH", "DELIVER"]]
DERIVE_ON_ENTRY = {"DELIVER": ["resp<beresp", "resp<obj"], "HIT": ["obj<beresp"], "ERROR": ["obj<beresp"]}


def multi_reads(scope, names=None, keys=("a",)):
    out = []
    for ob in SCOPE_OBJS[scope]:
        for a, b in (names or NAMES):
            out.append(("g", "%s.%s" % (ob, a)))
            out.append(("g", "%s.%s" % (ob, b)))
            for k in keys:
                out.append(("g", "%s.%s:%s" % (ob, b, k)))
    return out


def whole_value(rng):
    q = rng.random()
    if q < 0.3:
        return b""
    if q < 0.4:
        return None
    if q < 0.7:
        return token(rng)
    return dict_value(rng, KEYS)


def multi_op(rng, scope):
    ob = rng.choice(SCOPE_OBJS[scope])
    name = rng.choice(rng.choice(NAMES))
    r = rng.random()
    if r < 0.45:
        return ("s", "%s.%s" % (ob, name), whole_value(rng))
    if r < 0.6:
        return ("s", "%s.%s:%s" % (ob, name, rng.choice(["a", "A", "bc"])), rng.choice([b"", None, safe_value(rng)]))
    if r < 0.72:
        return ("a", "%s.%s" % (ob, name), rng.choice([b"", token(rng), None]))
    if r < 0.9:
        return ("u", "%s.%s" % (ob, name))
    return ("u", "%s.%s:%s" % (ob, name, rng.choice(["a", "bc"])))


def multi_history(rng):
    """(pre-ops on req, ops): ops walk a path of scopes, 0-4 operations per scope on any object writable there,
    every mutating step followed by the reads of every object of the current scope"""
    pre = []
    for _ in range(rng.choice([0, 1, 1, 2, 3])):
        o = multi_op(rng, "RECV")
        pre.append(o)
        pre.extend(multi_reads("RECV"))
    ops = []
    for sc in rng.choice(PATHS):
        ops.append(("@", sc))
        if sc in DERIVE_ON_ENTRY and rng.random() < 0.6:
            ops.append(("d", rng.choice(DERIVE_ON_ENTRY[sc])))
        ops.extend(multi_reads(sc))
        for _ in range(rng.randint(0, 4)):
            ops.append(multi_op(rng, sc))
            ops.extend(multi_reads(sc))
    return pre, ops


def multi_small_ops(scope):
    out = []
    for ob in SCOPE_OBJS[scope]:
        for n in ("Foo", "fOO"):
            for v in (b"x", b"", None):
                out.append(("s", "%s.%s" % (ob, n), v))
                out.append(("a", "%s.%s" % (ob, n), v))
                out.append(("s", "%s.%s:a" % (ob, n), v))
            out.append(("u", "%s.%s" % (ob, n)))
            out.append(("u", "%s.%s:a" % (ob, n)))
    return out


def mwire(ops):
    out = []
    for o in ops:
        if o[0] == "@":
            out.append("@" + o[1])
        elif o[0] == "d":
            out.append("d " + o[1])
        elif o[0] in ("g", "u"):
            out.append("%s %s" % (o[0], o[1]))
        else:
            out.append("%s %s %s" % (o[0], o[1], enc_val(o[2])))
    return ";".join(out)


def oracle_multi(pre, ops, replies):
    """Direct oracle (no model) for several objects: an operation on one object changes no read of any other
    object; a rebuilt object reads what its source reads (an empty value reads as not set); switching the scope
    changes nothing.  replies = the reply items for pre + ['|'] + ops."""
    out = []
    known = {}           # "obj.target" -> last reply
    seq = list(pre) + [("|",)] + list(ops)
    last = None          # the last mutating step
    for o, rep in zip(seq, replies):
        if o[0] == "|":
            # bereq (and the response objects) are rebuilt from req: what is known about them is void
            exp = {}
            for t, v in known.items():
                if t.startswith("req."):
                    exp["bereq." + t[4:]] = v if (":" in t or (v.startswith("S") and len(v) > 1)) else "N"
            known = {t: v for t, v in known.items() if t.startswith("req.")}
            known.update(exp)
            last = ("rebuild", "bereq")
            continue
        if o[0] == "g":
            t = o[1]
            if t in known and known[t] != rep and last is not None:
                ob = t.split(".", 1)[0]
                if last[1] != ob:
                    out.append("%s changed the read of %s (another object): %s -> %s" % (last[0], t, known[t], rep))
            known[t] = rep
            continue
        if o[0] == "@":
            continue
        if o[0] == "d":
            dst, src = o[1].split("<")
            exp = {}
            for t, v in known.items():
                if t.startswith(src + "."):
                    exp[dst + "." + t[len(src) + 1:]] = v if (":" in t or (v.startswith("S") and len(v) > 1)) else "N"
            known = {t: v for t, v in known.items() if not t.startswith(dst + ".")}
            # what the rebuilt object must read is checked as a change made by "another object" = the derive itself
            for t, v in exp.items():
                known[t] = v
            last = ("d " + o[1], "-derive-")
            continue
        last = ("%s %s%s" % (o[0], o[1], "" if len(o) < 3 else " = %r" % (o[2],)), o[1].split(".", 1)[0])
    return out


# ---------------------------------------------------------------- special names, several lines, scale
SPECIAL_NAMES = [("Cookie", "cOOkie"), ("Set-Cookie", "set-cookie"), ("Vary", "VARY"), ("Cache-Control", "cache-control"),
                 ("Surrogate-Key", "surrogate-KEY"), ("Surrogate-Control", "SURROGATE-control"), ("Host", "hOST"),
                 ("Content-Length", "content-length"), ("Fastly-FF", "fastly-ff"), ("X_a.b1", "x_A.B1"), ("X-9", "x-9"),
                 ("X-" + "Long" * 28, "x-" + "long" * 28)]
PROTECTED = {"content-length", "fastly-ff", "te", "expect", "trailer", "upgrade", "transfer-encoding", "content-range",
             "proxy-authenticate", "proxy-authotization"}
SKEYS = ["a", "b", "sid", "a1", "ab", "max-age"]


def cookie_value(rng):
    r = rng.random()
    if r < 0.5:
        return token(rng)
    if r < 0.65:
        return rng.choice([b"x y", b"1,2", b"a b,c"])
    if r < 0.75:
        return b""
    return rng.choice([b'x"y', "é".encode(), b"a;b", b"back\\slash", b'"q"', b"ctl\x01", b"=eq=", b"sp ace="])


def line_value(rng, cookie):
    n = rng.randint(1, 3)
    items = []
    for _ in range(n):
        k = rng.choice(SKEYS)
        r = rng.random()
        items.append(k if r < 0.15 else "%s=%s" % (k, token(rng).decode()) if r < 0.8 else '%s="%s"' % (k, rng.choice(["x y", "1,2", "q"])))
    sep = rng.choice(["; ", ";", " ; "]) if cookie else rng.choice([", ", ",", " , "])
    if rng.random() < 0.1:
        return rng.choice([b"", b"abc", b"  ", b"=", b";", b"a", b"a="])
    return sep.join(items).encode()


def special_reads(pair, with_fn=True):
    a, b = pair
    out = [("g", a), ("g", b)]
    for k in SKEYS[:5]:
        out.append(("g", "%s:%s" % (b, k)))
    out.append(("g", "%s:A" % a))
    if with_fn and len(a) <= 100:
        out += [("hg", a), ("hg", b), ("hg", "%s:a" % a), ("hg", "%s:sid" % b)]
    return out


def special_history(rng, n=None):
    """one header name with special handling (or an unusual spelling): several lines (add), sub-field operations on
    keys that live on any line, every mutating step surrounded by reads through every access path"""
    pair = rng.choice(SPECIAL_NAMES if rng.random() < 0.8 else NAMES)
    cookie = pair[0].lower() in ("cookie", "set-cookie")
    rd = special_reads(pair)
    ops = list(rd)
    for _ in range(n or rng.randint(2, 6)):
        name = rng.choice(pair)
        r = rng.random()
        if r < 0.2:
            o = ("s", name, rng.choice([line_value(rng, cookie), b"", None, token(rng)]))
        elif r < 0.45:
            o = ("a", name, line_value(rng, cookie))
        elif r < 0.7:
            o = ("s", "%s:%s" % (name, rng.choice(SKEYS)), cookie_value(rng) if rng.random() < 0.85 else None)
        elif r < 0.88:
            o = ("u", "%s:%s" % (name, rng.choice(SKEYS)))
        else:
            o = ("u", name)
        ops.append(o)
        ops.extend(rd)
    return pair, ops


def big_dict(rng, n=50):
    """many sub-fields whose keys are prefixes of each other"""
    keys = []
    base = rng.choice(["k", "a", "max"])
    for i in range(n):
        keys.append(base + "".join(str((i >> j) & 1) for j in range(i % 7)) + ("-%d" % i if i % 3 == 0 else ""))
    seen, items = set(), []
    for k in keys:
        if k.lower() in seen:
            continue
        seen.add(k.lower())
        items.append("%s=%s" % (k, token(rng).decode()))
    return ", ".join(items).encode(), [x.split("=")[0] for x in items]


def scale_history(rng, ballast):
    """an object that holds many headers: the laws on a few headers, the rest is ballast"""
    pair = rng.choice(NAMES + [("Ballast-3", "ballast-3"), ("Ballast-0", "BALLAST-0"), ("Cache-Control", "cache-control")])
    rd = [("g", pair[0]), ("g", pair[1]), ("g", "%s:a" % pair[1]), ("g", "Ballast-1"), ("g", "ballast-%d" % max(0, ballast - 1)),
          ("hg", pair[1])]
    ops = []
    first = [("s", pair[0], rng.choice([b"x", b"a=1, bc=2", b""]))] if rng.random() < 0.7 else []
    if rng.random() < 0.5:
        ops += first + [("B", str(ballast))]
    else:
        ops += [("B", str(ballast))] + first
    ops += rd
    for _ in range(rng.randint(2, 5)):
        name = rng.choice(pair)
        r = rng.random()
        if r < 0.4:
            q = rng.random()
            v = (b"v" * rng.choice([8192, 65536]) if q < 0.08 else big_dict(rng)[0] if q < 0.2
                 else rng.choice([token(rng), b"", b"a=1, bc=2", None]))
            o = ("s", name, v)
        elif r < 0.55:
            o = ("a", name, token(rng))
        elif r < 0.8:
            o = ("s", "%s:%s" % (name, rng.choice(["a", "bc", "k", "k1"])), rng.choice([token(rng), b"x y", b""]))
        elif r < 0.9:
            o = ("u", "%s:%s" % (name, rng.choice(["a", "k0", "k"])))
        else:
            o = ("u", name)
        ops.append(o)
        ops.extend(rd)
    return ops


def xwire(ops):
    out = []
    for o in ops:
        if o[0] in ("g", "u", "hg", "B"):
            out.append("%s %s" % (o[0], o[1]))
        else:
            out.append("%s %s %s" % (o[0], o[1], enc_val(o[2])))
    return ";".join(out)


def valid_cookie_value(v):
    return v is not None and all(0x20 <= c < 0x7f and c not in b'";\\' for c in v)


def oracle_special(ops, replies, request_object=True):
    """Direct oracle (no model) for one header name: writes to a header that is not protected succeed; after a whole
    set every spelling reads the value through both read paths; after unset not set; a cookie set with a value a cookie
    can carry reads back (request objects only: elsewhere Cookie is an ordinary header); the two spellings always read the same."""
    out = []
    last = None
    block = {}
    for o, rep in zip(ops, replies):
        if o[0] in ("s", "a", "u", "B"):
            hname = o[1].split(":")[0].lower()
            if o[0] != "B" and hname not in PROTECTED and not (o[1].lower().split(":")[0] in PROTECTED) and rep != "ok":
                out.append("%s %s is refused (%s)" % (o[0], o[1], rep))
            if o[0] == "B" and rep != "ok":
                out.append("setting %s ballast headers fails" % o[1])
            last = o if rep == "ok" else None
            block = {}
            continue
        block[(o[0], o[1])] = rep
        # spellings agree
        for (k, t), v in list(block.items()):
            if k == o[0] and t != o[1] and t.lower() == o[1].lower() and ":" not in t and v != rep:
                out.append("%s of %s and %s differ: %s / %s" % (k, t, o[1], v, rep))
        if last is None:
            continue
        ln, _, lk = last[1].partition(":")
        tn, _, tk = o[1].partition(":")
        if tn.lower() != ln.lower() or ln.lower() in PROTECTED:
            continue
        if last[0] == "s" and not lk and not tk and last[2] is not None:
            want = "S" + cut_lf(last[2]).hex()
            if rep != want and not (o[0] == "g" and False):
                out.append("after set %s = %r: %s %s reads %s, expected %s" % (last[1], last[2][:40], o[0], o[1], rep[:60], want[:60]))
        elif ((last[0] == "u" and not lk) or (last[0] == "s" and not lk and last[2] is None)) and not tk:
            want = "N" if o[0] == "g" else "S"
            if rep != want:
                out.append("after %s %s: %s %s reads %s, expected %s" % (last[0], last[1], o[0], o[1], rep[:60], want))
        elif last[0] == "s" and lk and o[0] == "g" and tk == lk and ln.lower() == "cookie" and request_object and valid_cookie_value(last[2]) \
                and not (len(last[2]) > 1 and last[2][:1] == b'"' and last[2][-1:] == b'"'):
            if rep != "S" + last[2].hex():
                out.append("after set %s = %r: %s reads %s" % (last[1], last[2], o[1], rep[:60]))
    return out
