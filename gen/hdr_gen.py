"""C17 generators: operation histories on HTTP header variables.

An op is a tuple:  ("g", target) | ("s", target, value) | ("a", name, value) | ("u", target)
target = "Name" or "Name:key"; value = bytes or None (the not-set STRING).
Wire form (implrun hdr / modelrun_hdr):  g T | s T =<hex>|_ | a N =<hex>|_ | u T   joined by ';'.
"""

NAMES = [("Foo", "fOO"), ("X-Bar", "x-bAR"), ("Vary", "VARY")]          # 3 names x 2 spellings
KEYS = ["a", "bc", "k-1"]                                               # 3 sub-field keys
VALUES = [b"x", b"p q,r", b"", None]                                    # token, spaces+separator, empty, not set

SPECIALS = b" =@()[]{}?/\\;:'<>,\t"


def enc_val(v):
    return "_" if v is None else "=" + v.hex()


def wire(ops):
    out = []
    for o in ops:
        if o[0] in ("g", "u"):
            out.append("%s %s" % (o[0], o[1]))
        else:
            out.append("%s %s %s" % (o[0], o[1], enc_val(o[2])))
    return ";".join(out)


def all_reads(names=None, keys=None):
    """reads of every observable of the small alphabet (first spelling for whole headers, second for sub-fields)"""
    out = []
    for a, b in (names or NAMES):
        out.append(("g", a))
        out.append(("g", b))
        for k in (keys or KEYS):
            out.append(("g", "%s:%s" % (b, k)))
    return out


def small_mutators(names=None, keys=None, values=None):
    names = names or NAMES
    keys = keys or KEYS
    values = VALUES if values is None else values
    ops = []
    for pair in names:
        for n in pair:
            for v in values:
                ops.append(("s", n, v))
                ops.append(("a", n, v))
                for k in keys:
                    ops.append(("s", "%s:%s" % (n, k), v))
            ops.append(("u", n))
            for k in keys:
                ops.append(("u", "%s:%s" % (n, k)))
    return ops


# ---------------------------------------------------------------- random values

def token(rng, n=None):
    n = n or rng.randint(1, 5)
    return bytes(rng.choice(b"abcxyz019-_.!*+") for _ in range(n))


def plain_value(rng):
    """a field value of the property's alphabet without the recorded trouble makers"""
    k = rng.random()
    if k < 0.3:
        return token(rng)
    if k < 0.4:
        return b""
    n = rng.randint(1, 8)
    s = bytes(rng.choice(b"abxy01 " + SPECIALS) for _ in range(n))
    return s


def tricky_value(rng, keys):
    """values aimed at the scanner: embedded `,key=`, quotes, backslashes, newlines"""
    k = rng.random()
    key = rng.choice(keys).encode()
    if k < 0.3:      # embedded key inside a value that will be quoted
        return rng.choice([b"x,", b"x, ", b",", b"a b,"]) + key + rng.choice([b"=1", b" ", b"=", b",", b"", b"=\"q\"", b" =2"])
    if k < 0.45:     # backslashes
        return rng.choice([b"x \\", b"\\", b"a\\\"b c", b"x\\", b"a \\\\", b"\\\" y"])
    if k < 0.6:      # quotes
        return rng.choice([b'"a"', b'"', b'""', b'a"b', b'"a b"', b'x "y" z', b'"a', b'a"'])
    if k < 0.7:      # newline and other blanks
        return rng.choice([b"a\nb", b"a b\nc d", b"\n", b"a\tb", b"a\rb", b" lead", b"trail "])
    if k < 0.8:      # non-ASCII
        return rng.choice(["é".encode(), "日本 語".encode(), b"\xff\xfe", "a,é=1".encode()])
    return bytes(rng.choice(b"ab ,=\"\\;1") for _ in range(rng.randint(1, 10)))


def dict_value(rng, keys, messy=False):
    """a whole-header value that is a list of sub-fields"""
    items = []
    pool = list(keys) + ["zz", "max-age", "Q"]
    rng.shuffle(pool)
    for k in pool[: rng.randint(0, 4)]:
        lead = rng.choice(["", "", " ", "  ", "\t"])
        r = rng.random()
        if r < 0.3:
            it = k
        elif r < 0.7:
            it = "%s=%s" % (k, token(rng).decode())
        else:
            it = '%s="%s"' % (k, rng.choice(["x y", "a;b", "p=q", "1 2 3", "u/v"]))
        if messy:
            it = it + rng.choice(["", " ", "  "])
            if rng.random() < 0.15:
                it = it.replace("=", rng.choice([" =", "= ", " = "]), 1)
        items.append(lead + it)
    if messy and rng.random() < 0.2:
        items.insert(rng.randrange(len(items) + 1), rng.choice(["", " ", "a", "A=9"]))
    return ",".join(items).encode()


def random_name(rng):
    r = rng.random()
    if r < 0.9:
        return rng.choice(rng.choice(NAMES))
    if r < 0.94:
        return rng.choice(["Te", "content-length", "Expect", "fastly-ff"])
    if r < 0.97:
        return rng.choice(["X-*", "x-*", "Fo*", "*"])
    return rng.choice(["Accept", "x_y.z", "A1"])


def random_key(rng):
    r = rng.random()
    k = rng.choice(KEYS)
    if r < 0.2:
        return k.upper()
    if r < 0.25:
        return rng.choice(["zz", "max-age", "q"])
    return k


def random_history(rng, n=None, safe=False):
    """safe=True: only the constructs the C17 theorems cover (the direct oracle is applied to these)"""
    n = n or rng.randint(1, 9)
    ops = []
    for _ in range(n):
        r = rng.random()
        name = rng.choice(rng.choice(NAMES)) if safe else random_name(rng)
        if name.endswith("*"):
            ops.append(("u", name))
            continue
        key = rng.choice(KEYS) if safe else random_key(rng)
        if safe and rng.random() < 0.3:
            key = key.upper()
        target = name if rng.random() < 0.45 else "%s:%s" % (name, key)
        if r < 0.45:
            if ":" in target:
                if safe:
                    v = plain_value(rng) if rng.random() < 0.9 else None
                else:
                    v = rng.choice([plain_value(rng), tricky_value(rng, KEYS), tricky_value(rng, KEYS), None])
            else:
                q = rng.random()
                if q < 0.5:
                    v = dict_value(rng, KEYS, messy=(not safe and rng.random() < 0.5))
                elif q < 0.6:
                    v = None
                elif q < 0.7:
                    v = b""
                elif safe:
                    v = token(rng)
                else:
                    v = rng.choice([plain_value(rng), tricky_value(rng, KEYS)])
            ops.append(("s", target, v))
        elif r < 0.6:
            q = rng.random()
            v = dict_value(rng, KEYS) if q < 0.5 else (token(rng) if safe else rng.choice([plain_value(rng), b"", None, tricky_value(rng, KEYS)]))
            ops.append(("a", name, v))
        elif r < 0.8:
            ops.append(("u", target))
        else:
            ops.append(("g", target))
    return ops
