"""LONG HISTORIES WITH TIME for C08 (implrun simhist): hundreds / thousands of requests against ONE simulator,
interleaved with clock jumps (Interpreter.VerifAdvanceClock, add-only hook), exercising every piece of
per-simulator state that grows: rate counter entries, penalty boxes, cached objects, call statistics.
Oracle: every request ends (watchdog), no panic / fatal error, restarts <= 3."""
from gen import simgen

DECLS = ("ratecounter rc0 {}\nratecounter rc1 {}\npenaltybox pb0 {}\npenaltybox pb1 {}\n"
         'table t0 { "a": "1", "b": "2" }\n')

KEYS = ['"k"', "req.http.Key", "req.url.path", "client.ip", 'req.http.Key "-" req.url.path', '""']
WINDOWS = [1, 10, 60]
TTLS = ["1s", "10s", "60s", "2m", "1h"]


def stateful_statement(rng, stats):
    k = rng.random()
    key = rng.choice(KEYS)
    rc = rng.choice(["rc0", "rc1"])
    pb = rng.choice(["pb0", "pb1"])
    if k < 0.4:
        stats["ratecounter_increment"] = stats.get("ratecounter_increment", 0) + 1
        return "set var.n = ratelimit.ratecounter_increment(%s, %s, %d);" % (rc, key, rng.choice([1, 1, 2, 100, 0]))
    if k < 0.6:
        stats["check_rate"] = stats.get("check_rate", 0) + 1
        return "set var.b = ratelimit.check_rate(%s, %s, %d, %d, %d, %s, %s);" % (
            key, rc, rng.choice([1, 2]), rng.choice(WINDOWS), rng.choice([1, 10, 1000]), pb, rng.choice(TTLS))
    if k < 0.7:
        stats["check_rates"] = stats.get("check_rates", 0) + 1
        return "set var.b = ratelimit.check_rates(%s, rc0, 1, %d, %d, rc1, 1, %d, %d, %s, %s);" % (
            key, rng.choice(WINDOWS), rng.choice([1, 100]), rng.choice(WINDOWS), rng.choice([1, 100]), pb, rng.choice(TTLS))
    if k < 0.8:
        stats["penaltybox_add"] = stats.get("penaltybox_add", 0) + 1
        return "ratelimit.penaltybox_add(%s, %s, %s);" % (pb, key, rng.choice(TTLS))
    if k < 0.88:
        stats["penaltybox_has"] = stats.get("penaltybox_has", 0) + 1
        return "set var.b = ratelimit.penaltybox_has(%s, %s);" % (pb, key)
    if k < 0.95:
        stats["ratecounter variable"] = stats.get("ratecounter variable", 0) + 1
        return 'set req.http.R = ratecounter.%s.bucket.%s ":" ratecounter.%s.rate.%s;' % (rc, rng.choice(["10s", "60s"]), rc, rng.choice(["1s", "10s", "60s"]))
    stats["call"] = stats.get("call", 0) + 1
    return "call helper;"


def program(stmts, repeat=1, ttl="10s", route="lookup"):
    body = "".join("  " + st + "\n" for st in stmts) * repeat
    return (simgen.BACKEND + DECLS + 'sub helper { set req.http.H = "1"; }\n'
            "sub vcl_recv {\n  declare local var.n INTEGER;\n  declare local var.b BOOL;\n" + body +
            {"lookup": "  return(lookup);\n", "pass": "  return(pass);\n", "error": "  error 601;\n"}[route] + "}\n"
            "sub vcl_fetch {\n  set beresp.ttl = %s;\n  return(deliver);\n}\n" % ttl +
            'sub vcl_error {\n  set obj.status = 200;\n  synthetic "x";\n  return(deliver);\n}\n')


JUMPS = [0.5, 5, 9, 11, 61, 71, 100, 3601, 90000]


def gen_history(rng, stats):
    stmts = [stateful_statement(rng, stats) for _ in range(rng.randint(1, 4))]
    repeat = rng.choice([1, 1, 5, 20, 60])
    prog = program(stmts, repeat, rng.choice(TTLS), rng.choice(["lookup", "lookup", "pass", "error"]))
    ops = []
    budget = rng.choice([200, 600, 1500])
    for _ in range(rng.randint(2, 7)):
        n = max(1, min(budget, rng.choice([1, 3, 20, 100, 600]) // (1 if repeat < 20 else 4)))
        url = rng.choice(["/a", "/a", "/b?x=%d", "/p/%d"])
        ops.append("R%d:%s=%s" % (n, rng.choice(["GET", "GET", "POST"]), url.encode().hex()))
        ops.append("A%s" % rng.choice(JUMPS))
    ops.append("R3:GET=%s" % "/a".encode().hex())
    return prog, ";".join(ops)


def growth_sweep(thorough=True):
    """each kind of growing state x size {1, 100, 511, 512, 513, 1500} x idle time {0, 9, 61, 71, 3601} s, then touched again"""
    feats = {
        "ratecounter entry": ('set var.n = ratelimit.ratecounter_increment(rc0, "k", 1);', 50, "error"),
        "check_rate entry": ('set var.b = ratelimit.check_rate("k", rc0, 1, 10, 1000000, pb0, 1m);', 50, "error"),
        "penalty box": ("ratelimit.penaltybox_add(pb0, req.url.path, 1m);", 1, "error"),
        "cached objects": ('set req.http.X = "1";', 1, "lookup"),
        "subroutine calls": ("call helper;", 50, "error"),
    }
    for name, (stmt, per_request, route) in feats.items():
        sizes = (1, 100, 511, 512, 513, 1500) if per_request > 1 else (1, 100, 513, 1500)
        idles = (0, 9, 61, 71, 3601) if per_request > 1 else (0, 71, 3601)
        if not thorough:          # quick: the sizes around the thresholds and the idle times around the windows
            sizes = (1, 511, 513, 1500) if per_request > 1 else (1, 513)
            idles = (0, 71, 3601)
        for size in sizes:
            for idle in idles:
                rep = per_request if size >= per_request else 1
                nreq, rest = divmod(size, rep)
                prog = program([stmt], rep, "60s", route)
                one = program([stmt], 1, "60s", route)
                ops = ["R%d:GET=%s" % (nreq, "/g/%d".encode().hex())] if nreq else []
                # the remainder with a single statement per request uses the same simulator? no: one program per history;
                # sizes that are not a multiple are rounded up to the next multiple through extra requests of the same program
                if rest:
                    ops.append("R1:GET=%s" % "/g/%d".encode().hex())
                ops += ["A%d" % idle, "R2:GET=%s" % "/g/%d".encode().hex()]
                yield name, size, idle, prog, ";".join(ops)
