"""Read-your-write for the writable predefined variables (C07): every variable of __generator__/predefined.yml that
can be both read and assigned with one scalar type (INTEGER FLOAT BOOL RTIME STRING IP), in every scope where it is
allowed: read, assign a, read, assign b, read (implrun rwvar).  The table is read from the repository on every run."""
import os
import yaml

LIT = {"INTEGER": ("5", "7"), "FLOAT": ("1.5", "2.5"), "BOOL": ("true", "false"), "RTIME": ("5s", "7s"),
       "STRING": ('"abc"', '"xyz"'), "IP": ('"1.2.3.4"', '"5.6.7.8"')}


def cases(repo):
    d = yaml.safe_load(open(os.path.join(repo, "__generator__", "predefined.yml")))
    out = []
    for name, v in sorted(d.items()):
        if not isinstance(v, dict) or "%" in name or "set" not in v or "get" not in v:
            continue
        if v["get"] != v["set"] or v["set"] not in LIT:
            continue
        a, b = LIT[v["set"]]
        for sc in v.get("on") or v.get(True) or []:      # YAML 1.1 reads the key `on` as a boolean
            out.append((sc, name, v["set"], "%s %s %s %s" % (sc, name, a.encode().hex(), b.encode().hex())))
    return out
