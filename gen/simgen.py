"""Whole-request programs for C08 (implrun simrun):
 (A) control skeletons (calls incl. recursive / mutually recursive / chains around the depth limit,
     restart; / return(restart); conditional on req.restarts, error;) rendered as VCL and as the
     model's S-expression (Model/Exec.v serve);
 (B) include graphs (root level and statement level, acyclic incl. diamonds, self and mutual
     cycles) rendered as modules and as the model's item lists (Model/Include.v resolve);
 (C) scope programs: unconditional restart / return(restart) / error / recursion in every
     subroutine of the request flow, totality only (value or error, never crash / hang).
The backend of the generated services is the loopback server implrun starts itself
(__BACKEND_HOST__/__BACKEND_PORT__ are substituted by the harness)."""

BACKEND = 'backend b0 { .host = "__BACKEND_HOST__"; .port = "__BACKEND_PORT__"; .ssl = false; }\n'
VCL_ERROR = 'sub vcl_error { set obj.status = 200; synthetic "x"; return(deliver); }\n'


# ---------------------------------------------------------------- (A) skeletons

def gen_block(rng, nsubs, depth, allow_restart=True):
    out = []
    for _ in range(rng.randint(0, 3)):
        k = rng.random()
        if k < 0.35:
            out.append(("skip",))
        elif k < 0.6:
            out.append(("call", rng.randrange(nsubs)))
        elif k < 0.75 and depth > 0:
            out.append(("if", rng.randint(0, 1), gen_block(rng, nsubs, depth - 1), gen_block(rng, nsubs, depth - 1)))
        elif k < 0.9 and depth > 0 and allow_restart:
            out.append(("ifr", rng.randint(0, 5), gen_block(rng, nsubs, depth - 1), gen_block(rng, nsubs, depth - 1)))
        elif k < 0.95 and allow_restart:
            out.append(("restart",) if rng.random() < 0.5 else ("ret", "restart"))
        else:
            out.append(("error",))
    return out


def gen_skeleton(rng, stats):
    k = rng.random()
    if k < 0.18:      # chain around the call-depth limit
        n = rng.choice([2, 50, 98, 99, 100, 101, 102, 150])
        subs = [[("call", i + 1)] for i in range(n - 1)] + [[("skip",)]]
        subs[0].append(("error",))
        stats["chain"] = stats.get("chain", 0) + 1
        return subs
    if k < 0.28:      # self / mutual recursion, guarded or not
        kind = rng.choice(["self", "mutual", "deep-mutual"])
        stats[kind] = stats.get(kind, 0) + 1
        if kind == "self":
            return [[("call", 1), ("error",)], [("skip",), ("call", 1)]]
        if kind == "mutual":
            return [[("call", 1), ("error",)], [("call", 2)], [("if", 1, [("call", 1)], [])]]
        return [[("call", 1), ("error",)], [("call", 2)], [("call", 3)], [("call", 1)]]
    if k < 0.42:      # restart patterns
        r = rng.randint(0, 5)
        stats["restart-k"] = stats.get("restart-k", 0) + 1
        how = ("restart",) if rng.random() < 0.5 else ("ret", "restart")
        body = [("ifr", r, [how], []), ("error",)]
        if rng.random() < 0.3:
            return [[("call", 1), ("error",)], body]
        return [body]
    nsubs = rng.randint(1, 6)
    subs = [gen_block(rng, nsubs, 2) for _ in range(nsubs)]
    subs[0].append(("error",))
    stats["random"] = stats.get("random", 0) + 1
    return subs


def skel_vcl(subs):
    def blk(b, ind):
        return "".join(st(s, ind) for s in b)

    def st(s, ind):
        p = "  " * ind
        if s[0] == "skip":
            return p + 'set req.http.X = "1";\n'
        if s[0] == "call":
            return p + "call s%d;\n" % s[1]
        if s[0] == "if":
            c = "!req.http.Nope" if s[1] else "req.http.Nope"
            return p + "if (%s) {\n%s%s} else {\n%s%s}\n" % (c, blk(s[2], ind + 1), p, blk(s[3], ind + 1), p)
        if s[0] == "ifr":
            return p + "if (req.restarts < %d) {\n%s%s} else {\n%s%s}\n" % (s[1], blk(s[2], ind + 1), p, blk(s[3], ind + 1), p)
        if s[0] == "restart":
            return p + "restart;\n"
        if s[0] == "ret":
            return p + "return(%s);\n" % s[1]
        if s[0] == "error":
            return p + "error 601;\n"
        raise ValueError(s)

    out = BACKEND + VCL_ERROR
    for i, b in enumerate(subs):
        if i == 0:
            out += "sub vcl_recv {\n" + blk(b, 1) + "}\n"
        else:
            out += "sub s%d {\n%s}\n" % (i, blk(b, 1))
    # vcl_recv is sub 0: calls to it from other subs are rendered as call s0 -> alias
    out += "sub s0 {\n" + blk(subs[0], 1) + "}\n"
    return out


def skel_sexp(subs):
    def blk(b):
        return "(" + " ".join(st(s) for s in b) + ")"

    def st(s):
        if s[0] in ("skip", "restart", "error"):
            return "(%s)" % s[0]
        if s[0] == "call":
            return "(call %d)" % s[1]
        if s[0] in ("if", "ifr"):
            return "(%s %d %s %s)" % (s[0], s[1], blk(s[2]), blk(s[3]))
        if s[0] == "ret":
            return "(ret %s)" % s[1]
        raise ValueError(s)

    return "(" + " ".join(blk(b) for b in subs) + ")"


# ---------------------------------------------------------------- (B) include graphs

def gen_includes(rng, stats):
    n = rng.randint(1, 5)
    kind = rng.choice(["acyclic", "acyclic", "self", "mutual", "random"])
    stats["inc-" + kind] = stats.get("inc-" + kind, 0) + 1
    mods = []
    tag = [0]

    def items(targets):
        out = []
        for t in targets:
            if rng.random() < 0.6:
                tag[0] += 1
                out.append(("s", tag[0]))
            out.append(("i", t))
        if rng.random() < 0.6:
            tag[0] += 1
            out.append(("s", tag[0]))
        return out

    for i in range(n):
        if kind == "acyclic":
            ts = [j for j in range(i + 1, n) if rng.random() < 0.5]
        elif kind == "self":
            ts = [j for j in range(i + 1, n) if rng.random() < 0.4]
            if i == n - 1 or rng.random() < 0.3:
                ts.append(i)
        elif kind == "mutual":
            ts = [(i + 1) % n] if n > 1 else [i]
        else:
            ts = [rng.randrange(n + 1) for _ in range(rng.randint(0, 2))]      # n = missing module
        mods.append(items(ts))
    top = items([0] + ([rng.randrange(n)] if rng.random() < 0.4 else []))
    root_level = rng.random() < 0.4
    return mods, top, root_level


def inc_model(mods, top):
    def it(l):
        return ",".join("%s%d" % x for x in l) or "-"
    return "inc %s %s" % ("|".join(it(m) for m in mods) or ".", it(top))


def inc_modules(mods, top, root_level):
    """-> list of (name, content); main first"""
    def render(l):
        if root_level:
            return "".join('include "m%d";\n' % x[1] for x in l if x[0] == "i")
        return "".join(('include "m%d";\n' % x[1]) if x[0] == "i" else ('log "%d";\n' % x[1]) for x in l)
    if root_level:
        main = BACKEND + VCL_ERROR + render(top) + "sub vcl_recv { error 601; }\n"
    else:
        main = BACKEND + VCL_ERROR + "sub vcl_recv {\n" + render(top) + "error 601;\n}\n"
    return [("main", main)] + [("m%d" % i, render(m)) for i, m in enumerate(mods)]


def inc_expected_logs(mods, top, root_level, count):
    return 0 if root_level else count


# ---------------------------------------------------------------- (C) scope programs (totality only)

SCOPES = ["recv", "hash", "hit", "miss", "pass", "fetch", "error", "deliver", "log"]
ACTIONS = ["restart;", "return(restart);", "error 602;", "call rec;", "call m1;", 'set req.http.A = req.http.A "x";',
           "return(lookup);", "return(pass);", "return(deliver);", "return(fetch);", "return(hash);", "return(deliver_stale);",
           "esi;", 'synthetic "s";', "unset req.http.A;", 'log "l";', "return(error);", "return(hit_for_pass);"]


def gen_scope_program(rng, stats):
    body = {}
    for sc in SCOPES:
        if rng.random() < 0.55:
            acts = [rng.choice(ACTIONS) for _ in range(rng.randint(1, 2))]
            cond = rng.choice([None, None, "req.restarts < %d" % rng.randint(0, 4), "req.http.Nope", "!req.http.Nope"])
            txt = "".join("  " + a + "\n" for a in acts)
            body[sc] = ("  if (%s) {\n%s  }\n" % (cond, txt)) if cond else txt
            for a in acts:
                stats["act " + a.split("(")[0].split()[0]] = stats.get("act " + a.split("(")[0].split()[0], 0) + 1
    out = BACKEND + "sub rec { call rec; }\nsub m1 { call m2; }\nsub m2 { call m1; }\n"
    for sc in SCOPES:
        if sc in body:
            out += "sub vcl_%s {\n%s}\n" % (sc, body[sc])
    return out


def gen_requests(rng):
    out = []
    for _ in range(rng.randint(1, 3)):
        m = rng.choice(["GET", "GET", "POST", "HEAD", "PUT", "FASTLYPURGE", "PURGE", "OPTIONS"])
        p = rng.choice(["/", "/a", "/a/b.html", "/rec", "/%41", "/a?x=1&y=2", "/?q=%20", "/" + "p" * rng.choice([1, 100, 2000])])
        out.append((m, p))
    return out


# ---------------------------------------------------------------- (D) bound-relevant statement x syntactic position x scope
# Every statement that a bound of C08 is about is placed at every syntactic position from which the
# interpreter can execute it, in every subroutine of the request flow.  The product is finite and
# small; the oracle is the direct one (terminates within the watchdog, no panic / fatal error,
# restarts <= 3) and it yields the concrete program.

POS_STATEMENTS = {
    "restart": "restart;",
    "return-restart": "return(restart);",
    "error": "error 601;",
    "call-recursive": "call zrec;",
    "call-recursive-functional": "call zfrec();",
    "expr-recursive-functional": "declare local var.zx BOOL; set var.zx = zfexp();",
    "include-self": 'include "zself";',
    "goto-backward": 'zlbl:\nset req.http.G = req.http.G "g";\ngoto zlbl;',
    "concat-recursive-functional": "set req.http.C = zfcat();",
}

POS_PRELUDE = (
    "sub zrec { call zrec; }\n"
    "sub zfrec BOOL { call zfrec(); return true; }\n"
    "sub zfexp BOOL { declare local var.zy BOOL; set var.zy = zfexp(); return true; }\n"
    'sub zfcat STRING { return "a" zfcat(); }\n'
)

T_ = "!req.http.Nope"      # a condition that holds
F_ = "req.http.Nope"       # one that does not


def _pos_table():
    """position name -> function(S) -> (body of the lifecycle sub, helper subroutines)"""
    f_top = lambda S: "sub zf1 BOOL {\n%s\nreturn true;\n}\n" % S
    f_nest = lambda S: "sub zf1 BOOL {\nif (%s) {\n%s\n}\nreturn true;\n}\n" % (T_, S)
    return {
        "top": lambda S: (S, ""),
        "block": lambda S: ("{\n%s\n}" % S, ""),
        "if-arm": lambda S: ("if (%s) {\n%s\n}" % (T_, S), ""),
        "else-arm": lambda S: ("if (%s) {\n} else {\n%s\n}" % (F_, S), ""),
        "elseif-arm": lambda S: ("if (%s) {\n} else if (%s) {\n%s\n}" % (F_, T_, S), ""),
        "nested-if-if": lambda S: ("if (%s) {\nif (%s) {\n%s\n}\n}" % (T_, T_, S), ""),
        "switch-case": lambda S: ('switch ("a") {\ncase "a":\n%s\nbreak;\ndefault:\nbreak;\n}' % S, ""),
        "switch-default": lambda S: ('switch ("a") {\ncase "b":\nbreak;\ndefault:\n%s\nbreak;\n}' % S, ""),
        "switch-fallthrough": lambda S: ('switch ("a") {\ncase "a":\nfallthrough;\ncase "b":\n%s\nbreak;\n}' % S, ""),
        "user-sub": lambda S: ("call zu1;", "sub zu1 {\n%s\n}\n" % S),
        "user-sub-nested": lambda S: ("call zu1;", "sub zu1 {\nif (%s) {\n%s\n}\n}\n" % (T_, S)),
        "user-sub-two-levels": lambda S: ("call zu1;", "sub zu1 {\ncall zu2;\n}\nsub zu2 {\n%s\n}\n" % S),
        "functional-called": lambda S: ("call zf1();", f_top(S)),
        "functional-called-nested": lambda S: ("call zf1();", f_nest(S)),
        "functional-called-in-if": lambda S: ("if (%s) {\ncall zf1();\n}" % T_, f_top(S)),
        "functional-in-set": lambda S: ("declare local var.zb BOOL;\nset var.zb = zf1();", f_top(S)),
        "functional-in-set-nested": lambda S: ("declare local var.zb BOOL;\nset var.zb = zf1();", f_nest(S)),
        "functional-in-condition": lambda S: ("if (zf1()) {\n}", f_top(S)),
        "user-then-functional": lambda S: ("call zu1;", "sub zu1 {\ncall zf1();\n}\n" + f_top(S)),
        "functional-then-user": lambda S: ("call zf1();", "sub zf1 BOOL {\ncall zu2;\nreturn true;\n}\nsub zu2 {\n%s\n}\n" % S),
        "functional-then-functional": lambda S: ("call zf2();", "sub zf2 BOOL {\ncall zf1();\nreturn true;\n}\n" + f_top(S)),
        "functional-expr-then-functional": lambda S: ("declare local var.zb BOOL;\nset var.zb = zf2();",
                                                      "sub zf2 BOOL {\ncall zf1();\nreturn true;\n}\n" + f_top(S)),
    }


POSITIONS = _pos_table()

# how a request gets to the subroutine of a scope (besides the default lookup -> miss -> fetch -> deliver -> log flow)
POS_ROUTE = {"pass": "sub vcl_recv {\nreturn(pass);\n}\n", "error": "sub vcl_recv {\nerror 601;\n}\n", "recv": ""}
POS_ROUTE_DEFAULT = "sub vcl_recv {\nreturn(lookup);\n}\n"      # without a vcl_recv the simulator passes


def position_program(stmt, pos, scope):
    # the log line marks that the position was reached (the reply counts the log lines)
    body, helpers = POSITIONS[pos]('log "zpos";\n' + POS_STATEMENTS[stmt])
    main = BACKEND + POS_PRELUDE + helpers + POS_ROUTE.get(scope, POS_ROUTE_DEFAULT) + "sub vcl_%s {\n%s\n}\n" % (scope, body)
    mods = [("main", main), ("zself", 'include "zself";\n')]
    # the same URL twice: the second request finds the object of the first (vcl_hit)
    reqs = [("GET", "/pos"), ("GET", "/pos")] if scope in ("hit", "deliver", "log") else [("GET", "/pos")]
    return mods, reqs


def position_product():
    for stmt in POS_STATEMENTS:
        for pos in POSITIONS:
            for scope in SCOPES:
                yield stmt, pos, scope


# ---------------------------------------------------------------- (E) include graphs x RESOLVER KIND
# Module identity: the interpreter's recursion guard (and Model/EvalInclude.v) identify a module by the INCLUDE
# STRING AS WRITTEN.  Under the file resolver several strings designate one file ("m1", "m1.vcl", "sub/m2",
# "m2" through the include path sub/): each spelling is its own module of the model, with the file's content.
# The same graphs are rendered for the in-memory resolver (VCL.Name = include string), for a stub resolver
# whose VCL.Name differs from the include string, and as files on disk for resolver.NewFileResolvers.

def spellings(fname):
    base = fname.split("/")[-1]
    out = [fname, fname + ".vcl"]
    if "/" in fname:
        out += [base, base + ".vcl"]
    return out


def gen_spelled_includes(rng, stats, kind=None):
    n = rng.randint(1, 5)
    kind = kind or rng.choice(["acyclic", "acyclic", "self", "mutual", "random", "diamond"])
    stats["spelled-" + kind] = stats.get("spelled-" + kind, 0) + 1
    files = ["sub/m%d" % i if rng.random() < 0.3 else "m%d" % i for i in range(n)]
    targets = []
    for i in range(n):
        if kind == "acyclic":
            ts = [j for j in range(i + 1, n) if rng.random() < 0.5]
        elif kind == "diamond":
            ts = [j for j in range(i + 1, n)][:2] * (2 if rng.random() < 0.5 else 1)
        elif kind == "self":
            ts = [j for j in range(i + 1, n) if rng.random() < 0.4] + ([i] if (i == n - 1 or rng.random() < 0.3) else [])
        elif kind == "mutual":
            ts = [(i + 1) % n]
        else:
            ts = [rng.randrange(n + 1) for _ in range(rng.randint(0, 2))]      # n = a file that does not exist
        targets.append(ts)
    tag = [0]

    def items(ts):
        out = []
        for t in ts:
            if rng.random() < 0.5:
                tag[0] += 1
                out.append(("s", tag[0]))
            fname = files[t] if t < n else "nofile"
            out.append(("i", rng.choice(spellings(fname))))
        if rng.random() < 0.5:
            tag[0] += 1
            out.append(("s", tag[0]))
        return out

    bodies = {files[i]: items(targets[i]) for i in range(n)}
    top = items([0] + ([rng.randrange(n)] if rng.random() < 0.4 else []))
    return files, bodies, top, rng.random() < 0.4, rng.random() < 0.25


def _spelling_file(files, sp):
    for f in files:
        if sp in spellings(f):
            return f
    return None


def spelled_model(files, bodies, top):
    """the model's modules are the spellings in use; content = the designated file's items"""
    used = []

    def visit(items):
        for k, v in items:
            if k == "i" and v not in used:
                used.append(v)
                f = _spelling_file(files, v)
                if f is not None:
                    visit(bodies[f])
    visit(top)
    idx = {sp: i for i, sp in enumerate(used)}
    missing = len(used)                    # a module number without a body: "not found"

    def it(items):
        return ",".join(("i%d" % (idx[v] if _spelling_file(files, v) is not None else missing)) if k == "i" else "s%d" % v for k, v in items) or "-"
    mods = []
    for sp in used:
        f = _spelling_file(files, sp)
        mods.append(it(bodies[f]) if f is not None else None)
    # spellings of files that do not exist must resolve to "module not found": give them an out-of-range number
    text = "|".join(m if m is not None else "i%d" % (10 ** 6) for m in mods) or "."
    return "inc %s %s" % (text, it(top))


def spelled_render(files, bodies, top, root_level, nested, resolver):
    """-> module list for simrun with the resolver kind prefix"""
    def render(items, in_sub):
        out = ""
        for k, v in items:
            if k == "i":
                out += 'include "%s";\n' % v
            elif in_sub:
                out += 'log "%d";\n' % v
        return out
    if root_level:
        main = BACKEND + VCL_ERROR + render(top, False) + "sub vcl_recv { error 601; }\n"
    elif nested:
        main = BACKEND + VCL_ERROR + "sub vcl_recv {\nif (!req.http.Nope) {\n" + render(top, True) + "}\nerror 601;\n}\n"
    else:
        main = BACKEND + VCL_ERROR + "sub vcl_recv {\n" + render(top, True) + "error 601;\n}\n"
    mods = [("main", main)]
    if resolver == "file":
        mods += [(f, render(bodies[f], not root_level)) for f in files]
    else:
        seen = set()
        for f in files:
            for sp in spellings(f):
                if sp not in seen:
                    seen.add(sp)
                    mods.append((sp, render(bodies[f], not root_level)))
    return resolver + ":" + ",".join("%s=%s" % (n, c.encode().hex()) for n, c in mods)
