"""CHAIN SHAPES x comment placeholders for the formatter checks (C03 / C14 / C15).

The exhaustive placeholder templates of gen/decorate.py have ONE if / else if / else chain each.  Here every SHAPE of
the constructs that own several blocks or a list is enumerated (small and finite) and gen/decorate places one comment at
every placeholder of every shape, in turn (block style, line style, and - leading placeholders - on the line of the
previous token: `} // c` before else if):
  * if alone; if + else; if + k else-if (k = 1, 2, 3) with and without else, every spelling (else if / elseif / elsif,
    and mixed); bodies of one statement, and empty bodies for the short chains; one chain nested in a branch;
  * switch with 1..3 cases with and without default, case bodies ending in break / fallthrough;
  * sub with 0..2 statements, with and without a return type; penaltybox / ratecounter;
  * acl / backend / director / table with 0..3 entries or properties, backend with a probe object of 0..2 properties,
    director with 0..2 backend objects;
  * files of 1..3 declarations (the comment behind the last one, between two).
"""

SPELLINGS = ["else if", "elseif", "elsif"]


def chain(k, has_else, spell, body="esi;", conds=None):
    """if + k else-if (+ else); spell: one spelling or a list of k spellings"""
    sp = spell if isinstance(spell, list) else [spell] * k
    b = (" {\n    %s\n  }" % body) if body else " {\n  }"
    s = "  if (req.http.A)" + b
    for i in range(k):
        s += " %s (req.http.B%d)" % (sp[i], i) + b
    if has_else:
        s += " else" + b
    return s


def if_shapes():
    out = []
    for has_else in (False, True):
        out.append(("if%s" % ("+else" if has_else else ""), chain(0, has_else, "else if")))
        out.append(("if%s:empty" % ("+else" if has_else else ""), chain(0, has_else, "else if", body="")))
    for k in (1, 2, 3):
        for has_else in (False, True):
            for sp in SPELLINGS:
                out.append(("if+%dx%s%s" % (k, sp.replace(" ", "_"), "+else" if has_else else ""), chain(k, has_else, sp)))
            if k > 1:
                out.append(("if+%dxmixed%s" % (k, "+else" if has_else else ""), chain(k, has_else, (SPELLINGS * 2)[1:k + 1])))
        for has_else in (False, True):
            if k == 1:
                out.append(("if+1xelse_if%s:empty" % ("+else" if has_else else ""), chain(1, has_else, "else if", body="")))
    # a chain inside a branch of a chain, and a chain followed by another statement
    inner = chain(1, False, "else if").replace("\n", "\n  ")
    out.append(("if+1:nested", "  if (req.http.O) {\n  %s\n  } else if (req.http.P) {\n    esi;\n  }" % inner))
    return [("chain:" + n, "sub vcl_recv {\n%s\n}\n" % s) for n, s in out] + \
           [("chain:" + n + ":followed", "sub vcl_recv {\n%s\n  esi;\n}\n" % s) for n, s in out if n in ("if+1xelse_if", "if", "if+else")]


def switch_shapes():
    out = []
    for n in (1, 2, 3):
        for dflt in (False, True):
            for last in ("break", "fallthrough"):
                if last == "fallthrough" and n == 1 and not dflt:
                    continue          # a final fallthrough is a parse error
                body = ""
                for i in range(n):
                    end = "break" if (i == n - 1 and not dflt) else (last if i == n - 1 or i % 2 == 0 else "break")
                    body += "  case %s\"c%d\":\n    esi;\n    %s;\n" % ("~ " if i == 1 else "", i, end)
                if dflt:
                    body += "  default:\n    restart;\n    break;\n"
                out.append(("switch:%dcase%s:%s" % (n, "+default" if dflt else "", last),
                            "sub vcl_recv {\n  switch (req.url) {\n%s  }\n}\n" % body))
    out.append(("switch:concat-tests", "sub vcl_recv {\n  switch (req.url) {\n  case \"a\" \"b\":\n    esi;\n    break;\n"
                "  case \"c\" + \"d\" req.http.E:\n    break;\n  default:\n    break;\n  }\n}\n"))
    return out


def sub_shapes():
    out = []
    stmts = ["  set req.http.X = \"a\";\n", "  return (lookup);\n"]
    for n in (0, 1, 2):
        out.append(("sub:%dstmt" % n, "sub vcl_recv {\n%s}\n" % "".join(stmts[:n])))
    out.append(("sub:typed", "sub f STRING {\n  return \"a\";\n}\n"))
    out.append(("sub:typed:empty", "sub f BOOL {\n}\n"))
    for kw in ("penaltybox", "ratecounter"):
        out.append(("%s:empty" % kw, "%s p {\n}\n" % kw))
    return out


def decl_shapes():
    out = []
    for n in (0, 1, 2, 3):
        out.append(("acl:%d" % n, "acl a {\n%s}\n" % "".join('  %s"10.%d.0.0"/%d;\n' % ("!" if i == 1 else "", i, 8 + i) for i in range(n))))
        out.append(("backend:%d" % n, "backend b {\n%s}\n" % "".join("  .p%d = %s;\n" % (i, ['"h"', "1s", "true"][i]) for i in range(n))))
        out.append(("table:%d" % n, "table t {\n%s}\n" % "".join('  "k%d": "v%d"%s\n' % (i, i, "," if i < n - 1 or i % 2 == 0 else "") for i in range(n))))
        out.append(("director:%d" % n, "director d random {\n%s}\n" % "".join("  .q%d = %s;\n" % (i, ["50%", "3", '"k"'][i]) for i in range(n))))
    for n in (0, 1, 2):
        out.append(("backend:probe%d" % n, "backend b {\n  .host = \"h\";\n  .probe = {\n%s  }\n}\n" %
                    "".join("    .r%d = %s;\n" % (i, ['"GET"', "1s"][i]) for i in range(n))))
        out.append(("backend:probe%d:last" % n, "backend b {\n  .probe = {\n%s  }\n  .port = \"80\";\n}\n" %
                    "".join("    .r%d = %s;\n" % (i, ['"GET"', "1s"][i]) for i in range(n))))
        out.append(("director:obj%d" % n, "director d random {\n  .quorum = 50%%;\n%s}\n" %
                    "".join("  { .backend = F_%d; .weight = %d; }\n" % (i, i + 1) for i in range(n))))
    return out


def file_shapes():
    d = ["import foo;\n", "sub vcl_recv {\n  esi;\n}\n", "acl a {\n}\n", "include \"x\";\n"]
    out = []
    for n in (1, 2, 3):
        out.append(("file:%ddecl" % n, "\n".join(d[:n])))
    out.append(("file:include-last", d[1] + d[3]))
    return out


def shapes():
    """-> [(label, program text)]"""
    return if_shapes() + switch_shapes() + sub_shapes() + decl_shapes() + file_shapes()
