"""Input streams of C01 (lexer / pump / parser totality and located diagnostics).

Every function returns a list of (label, bytes).  All randomness comes from the rng given."""
import os
import re

INTERESTING = [0x00, 0x22, 0x7b, 0x7d, 0x7c, 0x26, 0x5e, 0x2a, 0x3c, 0x3e, 0x0a, 0x0d, 0x09, 0x20, 0xff, 0xc3,
               0xe2, 0xf0, 0x80, 0x2f, 0x23, 0x3b, 0x28, 0x29, 0x2e, 0x3a, 0x2d, 0x25, 0x21, 0x7e, 0x3d, 0x43,
               0x57, 0x30, 0x65, 0x78, 0x5c, 0x27]

LEXEMES = ["sub", "set", "unset", "if", "else", "elsif", "elseif", "return", "call", "declare", "local", "acl",
           "backend", "table", "director", "switch", "case", "default", "break", "fallthrough", "pragma", "goto",
           "error", "esi", "log", "synthetic", "synthetic.base64", "include", "import", "add", "remove", "restart",
           "penaltybox", "ratecounter", "true", "false", "rol", "ror", "rol=", "ror=",
           "req.http.Foo", "req.http.Cookie:sid", "var.x", "X-Foo-*", "a", "vcl_recv", "STRING", "C!", "W!", "C", "W",
           "=", "==", "!=", "~", "!~", "<", ">", "<=", ">=", "<<", ">>", "<<=", ">>=", "&&", "||", "&&=", "||=",
           "&", "|", "^", "&=", "|=", "^=", "+", "-", "*", "/", "%", "+=", "-=", "*=", "/=", "%=", "!", ".", ",", ":",
           ";", "(", ")", "{", "}", "[", "]", "\n", "\r\n", "\r", " ", "\t", "\x00",
           '"', '"abc"', '"a%20b"', '""', '{"', '"}', '{"abc"}', '{xy"abc"xy}', '{xy"abc"yx}', '{xy"', '"xy}', "{xy",
           "#", "# c\n", "// c\n", "//", "/*", "*/", "/* c */", "/**/", "/*/",
           "0", "1", "10", "1.5", "1.", ".5", "0x", "0x1f", "0X1F", "0x1.8p3", "0x1p", "0x1p-", "1e3", "1e", "1e+", "1e-5",
           "1.5e3", "10s", "10ms", "10m", "5h", "2d", "1y", "1.5s", "0x1fs", "1e3s", "1mx", "12abc", "1..2", "1.2.3",
           "\xc3\xa9", "\xe6\x97\xa5", "\xf0\x9f\x98\x80", "\xff", "\xc3", "\xe2\x82", "\xf0\x9f", "\xc0\x80", "\xed\xa0\x80",
           "@", "$", "?", "\\", "'", "`"]


def handcrafted():
    out = []

    def add(label, s):
        out.append((label, s if isinstance(s, bytes) else s.encode("latin-1")))

    # unterminated strings / comments / long strings
    for body in ["", "a", "abc def", "a\nb", "a\r\nb", "a\x00b", "a\"b", "\xff", "\xe6\x97\xa5"]:
        add("unterminated-string", '"' + body)
        add("unterminated-string-in-sub", 'sub f { set req.http.A = "' + body)
        add("unterminated-comment", "/*" + body)
        add("unterminated-comment-star", "/*" + body + "*")
        add("line-comment-eof", "#" + body)
        add("line-comment-eof", "//" + body)
        for d in ["", "xy", "A1_", "0"]:
            add("unterminated-long-string", "{" + d + '"' + body)
            add("unterminated-long-string", "{" + d + '"' + body + '"')
            add("unterminated-long-string", "{" + d + '"' + body + '"' + d)
            add("long-string", "{" + d + '"' + body + '"' + d + "}")
            add("long-string-mismatch", "{" + d + '"' + body + '"' + d + "x}")
            add("long-string-in-sub", "sub f { set req.http.A = {" + d + '"' + body + '"' + d + "}; }")
            add("long-string-no-quote", "{" + d)
            add("long-string-no-quote", "{" + d + " ")
            add("long-string-dot", "{" + d + '.a"' + body + '"' + d + ".a}")
    # delimiter around the 4096-byte bufio window
    for n in (4090, 4094, 4095, 4096, 4097, 5000, 9000):
        d = "d" * n
        add("long-delimiter-%d" % n, "{" + d + '"body"' + d + "}")
        add("long-delimiter-unterminated-%d" % n, "{" + d + '"body')
        add("long-delimiter-noquote-%d" % n, "{" + d)
        add("long-delimiter-in-sub-%d" % n, "sub f { set req.http.A = {" + d + '"body"' + d + "}; }")
    # long string whose end marker straddles a 4096 boundary
    for n in (4080, 4090, 4093, 4094, 4095, 4096):
        add("long-body-%d" % n, '{ab"' + "x" * n + '"ab}' + " tail")
        add("long-body-quotes-%d" % n, '{ab"' + '"' * n + '"ab}' + " tail")
    # pragma / Fastly control
    for pre, post in [("", ""), ("sub f { ", ""), ("sub f { ", " }"), ("sub f {\n", "\n}\n"), ("", "\nsub f { }")]:
        for body in ["pragma", "pragma x", "pragma optional_param geoip_opt_in true", "pragma x;", "pragma x y z;",
                     "pragma;", "pragma \n x \n ;", 'pragma "a', "pragma {\"a", "pragma /* c", "pragma # c", "pragma x\x00;",
                     "pragma pragma", "pragma ; pragma", "C!", "W!", "C! W! C!", "C !", "C!!", "C!x", "W!\n", "C", "W",
                     "C!;", "pragma C!", "C! pragma"]:
            add("control", pre + body + post)
    # lone operators, empty-type candidates
    for op in ["|", "&", "^", "*", "<<", ">>", "<", ">", "<<<", ">>>", "|||", "&&&", "^^", "**", "<>", "><", "=>", "=<",
               "<<=", ">>=", "|=", "&=", "^=", "*=", "||=", "&&=", "||", "&&", "!", "!!", "!=", "!~", "~", "~~", "%", "%=", "%%"]:
        add("operator", op)
        add("operator-in-expr", "a " + op + " b")
        add("operator-in-set", "sub f { set req.http.A = a " + op + " b; }")
        add("operator-snippet", "set var.i " + op + " 1;")
        add("operator-eof", "a" + op)
    # numbers
    for n in ["0", "007", "1.5", "1.", "1..", "0x", "0x1F", "0xg", "0x1.8p3", "0x1p", "0x1p+", "0x1p-2", "0x.p", "1e3", "1e", "1e+",
              "1e-5", "1.5e3", "1.e3", "10s", "10ms", "10m", "10mm", "10msx", "5h", "2d", "1y", "1.5s", "0x1fs", "1e3s", "1ex",
              "9223372036854775808", "1" * 400, "1.2.3.4", "192.168.0.1", "1-2", "1:2", "1*2", "12ab.cd-ef:gh*"]:
        add("number", n)
        add("number-in-set", "set var.i = " + n + ";")
        add("number-eof", "set var.i = " + n)
    # identifiers
    for i in ["a", "a.b", "a-b", "a:b", "a*", "a.*", "a..b", "a.", "a-", "a:", "a.1", "a1b2", "_a", "default", "default:", "defaults",
              "default.x", "x.default", "rol", "ror", "rol=", "ror=", "rol =", "rolx=", "rol.=", "rol1", "synthetic.base64",
              "synthetic.base64x", "synthetic.", "C", "W", "Cx", "C!", "CC!", "xC!", "caf\xc3\xa9", "a\xffb", "a\x00b"]:
        add("ident", i)
        add("ident-stmt", "set " + i + " = 1;")
    # invalid UTF-8, NUL, CR
    for b in [b"\xff", b"\xc3", b"\xc3\x28", b"\xe2\x82", b"\xe2\x28\xa1", b"\xf0\x9f\x98", b"\xf0\x28\x8c\xbc", b"\xc0\x80",
              b"\xed\xa0\x80", b"\xf4\x90\x80\x80", b"\xef\xbf\xbd", b"\x00", b"\x00\x00", b"\r", b"\r\n", b"\n\r", b"\r\r\n",
              b"\x0b", b"\x0c", b"\x7f", b"\x01", b"\xe6\x97\xa5\xe6\x9c\xac", b"\xf0\x9f\x98\x80"]:
        add("bytes", b)
        add("bytes-in-code", b"sub f {" + b + b"set req.http.A = \"x" + b + b"y\";" + b + b"}" + b)
        add("bytes-in-comment", b"# c" + b + b"\nsub f { /* " + b + b" */ }\n")
        add("bytes-after-newline", b"a\n" + b + b"b\n" + b)
        add("bytes-snippet", b"set req.http.A = " + b + b";")
    # line / column bookkeeping
    for s in ["a\nb\n", "a\r\nb\r\n", "\n\n\na", "a\n\n\n", "\n", "\n\n", " \n \n", "a\n#c\n\n\n#d\nb", "\xe6\x97\xa5 a\n\xe6\x97\xa5 b",
              '"multi\nline\nstring" x', '{"multi\nline"} x', "/* multi\nline */ x\ny", "a /* c */ b // d\n c", "a\tb\t\tc"]:
        add("lines", s)
    # parser error paths that read past the end
    for s in ["sub", "sub f", "sub f {", "sub f { set", "sub f { set a", "sub f { set a =", "sub f { if", "sub f { if (", "sub f { if (a",
              "sub f { if (a)", "sub f { if (a) {", "sub f { if (a) { } else", "sub f { switch", "sub f { switch (", "sub f { switch (a) {",
              "sub f { switch (a) { case", 'sub f { switch (a) { case "a"', 'sub f { switch (a) { case "a":', 'sub f { switch (a) { case "a": }',
              'sub f { switch (a) { case "a": break; }', 'sub f { switch (a) { default: }', 'sub f { switch (a) { default: break; } }',
              'sub f { switch (a) { case "a": break; default: fallthrough; } }', "sub f { switch (a) { } }", 'sub f { switch (f(a)) { case "a": break; } }',
              'sub f { switch ("a") { case ~ "a": break; } }', 'sub f { switch (1) { } }',
              'sub f { set req.http.a = (req.http.b)("y"); }', 'sub f { set req.http.a = "x"("y"); }', 'sub f { set a = 1(2); }',
              'sub f { set a = f(1)(2); }', "sub f { set a = (b; }", "sub f { set a = b); }", "sub f { set a = if(a, b); }",
              "sub f { set a = if(a, b, c); }", "acl a {", 'acl a { "1.2.3.4"', 'acl a { "1.2.3.4"/', 'acl a { !"1.2.3.4"/8; }',
              "backend b {", "backend b { .host", 'backend b { .host = "a"', "backend b { .probe = {", "table t {", 'table t { "a":',
              'table t STRING { "a": "b", }', "director d random {", "director d random { {", "director d random { { .backend = b; } }",
              "penaltybox p", "penaltybox p {", "ratecounter r { }", "import", "include", 'include "a"', 'include "a";', "import a;",
              "sub f STRING { return", "sub f { return(", "sub f { return (lookup", "sub f { return;", "sub f { error", "sub f { error 1",
              "sub f { error 1 ", 'sub f { error 1 "a"', "sub f { esi", "sub f { call", "sub f { call g(", "sub f { goto", "sub f { goto a",
              "sub f { a:", "sub f { a: }", "sub f { log", "sub f { declare", "sub f { declare local", "sub f { declare local var.a",
              "sub f { declare local var.a STRING", "sub f { unset", "sub f { remove a", "sub f { add a", "sub f { add a =",
              "sub f { synthetic", "sub f { synthetic.base64", "sub f { {", "sub f { { }", "sub f { } }", "}", "{", "} }", ";", "sub f { ; }",
              "sub f { f(", "sub f { f()", "sub f { f(a,", "sub f { f(a,)", "set", "set a", "if (a) { }", "if (a) { } x", "x", "x y", "x;",
              "sub f { set a = b c d; }", 'sub f { set a = "a" "b" {"c"}; }', 'sub f { set a = {x"c"y}; }', "sub f { set a = !; }",
              "sub f { set a = -; }", "sub f { set a = -1; }", "sub f { set a = 10%; }", "sub f { set a = %; }",
              "sub f { set a = 9223372036854775808; }", "sub f { set a = -9223372036854775808; }", "sub f { set a = 1e999; }",
              'sub f { set a = "%u{110000}"; }', 'sub f { set a = "%zz"; }', 'sub f { set a = "%"; }', 'sub f { set a = "%u"; }',
              'sub f { set a = "%00"; }', 'sub f { set a = "%c3"; }', "sub f { set a = 0x; }", "sub f { set a = 1.; }", "sub f { set a = 0x1p; }"]:
        add("parser-edge", s)
    return out


def boundaries(s):
    """offsets where a token may start or end (used for token-boundary prefixes of large files)"""
    out = set([0, len(s)])
    for m in re.finditer(rb"[A-Za-z0-9_.:\-]+|\s+|.", s, re.S):
        out.add(m.start())
        out.add(m.end())
    return sorted(out)


def prefixes(rng, files, small_limit, per_large):
    out = []
    for path, data in files:
        if len(data) <= small_limit:
            for i in range(len(data)):
                out.append(("prefix:" + path, data[:i]))
        else:
            bs = boundaries(data)
            for i in (bs if per_large is None else rng.sample(bs, min(per_large, len(bs)))):
                out.append(("tokprefix:" + path, data[:i]))
    return out


def mutate_byte(rng, data):
    b = bytearray(data)
    if not b:
        return bytes([rng.choice(INTERESTING)]), "insert"
    k = rng.random()
    i = rng.randrange(len(b))
    if k < 0.45:
        b[i] = rng.choice(INTERESTING) if rng.random() < 0.8 else rng.randrange(256)
        return bytes(b), "replace"
    if k < 0.7:
        del b[i]
        return bytes(b), "delete"
    if k < 0.9:
        b.insert(i, rng.choice(INTERESTING))
        return bytes(b), "insert"
    j = rng.randrange(len(b))
    b[i], b[j] = b[j], b[i]
    return bytes(b), "swap"


def mutate_token(rng, data):
    """delete / insert / replace / swap one lexeme"""
    ms = list(re.finditer(rb"[A-Za-z0-9_.:\-]+|\"[^\"\n]*\"|[^\sA-Za-z0-9_]", data))
    if not ms:
        return data + rng.choice(LEXEMES).encode("latin-1"), "tok-insert"
    m = rng.choice(ms)
    k = rng.random()
    lx = rng.choice(LEXEMES).encode("latin-1")
    if k < 0.3:
        return data[:m.start()] + data[m.end():], "tok-delete"
    if k < 0.6:
        return data[:m.start()] + lx + data[m.end():], "tok-replace"
    if k < 0.85:
        return data[:m.start()] + lx + b" " + data[m.start():], "tok-insert"
    m2 = rng.choice(ms)
    a, b = sorted([m, m2], key=lambda x: x.start())
    if a.end() > b.start():
        return data[:m.start()] + data[m.end():], "tok-delete"
    return data[:a.start()] + data[b.start():b.end()] + data[a.end():b.start()] + data[a.start():a.end()] + data[b.end():], "tok-swap"


def soup(rng, n):
    out = []
    for _ in range(n):
        k = rng.randint(1, 14)
        sep = rng.choice(["", " ", " ", "\n"])
        s = sep.join(rng.choice(LEXEMES) for _ in range(k))
        out.append(("soup", s.encode("latin-1")))
    return out


def docs_blocks(repo):
    """fenced code blocks of the markdown documentation (VCL examples among them)"""
    out = []
    for root, dirs, files in os.walk(repo):
        dirs[:] = [d for d in dirs if d not in (".git", "node_modules")]
        for fn in sorted(files):
            if fn.endswith(".md"):
                p = os.path.join(root, fn)
                try:
                    txt = open(p, "rb").read()
                except OSError:
                    continue
                for i, m in enumerate(re.finditer(rb"```(?:vcl|VCL)[^\n]*\n(.*?)```", txt, re.S)):
                    out.append(("doc:%s#%d" % (os.path.relpath(p, repo), i), m.group(1)))
    return out


# ---------------------------------------------------------------------------------------------
# INPUT SIZE x BUFFER BOUNDARIES.  The lexer reads through a bufio.Reader with a 4096-byte window
# (ReadRune must reassemble a character that straddles a refill; Peek(n) slides the window), so the
# position bookkeeping has to be exercised with multi-byte characters at every byte offset around
# each multiple of 4096, inside every token kind that can hold them, with more tokens on the same
# line afterwards (their columns depend on the straddling character being counted once).

MB_CHARS = [("2b", b"\xc3\xa9"), ("3b", b"\xe6\x97\xa5"), ("4b", b"\xf0\x9f\x98\x80"),
            ("cut3", b"\xe6\x97"), ("ff", b"\xff")]

# kind -> (head up to the place where filler starts, filler byte, tail after the character)
BOUNDARY_KINDS = [
    ("string", b'sub f {\n  set req.http.A = "', b"a", b' tail" "s2" req.http.B | x; }\n'),
    ("longstring", b'sub f {\n  set req.http.A = {"', b"a", b' tail"} "s2" req.http.B | x; }\n'),
    ("delimstring", b'sub f {\n  set req.http.A = {xy"', b"a", b' t"x "xy} "s2" req.http.B | x; }\n'),
    ("hashcomment", b"sub f {\n  set req.http.A = b; # ", b"c", b" tail\n  set req.http.C = d | x; }\n"),
    ("slashcomment", b"sub f {\n  set req.http.A = b; // ", b"c", b" tail\n  set req.http.C = d | x; }\n"),
    ("blockcomment", b"sub f {\n  /* ", b"c", b' t*il */ set req.http.A = "s" b | x; }\n'),
    ("identgarbage", b"sub f {\n  set req.http.A = ", b"x", b'y "s" req.http.B | x; }\n'),
    ("whitespace", b"sub f {\n  set req.http.A =", b" ", b' "s" req.http.B | x; }\n'),
]


def boundary_sweep(rng, thorough):
    """a multi-byte (or cut) character starting at byte k, for k around each multiple of 4096"""
    out = []
    for bi, base in enumerate((4096, 8192, 12288)):
        # a w-byte character straddles a refill at `base` when it starts at base-(w-1) .. base-1; Peek(n) may have
        # slid the window by a few bytes, hence the margin (wider in the thorough tier)
        ks = list(range(base - 6, base + 5)) if thorough else list(range(base - 4, base + 3))
        for kind, head, fill, tail in BOUNDARY_KINDS:
            for cname, ch in (MB_CHARS if thorough else MB_CHARS[:4]):
                for k in ks:
                    # quick tier: the first boundary completely, the later ones by a seeded sample
                    if not thorough and bi > 0 and rng.random() > 0.1:
                        continue
                    n = k - len(head)
                    out.append(("boundary:%s:%s@%d" % (kind, cname, k), head + fill * n + ch + tail))
    return out


def dense_multibyte(thorough):
    """token bodies made of multi-byte characters only, in every phase: whatever the refill points are,
    some character straddles each of them"""
    out = []
    size = 20500 if thorough else 8600
    cyc = b"\xc3\xa9\xe6\x97\xa5\xf0\x9f\x98\x80"
    for kind, head, fill, tail in BOUNDARY_KINDS:
        for cname, ch in MB_CHARS[:3]:
            for phase in range(len(ch)):
                body = fill * phase + ch * ((size - len(head)) // len(ch))
                out.append(("dense:%s:%s+%d" % (kind, cname, phase), head + body + tail))
        for phase in range(len(cyc)):
            body = fill * phase + cyc * (((4700 if not thorough else size) - len(head)) // len(cyc))
            out.append(("dense:%s:mix+%d" % (kind, phase), head + body + tail))
    return out


# ---------------------------------------------------------------------------------------------
# SPECIAL PREFIXES AND BYTE SEQUENCES that no grammar-driven generator emits, applied as prefix / infix /
# suffix to valid programs and to each token kind.

SPECIAL_SEQS = [
    ("utf8-bom", b"\xef\xbb\xbf"), ("utf16le-bom", b"\xff\xfe"), ("utf16be-bom", b"\xfe\xff"),
    ("utf32le-bom", b"\xff\xfe\x00\x00"), ("shebang", b"#!/usr/bin/falco\n"), ("formfeed", b"\x0c"),
    ("vtab", b"\x0b"), ("nbsp", b"\xc2\xa0"), ("zwsp", b"\xe2\x80\x8b"), ("zwnj-bom-mid", b"\xef\xbb\xbf\xef\xbb\xbf"),
    ("ls", b"\xe2\x80\xa8"), ("ps", b"\xe2\x80\xa9"), ("nel", b"\xc2\x85"), ("cr", b"\r"), ("crlf", b"\r\n"),
    ("lfcr", b"\n\r"), ("nul", b"\x00"), ("del", b"\x7f"), ("esc", b"\x1b[0m"), ("bs", b"\x08"),
    ("overlong-slash", b"\xc0\xaf"), ("overlong-nul", b"\xc0\x80"), ("overlong3", b"\xe0\x80\xaf"),
    ("surrogate-hi", b"\xed\xa0\x80"), ("surrogate-lo", b"\xed\xb0\x80"), ("surrogate-pair", b"\xed\xa0\xbd\xed\xb8\x80"),
    ("ff", b"\xff"), ("c0", b"\xc0"), ("c1", b"\xc1"), ("f5", b"\xf5"), ("beyond-max", b"\xf4\x90\x80\x80"),
    ("lone-cont", b"\x80"), ("cont-run", b"\x80\xbf\x80"), ("replacement", b"\xef\xbf\xbd"), ("tab", b"\t"),
    # block-comment openers / closers that share or lack their star
    ("cmt-slash-star-slash", b"/*/"), ("cmt-empty", b"/**/"), ("cmt-one-star", b"/***/"), ("cmt-nested-look", b"/*/*/"),
    ("cmt-spaced-closer", b"/* * / */"), ("cmt-line-in-block", b"/*// x */"), ("cmt-block-in-line", b"// /* x\n"),
    ("cmt-closer-only", b"*/"), ("cmt-star-run", b"/****"), ("cmt-open-close-open", b"/**//*"),
]

SPECIAL_BASES = [
    b'sub vcl_recv {\n  set req.http.A = "x" + req.http.B; # c\n  if (req.url ~ "^/a") { return (pass); }\n}\n',
    b'acl a { "10.0.0.0"/8; }\nbackend b { .host = "h"; }\nsub f { set var.i = 10ms; /* c */ call g; }\n',
    b'set req.http.A = {xy"long"xy} "s" 0x1f 1.5e3 true;\nunset req.http.X-*;\n',
]

SPECIAL_TOKENS = [b"abc", b"req.http.X-Y:z", b"123", b"1.5", b"10ms", b'"str"', b'{"long"}', b'{d"long"d}', b"# c", b"// c",
                  b"/* c */", b"==", b"||=", b"{", b"}", b";", b"C!", b"pragma x;", b"default", b"rol="]


def special_sequences():
    out = []
    for name, seq in SPECIAL_SEQS:
        for bi, base in enumerate(SPECIAL_BASES):
            cuts = [m.end() for m in re.finditer(rb"[ \n]", base)]
            places = {"prefix": 0, "suffix": len(base), "after-first-token": cuts[0], "mid": cuts[len(cuts) // 2],
                      "before-last": cuts[-2] if len(cuts) > 1 else 0,
                      "in-string": base.find(b'"') + 1, "in-comment": max(base.find(b"# c"), base.find(b"/* c")) + 2}
            for pn, at in places.items():
                out.append(("special:%s:%s:p%d" % (name, pn, bi), base[:at] + seq + base[at:]))
        for tk in SPECIAL_TOKENS:
            out.append(("special:%s:tok-prefix" % name, seq + tk))
            out.append(("special:%s:tok-suffix" % name, tk + seq))
            out.append(("special:%s:tok-both" % name, seq + tk + b" " + seq + b"x|"))
        out.append(("special:%s:alone" % name, seq))
        out.append(("special:%s:twice-lines" % name, seq + b"\n" + seq + b"a b\n" + seq))
    return out


def long_runs(thorough):
    """very long tokens and runs (beyond the 4096-byte window), thousands of line feeds"""
    out = []
    sizes = (4095, 4096, 4097, 5000, 9000, 13000) if thorough else (4095, 4096, 4097, 9000)
    for n in sizes:
        out.append(("long:ident-%d" % n, b"set " + b"x" * n + b" = 1 | y;"))
        out.append(("long:dotted-ident-%d" % n, b"set " + b"ab.c-d:e*" * (n // 9) + b" = 1 | y;"))
        out.append(("long:number-%d" % n, b"set var.i = " + b"1" * n + b" | y;"))
        out.append(("long:float-%d" % n, b"set var.i = 1." + b"5" * n + b"e3s | y;"))
        out.append(("long:hex-%d" % n, b"set var.i = 0x" + b"f" * n + b".8p3 | y;"))
        out.append(("long:spaces-%d" % n, b"set" + b" " * n + b"a = \xe6\x97\xa5 | y;"))
        out.append(("long:tabs-cr-%d" % n, b"set" + b"\t\r" * (n // 2) + b"a = 1 | y;"))
        out.append(("long:operators-%d" % n, b"a " + b"|" * n + b" b"))
        out.append(("long:controls-%d" % n, b"C!" * (n // 2) + b" a | b"))
        out.append(("long:pragma-%d" % n, b"pragma " + b"x " * (n // 2) + b"; set a = b | c;"))
        out.append(("long:pragma-eof-%d" % n, b"sub f { pragma " + b"x " * (n // 2)))
        out.append(("long:string-lines-%d" % n, b'set a = "' + b"l\n" * (n // 2) + b'" b | c;'))
    for n in ((3000, 9000, 20000) if thorough else (3000, 5000)):
        out.append(("long:lf-%d" % n, b"\n" * n + b'set a = "s" | b;\n'))
        out.append(("long:crlf-%d" % n, b"\r\n" * n + b'set a = "s" | b;\r\n'))
        out.append(("long:lf-comments-%d" % n, b"#\n" * n + b"set a = b | c;"))
        out.append(("long:lf-in-block-comment-%d" % n, b"/*" + b"\n" * n + b"*/ set a = b | c;"))
        out.append(("long:lf-in-long-string-%d" % n, b'set a = {"' + b"\n\xc3\xa9" * n + b'"} b | c;'))
    return out


# ---------------------------------------------------------------------------------------------
# NESTING DEPTH, POSITION OF THE ERROR IN A LONG FILE, LINE-END CONVENTIONS

def nesting(thorough):
    out = []
    depths = (1, 2, 7, 40, 300, 1500) if not thorough else (1, 2, 7, 40, 300, 1500, 6000)
    for d in depths:
        o, c = b"(" * d, b")" * d
        out.append(("nest:parens-%d" % d, b"sub f { set req.http.A = " + o + b"a" + c + b"; }"))
        out.append(("nest:parens-open-%d" % d, b"sub f { set req.http.A = " + o + b"a" + c[:-1] + b"; }"))
        out.append(("nest:parens-extra-%d" % d, b"sub f { set req.http.A = " + o + b"a" + c + b"); }"))
        out.append(("nest:parens-eof-%d" % d, b"sub f { set req.http.A = " + o + b"a"))
        out.append(("nest:bang-%d" % d, b"sub f { if (" + b"!" * d + b"a) { } }"))
        out.append(("nest:minus-%d" % d, b"sub f { set var.i = " + b"-" * d + b"1; }"))
        out.append(("nest:ifexp-%d" % d, b"sub f { set req.http.A = " + b"if(a, " * d + b'"x"' + b', "y")' * d + b"; }"))
        out.append(("nest:ifexp-cut-%d" % d, b"sub f { set req.http.A = " + b"if(a, " * d + b'"x"' + b', "y")' * (d - 1) + b"; }"))
        out.append(("nest:blocks-%d" % d, b"sub f " + b"{ " * d + b"esi; " + b"} " * d))
        out.append(("nest:blocks-open-%d" % d, b"sub f " + b"{ " * d + b"esi; " + b"} " * (d - 1)))
        out.append(("nest:blocks-extra-%d" % d, b"sub f " + b"{ " * d + b"esi; " + b"} " * (d + 1) + b"x"))
        out.append(("nest:ifs-%d" % d, b"sub f { " + b"if (a) { " * d + b"esi; " + b"} " * d + b"}"))
        out.append(("nest:ifs-lines-%d" % d, b"sub f {\n" + b"if (a) {\n" * d + b"esi |;\n" + b"}\n" * d + b"}\n"))
        out.append(("nest:elsif-chain-%d" % d, b"sub f { if (a) { }" + b" else if (b) { }" * d + b" else { } x }"))
        out.append(("nest:calls-%d" % d, b"sub f { set req.http.A = " + b"f(" * d + b"a" + b")" * d + b" | b; }"))
        out.append(("nest:concat-%d" % d, b"sub f { set req.http.A = " + b'"a" b ' * d + b"|; }"))
        out.append(("nest:switch-cases-%d" % d, b"sub f { switch (a) { " + b'case "x": break; ' * min(d, 300) + b"default: esi; } }"))
        out.append(("nest:long-strings-%d" % d, b"sub f { set req.http.A = " + b'{"a"} ' * d + b'{"b; }'))
        out.append(("nest:comments-%d" % d, b"sub f { " + b"/* c */ # d\n" * d + b"set a = b | c; }"))
    return out


def error_positions(rng, files, thorough):
    """one error-provoking token injected at positions spread over a long valid file, LF and CRLF"""
    out = []
    big = sorted(files, key=lambda f: -len(f[1]))[: (4 if thorough else 2)]
    for path, data in big:
        lines = data.split(b"\n")
        n = len(lines)
        picks = sorted(set([0, 1, n // 2, n - 2, n - 1] + [rng.randrange(n) for _ in range(60 if thorough else 14)]))
        for conv_name, nl in (("lf", b"\n"), ("crlf", b"\r\n")):
            for li in picks:
                for inj in (b" | ", b' "unterminated', b" \xe6\x97\xa5 "):
                    if not thorough and inj != b" | " and rng.random() < 0.6:
                        continue
                    ls = list(lines)
                    ls[li] = ls[li] + inj
                    out.append(("errpos:%s:%s@%d/%d" % (conv_name, path, li, n), nl.join(ls)))
            for cut in (picks if thorough else picks[::3]):
                out.append(("errpos-trunc:%s:%s@%d" % (conv_name, path, cut), nl.join(lines[:cut])))
    return out


def line_endings(files):
    """every repository file with CRLF, CR-only and mixed line ends"""
    out = []
    for path, data in files:
        if not data:
            continue
        out.append(("eol:crlf:" + path, data.replace(b"\n", b"\r\n")))
        if len(data) < 3000:
            out.append(("eol:cr:" + path, data.replace(b"\n", b"\r")))
            parts = data.split(b"\n")
            out.append(("eol:mixed:" + path, b"".join(p + (b"\r\n" if i % 2 else b"\n") for i, p in enumerate(parts))))
    return out
