"""Grammar-based generator of Fastly VCL programs (shared by many checks).

Everything is driven by one random.Random.  The generator returns *source text*;
`Gen.stats` counts the node kinds produced so that the evidence can print the input
distribution.  Options choose between syntactically-valid-only output (default) and
features that individual checks want (comments are added by gen/decorate.py).
"""
import random

SET_OPS = ["=", "+=", "-=", "*=", "/=", "%=", "|=", "&=", "^=", "<<=", ">>=", "rol=", "ror=", "&&=", "||="]
CMP_OPS = ["==", "!=", "<", ">", "<=", ">=", "~", "!~"]
LOGIC_OPS = ["&&", "||"]
TYPES = ["INTEGER", "FLOAT", "STRING", "BOOL", "RTIME", "TIME", "IP", "BACKEND", "ACL"]
IDENT_POOL = ["req.http.Host", "req.http.X-Foo", "req.url", "req.url.path", "client.ip", "beresp.ttl",
              "var.s", "var.i", "var.f", "var.b", "var.t", "resp.http.Vary", "bereq.http.A:b",
              "req.http.Cookie:sid", "obj.status", "now", "req.restarts", "server.identity",
              "resp.status", "beresp.http.Cache-Control", "req.backend", "fastly.error"]
FUNCS = ["std.strlen", "std.tolower", "regsub", "regsuball", "std.atoi", "substr", "digest.hash_md5",
         "std.itoa", "time.add", "querystring.get", "table.lookup", "std.prefixof", "header.get"]
STR_CHARS = "abcXYZ019 _-/.:;,=+*?&{}()[]<>!@#$^|~'`\\"
RTIME_SUFFIX = ["ms", "s", "m", "h", "d", "y"]
SUBNAMES = ["vcl_recv", "vcl_hash", "vcl_hit", "vcl_miss", "vcl_pass", "vcl_fetch", "vcl_error",
            "vcl_deliver", "vcl_log", "custom_a", "custom_b", "redirect"]
ACTIONS = ["lookup", "pass", "deliver", "fetch", "hash", "restart", "error", "deliver_stale", "hit_for_pass"]


class Gen:
    def __init__(self, rng, max_depth=4, long_strings=True, escapes=True, exotic_numbers=True,
                 unicode_strings=True):
        self.r = rng
        self.max_depth = max_depth
        self.long_strings = long_strings
        self.escapes = escapes
        self.exotic = exotic_numbers
        self.unicode = unicode_strings
        self.stats = {}
        self.label_n = 0

    def _c(self, k):
        self.stats[k] = self.stats.get(k, 0) + 1

    # ---------------------------------------------------------------- literals
    def name(self):
        return self.r.choice(["a", "b", "foo", "bar_1", "F_origin", "x9", "my_acl", "tbl", "d1", "E400"])

    def ident(self):
        return self.r.choice(IDENT_POOL)

    def str_body(self, n=None):
        n = self.r.randint(0, 8) if n is None else n
        out = []
        for _ in range(n):
            k = self.r.random()
            if k < 0.75:
                c = self.r.choice(STR_CHARS)
            elif k < 0.85 and self.escapes:
                c = self.r.choice(["%20", "%41", "%u0041", "%u{1F600}", "%u{41}", "%0a", "%25", "%7e"])
            elif k < 0.95 and self.unicode:
                c = self.r.choice(["é", "日本", "😀", "ß", "\u00a0"])
            else:
                c = self.r.choice(["a", "0", " "])
            out.append(c)
        return "".join(out)

    def string(self):
        k = self.r.random()
        if self.long_strings and k < 0.12:
            self._c("lit:longstring")
            body = self.str_body().replace('"}', "")
            if self.r.random() < 0.3:
                body += self.r.choice(['"', "\n", '"x', "}"])
                body = body.replace('"}', '" }')
            return '{"' + body + '"}'
        if self.long_strings and k < 0.18:
            self._c("lit:delimstring")
            d = self.r.choice(["xyz", "EOS", "a1"])
            body = self.str_body().replace('"' + d + "}", "")
            if self.r.random() < 0.3:
                body += '"}'
            return "{" + d + '"' + body + '"' + d + "}"
        self._c("lit:string")
        return '"' + self.str_body().replace('"', "") + '"'

    def integer(self):
        self._c("lit:int")
        k = self.r.random()
        if k < 0.5:
            return str(self.r.choice([0, 1, 2, 7, 10, 64, 200, 301, 404, 503, 65535, 2147483647]))
        if k < 0.65 and self.exotic:
            return self.r.choice(["0x1F", "0XfF", "0x7FFFFFFFFFFFFFFF", "0755", "9223372036854775807", "0x0"])
        return str(self.r.randint(0, 10 ** self.r.randint(1, 18)))

    def floatlit(self):
        self._c("lit:float")
        if self.exotic and self.r.random() < 0.3:
            return self.r.choice(["1e3", "1.5e3", "1e-3", "1e+3", "0x1.8p3", "0xA.Bp3", "0x1.8", "0.000", "10.0"])
        return "%d.%d" % (self.r.randint(0, 999), self.r.randint(0, 999))

    def rtime(self):
        self._c("lit:rtime")
        n = self.r.choice(["1", "10", "60", "1.5", "0", "365", "100"])
        return n + self.r.choice(RTIME_SUFFIX)

    def boolean(self):
        self._c("lit:bool")
        return self.r.choice(["true", "false"])

    # ---------------------------------------------------------------- expressions
    def atom(self, depth):
        k = self.r.random()
        if k < 0.30:
            self._c("expr:ident")
            return self.ident()
        if k < 0.50:
            return self.string()
        if k < 0.60:
            return self.integer()
        if k < 0.65:
            return self.floatlit()
        if k < 0.70:
            return self.rtime()
        if k < 0.75:
            return self.boolean()
        if depth <= 0:
            self._c("expr:ident")
            return self.ident()
        if k < 0.83:
            self._c("expr:call")
            return self.call(depth - 1)
        if k < 0.90:
            self._c("expr:group")
            return "(" + self.expr(depth - 1) + ")"
        if k < 0.95:
            self._c("expr:ifexp")
            return "if(%s, %s, %s)" % (self.cond(depth - 1), self.expr(depth - 1), self.expr(depth - 1))
        self._c("expr:prefix")
        op = self.r.choice(["!", "-"])
        if op == "-":
            return "-" + self.r.choice([self.integer(), self.floatlit(), self.ident(), self.rtime()])
        return "!" + self.atom(depth - 1)

    def juxta_atom(self, depth):
        k = self.r.random()
        if k < 0.45:
            return self.ident()
        if k < 0.85 or depth <= 0:
            return self.string()
        if k < 0.93:
            return self.call(depth - 1)
        return "if(%s, %s, %s)" % (self.cond(depth - 1), self.expr(depth - 1), self.expr(depth - 1))

    def call(self, depth):
        f = self.r.choice(FUNCS)
        n = self.r.randint(0, 3)
        return "%s(%s)" % (f, ", ".join(self.expr(depth) for _ in range(n)))

    def concat(self, depth):
        n = self.r.choice([1, 1, 1, 2, 2, 3, 4])
        parts = [self.atom(depth)]
        for _ in range(n - 1):
            a = self.atom(depth)
            if self.r.random() < 0.5:
                self._c("expr:concat+")
                parts.append(" + " + a)
            else:
                self._c("expr:concat_juxta")
                # juxtaposition continues only with IDENT / STRING / long string / if(...)
                a = self.juxta_atom(depth)
                parts.append(" " + a)
        return "".join(parts)

    def cond(self, depth):
        """boolean-ish expression: comparisons joined by logical operators"""
        if depth <= 0 or self.r.random() < 0.35:
            k = self.r.random()
            if k < 0.3:
                return self.ident()
            if k < 0.4:
                return "!" + self.ident()
            op = self.r.choice(CMP_OPS)
            self._c("expr:cmp" + op)
            rhs = self.string() if op in ("~", "!~") else self.concat(min(depth, 1))
            return "%s %s %s" % (self.concat(min(depth, 1)), op, rhs)
        op = self.r.choice(LOGIC_OPS)
        self._c("expr:logic" + op)
        l, rgt = self.cond(depth - 1), self.cond(depth - 1)
        if self.r.random() < 0.3:
            l = "(" + l + ")"
        if self.r.random() < 0.3:
            rgt = "(" + rgt + ")"
        if self.r.random() < 0.15:
            return "!(" + l + " " + op + " " + rgt + ")"
        return l + " " + op + " " + rgt

    def expr(self, depth=None):
        depth = self.max_depth if depth is None else depth
        if self.r.random() < 0.25:
            return self.cond(depth)
        return self.concat(depth)

    # ---------------------------------------------------------------- statements
    def block(self, depth, ctx=""):
        n = self.r.choice([0, 1, 1, 2, 2, 3, 5])
        return "{\n" + "".join(self.stmt(depth, ctx) for _ in range(n)) + "}"

    def stmt(self, depth, ctx="", top=False):
        kinds = ["set", "set", "set", "add", "unset", "remove", "declare", "call", "error", "esi", "log",
                 "restart", "return", "synthetic", "synthetic64", "funcall", "goto", "include"]
        if depth > 0:
            kinds += ["if", "if", "if", "block"] + ([] if top else ["switch"])
        k = self.r.choice(kinds)
        self._c("stmt:" + k)
        e = lambda: self.expr(min(depth, self.max_depth))
        if k == "set":
            return "set %s %s %s;\n" % (self.ident(), self.r.choice(SET_OPS), e())
        if k == "add":
            return "add %s = %s;\n" % (self.r.choice(["req.http.X", "resp.http.Set-Cookie", "beresp.http.V"]), e())
        if k == "unset":
            return "unset %s;\n" % self.ident()
        if k == "remove":
            return "remove %s;\n" % self.ident()
        if k == "declare":
            return "declare local var.%s %s;\n" % (self.name(), self.r.choice(TYPES[:7]))
        if k == "call":
            if self.r.random() < 0.3:
                return "call %s(%s);\n" % (self.name(), ", ".join(e() for _ in range(self.r.randint(0, 3))))
            return "call %s;\n" % self.name()
        if k == "error":
            m = self.r.random()
            if m < 0.15:
                return "error;\n"
            if m < 0.4:
                return "error %s;\n" % self.r.choice(["404", "503", "var.i", "std.atoi(\"1\")"])
            arg = e()
            while arg.startswith("("):
                arg = e()
            return "error %s %s;\n" % (self.r.choice(["404", "601", "var.i"]), arg)
        if k == "esi":
            return "esi;\n"
        if k == "log":
            return "log %s;\n" % e()
        if k == "restart":
            return "restart;\n"
        if k == "return":
            m = self.r.random()
            if m < 0.2:
                return "return;\n"
            if m < 0.6:
                return "return (%s);\n" % self.r.choice(ACTIONS)
            if m < 0.8:
                return "return %s;\n" % self.r.choice(ACTIONS + ["var.s", "1", "\"x\""])
            v = e()
            while v.startswith("("):
                v = e()
            return "return %s;\n" % v
        if k == "synthetic":
            return "synthetic %s;\n" % e()
        if k == "synthetic64":
            return "synthetic.base64 %s;\n" % e()
        if k == "funcall":
            return "%s;\n" % self.call(min(depth, 2))
        if k == "goto":
            self.label_n += 1
            lab = "lbl%d" % self.label_n
            return "goto %s;\n%s:\n" % (lab, lab)
        if k == "include":
            return "include \"%s\";\n" % self.r.choice(["mod", "feature_x", "a/b"])
        if k == "block":
            return self.block(depth - 1, ctx) + "\n"
        if k == "if":
            s = "if (%s) %s" % (self.cond(min(depth, 3)), self.block(depth - 1, ctx))
            for _ in range(self.r.choice([0, 0, 1, 1, 2])):
                kw = self.r.choice(["else if", "elseif", "elsif"])
                s += "\n%s (%s) %s" % (kw, self.cond(min(depth, 2)), self.block(depth - 1, ctx))
            if self.r.random() < 0.5:
                s += "\nelse " + self.block(depth - 1, ctx)
            return s + "\n"
        if k == "switch":
            ctl = self.r.choice([self.ident(), '"' + self.str_body().replace('"', "") + '"', "true", self.call(1)])
            ncase = self.r.randint(1, 4)
            s = "switch (%s) {\n" % ctl
            seen = set()
            dflt = self.r.randint(0, ncase) if self.r.random() < 0.6 else -1
            for i in range(ncase):
                if i == dflt:
                    s += "default:\n" + self.case_body(depth, last=(i == ncase - 1))
                    continue
                while True:
                    lit = '"' + self.str_body(3).replace('"', "") + '"'
                    rx = self.r.random() < 0.3
                    if (lit, rx) not in seen:
                        seen.add((lit, rx))
                        break
                s += "case %s%s:\n" % ("~ " if rx else "", lit) + self.case_body(depth, last=(i == ncase - 1))
            return s + "}\n"
        raise AssertionError(k)

    def case_body(self, depth, last):
        body = "".join(self.stmt(max(depth - 1, 0), "case") for _ in range(self.r.randint(0, 2)))
        # a goto destination label must not directly precede break (parser looks at prev token)
        if last or self.r.random() < 0.7:
            return body + "break;\n"
        return body + "fallthrough;\n"

    # ---------------------------------------------------------------- declarations
    def decl(self):
        k = self.r.choice(["acl", "backend", "director", "table", "sub", "sub", "sub", "penaltybox", "ratecounter"])
        self._c("decl:" + k)
        if k == "acl":
            s = "acl %s {\n" % self.name()
            for _ in range(self.r.randint(0, 4)):
                neg = "!" if self.r.random() < 0.3 else ""
                if self.r.random() < 0.3:
                    ip = self.r.choice(["2001:db8::1", "::1", "fe80::"])
                    mask = self.r.choice(["", "/64", "/128", "/32"])
                else:
                    ip = "%d.%d.%d.%d" % tuple(self.r.randint(0, 255) for _ in range(4))
                    mask = self.r.choice(["", "/8", "/16", "/24", "/32", "/0"])
                s += "  %s\"%s\"%s;\n" % (neg, ip, mask)
            return s + "}\n"
        if k == "backend":
            s = "backend %s {\n" % self.name()
            for _ in range(self.r.randint(0, 4)):
                s += "  .%s = %s;\n" % (self.r.choice(["host", "port", "connect_timeout", "ssl", "max_connections", "between_bytes_timeout"]),
                                         self.r.choice([self.string(), self.integer(), self.rtime(), self.boolean(), self.name()]))
            if self.r.random() < 0.4:
                s += "  .probe = {\n"
                for _ in range(self.r.randint(0, 3)):
                    s += "    .%s = %s;\n" % (self.r.choice(["request", "interval", "timeout", "window", "threshold", "dummy"]),
                                               self.r.choice([self.string(), self.integer(), self.rtime(), self.boolean(),
                                                              '"GET / HTTP/1.1" "Host: x" "Connection: close"']))
                s += "  }\n"
            return s + "}\n"
        if k == "director":
            s = "director %s %s {\n" % (self.name(), self.r.choice(["random", "hash", "client", "fallback", "chash"]))
            for _ in range(self.r.randint(0, 2)):
                s += "  .%s = %s;\n" % (self.r.choice(["quorum", "retries", "key"]), self.r.choice(["50%", "3", "object", self.integer()]))
            for _ in range(self.r.randint(0, 3)):
                s += "  { .backend = %s; .weight = %s; }\n" % (self.name(), self.r.randint(1, 9))
            return s + "}\n"
        if k == "table":
            ty = self.r.choice(["", "", "STRING", "INTEGER", "BOOL", "BACKEND", "FLOAT", "RTIME", "IP", "ACL"])
            s = "table %s %s{\n" % (self.name(), ty + " " if ty else "")
            n = self.r.randint(0, 4)
            for i in range(n):
                val = {"": self.string, "STRING": self.string, "INTEGER": self.integer, "BOOL": self.boolean,
                       "BACKEND": self.name, "FLOAT": self.floatlit, "RTIME": self.rtime, "IP": lambda: '"10.0.0.1"',
                       "ACL": self.name}[ty]()
                comma = "," if (i < n - 1 or self.r.random() < 0.5) else ""
                s += "  \"%s\": %s%s\n" % (self.str_body(4).replace('"', ""), val, comma)
            return s + "}\n"
        if k == "sub":
            name = self.r.choice(SUBNAMES)
            sig = ""
            if name.startswith(("custom", "redirect")) and self.r.random() < 0.5:
                if self.r.random() < 0.6:
                    ps = ", ".join("%s %s" % (self.r.choice(TYPES[:7]), self.r.choice(["p1", "p2", "val", "x"]))
                                   for _ in range(self.r.randint(0, 3)))
                    sig += "(%s)" % ps
                if self.r.random() < 0.6:
                    sig += " " + self.r.choice(TYPES[:7])
            self.label_n = self.label_n
            body = "".join(self.stmt(self.max_depth - 1, name) for _ in range(self.r.randint(0, 6)))
            return "sub %s%s {\n%s}\n" % (name, sig, body)
        return "%s %s {\n}\n" % (k, self.name())

    def program(self, n=None):
        n = self.r.randint(1, 6) if n is None else n
        return "\n".join(self.decl() for _ in range(n))

    def snippet(self, n=None):
        n = self.r.randint(1, 6) if n is None else n
        return "".join(self.stmt(self.max_depth - 1, top=True) for _ in range(n))


def repo_vcl_files(repo):
    """every .vcl file in the repository (examples/, tests) as (path, bytes)"""
    import os
    out = []
    for root, dirs, files in os.walk(repo):
        dirs[:] = [d for d in dirs if d not in (".git", "node_modules")]
        for fn in sorted(files):
            if fn.endswith(".vcl"):
                p = os.path.join(root, fn)
                try:
                    with open(p, "rb") as f:
                        out.append((os.path.relpath(p, repo), f.read()))
                except OSError:
                    pass
    out.sort()
    return out
