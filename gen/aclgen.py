"""ACL generator for C07: ACLs of <= 8 entries (IPv4 / IPv6, arbitrary masks, negations,
duplicates, nesting, non-canonical host bits, shuffled order) and probe addresses inside, on both
boundaries of and just outside every entry.  Entries and probes are kept numerically
(family, bits) for the model and rendered as text for the implementation."""
import ipaddress

W = {4: 32, 6: 128}
V4MAPPED = 0xFFFF << 32


def addr_text(fam, bits):
    return str(ipaddress.IPv4Address(bits)) if fam == 4 else str(ipaddress.IPv6Address(bits))


def _avoid_mapped(fam, bits):
    # ::ffff:a.b.c.d is an IPv4 address for Go (net.IP.To4); the model has no such aliasing, the
    # generator stays out of ::ffff:0:0/96 (and of ::/96, which Python prints in dotted form)
    if fam == 6 and (bits >> 32) in (0xFFFF, 0):
        bits |= 1 << 100
    return bits


class Entry:
    __slots__ = ("neg", "fam", "bits", "mask")

    def __init__(self, neg, fam, bits, mask):
        self.neg, self.fam, self.bits, self.mask = neg, fam, bits, mask

    def plen(self):
        return W[self.fam] if self.mask is None else self.mask

    def valid(self):
        return 0 <= self.plen() <= W[self.fam]

    def text(self):
        s = ("!" if self.neg else "") + addr_text(self.fam, self.bits)
        return s if self.mask is None else "%s/%d" % (s, self.mask)

    def model(self):
        return "%d:%d:%x:%s" % (1 if self.neg else 0, self.fam, self.bits, "_" if self.mask is None else "%x" % self.mask)

    def contains(self, fam, bits):
        if fam != self.fam:
            return False
        sh = W[self.fam] - self.plen()
        return (self.bits >> sh) == (bits >> sh)

    def key(self):
        return (self.neg, self.fam, self.bits, self.mask)


def spec(entries, fam, bits):
    """independent reference: longest containing prefix decides; ties need all to be positive"""
    if not all(e.valid() for e in entries):
        return "err"
    cs = [e for e in entries if e.contains(fam, bits)]
    if not cs:
        return "0"
    best = max(e.plen() for e in cs)
    return "0" if any(e.neg for e in cs if e.plen() == best) else "1"


MASKS = {4: [None, None, 0, 1, 7, 8, 9, 15, 16, 23, 24, 25, 30, 31, 32],
         6: [None, None, 0, 1, 16, 32, 33, 48, 63, 64, 65, 96, 120, 127, 128]}


def gen_acl(rng, stats):
    fam = 4 if rng.random() < 0.6 else 6
    n = rng.randint(0, 8)
    es = []
    for _ in range(n):
        k = rng.random()
        f = fam if rng.random() < 0.9 else (10 - fam)
        if es and k < 0.30:          # nested inside an existing entry (longer prefix)
            p = rng.choice(es)
            f = p.fam
            pl = min(max(p.plen(), 0), W[f])
            m = rng.randint(pl, W[f])
            host = rng.getrandbits(W[f]) & ((1 << (W[f] - pl)) - 1)
            bits = ((p.bits >> (W[f] - pl)) << (W[f] - pl)) | host
            mask = None if (m == W[f] and rng.random() < 0.5) else m
            es.append(Entry(rng.random() < 0.5, f, _avoid_mapped(f, bits), mask))
            stats["nested"] = stats.get("nested", 0) + 1
        elif es and k < 0.42:        # duplicate, possibly with the negation flipped / other spelling of the host bits
            p = rng.choice(es)
            bits = p.bits
            if rng.random() < 0.5:
                pl = min(max(p.plen(), 0), W[p.fam])
                bits ^= rng.getrandbits(W[p.fam]) & ((1 << (W[p.fam] - pl)) - 1)
            es.append(Entry(p.neg if rng.random() < 0.4 else (not p.neg), p.fam, _avoid_mapped(p.fam, bits), p.mask))
            stats["duplicate"] = stats.get("duplicate", 0) + 1
        else:
            bits = rng.getrandbits(W[f])
            if rng.random() < 0.3:
                bits &= ~((1 << rng.randint(0, W[f])) - 1)
            mask = rng.choice(MASKS[f])
            if rng.random() < 0.03:
                mask = W[f] + rng.choice([1, 2, 100])     # unparsable CIDR -> runtime error
                stats["invalid_mask"] = stats.get("invalid_mask", 0) + 1
            es.append(Entry(rng.random() < 0.4, f, _avoid_mapped(f, bits), mask))
    rng.shuffle(es)
    return es


def probes(rng, es, stats):
    ps = []
    for e in es:
        w = W[e.fam]
        pl = min(max(e.plen(), 0), w)
        lo = (e.bits >> (w - pl)) << (w - pl)
        hi = lo | ((1 << (w - pl)) - 1)
        cand = [("first", lo), ("last", hi), ("inside", lo | (rng.getrandbits(w) & (hi - lo))),
                ("below", lo - 1), ("above", hi + 1), ("written", e.bits)]
        for kind, b in cand:
            if 0 <= b < (1 << w):
                b2 = _avoid_mapped(e.fam, b)
                if b2 == b:
                    ps.append((e.fam, b))
                    stats[kind] = stats.get(kind, 0) + 1
    for _ in range(2):
        f = rng.choice([4, 6])
        ps.append((f, _avoid_mapped(f, rng.getrandbits(W[f]))))
        stats["random"] = stats.get("random", 0) + 1
    seen, out = set(), []
    for p in ps:
        if p not in seen:
            seen.add(p)
            out.append(p)
    return out


def toy_entries(bits_n):
    """every network of the toy family 10.0.0.0/(32-bits_n): masks 32-bits_n .. 32 and the bare host, both signs"""
    base = 10 << 24
    out = []
    for m in range(32 - bits_n, 33):
        for net in range(1 << (m - (32 - bits_n))):
            b = base | (net << (32 - m))
            for neg in (False, True):
                out.append(Entry(neg, 4, b, m))
    return out
