"""C09 generator: programs as TOKEN LISTS, and decorations of them.

A program is a list of lexemes.  Between any two lexemes (and before the first / after the
last) is a gap; a rendering chooses the text of every gap.  The base rendering uses a single
blank or newline; a decorated variant inserts ordinary comments (block, `#`, `//`), blank
lines, indentation and line breaks.  Annotation comments (`#FASTLY recv`, `# @scope: ...`) are
lexemes of the program (always on a line of their own), never part of a decoration.

Programs are executable (one GET request reaches vcl_recv ... vcl_log through a loopback
backend on port __PORT__) and mostly lint-clean; `inject=True` adds statements that raise
lint diagnostics (wrong scope, wrong type, invalid return state, undeclared variable ...).
"""

ANN = "\x00"      # marks an annotation lexeme (rendered on its own line)
ANT = "\x01"      # marks a TRAILING annotation lexeme (`stmt; // falco-ignore`): stays on the line of the statement


def ann(text):
    return ANN + text


def ant(text):
    return ANT + text


class DecorGen:
    def __init__(self, rng):
        self.r = rng
        self.stats = {}
        self.nvar = 0

    def _c(self, k):
        self.stats[k] = self.stats.get(k, 0) + 1

    # ------------------------------------------------------------ expressions (token lists)
    def sval(self):
        return self.r.choice(['"a"', '"b c"', '"x-1"', '""', '"/p"', '{"long"}', '"v%20w"'])

    def hdr(self, scope):
        pool = ["req.http.A", "req.http.B", "req.http.Cookie:sid", "req.http.X-Test", "req.http.User-Agent"]
        if scope == "fetch":
            pool += ["beresp.http.F", "beresp.http.Cache-Control"]
        if scope == "deliver":
            pool += ["resp.http.D", "resp.http.Content-Type"]
        return self.r.choice(pool)

    def sexpr(self, scope, depth=2):
        """STRING-typed expression"""
        r = self.r
        k = r.random()
        if depth <= 0 or k < 0.3:
            if r.random() < 0.12:
                self._c("expr:idarg-call")
                return r.choice([["header.get", "(", "req", ",", '"X-Test"', ")"], ["table.lookup", "(", "t1", ",", '"k2"', ")"]])
            return [r.choice([self.sval(), self.hdr(scope), "req.url", "req.url.path"])]
        if k < 0.45:
            self._c("expr:juxtaposition")
            return self.sexpr(scope, depth - 1) + self.sexpr(scope, 0)
        if k < 0.6:
            self._c("expr:plus")
            return self.sexpr(scope, depth - 1) + ["+"] + self.sexpr(scope, 0)
        if k < 0.75:
            self._c("expr:call")
            f = r.choice(["std.tolower", "std.toupper", "urlencode"])
            return [f, "("] + self.sexpr(scope, depth - 1) + [")"]
        if k < 0.85:
            self._c("expr:call2")
            return ["regsub", "("] + self.sexpr(scope, 0) + [",", '"a"', ","] + self.sexpr(scope, 0) + [")"]
        if k < 0.93:
            self._c("expr:if")
            return ["if", "("] + self.cond(scope, depth - 1) + [","] + self.sexpr(scope, 0) + [","] + self.sexpr(scope, 0) + [")"]
        if k < 0.965:
            self._c("expr:userfunc")
            return ["fs", "(", ")"]
        self._c("expr:idarg-call")
        return r.choice([
            ["header.get", "(", "req", ",", '"X-Test"', ")"],
            ["header.get", "(", "req", ",", '"User-Agent"', ")"],
            ["table.lookup", "(", "t1", ",", '"k"', ")"],
            ["table.lookup", "(", "t1", ",", self.hdr(scope), ",", '"dflt"', ")"],
            ["querystring.get", "(", "req.url", ",", '"y"', ")"],
        ])

    def cond(self, scope, depth=2):
        r = self.r
        k = r.random()
        if depth <= 0 or k < 0.35:
            m = r.random()
            if m < 0.3:
                return [self.hdr(scope)]
            if m < 0.4:
                return ["!", self.hdr(scope)]
            if m < 0.6:
                self._c("cond:regex")
                return [self.hdr(scope), r.choice(["~", "!~"]), r.choice(['"^a"', '"(b|c)+"', '"t1"'])]
            if m < 0.7:
                self._c("cond:acl")
                return ["client.ip", "~", "internal"]
            if m < 0.8:
                self._c("cond:intcmp")
                return ["std.strlen", "("] + self.sexpr(scope, 0) + [")", r.choice([">", "<", ">=", "<=", "==", "!="]), str(r.randint(0, 5))]
            if m < 0.86:
                self._c("cond:idarg-call")
                return r.choice([
                    ["table.contains", "(", "t1", ",", r.choice(['"k"', '"nope"']), ")"],
                    ["ratelimit.check_rate", "(", '"c1"', ",", "rc1", ",", "1", ",", "10", ",", "100", ",", "pb1", ",", "1m", ")"],
                    ["ratelimit.penaltybox_has", "(", "pb1", ",", '"e"', ")"],
                ])
            if m < 0.9:
                return ["req.restarts", "==", "0"]
            return [self.hdr(scope), r.choice(["==", "!="])] + self.sexpr(scope, 1)
        if k < 0.7:
            self._c("cond:logic")
            return self.cond(scope, depth - 1) + [r.choice(["&&", "||"])] + self.cond(scope, depth - 1)
        if k < 0.85:
            self._c("cond:group")
            return ["("] + self.cond(scope, depth - 1) + [")"]
        self._c("cond:not-group")
        return ["!", "("] + self.cond(scope, depth - 1) + [")"]

    # ------------------------------------------------------------ statements
    def block(self, scope, depth, n=None):
        out = []
        for _ in range(self.r.choice([1, 1, 2, 3]) if n is None else n):
            out += self.stmt(scope, depth)
        return out

    def settable(self, scope):
        pool = ["req.http.A", "req.http.B", "req.http.N-%d" % self.r.randint(0, 3)]
        if scope == "fetch":
            pool += ["beresp.http.F", "beresp.http.G"]
        if scope in ("deliver",):
            pool += ["resp.http.D", "resp.http.E"]
        if scope == "error":
            pool += ["obj.http.O"]
        return self.r.choice(pool)

    def stmt(self, scope, depth):
        r = self.r
        k = r.random()
        if k < 0.3:
            self._c("stmt:set")
            return ["set", self.settable(scope), "="] + self.sexpr(scope) + [";"]
        if k < 0.36:
            self._c("stmt:log")
            return ["log"] + self.sexpr(scope) + [";"]
        if k < 0.42:
            self._c("stmt:local")
            self.nvar += 1
            v = "var.l%d" % self.nvar
            t = r.choice(["STRING", "INTEGER", "BOOL"])
            init = {"STRING": self.sexpr(scope, 1), "INTEGER": [str(r.randint(0, 9))], "BOOL": [r.choice(["true", "false"])]}[t]
            out = ["declare", "local", v, t, ";", "set", v, "="] + init + [";"]
            if t == "INTEGER":
                out += ["set", v, r.choice(["+=", "-=", "*="]), str(r.randint(1, 3)), ";"]
            out += ["log", '"%s="' % v, v, ";"] if t == "STRING" else ["set", self.settable(scope), "=", v, ";"]
            return out
        if k < 0.47:
            self._c("stmt:unset")
            return [r.choice(["unset", "remove"]), self.settable(scope), ";"]
        if k < 0.5:
            self._c("stmt:add")
            return ["add", self.settable(scope), "="] + self.sexpr(scope, 1) + [";"]
        if k < 0.55 and scope != "any":
            self._c("stmt:call")
            return ["call", "helper", ";"]
        if k < 0.58:
            self._c("stmt:funcstmt")
            return r.choice([
                ["std.collect", "(", "req.http.A", ")", ";"],
                ["header.set", "(", "req", ",", '"N-1"', ","] + self.sexpr(scope, 0) + [")", ";"],
                ["header.unset", "(", "req", ",", '"N-2"', ")", ";"],
                ["header.filter_except", "(", "req", ",", '"Cookie"', ",", '"A"', ",", '"B"', ",", '"X-Test"', ",", '"User-Agent"', ",", '"Host"', ")", ";"],
                ["ratelimit.penaltybox_add", "(", "pb1", ",", '"e"', ",", "2m", ")", ";"],
                ["set", "req.http.RC", "=", "ratelimit.ratecounter_increment", "(", "rc1", ",", '"e"', ",", "1", ")", ";"],
            ])
        if k < 0.62:
            self._c("stmt:goto")
            self.nvar += 1
            lab = "L%d" % self.nvar
            return ["goto", lab, ";", "set", self.settable(scope), "=", '"skipped"', ";", lab + ":"]
        if k < 0.67:
            return self.ignored(scope)
        if k < 0.80 and depth > 0:
            self._c("stmt:if")
            out = ["if", "("] + self.cond(scope) + [")", "{"] + self.block(scope, depth - 1) + ["}"]
            for _ in range(r.choice([0, 0, 1, 2])):
                kw = r.choice([["else", "if"], ["else", "if"], ["elsif"], ["elseif"]])
                self._c("stmt:" + "".join(kw))
                out += kw + ["("] + self.cond(scope, 1) + [")", "{"] + self.block(scope, depth - 1) + ["}"]
            if r.random() < 0.5:
                out += ["else", "{"] + self.block(scope, depth - 1) + ["}"]
            return out
        if k < 0.88 and depth > 0:
            self._c("stmt:switch")
            out = ["switch", "(", self.hdr(scope), ")", "{"]
            labels = r.sample(['"a"', '"t1"', '"abc"', '"x"', '""'], r.randint(1, 3))
            for i, lab in enumerate(labels):
                rx = r.random() < 0.25
                out += ["case"] + (["~"] if rx else []) + [lab, ":"] + self.block(scope, depth - 1, r.choice([0, 1, 2]))
                out += ["fallthrough", ";"] if (r.random() < 0.2) else ["break", ";"]
            if r.random() < 0.7:
                out += ["default", ":"] + self.block(scope, depth - 1, 1) + ["break", ";"]
            else:
                # the last clause must not fall through
                if out[-2] == "fallthrough":
                    out[-2] = "break"
            return out + ["}"]
        if k < 0.92 and depth > 0:
            self._c("stmt:block")
            return ["{"] + self.block(scope, depth - 1) + ["}"]
        if k < 0.95 and scope == "fetch":
            self._c("stmt:esi")
            return ["esi", ";"]
        self._c("stmt:set-ttl")
        if scope == "fetch":
            return ["set", "beresp.ttl", "=", r.choice(["10s", "1m", "0s"]), ";"]
        return ["set", "req.http.T", "=", '"t"', ";"]

    def ignored(self, scope):
        """a statement that raises lint diagnostics, under an ignore directive that hides them"""
        r = self.r
        if r.random() < 0.75:
            # diagnostics at lint time, harmless at run time: the simulation goes on
            bad = r.choice([["set", "req.http.X", "=", "10", ";"],
                            ["declare", "local", "var.unused%d" % r.randint(10, 99), "STRING", ";"],
                            ["set", "req.http.IG", "=", "1.5", ";"],
                            ["set", "req.http.X", "=", "req.restarts", ";"]])
        else:
            bad = self.injected(scope)
            while bad[0] in ("return", "restart", "error", "if"):
                bad = self.injected(scope)
        if r.random() < 0.3:
            # a statement without operand right before the directive: its `;` is the token whose trailing
            # comments are split from the directive (never executed: the header is never set)
            self._c("ignore:after-bare-statement")
            bare = r.choice([["error", ";"], ["esi", ";"], ["restart", ";"], ["error", ";"]])
            d = r.choice(["# falco-ignore-next-line", "// falco-ignore-next-line"])
            return ["if", "(", "req.http.Never-Set", ")", "{"] + bare + [ann(d)] + bad + ["}"]
        k = r.random()
        if k < 0.45:
            self._c("ignore:next-line")
            d = r.choice(["# falco-ignore-next-line", "// falco-ignore-next-line", "/* falco-ignore-next-line */"])
            return [ann(d)] + bad
        if k < 0.6:
            self._c("ignore:next-line-rules")
            return [ann("# falco-ignore-next-line operator/assignment, unused/variable, function/arguments")] + bad
        if k < 0.8:
            self._c("ignore:range")
            mid = ["set", "req.http.IG", "=", "10", ";"] if r.random() < 0.5 else []
            return [ann("// falco-ignore-start")] + bad + mid + [ann("// falco-ignore-end")]
        self._c("ignore:this-line")
        return bad + [ant(r.choice(["// falco-ignore", "# falco-ignore", "/* falco-ignore */"]))]

    def injected(self, scope):
        """statements that make the linter report something"""
        r = self.r
        self._c("inject")
        return r.choice([
            ["set", "req.http.X", "=", "10", ";"],
            ["set", "var.undeclared", "=", '"x"', ";"],
            ["set", "beresp.ttl", "=", '"x"', ";"] if scope == "fetch" else ["set", "beresp.http.Q", "=", '"x"', ";"],
            ["declare", "local", "var.unused%d" % r.randint(0, 9), "STRING", ";"],
            ["error", "700", '"big"', ";"] if scope in ("recv", "fetch") else ["error", "601", ";"],
            ["if", "(", '"lit"', ")", "{", "esi", ";", "}"],
            ["call", "missing_sub", ";"],
            ["set", "req.http.Y", "=", "std.strlen", "(", "req.http.A", ",", '"extra"', ")", ";"],
            ["unset", "now", ";"],
            ["return", "(", r.choice(["fetch", "hash", "bogus"]), ")", ";"],
            ["restart", ";"] if scope in ("hash", "log") else ["synthetic", '"s"', ";"],
        ])

    # ------------------------------------------------------------ program
    def program(self, inject=False):
        r = self.r
        self.nvar = 0
        depth = r.choice([1, 2, 2, 3])
        t = []
        t += ["backend", "example", "{", ".host", "=", '"127.0.0.1"', ";", ".port", "=", '"__PORT__"', ";",
              ".ssl", "=", "false", ";", "}"]
        director = r.random() < 0.3
        if director:
            # the members answer on different host names, so the flows show which one a director picked
            t += ["backend", "second", "{", ".host", "=", '"localhost"', ";", ".port", "=", '"__PORT__"', ";",
                  ".ssl", "=", "false", ";", ".connect_timeout", "=", "1s", ";",
                  ".probe", "=", "{", ".request", "=", '"GET / HTTP/1.1"', ";", ".interval", "=", "60s", ";", "}", "}"]
            t += ["backend", "third", "{", ".host", "=", '"127.0.0.1"', ";", ".port", "=", '"__PORT__"', ";",
                  ".ssl", "=", "false", ";", ".host_header", "=", '"third.example"', ";", "}"]
            kind = r.choice(["hash", "hash", "client", "client", "fallback"])
            self._c("decl:director-" + kind)
            t += ["director", "dir1", kind, "{"]
            if kind in ("hash", "client"):
                t += [".quorum", "=", "20%", ";"]
            for b in ("example", "second", "third"):
                t += ["{", ".backend", "=", b, ";"] + ([".weight", "=", "1", ";"] if kind in ("hash", "client") else []) + ["}"]
            t += ["}"]
        t += ["acl", "internal", "{", '"10.0.0.0"', "/", "8", ";", "!", '"10.1.0.0"', "/", "16", ";", '"192.168.0.1"', ";", "}"]
        t += ["table", "t1", "{", '"k"', ":", '"v"', ",", '"k2"', ":", '"v2"', ",", "}"]
        t += ["penaltybox", "pb1", "{", "}", "ratecounter", "rc1", "{", "}"]
        typed = r.random() < 0.5
        if typed:
            # typed tables: every entry value is a literal node of its own kind (comments attach to it)
            self._c("decl:typed-tables")
            t += ["table", "tr", "RTIME", "{", '"short"', ":", "90s", ",", '"long"', ":", "2d", ",", "}"]
            t += ["table", "ti", "INTEGER", "{", '"a"', ":", "10", ",", '"b"', ":", "0x1F", ",", "}"]
            t += ["table", "tf", "FLOAT", "{", '"a"', ":", "1.5", ",", "}"]
            t += ["table", "tb", "BOOL", "{", '"a"', ":", "true", ",", '"b"', ":", "false", ",", "}"]
            t += ["table", "tacl", "ACL", "{", '"a"', ":", "internal", ",", "}"]
            t += ["table", "tbe", "BACKEND", "{", '"a"', ":", "example", ",", "}"]
        m = r.random()
        if m < 0.35:
            t += [ann("# @scope: recv, fetch, deliver, miss, pass, hit, error, log, hash")]
        elif m < 0.6:
            # a restricted scope annotation: calls from other subroutines and scope-bound variables now raise diagnostics
            self._c("annot:restricted-scope")
            t += [ann(r.choice(["# @scope: recv, fetch", "// @scope: deliver", "/* @scope: recv */", "# @recv, deliver"]))]
        t += ["sub", "helper", "{"] + self.block("any", 1) + ["set", "req.http.T1", "=", "table.lookup", "(", "t1", ",", '"k"', ")", ";", "}"]
        t += ["sub", "fs", "STRING", "{", "return", r.choice(['"fs"', "req.http.A"]), ";", "}"]
        order = ["recv", "hash", "hit", "miss", "pass", "fetch", "error", "deliver", "log"]
        chosen = [s for s in order if s in ("recv", "fetch", "deliver") or r.random() < 0.4]
        r.shuffle(chosen)
        for scope in chosen:
            self._c("sub:vcl_" + scope)
            t += ["sub", "vcl_" + scope, "{", ann("#FASTLY " + scope)]
            body = self.block(scope, depth, r.choice([1, 2, 3, 4]))
            if inject and r.random() < 0.6:
                bad = self.injected(scope)
                if bad[0] not in ("return", "restart", "error") and r.random() < 0.5:
                    # the same finding twice (same rule, same message): on two lines in the program, on one line
                    # in the joined variants
                    self._c("inject:same-finding-twice")
                    bad = bad + bad if r.random() < 0.7 else bad + ["set", "req.http.Mid", "=", '"m"', ";"] + bad
                body = bad + body if r.random() < 0.5 else body + bad
            t += body
            if scope == "recv" and typed:
                t += ["declare", "local", "var.tr", "RTIME", ";", "set", "var.tr", "=", "table.lookup_rtime", "(", "tr", ",",
                      r.choice(['"short"', '"long"', '"none"']), ",", "1s", ")", ";", "log", '"tr="', "var.tr", ";"]
                t += ["declare", "local", "var.ti", "INTEGER", ";", "set", "var.ti", "=", "table.lookup_integer", "(", "ti", ",",
                      r.choice(['"a"', '"b"']), ",", "7", ")", ";", "log", '"ti="', "var.ti", ";"]
                t += ["declare", "local", "var.tf", "FLOAT", ";", "set", "var.tf", "=", "table.lookup_float", "(", "tf", ",",
                      '"a"', ",", "0.5", ")", ";", "log", '"tf="', "var.tf", ";"]
                t += ["if", "(", "table.lookup_bool", "(", "tb", ",", r.choice(['"a"', '"b"']), ",", "false", ")", ")", "{",
                      "log", '"tb"', ";", "}"]
                t += ["if", "(", "client.ip", "~", "table.lookup_acl", "(", "tacl", ",", '"a"', ",", "internal", ")", ")", "{",
                      "log", '"tacl"', ";", "}"]
                t += ["set", "req.http.TBE", "=", "table.lookup_backend", "(", "tbe", ",", '"a"', ",", "example", ")", ";"]
            if scope == "recv":
                t += ["set", "req.backend", "=", "dir1" if director and r.random() < 0.7 else "example", ";"]
                if r.random() < 0.25:
                    self._c("stmt:restart")
                    t += ["if", "(", "req.restarts", "==", "0", "&&", "req.http.A", ")", "{", "set", "req.http.R", "=", '"1"', ";", "restart", ";", "}"]
                if r.random() < 0.2:
                    self._c("stmt:error")
                    t += ["if", "(", "req.http.B", "==", '"e"', ")", "{", "error", "601", '"custom"', ";", "}"]
                t += ["return", "(", r.choice(["lookup", "lookup", "pass"]), ")", ";"]
            elif scope == "hash":
                t += ["set", "req.hash", "+=", "req.url", ";", "set", "req.hash", "+=", "req.http.host", ";", "return", "(", "hash", ")", ";"]
            elif scope == "hit":
                t += ["return", "(", "deliver", ")", ";"]
            elif scope == "miss":
                t += ["return", "(", "fetch", ")", ";"]
            elif scope == "pass":
                t += ["return", "(", "pass", ")", ";"]
            elif scope == "fetch":
                t += ["return", "(", r.choice(["deliver", "deliver", "pass"]), ")", ";"] if r.random() < 0.9 else ["return", "deliver", ";"]
            elif scope == "error":
                t += ["synthetic", '"err"', ";", "return", "(", "deliver", ")", ";"]
            elif scope == "deliver":
                # final header values become part of the response
                for h in ("A", "B", "T", "T1", "N-0", "N-1", "N-2", "N-3", "R", "RC", "IG"):
                    t += ["set", "resp.http.Final-" + h, "=", "req.http." + h, ";"]
                t += ["return", "(", "deliver", ")", ";"]
            elif scope == "log":
                pass
            t += ["}"]
        return t


# ------------------------------------------------------------------ rendering
import re

ORDINARY = ["/* c */", "/* lookup */", "/*x*/", "/* multi\n   line */", "/* # not-a-macro */", "/**/"]
LINE = ["# plain", "// plain", "# scope: recv", "#", "// return (pass);", "# TODO: x",
        "# FASTLY recv", "#fastly recv", "// falco ignore next line", "# ignore-next-line", "// scope: deliver, fetch"]


def render(tokens, gaps):
    """gaps[i] = text before tokens[i]; gaps[len] = text after the last token.
    Annotation lexemes are put on a line of their own whatever the gap says."""
    out = []
    for i, tk in enumerate(tokens):
        g = gaps[i]
        if tk.startswith(ANN):
            out.append(g + "\n" + tk[1:] + "\n")
        elif tk.startswith(ANT):
            # no line break (hence no line comment) may separate a trailing directive from its statement
            g = " ".join(p for p in re.findall(r"/\*[^\n]*?\*/", g)) if "/*" in g else ""
            out.append(" " + g + " " + tk[1:] + "\n")
        else:
            out.append(g + tk)
    out.append(gaps[len(tokens)])
    return "".join(out)


def base_gaps(tokens):
    gaps = []
    ind = 0
    for i, tk in enumerate(tokens):
        prev = tokens[i - 1] if i else ""
        if tk == "}":
            ind = max(0, ind - 1)
        if i == 0:
            g = ""
        elif prev.startswith((ANN, ANT)):
            g = "  " * ind               # the annotation lexeme ends its own line
        elif prev in (";", "{", "}") or prev.startswith(ANN) or prev.startswith(ANT) or prev.endswith(":") and prev != ":" or prev == ":" :
            g = "\n" + "  " * ind
        else:
            g = " "
        gaps.append(g)
        if tk == "{":
            ind += 1
    gaps.append("\n")
    return gaps


def _line(rng):
    return rng.choice(LINE) + "\n"


def decorate(tokens, rng, style):
    """gap texts for one decorated variant; every gap keeps at least one separator"""
    n = len(tokens)
    base = base_gaps(tokens)
    gaps = []
    focus = None
    if style == "focus":
        focus = set()
        for i, tk in enumerate(tokens):
            # inside return ( ... ), around operators, between else and if, argument lists, switch cases
            if tk in ("(", ")", ",", "==", "!=", "~", "!~", "&&", "||", "+", "=", "+=", ":", "case", "default", "if", "else",
                      "return", "!", "/", "break", "fallthrough", "{", "}", ";", "call", "goto", "set", "unset", "remove",
                      "add", "log", "declare", "local", "error", "synthetic", "esi", "restart", "sub", "backend", "acl",
                      "table", "director", "penaltybox", "ratecounter", "switch") or tk.startswith((ANN, ANT)):
                focus.add(i)
                focus.add(i + 1)
    for i in range(n + 1):
        b = base[i]
        if style == "block-everywhere":
            g = " " + rng.choice(ORDINARY) + " "
        elif style == "line-everywhere":
            g = " " + _line(rng)
        elif style == "newline-everywhere":
            g = "\n" * rng.choice([1, 1, 2, 3]) + " " * rng.randint(0, 6)
        elif style == "multi-block":
            g = " " + " ".join(rng.choice(ORDINARY) for _ in range(rng.randint(2, 5))) + " "
        elif style == "huge":
            g = b
        elif style == "join-split":
            # whole runs of statements joined on one line, other statements split over many lines
            if i % 40 < 25:
                g = " "
            else:
                g = "\n" + " " * rng.randint(0, 4)
        elif style == "one-line":
            g = " "
        elif style == "tabs":
            g = rng.choice(["\t", "  \t ", "\n\t\t", " \r\n " if False else " "])
        else:
            p = {"sparse": 0.12, "dense": 0.6, "focus": 0.7}.get(style, 0.3)
            if focus is not None and i not in focus:
                g = b
            elif rng.random() < p:
                parts = []
                for _ in range(rng.choice([1, 1, 2, 3])):
                    k = rng.random()
                    if k < 0.4:
                        parts.append(" " + rng.choice(ORDINARY) + " ")
                    elif k < 0.7:
                        parts.append(" " + _line(rng))
                    elif k < 0.85:
                        parts.append("\n" * rng.randint(1, 3))
                    else:
                        parts.append(" " * rng.randint(1, 8))
                g = "".join(parts)
                if not g.strip(" "):
                    g = g or " "
            else:
                g = b
        if i == 0 and style in ("one-line",):
            g = ""
        gaps.append(g if g != "" or i == 0 else " ")
    if style == "huge":
        # COMMENT / LAYOUT SIZE: a few gaps get a very long comment (around and beyond the 4096-byte reader
        # buffer), thousands of blank lines or a very long indentation; the comment text looks like code
        for i in rng.sample(range(n + 1), min(n + 1, rng.randint(3, 6))):
            size = rng.choice([4095, 4096, 4097, 4098, 8192, 10000, 20000])
            code = 'set req.http.Evil = "1"; } sub vcl_recv { return(pass); } '
            body = (code * (size // len(code) + 1))[:size]
            k = rng.random()
            if k < 0.4:
                g = " " + rng.choice(["#", "//", "# ", "// "]) + body + "\n"
            elif k < 0.65:
                g = " /*" + body.replace("*/", "* /") + "*/ "
            elif k < 0.75:
                g = " /*\n" + "\n".join([code] * (size // len(code))) + "\n*/ "
            elif k < 0.9:
                g = "\n" * rng.choice([1000, 3000, 5000, 1000, 3000, 70000])       # line numbers cross 256 and 65536
            else:
                g = "\n" + rng.choice([" ", "\t"]) * size
            gaps[i] = g
    return gaps


def variant(tokens, rng, style):
    """source text of one decorated variant"""
    if style == "crlf":
        # Windows line ends everywhere, also after line comments, annotations and inside block comments
        return render(tokens, decorate(tokens, rng, rng.choice(["mixed", "dense", "line-everywhere", "focus"]))).replace("\n", "\r\n")
    if style == "crlf-base":
        return render(tokens, base_gaps(tokens)).replace("\n", "\r\n")
    return render(tokens, decorate(tokens, rng, style))


STYLES = ["block-everywhere", "line-everywhere", "newline-everywhere", "one-line", "tabs",
          "sparse", "sparse", "sparse", "dense", "dense", "dense", "mixed", "mixed", "mixed", "mixed",
          "focus", "focus", "focus", "focus", "focus", "focus",
          "multi-block", "multi-block", "huge", "huge", "crlf", "crlf", "crlf-base", "join-split", "join-split"]
