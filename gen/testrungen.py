"""Generator of test suites for C10: one main VCL (subroutines s<k> written in the small statement
language of Model/TestRunCover.v over request headers f<k>) and a list of test subroutines whose
verdicts are known by construction.  One Python structure is rendered to VCL text (main.vcl,
main.test.vcl in a chosen order / subset) and to the model's S-expression.

cond : ('f', k) ('nf', k) ('eq', k) ('c', bool)
stmt : ('set', f, [cond]) ('log', m, [cond]) ('unset', f) ('ret',) ('raise',)
       ('if', cond, block, alt) ('switch', f, [bool], dflt|None, [(ft, block)]) ('block', block)
alt  : None | ('else', block) | ('elif', cond, block, alt)
step : ('set', f) ('unset', f) ('log', m) ('call', k, viaapi) ('raise',) ('af', f, want) ('ac', kind, holds)
test : dict(name, scopes=[..], skip, steps)
"""

SCOPES = ["recv", "fetch", "deliver", "error", "miss", "pass", "hit", "log"]
NFLAGS = 5

# every assertion kind of tester/function/assert*.go that can be decided over constants:
# kind -> (call that holds, call that does not hold)
ASSERTS = {
    "assert": ("assert(true)", "assert(false)"),
    "assert.true": ("assert.true(true)", "assert.true(false)"),
    "assert.false": ("assert.false(false)", "assert.false(true)"),
    "assert.equal": ('assert.equal("a", "a")', 'assert.equal("a", "b")'),
    "assert.not_equal": ('assert.not_equal("a", "b")', 'assert.not_equal("a", "a")'),
    "assert.strict_equal": ('assert.strict_equal("a", "a")', 'assert.strict_equal("a", "b")'),
    "assert.not_strict_equal": ('assert.not_strict_equal("a", "b")', 'assert.not_strict_equal("a", "a")'),
    "assert.equal_fold": ('assert.equal_fold("Ab", "aB")', 'assert.equal_fold("ab", "cd")'),
    "assert.match": ('assert.match("abc", "b+")', 'assert.match("abc", "z")'),
    "assert.not_match": ('assert.not_match("abc", "z")', 'assert.not_match("abc", "b+")'),
    "assert.contains": ('assert.contains("abc", "b")', 'assert.contains("abc", "z")'),
    "assert.not_contains": ('assert.not_contains("abc", "z")', 'assert.not_contains("abc", "b")'),
    "assert.starts_with": ('assert.starts_with("abc", "ab")', 'assert.starts_with("abc", "bc")'),
    "assert.ends_with": ('assert.ends_with("abc", "bc")', 'assert.ends_with("abc", "ab")'),
    "assert.is_notset": ("assert.is_notset(req.http.never-set)", 'assert.is_notset(req.http.host)'),
    "assert.is_json": ('assert.is_json("[1, 2]")', 'assert.is_json("[1,")'),
    "assert.not_error": ("assert.not_error()", None),
    "assert.not_restart": ("assert.not_restart()", None),
    "assert.restart": (None, "assert.restart()"),
    "assert.not_subroutine_called": ('assert.not_subroutine_called("never_called")', None),
    "assert.subroutine_called": (None, 'assert.subroutine_called("never_called")'),
    "assert.not_state": ("assert.not_state(restart)", None),
    "assert.state": (None, "assert.state(restart)"),
}


# assertions about what a called subroutine did (state, restart, error, call counts): used one per test,
# in RECV, by kinds_suite; kind -> (statements whose last assertion holds, ... does not hold)
STATEFUL = {
    "assert.state": ('testing.call_subroutine("vcl_recv");\n  assert.state(lookup)', 'testing.call_subroutine("vcl_recv");\n  assert.state(pass)'),
    "assert.not_state": ('testing.call_subroutine("vcl_recv");\n  assert.not_state(pass)', 'testing.call_subroutine("vcl_recv");\n  assert.not_state(lookup)'),
    "assert.subroutine_called": ('testing.call_subroutine("x_noop");\n  assert.subroutine_called("x_noop")', 'assert.subroutine_called("x_noop")'),
    "assert.not_subroutine_called": ('assert.not_subroutine_called("x_noop")', 'testing.call_subroutine("x_noop");\n  assert.not_subroutine_called("x_noop")'),
    "assert.restart": ('testing.call_subroutine("x_restart");\n  assert.restart()', 'testing.call_subroutine("x_noop");\n  assert.restart()'),
    "assert.not_restart": ('testing.call_subroutine("x_noop");\n  assert.not_restart()', 'testing.call_subroutine("x_restart");\n  assert.not_restart()'),
    "assert.error": ('testing.call_subroutine("x_err");\n  assert.error(503)', 'testing.call_subroutine("x_err");\n  assert.error(404)'),
    "assert.not_error": ('testing.call_subroutine("x_noop");\n  assert.not_error()', 'testing.call_subroutine("x_err");\n  assert.not_error()'),
}


# ------------------------------------------------------------------ per-test state behind the testing.* helpers
# every state-changing helper of tester/function/*.go (and `set req.backend`) as a resource with a small
# state space: mut[v] puts it in state v, obs[v] is ONE assertion that holds exactly in state v (0 = untouched)
def _eq(var, vals):
    return {v: 'assert.equal(%s, "%s")' % (var, t) for v, t in vals.items()}


RES = [
    {"name": "testing.table_set",
     "mut": {1: 'testing.table_set(tbl, "k0", "v1")', 2: 'testing.table_set(tbl, "k0", "v2")'},
     "obs": _eq('table.lookup(tbl, "k0", "none")', {0: "v0", 1: "v1", 2: "v2"})},
    {"name": "testing.table_merge",
     "mut": {1: "testing.table_merge(tbl, fx1)", 2: "testing.table_merge(tbl, fx2)", 3: 'testing.table_set(tbl, "mk", "x3")'},
     "obs": _eq('table.lookup(tbl, "mk", "none")', {0: "none", 1: "f1", 2: "f2", 3: "x3"})},
    {"name": "testing.inject_variable",
     "mut": {1: 'testing.inject_variable("client.geo.country_code", "JP")', 2: 'testing.inject_variable("client.geo.country_code", "BR")'},
     "obs": _eq("client.geo.country_code", {0: "unknown", 1: "JP", 2: "BR"})},
    {"name": "testing.inject_variable(server.region)",
     "mut": {1: 'testing.inject_variable("server.region", "ASIA")', 2: 'testing.inject_variable("server.region", "EU")'},
     "obs": _eq("server.region", {0: "US", 1: "ASIA", 2: "EU"})},
    {"name": "testing.mock",
     "mut": {1: 'testing.mock("s_m", "mock_1")', 2: 'testing.mock("s_m", "mock_2")', 0: "testing.restore_all_mocks()"},
     "obs": {v: 'call s_m;\n  assert.equal(req.http.mocked, "%s")' % t for v, t in {0: "real", 1: "m1", 2: "m2"}.items()},
     "restore": 'testing.restore_mock("s_m")'},
    {"name": "testing.fixed_time",
     "mut": {1: "testing.fixed_time(1000000000)", 2: "testing.fixed_time(1500000000)"},
     "obs": {0: 'assert.not_match(now.sec, "^1[05]00000000$")', 1: 'assert.equal(now.sec, "1000000000")', 2: 'assert.equal(now.sec, "1500000000")'}},
    {"name": "testing.override_host",
     "mut": {1: 'testing.override_host("h1.example")', 2: 'testing.override_host("h2.example")'},
     "obs": _eq("req.http.host", {0: "localhost", 1: "h1.example", 2: "h2.example"})},
    {"name": "testing.set_backend_health",
     "mut": {1: "testing.set_backend_health(B_h, false)", 0: "testing.set_backend_health(B_h, true)"},
     "obs": {0: "assert.true(backend.B_h.healthy)", 1: "assert.false(backend.B_h.healthy)"}},
    {"name": "testing.fixed_access_rate",
     "mut": {1: "testing.fixed_access_rate(100)", 2: "testing.fixed_access_rate(7)"},
     "obs": {v: 'set req.http.rate = ratecounter.rc_a.rate.10s;\n  assert.equal(req.http.rate, "%s")' % t
             for v, t in {0: "0.000", 1: "100.000", 2: "7.000"}.items()}},
    {"name": "ratelimit.penaltybox_add",
     "mut": {1: 'ratelimit.penaltybox_add(pb_a, "cli", 10m)'},
     "obs": {0: 'assert.false(ratelimit.penaltybox_has(pb_a, "cli"))', 1: 'assert.true(ratelimit.penaltybox_has(pb_a, "cli"))'}},
    {"name": "set req.backend",
     "mut": {1: "set req.backend = B_g", 0: "set req.backend = B_h"},
     "obs": {0: "assert.equal(req.backend, B_h)", 1: "assert.equal(req.backend, B_g)"}},
]
RES_SCOPES = ["recv", "miss", "pass", "hit"]
MAIN_BACKENDS = """backend B_h { .host = "127.0.0.1"; .port = "80"; }
backend B_g { .host = "127.0.0.2"; .port = "80"; }
ratecounter rc_a { }
penaltybox pb_a { }
sub s_m {
  set req.http.mocked = "real";
}
"""
MAIN_TABLE = """table tbl STRING { "k0": "v0", }
"""
MAIN_DECLS = MAIN_BACKENDS + MAIN_TABLE
LAYOUTS = ["flat", "include", "ipath"]
TAGS = ["prod", "dev", "stg"]


def tag_runs(tags, cli):
    """docs/testing.md: an untagged test always runs; a tagged one when its tags match the -t option"""
    if not tags:
        return True
    if not cli:
        return all(inv for _, inv in tags)
    return any((not inv) if k == c else inv for c in cli for k, inv in tags)
TEST_DECLS = """table fx1 STRING { "mk": "f1", }
table fx2 STRING { "mk": "f2", }
"""
# the mock targets are subroutines of the test file, hence tests themselves (they pass, in RECV)
AUX_TESTS = """// @scope: recv
// @suite: T9001
sub mock_1 {
  set req.http.mocked = "m1";
}
// @scope: recv
// @suite: T9002
sub mock_2 {
  set req.http.mocked = "m2";
}
"""


class Suite:
    def __init__(self):
        self.subs = []      # (k, block)
        self.tests = []
        self.groups = []    # dict(name, before={scope: steps}, after={scope: steps}, tests=[index into self.tests])
        self.stats = {}
        # the STRUCTURE of what is under test: "flat" = one main.vcl; "include" = declarations, the table (nested
        # include) and the subroutines live in modules included from main's directory; "ipath" = the same modules in
        # a directory given with -I.  nfiles: the tests are spread over that many *.test.vcl files of one run.
        self.layout = "flat"
        self.nfiles = 1
        self.cli_tags = []      # the -t option of the run (indices into TAGS); tests carry "tags": [(index, inverse)]

    def split(self, order):
        if self.nfiles == 1 or len(order) < 2:
            return [list(order)]
        h = (len(order) + 1) // 2
        return [list(order[:h]), list(order[h:])]

    def tree(self, order, cov, only_first_file=False):
        """the files of one `falco test` run and how to start it"""
        subs = self.main_vcl(parts=True)
        parts = self.split(order)
        names = ["main.test.vcl"] if len(parts) == 1 else ["a.test.vcl", "b.test.vcl"]
        files = {n: self.test_vcl(p) for n, p in zip(names, parts)}
        inc = []
        if self.layout == "flat":
            files["main.vcl"] = MAIN_DECLS + subs["subs"] + subs["recv"]
        else:
            d = "" if self.layout == "include" else "inc/"
            files["main.vcl"] = 'include "decls";\ninclude "subs";\n' + subs["recv"]
            files[d + "decls.vcl"] = MAIN_BACKENDS + 'include "tables";\n'
            files[d + "tables.vcl"] = MAIN_TABLE
            files[d + "subs.vcl"] = subs["subs"]
            if d:
                inc = ["inc"]
        return {"cov": bool(cov), "files": files, "main": "main.vcl", "include_paths": inc,
                "filter": "*/" + names[0] if only_first_file else "", "tags": [TAGS[k] for k in self.cli_tags]}

    def items(self):
        """the items of the test file in their default order: ('t', test index) | ('g', group index)"""
        grouped = set(ti for g in self.groups for ti in g["tests"])
        out = [("t", ti) for ti in range(len(self.tests)) if ti not in grouped]
        # groups are spread between the ungrouped tests
        for gi, g in enumerate(self.groups):
            out.insert(min(len(out), 1 + 2 * gi), ("g", gi))
        return out

    # ------------------------------------------------------------ VCL
    @staticmethod
    def ctext(c):
        if c[0] == "f":
            return "req.http.f%d" % c[1]
        if c[0] == "nf":
            return "!req.http.f%d" % c[1]
        if c[0] == "eq":
            return 'req.http.f%d == "1"' % c[1]
        return "true" if c[1] else "false"

    def valtext(self, conds, final):
        parts = []
        for i, c in enumerate(conds):
            v = final if i == len(conds) - 1 else ""
            parts.append('if(%s, "%s", "%s")' % (self.ctext(c), v, v))
        return " + ".join(parts) if parts else '"%s"' % final

    def main_vcl(self, parts=False):
        out = [] if parts else [MAIN_DECLS.rstrip("\n")]

        def block(b, ind):
            for s in b:
                stmt(s, ind)

        def stmt(s, ind):
            p = "  " * ind
            k = s[0]
            if k == "set":
                out.append('%sset req.http.f%d = %s;' % (p, s[1], self.valtext(s[2], "1")))
            elif k == "log":
                out.append("%slog %s;" % (p, self.valtext(s[2], "m%d" % s[1])))
            elif k == "unset":
                out.append("%sunset req.http.f%d;" % (p, s[1]))
            elif k == "ret":
                out.append(p + "return;")
            elif k == "raise":
                out.append(p + 'set var.undeclared = "1";')
            elif k == "block":
                out.append(p + "{")
                block(s[1], ind + 1)
                out.append(p + "}")
            elif k == "if":
                out.append("%sif (%s) {" % (p, self.ctext(s[1])))
                block(s[2], ind + 1)
                a = s[3]
                while a is not None and a[0] == "elif":
                    out.append("%s} else if (%s) {" % (p, self.ctext(a[1])))
                    block(a[2], ind + 1)
                    a = a[3]
                if a is not None:
                    out.append(p + "} else {")
                    block(a[1], ind + 1)
                out.append(p + "}")
            elif k == "switch":
                out.append("%sswitch (req.http.f%d) {" % (p, s[1]))
                ti = 0
                for i, (ft, b) in enumerate(s[4]):
                    if s[3] == i:
                        out.append(p + "default:")
                    else:
                        out.append('%scase "%s":' % (p, "1" if s[2][i] else "zz%d" % i))
                    block(b, ind + 1)
                    out.append(p + ("  fallthrough;" if ft else "  break;"))
                out.append(p + "}")
            else:
                raise ValueError(k)

        for k, b in self.subs:
            out.append("sub s%d {" % k)
            block(b, 1)
            out.append("}")
        out.append("sub x_err {\n  error 503;\n}\nsub x_restart {\n  restart;\n}\nsub x_noop {\n  set req.http.x-noop = \"1\";\n}")
        recv = "sub vcl_recv {\n  #FASTLY recv\n  return (lookup);\n}\n"
        if parts:
            return {"subs": "\n".join(out) + "\n", "recv": recv}
        return "\n".join(out) + "\n" + recv

    def step_lines(self, steps, ind):
        out = []
        p = "  " * ind
        for s in steps:
            k = s[0]
            if k == "set":
                out.append(p + 'set req.http.f%d = "1";' % s[1])
            elif k == "unset":
                out.append(p + "unset req.http.f%d;" % s[1])
            elif k == "log":
                out.append(p + 'log "t%d";' % s[1])
            elif k == "call":
                out.append(p + ('testing.call_subroutine("s%d");' % s[1] if s[2] else "call s%d;" % s[1]))
            elif k == "raise":
                out.append(p + 'set var.nope = "1";')
            elif k == "af":
                out.append(p + ('assert.equal(req.http.f%d, "1");' % s[1] if s[2] else "assert.is_notset(req.http.f%d);" % s[1]))
            elif k == "ac":
                out.append(p + (s[3] if len(s) > 3 else ASSERTS[s[1]][0 if s[2] else 1]) + ";")
            elif k == "res":
                out.append(p + (s[3] if len(s) > 3 else RES[s[1]]["mut"][s[2]]) + ";")
            elif k == "ar":
                out.append(p + RES[s[1]]["obs"][s[2]].replace("\n  ", "\n" + p) + ";")
        return out

    def test_lines(self, t, ind):
        p = "  " * ind
        out = [p + "// @scope: " + ", ".join(t["scopes"]), p + "// @suite: T%d" % t["name"]]
        if t.get("tags"):
            out.append(p + "// @tag: " + ", ".join(("!" if inv else "") + TAGS[k] for k, inv in t["tags"]))
        if t["skip"]:
            out.append(p + "// @skip")
        out.append(p + "sub test_%d {" % t["name"])
        out += self.step_lines(t["steps"], ind + 1)
        out.append(p + "}")
        return out

    def test_vcl(self, order):
        """order: a list of items ('t', i) / ('g', i)"""
        out = [TEST_DECLS.rstrip("\n")]
        for kind, i in order:
            if kind == "t":
                out += self.test_lines(self.tests[i], 0)
                continue
            g = self.groups[i]
            out.append("describe G%d {" % g["name"])
            for which in ("before", "after"):
                for sc, steps in sorted(g[which].items()):
                    out.append("  %s_%s {" % (which, sc))
                    out += self.step_lines(steps, 2)
                    out.append("  }")
            for ti in g["tests"]:
                out += self.test_lines(self.tests[ti], 1)
            out.append("}")
        return "\n".join(out) + "\n" + AUX_TESTS

    # ------------------------------------------------------------ model
    @staticmethod
    def csexp(c):
        return "(%s %d)" % (c[0], int(c[1]))

    def bsexp(self, b):
        return "(b%s)" % "".join(" " + self.ssexp(s) for s in b)

    def asexp(self, a):
        if a is None:
            return "_"
        if a[0] == "else":
            return "(else %s)" % self.bsexp(a[1])
        return "(elif %s %s %s)" % (self.csexp(a[1]), self.bsexp(a[2]), self.asexp(a[3]))

    def ssexp(self, s):
        k = s[0]
        if k in ("set", "log"):
            return "(%s %d%s)" % (k, s[1], "".join(" " + self.csexp(c) for c in s[2]))
        if k == "unset":
            return "(unset %d)" % s[1]
        if k in ("ret", "raise"):
            return "(%s)" % k
        if k == "block":
            return "(block %s)" % self.bsexp(s[1])
        if k == "if":
            return "(if %s %s %s)" % (self.csexp(s[1]), self.bsexp(s[2]), self.asexp(s[3]))
        if k == "switch":
            return "(switch %d (tests%s) %s%s)" % (
                s[1], "".join(" %d" % int(x) for x in s[2]), "_" if s[3] is None else str(s[3]),
                "".join(" (case %d %s)" % (int(ft), self.bsexp(b)) for ft, b in s[4]))
        raise ValueError(k)

    @staticmethod
    def steps_sexp(steps):
        out = []
        for s in steps:
            if s[0] in ("set", "unset", "log"):
                out.append("(%s %d)" % (s[0], s[1] + (1000 if s[0] == "log" else 0)))
            elif s[0] == "call":
                out.append("(call %d)" % s[1])
            elif s[0] == "raise":
                out.append("(raise)")
            elif s[0] == "af":
                out.append("(af %d %d)" % (s[1], int(s[2])))
            elif s[0] == "ac":
                out.append("(ac %d)" % int(s[2]))
            elif s[0] == "res":
                out.append("(res %d %d)" % (s[1], s[2]))
            elif s[0] == "ar":
                out.append("(ar %d %d)" % (s[1], s[2]))
        return " ".join(out)

    def test_sexp(self, t):
        tags = " (tags%s)" % "".join(" (%d %d)" % (k, int(inv)) for k, inv in t["tags"]) if t.get("tags") else ""
        return "(test %d (%s) %d (%s)%s)" % (t["name"], " ".join(str(SCOPES.index(x)) for x in t["scopes"]), int(t["skip"]),
                                             self.steps_sexp(t["steps"]), tags)

    def model_request(self, cov, order, only_first_file=False):
        subs = "".join(" (sub %d %s)" % (k, self.bsexp(b)) for k, b in self.subs)
        items = []
        parts = self.split(order)
        for part in (parts[:1] if only_first_file else parts):        # the items of each test file, then its two mock targets
            for kind, i in part:
                if kind == "t":
                    items.append("(single %s)" % self.test_sexp(self.tests[i]))
                else:
                    g = self.groups[i]
                    hooks = lambda d: "".join(" (%d (%s))" % (SCOPES.index(sc), self.steps_sexp(st)) for sc, st in sorted(d.items()))
                    items.append("(group %d (before%s) (after%s) %s)" % (g["name"], hooks(g["before"]), hooks(g["after"]),
                                                                         " ".join(self.test_sexp(self.tests[ti]) for ti in g["tests"])))
            items += ["(single (test 9001 (0) 0 ()))", "(single (test 9002 (0) 0 ()))"]
        cli = " (cli%s)" % "".join(" %d" % k for k in self.cli_tags) if self.cli_tags else ""
        return "run %d%s (subs%s) (items %s)" % (int(cov), cli, subs, " ".join(items))

    @staticmethod
    def log_text(m):
        return "t%d" % (m - 1000) if m >= 1000 else "m%d" % m


# ------------------------------------------------------------------ the generator's own evaluator
# (what the verdicts are "by construction"; a third computation besides the Coq model and falco)
class Raise(Exception):
    pass


def sim_cond(c, fl):
    if c[0] in ("f", "eq"):
        return c[1] in fl
    if c[0] == "nf":
        return c[1] not in fl
    return bool(c[1])


def sim_block(b, fl, logs):
    """-> True when the block ran to its end, False after `return;`; raises Raise"""
    for s in b:
        k = s[0]
        if k == "set":
            fl.add(s[1])
        elif k == "log":
            logs.append(s[1])
        elif k == "unset":
            fl.discard(s[1])
        elif k == "ret":
            return False
        elif k == "raise":
            raise Raise()
        elif k == "block":
            if not sim_block(s[1], fl, logs):
                return False
        elif k == "if":
            if sim_cond(s[1], fl):
                go = sim_block(s[2], fl, logs)
            else:
                a = s[3]
                go = True
                while a is not None:
                    if a[0] == "else":
                        go = sim_block(a[1], fl, logs)
                        break
                    if sim_cond(a[1], fl):
                        go = sim_block(a[2], fl, logs)
                        break
                    a = a[3]
            if not go:
                return False
        elif k == "switch":
            v = s[1] in fl
            start = None
            for i, t in enumerate(s[2]):
                if i != s[3] and t and v:
                    start = i
                    break
            if start is None:
                start = s[3]
            if start is not None:
                i = start
                while True:
                    if i >= len(s[4]):
                        raise Raise()            # fallthrough out of the last case
                    ft, body = s[4][i]
                    if not sim_block(body, fl, logs):
                        return False
                    if not ft:
                        break
                    i += 1
    return True


class Abort(Exception):
    pass


def sim_steps(suite, steps, fl, rs, logs):
    """-> (verdict, number of assertions that held); mutates fl / rs / logs"""
    p = 0
    for s in steps:
        k = s[0]
        try:
            if k == "set":
                fl.add(s[1])
            elif k == "unset":
                fl.discard(s[1])
            elif k == "log":
                logs.append(1000 + s[1])
            elif k == "call":
                sim_block(suite.subs[s[1]][1], fl, logs)
            elif k == "raise":
                raise Raise()
            elif k == "af":
                if (s[1] in fl) == s[2]:
                    p += 1
                else:
                    return "assert", p
            elif k == "ac":
                if s[2]:
                    p += 1
                else:
                    return "assert", p
            elif k == "res":
                rs[s[1]] = s[2]
            elif k == "ar":
                if rs.get(s[1], 0) == s[2]:
                    p += 1
                else:
                    return "assert", p
        except Raise:
            return "runtime", p
    return "pass", p


def simulate(suite, order, only_first_file=False):
    """-> (cases [(group, name, scope, skip, verdict, logs)], counter (asserts, passes, fails, skips), exit),
    or None when a hook of a group raises (the run fails as a whole)"""
    cases = []
    cnt = {"a": 0, "p": 0, "f": 0, "sk": 0}

    def run_test(t, fl, rs, group):
        for sc in t["scopes"]:
            if t["skip"] or not tag_runs(t.get("tags"), suite.cli_tags):
                cases.append((None, t["name"], sc, True, "pass", []))      # a skipped case carries no group
                cnt["sk"] += 1
                continue
            logs = []
            if group is not None and sc in group["before"]:
                v, p = sim_steps(suite, group["before"][sc], fl, rs, logs)
                if v != "pass":
                    raise Abort()
                cnt["p"] += p
                cnt["a"] += p
            verdict, p = sim_steps(suite, t["steps"], fl, rs, logs)
            cnt["p"] += p
            cnt["a"] += p
            if verdict == "assert":
                cnt["f"] += 2
                cnt["a"] += 2
            elif verdict == "runtime":
                cnt["f"] += 1
                cnt["a"] += 1
            cases.append((None if group is None else group["name"], t["name"], sc, False, verdict, list(logs)))
            if group is not None and sc in group["after"]:
                v, p = sim_steps(suite, group["after"][sc], fl, rs, [])     # its log lines come too late
                if v != "pass":
                    raise Abort()
                cnt["p"] += p
                cnt["a"] += p
    parts = suite.split(order)
    try:
        for part in (parts[:1] if only_first_file else parts):
            for kind, i in part:
                if kind == "t":
                    run_test(suite.tests[i], set(), {}, None)       # a fresh interpreter per ungrouped test subroutine
                else:
                    g = suite.groups[i]
                    fl, rs = set(), {}                              # one interpreter for the whole group
                    for ti in g["tests"]:
                        run_test(suite.tests[ti], fl, rs, g)
            cases += [(None, 9001, "recv", False, "pass", []), (None, 9002, "recv", False, "pass", [])]
    except Abort:
        return None
    return cases, (cnt["a"], cnt["p"], cnt["f"], cnt["sk"]), (1 if cnt["f"] > 0 else 0)


class TestRunGen:
    def __init__(self, rng):
        self.r = rng
        self.stats = {}
        self.nlog = 0

    def _c(self, k):
        self.stats[k] = self.stats.get(k, 0) + 1

    def cond(self):
        r = self.r
        k = r.random()
        f = r.randrange(NFLAGS)
        if k < 0.35:
            return ("f", f)
        if k < 0.6:
            return ("nf", f)
        if k < 0.85:
            return ("eq", f)
        return ("c", r.random() < 0.5)

    def conds(self):
        k = self.r.random()
        if k < 0.55:
            return []
        self._c("if()-expression")
        return [self.cond() for _ in range(1 if k < 0.85 else 2)]

    def block(self, d, n=None):
        n = self.r.randint(1, 3) if n is None else n
        return [self.stmt(d) for _ in range(n)]

    def stmt(self, d):
        r = self.r
        k = r.random()
        if d >= 3 or k < 0.30:
            self._c("main:set")
            return ("set", r.randrange(NFLAGS), self.conds())
        if k < 0.50:
            self._c("main:log")
            self.nlog += 1
            return ("log", self.nlog, self.conds())
        if k < 0.58:
            self._c("main:unset")
            return ("unset", r.randrange(NFLAGS))
        if k < 0.61 and d > 0:
            self._c("main:return")
            return ("ret",)
        if k < 0.63 and d > 0:
            self._c("main:raise")
            return ("raise",)
        if k < 0.83:
            self._c("main:if")
            alt = None
            if r.random() < 0.6:
                alt = ("else", self.block(d + 1))
                self._c("main:else")
            for _ in range(r.choice([0, 0, 1, 1, 2, 3])):
                alt = ("elif", self.cond(), self.block(d + 1), alt)
                self._c("main:elseif")
            return ("if", self.cond(), self.block(d + 1), alt)
        if k < 0.95:
            self._c("main:switch")
            n = r.randint(2, 4)
            dflt = r.choice([None, None, n - 1, r.randrange(n)])
            hit = r.randrange(n + 1)         # which case (if any) tests "1"
            tests = [i == hit and i != dflt for i in range(n)]
            cases = []
            for i in range(n):
                ft = i < n - 1 and r.random() < 0.3
                if ft:
                    self._c("main:fallthrough")
                cases.append((ft, self.block(d + 1, r.randint(0, 2))))
            return ("switch", r.randrange(NFLAGS), tests, dflt, cases)
        self._c("main:block")
        return ("block", self.block(d + 1))

    def steps(self, expect, subs, fl=None):
        """expect: 'pass' | 'assert' | 'runtime' - the verdict the steps are built to have in the first
        scope (the generator follows the state with its own evaluator, see simulate_*)"""
        r = self.r
        out = []
        fl = set() if fl is None else fl
        n = r.randint(2, 7)
        bad_at = r.randrange(n) if expect != "pass" else None
        for i in range(n):
            if i == bad_at:
                if expect == "assert":
                    if r.random() < 0.4:
                        f = r.randrange(NFLAGS)
                        out.append(("af", f, f not in fl))
                    else:
                        kinds = [a for a, (_, bad) in ASSERTS.items() if bad is not None]
                        kind = r.choice(kinds)
                        self._c("assert-fails:" + kind)
                        out.append(("ac", kind, False))
                else:
                    out.append(("raise",))
                # statements after the failure must not run: put a visible one there
                out.append(("log", 900 + i))
                continue
            k = r.random()
            if k < 0.22:
                f = r.randrange(NFLAGS)
                fl.add(f)
                out.append(("set", f))
            elif k < 0.30:
                f = r.randrange(NFLAGS)
                fl.discard(f)
                out.append(("unset", f))
            elif k < 0.42:
                out.append(("log", r.randrange(50)))
            elif k < 0.62 and subs:
                kk = r.randrange(len(subs))
                out.append(("call", kk, r.random() < 0.5))
                self._c("test:call")
                try:
                    sim_block(subs[kk][1], fl, [])
                except Raise:
                    break                           # a raise inside the subroutine ends the test here
            elif k < 0.80:
                f = r.randrange(NFLAGS)
                out.append(("af", f, f in fl))
            else:
                kinds = [a for a, (good, _) in ASSERTS.items() if good is not None]
                kind = r.choice(kinds)
                self._c("assert-holds:" + kind)
                out.append(("ac", kind, True))
        return out

    def res_steps(self, hot, single_scope, cur=None):
        """mutate and observe the hot resources: every observation holds by construction in the first scope
        (later scopes start from the state the earlier ones left: the evaluator knows)"""
        r = self.r
        out = []
        cur = {} if cur is None else cur
        mine = {}                                  # what THIS step list itself has put in place so far
        for _ in range(r.randint(2, 6)):
            x = r.choice(hot)
            k = r.random()
            if k < 0.55:
                v = r.choice(sorted(RES[x]["mut"]))
                # testing.restore_mock raises when nothing is mocked: only after a mock made by these very steps
                # (an earlier test of the group may have been skipped, an earlier scope may have restored)
                if v == 0 and mine.get(x, 0) != 0 and "restore" in RES[x] and r.random() < 0.5:
                    out.append(("res", x, 0, RES[x]["restore"]))
                else:
                    out.append(("res", x, v))
                cur[x] = v
                mine[x] = v
                self._c("helper:" + RES[x]["name"])
            elif k < 0.92:
                out.append(("ar", x, cur.get(x, 0)))
                self._c("observe:" + RES[x]["name"])
            else:
                wrong = r.choice([v for v in RES[x]["obs"] if v != cur.get(x, 0)])
                out.append(("ar", x, wrong))
                out.append(("log", 950))
                self._c("observe-fails:" + RES[x]["name"])
                break
        return out

    def stateful_suite(self):
        """tests that MUTATE per-test state through the testing.* helpers and tests that OBSERVE the same
        state: run in every order, they decide whether anything leaks from one test to the next"""
        r = self.r
        s = Suite()
        self.nlog = 0
        self.nsubs = 1
        s.subs.append((0, self.block(0, 2)))
        hot = r.sample(range(len(RES)), 3)
        for t in range(r.choice([3, 4, 5, 5, 6])):
            nsc = r.choice([1, 1, 2])
            scopes = r.sample(RES_SCOPES, nsc)
            steps = self.res_steps(hot, nsc == 1)
            if r.random() < 0.4:
                steps.insert(r.randrange(len(steps) + 1), ("call", 0, r.random() < 0.5))
            s.tests.append({"name": t, "scopes": scopes, "skip": r.random() < 0.08, "steps": steps, "expect": "pass"})
            self._c("test:stateful")
        return s

    def resource_suite(self, x):
        """resource x exhaustively: the untouched observation, every mutator, every ordered PAIR of mutators,
        each followed by the observation of the state it must leave"""
        s = Suite()
        self.nlog = 0
        self.nsubs = 1
        s.subs.append((0, [("log", 1, [])]))
        muts = sorted(RES[x]["mut"])
        seqs = [[]] + [[a] for a in muts] + [[a, b] for a in muts for b in muts]
        for n, seq in enumerate(seqs):
            steps = [("res", x, v) for v in seq] + [("ar", x, seq[-1] if seq else 0), ("log", n)]
            s.tests.append({"name": n, "scopes": ["recv"], "skip": False, "steps": steps, "expect": "pass"})
        self._c("resource-suite:" + RES[x]["name"])
        return s

    def hook_steps(self, subs, fl):
        r = self.r
        out = []
        for _ in range(r.randint(1, 3)):
            k = r.random()
            if k < 0.35:
                f = r.randrange(NFLAGS)
                fl.add(f)
                out.append(("set", f))
            elif k < 0.55:
                f = r.randrange(NFLAGS)
                fl.discard(f)
                out.append(("unset", f))
            elif k < 0.8:
                out.append(("log", 500 + r.randrange(50)))
            elif k < 0.97 or not subs:
                x = r.randrange(len(RES))
                out.append(("res", x, r.choice(sorted(RES[x]["mut"]))))
            else:
                out.append(("raise",))          # a raising hook fails the whole run
                self._c("group:raising-hook")
        return out

    def grouped_suite(self):
        """ungrouped tests and describe groups with before_/after_ hooks: inside a group the tests share
        one interpreter (the generator follows the state through the group in its written order)"""
        r = self.r
        s = Suite()
        self.nlog = 0
        self.nsubs = r.randint(1, 2)
        for k in range(self.nsubs):
            s.subs.append((k, self.block(0, r.randint(1, 3))))
        n = 0
        for _ in range(r.randint(1, 3)):                       # ungrouped tests
            e = r.choice(["pass", "pass", "assert", "runtime"])
            s.tests.append({"name": n, "scopes": r.sample(RES_SCOPES, r.choice([1, 1, 2])), "skip": r.random() < 0.1,
                            "steps": self.steps(e, s.subs), "expect": e})
            n += 1
        for gi in range(r.choice([1, 1, 2])):
            scs = r.sample(RES_SCOPES, r.choice([1, 2]))
            g = {"name": gi + 1, "before": {}, "after": {}, "tests": []}
            fl = set()
            cur = {}
            hot = r.sample(range(len(RES)), 2)
            for sc in scs:
                if r.random() < 0.6:
                    g["before"][sc] = self.hook_steps(s.subs, set())
                if r.random() < 0.5:
                    g["after"][sc] = self.hook_steps(s.subs, set())
            for _ in range(r.randint(2, 4)):
                e = r.choice(["pass", "pass", "pass", "assert", "runtime"])
                if r.random() < 0.45:
                    # the per-test helper state is shared inside the group as well (tables, mocks, injected variables ...)
                    st = self.res_steps(hot, len(scs) == 1, cur)
                    self._c("group:helper-state-test")
                else:
                    st = self.steps(e, s.subs, fl=set(fl)) if not (g["before"] or g["after"]) else self.steps(e, s.subs)
                t = {"name": n, "scopes": r.sample(scs, r.randint(1, len(scs))), "skip": r.random() < 0.1, "steps": st, "expect": e}
                for x in st:
                    if x[0] == "set":
                        fl.add(x[1])
                    elif x[0] == "unset":
                        fl.discard(x[1])
                g["tests"].append(len(s.tests))
                s.tests.append(t)
                n += 1
                self._c("group:test")
            s.groups.append(g)
            self._c("group")
        return s

    def kinds_suite(self):
        """one test per assertion kind and polarity (every kind of tester/function/assert*.go)"""
        s = Suite()
        self.nlog = 0
        self.nsubs = 1
        s.subs.append((0, self.block(0, 2)))
        n = 0
        for kind, (good, bad) in sorted(ASSERTS.items()):
            for holds, text in ((True, good), (False, bad)):
                if text is None:
                    continue
                s.tests.append({"name": n, "scopes": ["recv"], "skip": False, "expect": "pass" if holds else "assert",
                                "steps": [("log", n), ("ac", kind, holds), ("log", 100 + n)]})
                n += 1
        for kind, (good, bad) in sorted(STATEFUL.items()):
            for holds, text in ((True, good), (False, bad)):
                s.tests.append({"name": n, "scopes": ["recv"], "skip": False, "expect": "pass" if holds else "assert",
                                "steps": [("ac", kind, holds, text), ("log", 100 + n)]})
                n += 1
        return s

    def suite(self, ntests=None):
        r = self.r
        s = Suite()
        self.nlog = 0
        self.nsubs = r.randint(1, 4)
        for k in range(self.nsubs):
            s.subs.append((k, self.block(0, r.randint(2, 5))))
        ntests = ntests or r.choice([2, 3, 3, 4, 5, 5, 6, 8])
        for t in range(ntests):
            expect = r.choice(["pass", "pass", "pass", "assert", "assert", "runtime"])
            skip = r.random() < 0.12
            nsc = r.choice([1, 1, 1, 2, 2, 3])
            scopes = r.sample(SCOPES, nsc)
            self._c("test:" + ("skip" if skip else expect))
            self._c("test:%d-scopes" % nsc)
            s.tests.append({"name": t, "scopes": scopes, "skip": skip, "steps": self.steps(expect, s.subs), "expect": expect})
            if r.random() < 0.3:
                s.tests[-1]["tags"] = [(r.randrange(len(TAGS)), r.random() < 0.35) for _ in range(r.choice([1, 1, 2]))]
                self._c("test:tagged")
        s.cli_tags = r.choice([[], [], [0], [1], [0, 2]])
        s.stats = dict(self.stats)
        return s
