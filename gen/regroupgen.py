"""Histories of regular-expression matches and subroutine calls for C07 (re.group.N, Model/ReGroup.v):
matches with 0-3 capture groups that succeed or fail, repeated with different subjects, inside called
subroutines (1-2 levels).  After every operation the program stores "<" re.group.0 "|" ... "|" re.group.3 ">"
in a request header (a header context: a group that is not set reads "(null)").  The answers of Go's PCRE
for each (pattern, subject) are returned by the harness and handed to the model (oracle)."""

PATS = ["(a)(b)?", "^(x)(y)(z)", "b", "(c+)d", "^$", "(a|b)(a|b)", "q", "(.)(.)(.)(.)"]
SUBJ = ["ab", "a", "xyz", "ccd", "", "ba", "zzz", "abcd"]


def gen_ops(rng, depth, n):
    out = []
    for _ in range(n):
        if depth > 0 and rng.random() < 0.25:
            out.append(("call", gen_ops(rng, depth - 1, rng.randint(0, 3))))
        else:
            out.append(("m", rng.choice(PATS), rng.choice(SUBJ)))
    return out


def render(ops):
    """-> (main VCL with the subroutines, body of the program, header names in step order, (pattern, subject) list)"""
    subs, pairs, steps = [], [], []

    def readback():
        k = len(steps)
        steps.append("req.http.G%d" % k)
        return 'set req.http.G%d = "<" re.group.0 "|" re.group.1 "|" re.group.2 "|" re.group.3 ">";\n' % k

    def block(l):
        src = ""
        for o in l:
            if o[0] == "m":
                pairs.append((o[1], o[2]))
                src += 'set req.http.Subj = "%s";\nif (req.http.Subj ~ "%s") { }\n' % (o[2], o[1]) + readback()
            else:
                body = block(o[1])
                name = "zr%d" % len(subs)
                subs.append("sub %s {\n%s}\n" % (name, body))
                src += "call %s;\n" % name + readback()
        return src

    body = block(ops)
    return "".join(subs), body, steps, pairs


def model_ops(ops, answers):
    """answers: iterator over the oracle's answers in the order of render()'s pairs"""
    out = []
    for o in ops:
        if o[0] == "m":
            a = next(answers)
            out.append("(m _)" if a is None else "(m (%s))" % " ".join('"%s"' % h for h in a))
        else:
            out.append("(call (%s))" % model_ops(o[1], answers))
    return " ".join(out)
