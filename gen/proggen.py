"""Type-directed programs of the core language over local variables for C07 (implrun evalprog vs
Model/Eval.v): up to ~30 statements over a pool of INTEGER, FLOAT, STRING, BOOL, RTIME, IP locals;
set with all fifteen operators and boundary operands; nested if / else if / else; switch with
== and ~ tests, fallthrough and default.  Each program is rendered as VCL text and as the model's
S-expression.  Regex patterns and IP strings are drawn from classes the model-side oracle decides
by itself (^lit, lit$, lit; canonical dotted quads / digit-free strings)."""
from gen import evalgen

TYPES = {"I": "INTEGER", "F": "FLOAT", "S": "STRING", "B": "BOOL", "R": "RTIME", "P": "IP"}
INTS = [0, 1, -1, 2, 3, 5, 7, 10, 63, 64, 65, 100, 1000, 2**31, -2**31, 2**31 - 1, 2**32, 10**9, 2**62, 2**63 - 1, -2**63 + 1, -64, 9223372036]
FLTS = [0.0, 1.0, -1.0, 0.5, -0.5, 1.5, 2.5, 0.001, 0.0005, 1000000000000000.0, 3.0, 64.0, 1000.0, 2147483648.0, 9300000000.0, 123456.789, 0.25]
STRS = [b"", b"abc", b"a", b"b", b"ab", b"abc/def", b"0", b"1", b"10.1.2.3", b"1.2.3.4", b"x-y", b"hello world", b"NAN"]
PATS = [b"^a", b"^ab", b"c$", b"b", b"abc", b"^x", b"def$", b"/", b"^hello"]
IPSTR = [b"1.2.3.4", b"10.1.2.3", b"255.255.255.255", b"0.0.0.0", b"abc", b"x-y"]
AOPS_BY_TYPE = {
    "I": ["set", "add", "sub", "mul", "div", "rem", "or", "and", "xor", "shl", "shr", "rol", "ror"],
    "F": ["set", "add", "sub", "mul", "div", "rem"],
    "S": ["set", "add"],
    "B": ["set", "lor", "land"],
    "R": ["set", "add", "sub", "mul", "div", "rem"],
    "P": ["set"],
}
RHS_TYPES = {"I": "IIIFR", "F": "FFFIR", "S": "SSSIFBRP", "B": "B", "R": "RRIF", "P": "SP"}
AOP_TEXT = {"set": "=", "add": "+=", "sub": "-=", "mul": "*=", "div": "/=", "rem": "%=", "or": "|=", "and": "&=", "xor": "^=",
            "shl": "<<=", "shr": ">>=", "rol": "rol=", "ror": "ror=", "lor": "||=", "land": "&&="}
BOP_TEXT = {"eq": "==", "ne": "!=", "lt": "<", "gt": ">", "le": "<=", "ge": ">=", "match": "~", "nmatch": "!~", "and": "&&", "or": "||"}


def lit_vcl(v):
    k = v[0]
    if k == "I":
        return str(v[1])
    if k == "F":
        f = evalgen.struct.unpack(">d", evalgen.struct.pack(">Q", v[1]))[0]
        t = repr(f)
        assert "e" not in t and "inf" not in t and "nan" not in t, t
        return t
    if k == "S":
        return '"%s"' % v[1].decode()
    if k == "B":
        return "true" if v[1] else "false"
    if k == "R":
        return v[2]
    raise ValueError(v)


class ProgGen:
    def __init__(self, rng, stats):
        self.rng = rng
        self.stats = stats
        self.vars = []        # (index, type letter)
        self.count = 0

    def bump(self, k):
        self.stats[k] = self.stats.get(k, 0) + 1

    def literal(self, t):
        r = self.rng
        if t == "I":
            return ("I", r.choice(INTS) if r.random() < 0.8 else r.randint(-10**6, 10**6), 0, 0, 0)
        if t == "F":
            return ("F", evalgen.fbits(r.choice(FLTS)), 0, 0, 0)
        if t == "S":
            return ("S", r.choice(STRS), 0)
        if t == "B":
            return ("B", r.randint(0, 1))
        if t == "R":
            txt, ns = r.choice(evalgen.RT_LIT)
            return ("R", ns, txt)
        raise ValueError(t)

    def var_of(self, t):
        c = [x for x, ty in self.vars if ty == t]
        return self.rng.choice(c) if c else None

    def operand(self, t, allow_lit=True):
        """-> (vcl text, sexp) of a literal or a variable of type t"""
        x = self.var_of(t)
        if x is not None and (not allow_lit or self.rng.random() < 0.5 or t == "P"):
            return "var.v%d" % x, "(var %d)" % x
        if t == "P":
            return None
        v = self.literal(t)
        return lit_vcl(v), "(lit %s)" % evalgen.model_text("", v)

    def declare(self):
        t = self.rng.choice("IIFSSBRP")
        x = len(self.vars)
        self.vars.append((x, t))
        self.bump("declare " + TYPES[t])
        return "declare local var.v%d %s;\n" % (x, TYPES[t]), "(decl %d %s)" % (x, TYPES[t])

    def set_stmt(self):
        if not self.vars:
            return self.declare()
        x, t = self.rng.choice(self.vars)
        op = self.rng.choice(AOPS_BY_TYPE[t])
        rt = self.rng.choice(RHS_TYPES[t]) if self.rng.random() < 0.92 else self.rng.choice("IFSBR")
        if op in ("or", "and", "xor", "shl", "shr", "rol", "ror"):
            rt = "I"
        if t == "P" and rt == "S":
            o = ('"%s"' % (s := self.rng.choice(IPSTR)).decode(), "(lit %s)" % evalgen.model_text("", ("S", s, 0)))
        elif rt != t and self.rng.random() < 0.9:
            o = self.operand(rt, allow_lit=False) if self.var_of(rt) is not None else self.operand(t if t != "P" else "S")
        else:
            o = self.operand(rt)
        if o is None:
            return self.declare()
        self.bump("set %s" % op)
        return "set var.v%d %s %s;\n" % (x, AOP_TEXT[op], o[0]), "(set %d %s %s)" % (x, op, o[1])

    def set_concat(self):
        """set var.x = a b + c ... ; : a concatenation series of 2-4 operands over the pool (any types) and literals"""
        targets = [x for x, t in self.vars if t == "S"] or [x for x, t in self.vars]
        if not targets or len(self.vars) < 2:
            return self.declare()
        x = self.rng.choice(targets) if self.rng.random() < 0.9 else self.rng.choice([y for y, _ in self.vars])
        op = "add" if self.rng.random() < 0.25 else "set"
        n = self.rng.randint(2, 4)
        vcl, sx = "", []
        for i in range(n):
            explicit = i > 0 and self.rng.random() < 0.35
            sg = "+" if explicit else "_"
            if self.rng.random() < 0.4:
                lit = self.rng.choice(STRS)
                vcl += (" + " if explicit else " ") + '"%s"' % lit.decode()
                sx.append('(%s (lit "%s"))' % (sg, lit.hex()))
            else:
                y, _ = self.rng.choice(self.vars)
                vcl += (" + " if explicit else " ") + "var.v%d" % y
                sx.append("(%s (var %d))" % (sg, y))
        self.bump("set concat")
        return "set var.v%d %s%s;\n" % (x, AOP_TEXT[op], vcl), "(setcat %d %s (%s))" % (x, op, " ".join(sx))

    def cond(self, depth):
        r = self.rng
        k = r.random()
        if depth > 0 and k < 0.25:
            op = r.choice(["and", "or"])
            a, b = self.cond(depth - 1), self.cond(depth - 1)
            return "(%s) %s (%s)" % (a[0], BOP_TEXT[op], b[0]), "(infix %s %s %s)" % (op, a[1], b[1])
        if depth > 0 and k < 0.35:
            a = self.cond(depth - 1)
            return "!(%s)" % a[0], "(not %s)" % a[1]
        if k < 0.5:     # bare truthiness of a BOOL / STRING variable, possibly negated
            t = r.choice("BS")
            x = self.var_of(t)
            if x is not None:
                if r.random() < 0.4:
                    return "!var.v%d" % x, "(not (op (var %d)))" % x
                return "var.v%d" % x, "(op (var %d))" % x
        t = r.choice("IIFSSRB")
        x = self.var_of(t)
        if x is None:
            return "!req.http.Nope-%d" % r.randint(0, 9), "(op (lit B:1))"   # a not-set header is falsy: constant true
        if t == "S" and r.random() < 0.45:
            op = r.choice(["match", "nmatch"])
            p = r.choice(PATS)
            return "var.v%d %s \"%s\"" % (x, BOP_TEXT[op], p.decode()), "(infix %s (op (var %d)) (op (lit %s)))" % (op, x, evalgen.model_text("", ("S", p, 0)))
        if t == "B":
            op = r.choice(["eq", "ne"])
            rt = "B"
        elif t == "S":
            op = r.choice(["eq", "ne"])
            rt = "S"
        else:
            op = r.choice(["eq", "ne", "lt", "gt", "le", "ge"])
            rt = {"I": "IIR", "F": "FFI", "R": "RRI"}[t]
            rt = r.choice(rt)
            if op in ("eq", "ne"):
                rt = t
        o = self.operand(rt)
        if o is None:
            return "var.v%d" % x, "(op (var %d))" % x
        return "var.v%d %s %s" % (x, BOP_TEXT[op], o[0]), "(infix %s (op (var %d)) (op %s))" % (op, x, o[1])

    def block(self, depth, n):
        v, s = [], []
        saved = list(self.vars)
        for _ in range(n):
            a, b = self.stmt(depth)
            v.append(a)
            s.append(b)
        # variables declared inside a block stay declared (one flat scope per subroutine) - but a
        # branch may not run: keep only the variables that existed before
        self.vars = saved
        return "".join(v), "(" + " ".join(s) + ")"

    def stmt(self, depth):
        self.count += 1
        r = self.rng
        k = r.random()
        if k < 0.2 or len(self.vars) < 3:
            return self.declare()
        if k < 0.3:
            return self.set_concat()
        if k < 0.72 or depth <= 0:
            return self.set_stmt()
        if k < 0.9:
            self.bump("if")
            c = self.cond(2)
            t = self.block(depth - 1, r.randint(0, 3))
            elifs = []
            for _ in range(r.choice([0, 0, 1, 2])):
                ec = self.cond(1)
                eb = self.block(depth - 1, r.randint(0, 2))
                elifs.append((ec, eb))
                self.bump("else if")
            e = self.block(depth - 1, r.randint(0, 2)) if r.random() < 0.5 else None
            vcl = "if (%s) {\n%s}\n" % (c[0], t[0]) + "".join("else if (%s) {\n%s}\n" % (ec[0], eb[0]) for ec, eb in elifs) + \
                  ("else {\n%s}\n" % e[0] if e else "")
            sx = "(if %s %s (%s) %s)" % (c[1], t[1], " ".join("(%s %s)" % (ec[1], eb[1]) for ec, eb in elifs), e[1] if e else "_")
            return vcl, sx
        # switch on a variable
        t = r.choice("SSIB")
        x = self.var_of(t)
        if x is None:
            return self.set_stmt()
        self.bump("switch")
        ncase = r.randint(1, 4)
        dflt = r.randrange(ncase) if r.random() < 0.6 else None
        vcl = "switch (var.v%d) {\n" % x
        cs = []
        used = set()
        for i in range(ncase):
            body = self.block(depth - 1, r.randint(0, 2))
            ft = (i < ncase - 1) and r.random() < 0.3
            if ft:
                self.bump("fallthrough")
            if i == dflt:
                vcl += "default:\n"
                tst = "_"
            elif r.random() < 0.35:
                p = r.choice([q for q in PATS if ("re", q) not in used])
                used.add(("re", p))
                vcl += 'case ~ "%s":\n' % p.decode()
                tst = '(re "%s")' % p.hex()
            else:
                lit = r.choice([q for q in STRS + [b"5", b"(null)", b"0.000", b"1.500"] if ("eq", q) not in used])
                used.add(("eq", lit))
                vcl += 'case "%s":\n' % lit.decode()
                tst = '(eq "%s")' % lit.hex()
            vcl += body[0] + ("fallthrough;\n" if ft else "break;\n")
            cs.append("(%s %s %d)" % (tst, body[1], 1 if ft else 0))
        vcl += "}\n"
        return vcl, "(switch (var %d) (%s) %s)" % (x, " ".join(cs), "_" if dflt is None else str(dflt))


def gen_program(rng, stats):
    g = ProgGen(rng, stats)
    v, s = [], []
    n = rng.randint(4, 30)
    while g.count < n:
        a, b = g.stmt(2)
        v.append(a)
        s.append(b)
    return "".join(v), "(" + " ".join(s) + ")", ["var.v%d" % x for x, _ in g.vars]


# ---------------------------------------------------------------- SIZE of control structures
# switches of 1-40 cases mixing string and regex tests that overlap (the same text as a string and as a
# pattern, patterns matching several strings, control values matching several cases), with fallthrough
# and default anywhere; if / else-if chains of 1-40 branches whose conditions overlap.  The selected
# branch is visible in var.v1 (every body assigns its own number), the path in var.v2 (+= number).

WORDS = [a + b + c for a in ("", "a", "b", "c") for b in ("", "a", "b", "c") for c in ("a", "b", "c")]
WORDS = sorted(set(WORDS), key=lambda w: (len(w), w))          # a b c aa ab ... ccc (39 words)


def _tests(rng, n):
    """n distinct case tests (is_regex, text) drawn so that they overlap heavily"""
    base = rng.sample(WORDS[:12], min(6, n))                    # few words -> many cases about the same words
    pool = []
    for w in base + rng.sample(WORDS, min(len(WORDS), n)):
        pool += [(False, w), (True, w), (True, "^" + w), (True, w + "$")]
    seen, out = set(), []
    rng.shuffle(pool)
    for t in pool:
        if t not in seen and len(out) < n:
            seen.add(t)
            out.append(t)
    return out


def gen_big_switch(rng, stats, n=None):
    n = n or rng.randint(1, 40)
    tests = _tests(rng, n)
    n = len(tests)
    dflt = rng.randrange(n + 1) if rng.random() < 0.6 else None        # position of a default among the cases
    ctl = rng.choice([t[1].strip("^$") for t in tests] + rng.sample(WORDS, 3))
    vcl = 'declare local var.v0 STRING;\ndeclare local var.v1 INTEGER;\ndeclare local var.v2 INTEGER;\nset var.v0 = "%s";\nswitch (var.v0) {\n' % ctl
    cs = []
    entries = [("case", t) for t in tests]
    if dflt is not None:
        entries.insert(dflt, ("default", None))
    for i, (kind, t) in enumerate(entries):
        ft = i < len(entries) - 1 and rng.random() < 0.2
        body_v = "set var.v1 = %d;\nset var.v2 += %d;\n" % (i + 1, i + 1)
        body_s = "((set 1 set (lit I:%d:000)) (set 2 add (lit I:%d:000)))" % (i + 1, i + 1)
        if kind == "default":
            vcl += "default:\n"
            tst = "_"
        elif t[0]:
            vcl += 'case ~ "%s":\n' % t[1]
            tst = '(re "%s")' % t[1].encode().hex()
        else:
            vcl += 'case "%s":\n' % t[1]
            tst = '(eq "%s")' % t[1].encode().hex()
        vcl += body_v + ("fallthrough;\n" if ft else "break;\n")
        cs.append("(%s %s %d)" % (tst, body_s, 1 if ft else 0))
    vcl += "}\n"
    sx = '((decl 0 STRING) (decl 1 INTEGER) (decl 2 INTEGER) (set 0 set (lit S:%s:0)) (switch (var 0) (%s) %s))' % (
        ctl.encode().hex(), " ".join(cs), "_" if dflt is None else str(dflt))
    stats["switch of %s cases" % ("1-8" if len(entries) <= 8 else "9-16" if len(entries) <= 16 else "17-41")] = \
        stats.get("switch of %s cases" % ("1-8" if len(entries) <= 8 else "9-16" if len(entries) <= 16 else "17-41"), 0) + 1
    return vcl, sx, ["var.v0", "var.v1", "var.v2"]


def gen_big_if(rng, stats, n=None):
    n = n or rng.randint(1, 40)
    ctl = rng.choice(WORDS)
    num = rng.randint(0, 40)
    vcl = 'declare local var.v0 STRING;\ndeclare local var.v1 INTEGER;\ndeclare local var.v2 INTEGER;\nset var.v0 = "%s";\nset var.v2 = %d;\n' % (ctl, num)
    conds = []
    for i in range(n):
        k = rng.random()
        if k < 0.35:
            w = rng.choice(WORDS[:15])
            conds.append(('var.v0 == "%s"' % w, "(infix eq (op (var 0)) (op (lit S:%s:0)))" % w.encode().hex()))
        elif k < 0.7:
            w = rng.choice(WORDS[:15])
            p = rng.choice([w, "^" + w, w + "$"])
            conds.append(('var.v0 ~ "%s"' % p, "(infix match (op (var 0)) (op (lit S:%s:0)))" % p.encode().hex()))
        else:
            op = rng.choice(["lt", "gt", "le", "ge", "eq"])
            m = rng.randint(0, 40)
            conds.append(("var.v2 %s %d" % (BOP_TEXT[op], m), "(infix %s (op (var 2)) (op (lit I:%d:000)))" % (op, m)))
    has_else = rng.random() < 0.5
    body_v = lambda i: "set var.v1 = %d;\n" % (i + 1)
    body_s = lambda i: "((set 1 set (lit I:%d:000)))" % (i + 1)
    vcl += "if (%s) {\n%s}\n" % (conds[0][0], body_v(0))
    for i in range(1, n):
        vcl += "else if (%s) {\n%s}\n" % (conds[i][0], body_v(i))
    if has_else:
        vcl += "else {\n%s}\n" % body_v(n)
    sx = '((decl 0 STRING) (decl 1 INTEGER) (decl 2 INTEGER) (set 0 set (lit S:%s:0)) (set 2 set (lit I:%d:000)) (if %s %s (%s) %s))' % (
        ctl.encode().hex(), num, conds[0][1], body_s(0), " ".join("(%s %s)" % (conds[i][1], body_s(i)) for i in range(1, n)),
        body_s(n) if has_else else "_")
    stats["if chain of %s branches" % ("1-8" if n <= 8 else "9-40")] = stats.get("if chain of %s branches" % ("1-8" if n <= 8 else "9-40"), 0) + 1
    return vcl, sx, ["var.v0", "var.v1", "var.v2"]


def size_sweep(rng, stats):
    """every size 1..40 once for both structures (always part of the run) """
    out = []
    for n in range(1, 41):
        out.append(gen_big_switch(rng, stats, n))
        out.append(gen_big_if(rng, stats, n))
    return out
