"""Planted programs for C04: the generator decides, by construction, every input of the verdict -
which diagnostics exist (rule, intrinsic severity), which of them an ignore comment removes, whether
the main file or an included module has a syntax error - so that the expected exit status and
counts are known WITHOUT reading anything back from the linter.

Each statement template below is a statement of vcl_recv (or of a `# @scope: recv` snippet, or of
a statement-level module included into vcl_recv) together with the diagnostics it is known to
raise.  The table is a fixed fact of this file (calibrated once against the linter); checks/c04.py
reports a VIOLATION when l.Errors stops agreeing with it.

Ignore comments follow the property C12 states (and Props/C12.v proves for the repaired linter):
a next-line / trailing comment removes the diagnostics of its statement that it names, a
start..end pair those of the statements in between, a next-line comment before `sub` those of
the whole subroutine.
"""

E, W, I = "E", "W", "I"

# (text with {n}, [(rule, intrinsic severity)...], usable in a snippet main)
STMTS = [
    ('set req.http.B{n} = std.itoa(0, 1, 2);', [("function/arguments", E)], True),
    ('error 1000;', [("error-statement/code", I)], True),
    ('set req.http.A{n} = undefined.v{n};', [("-", E), ("operator/assignment", E)], True),
    ('call undefined_sub{n};', [("call-statement/subroutine-notfound", E)], True),
    ('add req.url = "x{n}";', [("add-statement/syntax", E)], True),
    ('set req.http.K{n} = "v";', [], True),
    ('set req.http.L{n} = req.http.Host;', [], True),
    ('declare local var.u{n} STRING;', [("unused/variable", W)], False),
    ('set req.http.H{n} = 10;', [("operator/assignment", E)], True),
    ('synthetic "x{n}";', [("synthetic-statement/scope", E)], True),
    ('set req.http.C{n} = std.itoa(req.http.D);', [("function/argument-type", E)], True),
    ('unset req.http.Fastly-FF;', [("-", E)], True),
    ('set req.http.I{n} = req.http.A + 1;', [("operator/conditional", E)], True),
]
# statements whose diagnostics do not depend on the scope (bodies of included subroutines)
ANYSCOPE = [0, 3, 5, 6, 8, 10, 12]
MOD_SUBS = ["vcl_hit", "vcl_miss", "vcl_pass", "vcl_log", "vcl_hash", "vcl_fetch", "vcl_deliver"]
BAD_STMT = "  set req.http.Q = ;"


class Case:
    def __init__(self, label):
        self.label = label
        self.main = ""
        self.local = {}        # modules in the directory of the main file (searched last)
        self.dirs = []         # -I directories, in order: [{module name: text}]
        self.pm = False        # syntax error in the main file
        self.pi = False        # syntax error in a module that is reached
        self.diags = []        # planted diagnostics that survive the planted ignore comments
        self.planted = True
        self.notes = []

    @property
    def mods(self):
        m = dict(self.local)
        for d in reversed(self.dirs):
            m.update(d)
        return m


def _stmt(rng, ctr, pool=None, snippet=False):
    while True:
        k = rng.choice(pool) if pool else rng.randrange(len(STMTS))
        text, dg, ok_snip = STMTS[k]
        if snippet and not ok_snip:
            continue
        ctr[0] += 1
        return text.replace("{n}", str(ctr[0])), list(dg)


def _module(rng, ctr, kind, subname):
    """root-level module: (text, diags, bad)"""
    if kind == "bad":
        return "sub %s {\n%s\n}\n" % (subname, BAD_STMT), [], True
    lines = ["sub %s {" % subname, "  #FASTLY %s" % subname[4:].upper()]
    dg = []
    n = rng.randint(1, 3)
    for _ in range(n):
        t, d = _stmt(rng, ctr, pool=ANYSCOPE if kind == "err" else [5, 6])
        lines.append("  " + t)
        dg += d
    if kind == "err" and not dg:
        t, d = _stmt(rng, ctr, pool=[0])
        lines.append("  " + t)
        dg += d
    lines.append("}")
    return "\n".join(lines) + "\n", dg, False


def _stmt_module(rng, ctr, kind):
    """statement-level module (included inside a subroutine body): (text, diags, bad)"""
    if kind == "bad":
        return BAD_STMT.strip() + "\n", [], True
    if kind == "decl":
        # a declaration is not a statement: ParseSnippetVCL rejects it
        return 'sub helper_%d {\n  set req.http.K = "v";\n}\n' % ctr[0], [], True
    lines, dg = [], []
    for _ in range(rng.randint(1, 3)):
        t, d = _stmt(rng, ctr, pool=[5, 6] if kind == "ok" else None, snippet=True)
        lines.append(t)
        dg += d
    return "\n".join(lines) + "\n", dg, False


def planted_case(rng, idx):
    ctr = [idx * 100]
    c = Case("planted")
    shape = rng.choice(["program"] * 6 + ["snippet"] * 2 + ["only-includes"])
    tags = [shape]
    subs_free = list(MOD_SUBS)
    rng.shuffle(subs_free)

    # ---------------- root-level includes
    root_includes = []      # (name, diags, bad)
    if shape != "snippet" and (shape == "only-includes" or rng.random() < 0.45):
        n = rng.randint(1, 3)
        kinds = [rng.choice(["ok", "ok", "err", "bad"]) for _ in range(n)]
        names = ["m%d_%d" % (idx, j) for j in range(n)]
        texts = []
        for j in range(n):
            t, d, bad = _module(rng, ctr, kinds[j], subs_free.pop())
            texts.append([t, d, bad])
        top = list(range(n))
        for j in range(n - 1):
            if not texts[j][2] and rng.random() < 0.3:      # nesting: module j includes module j+1
                texts[j][0] = 'include "%s";\n' % names[j + 1] + texts[j][0]
                top.remove(j + 1)
                texts[j].append(j + 1)
        rng.shuffle(top)
        where = rng.choice(["I0", "I0", "local", "two-dirs", "shadow"])
        c.dirs = [{}, {}] if where in ("two-dirs", "shadow") else [{}]
        for j in range(n):
            target = c.local if where == "local" else c.dirs[0] if where in ("I0", "shadow") else c.dirs[j % 2]
            target[names[j]] = texts[j][0]
        if where == "shadow":
            # the same module name in the second -I directory and next to the main file, with the
            # opposite health: the first directory wins
            j = rng.randrange(n)
            other = "sub vcl_error {\n%s\n}\n" % BAD_STMT if not texts[j][2] else 'sub vcl_error {\n  #FASTLY ERROR\n  set req.http.K = "v";\n}\n'
            c.dirs[1][names[j]] = other
            c.local[names[j]] = other
        tags.append("root-includes:" + "+".join(kinds) + ":" + where)

        def reach(j):
            t = texts[j]
            if t[2]:
                c.pi = True
                return
            c.diags.extend(t[1])
            for k in t[3:]:
                reach(k)
        for j in top:
            root_includes.append(names[j])
            reach(j)

    lines = ['include "%s";' % nm for nm in root_includes]
    if shape == "only-includes":
        c.main = "\n".join(lines) + "\n"
        c.label = "planted/" + "/".join(tags)
        return c

    # ---------------- the body: planted statements, optionally a statement-level include
    snippet = shape == "snippet"
    n = rng.randint(2, 6)
    body = []            # (text, diags, is_include)
    for _ in range(n):
        if rng.random() < 0.4:
            t, d = shaped_stmt(rng, ctr)
        else:
            t, d = _stmt(rng, ctr, snippet=snippet)
        body.append([t, d, False])
    if rng.random() < 0.35:
        kind = rng.choice(["ok", "err", "err", "bad", "decl"])
        t, d, bad = _stmt_module(rng, ctr, kind)
        name = "s%d" % idx
        if not c.dirs:
            c.dirs = [{}]
        (c.dirs[0] if rng.random() < 0.6 else c.local)[name] = t
        # a snippet file whose first token is `include` is taken for a full VCL by ParseVCLOrSnippet (first-token
        # heuristic, C01/C02 territory): the include is never the first statement of a snippet main
        pos = rng.randrange(1 if snippet else 0, len(body) + 1)
        body.insert(pos, ['include "%s";' % name, d, True])
        if bad:
            c.pi = True
            body[pos][1] = []
        tags.append("stmt-include:" + kind)

    # ---------------- ignore comments on a known subset
    n = len(body)
    removed = [set() for _ in range(n)]      # per statement: indices of its diagnostics that are ignored
    lead = [[] for _ in range(n + 1)]        # comments before statement i (n: before the closing brace)
    trail = [[] for _ in range(n)]
    sub_lead = []
    whole_sub = []                           # rule lists of the next-line comments before `sub`
    marker = lambda: rng.choice(["#", "//", "/*"])

    def com(kind, rules):
        word = {"next": "falco-ignore-next-line", "this": "falco-ignore", "start": "falco-ignore-start", "end": "falco-ignore-end"}[kind]
        b = word + ((" " + ", ".join(rules)) if rules else "")
        m = marker()
        return "/* %s */" % b if m == "/*" else m + " " + b

    def names_of(i):
        return [r for r, _ in body[i][1] if r != "-"]

    def cover(i, rules):
        for k, (r, _) in enumerate(body[i][1]):
            if not rules or r in rules:
                removed[i].add(k)

    # a stack: 2-4 directives in force at once on one statement - next-line comments, trailing falco-ignore comments (block
    # comments, so that several fit on the line) and falco-ignore-start comments closed together by ONE bare falco-ignore-end -
    # with disjoint, overlapping, empty (= all) and repeated rule lists in any order: what is ignored is the UNION
    used_range = False
    plain0 = [i for i in range(n) if not body[i][2] and body[i][1]]
    if plain0 and rng.random() < 0.45:
        i = rng.choice(plain0)
        pool = names_of(i) + ["acl/syntax", "function/arguments", "operator/assignment"]
        kinds = rng.choice([["next"], ["this"], ["start"], ["next", "this", "start"], ["next", "start"]])
        started = False
        for t in range(rng.randint(2, 4)):
            kind = rng.choice(kinds)
            rules = [] if rng.random() < 0.2 else rng.sample(pool, rng.choice([1, 1, 2]))
            if rules and rng.random() < 0.15:
                rules = rules + [rules[0]]
            if kind == "next":
                lead[i].insert(rng.randrange(len(lead[i]) + 1), com("next", rules))
                cover(i, rules)
            elif kind == "this":
                word = "falco-ignore" + ((" " + ", ".join(rules)) if rules else "")
                trail[i].append("/* %s */" % word)
                cover(i, rules)
            elif not used_range or started:
                if not started:
                    j_end = rng.choice([k for k in range(i + 1, n) if not body[k][2]] + [n])
                    lead[j_end].insert(0, com("end", []))          # one bare end closes every pair of the stack
                    started = used_range = True
                lead[i].insert(rng.randrange(len(lead[i]) + 1), com("start", rules))
                for k in range(i, j_end):
                    cover(k, rules)
        tags.append("ignore:stack")
    for _ in range(rng.choice([0, 0, 1, 1, 2])):
        form = rng.choice(["next", "this", "range", "sub"])
        plain = [i for i in range(n) if not body[i][2]]
        if not plain:
            break
        i = rng.choice(plain)
        rules = []
        if rng.random() < 0.5:
            pool = names_of(i) + ["acl/syntax"]
            rules = rng.sample(pool, min(len(pool), rng.choice([1, 1, 2])))
        if form == "next":
            lead[i].append(com("next", rules))
            cover(i, rules)
            tags.append("ignore:next" + ("+rules" if rules else ""))
        elif form == "this":
            if trail[i] and not trail[i][-1].startswith("/*"):
                continue
            c_ = com("this", rules)
            trail[i].append(c_)
            cover(i, rules)
            tags.append("ignore:this" + ("+rules" if rules else ""))
        elif form == "range" and not used_range:
            used_range = True
            j = rng.choice([k for k in range(i + 1, n) if not body[k][2]] + [n])   # a comment before `include` is dropped with it
            lead[i].append(com("start", rules))
            lead[j].append(com("end", rules))
            for k in range(i, j):
                cover(k, rules)
            tags.append("ignore:range" + ("+rules" if rules else ""))
        elif form == "sub" and not snippet:
            whole_sub.append(rules)
            sub_lead.append(com("next", rules))
            tags.append("ignore:sub" + ("+rules" if rules else ""))

    # ---------------- render
    macro = rng.random() < 0.7
    sub_diags = [] if macro or snippet else [("subroutine/boilerplate-macro", W)]
    if snippet:
        lines = [rng.choice(["# @scope: recv", "// @scope: recv"])]
        ind = ""
    else:
        lines += sub_lead + ["sub vcl_recv {"] + (["  #FASTLY RECV"] if macro else [])
        ind = "  "
    for i in range(n):
        lines += [ind + x for x in lead[i]]
        lines.append(ind + body[i][0] + "".join(" " + x for x in trail[i]))
    lines += [ind + x for x in lead[n]]
    if not snippet:
        lines.append("}")
    if snippet and lead[n]:
        # a comment after the last statement of a snippet file belongs to no statement: harmless,
        # the range simply runs to the end of the file
        pass
    bad_main = rng.random() < 0.1
    if bad_main:
        lines.insert(rng.randrange(1 if snippet else len(root_includes) + len(sub_lead) + 1, len(lines)), BAD_STMT)
        c.pm = True
        tags.append("syntax-main")
    extra = []
    if not snippet and rng.random() < 0.2:
        lines += ["sub custom_%d {" % idx, '  set req.http.K = "v";', "}"]
        extra = [("subroutine/unrecognize-call-scope", W), ("unused/declaration", W)]
        tags.append("unused-custom-sub")
    c.main = "\n".join(lines) + "\n"
    if rng.random() < 0.15:
        c.main = c.main.replace("\n", "\r\n")      # a file with CRLF line ends
        tags.append("crlf")

    # ---------------- the surviving diagnostics
    for i in range(n):
        for k, d in enumerate(body[i][1]):
            if k in removed[i]:
                continue
            if any((not L or d[0] in L) for L in whole_sub):
                continue
            c.diags.append(d)
    for d in sub_diags:
        if any((not L or d[0] in L) for L in whole_sub):
            continue
        c.diags.append(d)
    c.diags += extra
    c.label = "planted/" + "/".join(tags)
    return c


def planted_seeds():
    """hand-written planted cases (minimised inputs of repaired / seeded defects), run on every tier"""
    out = []

    def mk(label, main, dirs=(), local=None, pm=False, pi=False, diags=()):
        c = Case("planted/seed/" + label)
        c.main, c.dirs, c.local, c.pm, c.pi, c.diags = main, [dict(d) for d in dirs], dict(local or {}), pm, pi, list(diags)
        out.append(c)

    ok_mod = 'sub vcl_hit {\n  #FASTLY HIT\n  set req.http.K = "v";\n}\n'
    bad_mod = "sub vcl_miss {\n%s\n}\n" % BAD_STMT
    recv = 'sub vcl_recv {\n  #FASTLY RECV\n  set req.http.K = "v";\n}\n'
    mk("snippet-includes-bad-module", '# @scope: recv\nset req.http.K = "v";\ninclude "s";\n', [{"s": "set req.http.Q = ;\n"}], pi=True)
    mk("snippet-includes-err-module", '# @scope: recv\nset req.http.K = "v";\ninclude "s";\n',
       [{"s": "set req.http.B = std.itoa(0, 1, 2);\nerror 1000;\n"}], diags=[("function/arguments", E), ("error-statement/code", I)])
    mk("sub-body-includes-bad-module", 'sub vcl_recv {\n  #FASTLY RECV\n  include "s";\n  set req.http.K = "v";\n}\n', [{"s": "set req.http.Q = ;\n"}], pi=True)
    mk("sub-body-includes-err-module-in-range",
       'sub vcl_recv {\n  #FASTLY RECV\n  # falco-ignore-start function/arguments\n  set req.http.K = "v";\n  include "s";\n  # falco-ignore-end function/arguments\n}\n',
       [{"s": "set req.http.B = std.itoa(0, 1, 2);\nset req.http.H = 10;\n"}], diags=[("operator/assignment", E)])
    mk("bad-include-then-healthy-include", 'include "a";\ninclude "b";\n' + recv, [{"a": bad_mod, "b": ok_mod}], pi=True)
    mk("healthy-include-then-bad-include", 'include "b";\ninclude "a";\n' + recv, [{"a": bad_mod, "b": ok_mod}], pi=True)
    mk("bad-include-nested-then-healthy", 'include "o";\ninclude "b";\n' + recv,
       [{"o": 'include "a";\nsub vcl_pass {\n  #FASTLY PASS\n  set req.http.K = "v";\n}\n', "a": bad_mod, "b": ok_mod}], pi=True)
    mk("same-name-first-dir-healthy", 'include "m";\n' + recv, [{"m": ok_mod}, {"m": bad_mod}], local={"m": bad_mod})
    mk("same-name-first-dir-broken", 'include "m";\n' + recv, [{"m": bad_mod}, {"m": ok_mod}], local={"m": ok_mod}, pi=True)
    mk("module-only-next-to-main", 'include "m";\n' + recv, [{}], local={"m": bad_mod}, pi=True)
    mk("only-includes", 'include "a";\ninclude "b";\n', [{"a": ok_mod, "b": 'sub vcl_recv {\n  set req.http.B = std.itoa(0, 1, 2);\n}\n'}],
       diags=[("function/arguments", E), ("subroutine/boilerplate-macro", W)])
    mk("only-includes-one-broken", 'include "a";\ninclude "b";\n', [{"a": ok_mod, "b": bad_mod}], pi=True)
    mk("ignored-everything", '# falco-ignore-next-line\nsub vcl_recv {\n  set req.http.B = std.itoa(0, 1, 2);\n  declare local var.u STRING;\n}\n')
    # several directives in force at once: the union counts
    mk("stack-next-line-earlier-names-it", 'sub vcl_recv {\n  #FASTLY RECV\n  # falco-ignore-next-line function/arguments\n  # falco-ignore-next-line acl/syntax\n  set req.http.B = std.itoa(0, 1, 2);\n}\n')
    mk("stack-next-line-later-names-it", 'sub vcl_recv {\n  #FASTLY RECV\n  # falco-ignore-next-line acl/syntax\n  // falco-ignore-next-line function/arguments\n  set req.http.B = std.itoa(0, 1, 2);\n}\n')
    mk("stack-all-then-rule-list", 'sub vcl_recv {\n  #FASTLY RECV\n  # falco-ignore-next-line\n  # falco-ignore-next-line acl/syntax\n  set req.http.A = undefined.v;\n}\n')
    mk("stack-trailing", 'sub vcl_recv {\n  #FASTLY RECV\n  set req.http.B = std.itoa(0, 1, 2); /* falco-ignore function/arguments */ /* falco-ignore acl/syntax */\n}\n')
    mk("stack-starts-one-end", 'sub vcl_recv {\n  #FASTLY RECV\n  # falco-ignore-start function/arguments\n  # falco-ignore-start operator/assignment\n'
       '  set req.http.B = std.itoa(0, 1, 2);\n  set req.http.H = 10;\n  # falco-ignore-end\n  set req.http.H2 = 10;\n}\n', diags=[("operator/assignment", E)])
    mk("stack-start-all-then-start-rule", 'sub vcl_recv {\n  #FASTLY RECV\n  # falco-ignore-start\n  # falco-ignore-start acl/syntax\n'
       '  set req.http.A = undefined.v;\n  # falco-ignore-end\n}\n')
    mk("stack-mixed-kinds-none-names-it", 'sub vcl_recv {\n  #FASTLY RECV\n  # falco-ignore-start acl/syntax\n  # falco-ignore-next-line table/syntax\n'
       '  set req.http.B = std.itoa(0, 1, 2); // falco-ignore backend/syntax\n  # falco-ignore-end\n}\n', diags=[("function/arguments", E)])
    mk("warnings-and-infos", 'sub vcl_recv {\n  error 1000;\n  declare local var.u STRING;\n}\n',
       diags=[("error-statement/code", I), ("unused/variable", W), ("subroutine/boilerplate-macro", W)])
    return out


# ------------------------------------------------------------------------------ lexical shapes
# Diagnostics raised on an ATOM of a string concatenation, so that the flagged token can sit
# anywhere on a line of any lexical shape (the runner re-reads the source line to print it).
ATOMS = [
    ("re.group.{k}", [("deprecated", W)]),            # uncaptured regex variable
    ("now", [("-", I)]),                              # implicit TIME -> STRING conversion (needs a neighbour)
    ("req.restarts", [("-", I)]),                     # implicit INTEGER -> STRING conversion
    ("std.itoa(0, 1, 2)", [("function/arguments", E)]),
    ("req.http.Host", []),
]


PIECES = [
    '"plain"',
    '{"long string"}',
    '{xyz"delimited "quoted" long"xyz}',
    '"é日本\U0001F600"',
    '{"multi\nline"}',
    '"' + "v" * 300 + '"',
    '{LABEL"first capture: "LABEL}',
    '{"\té"}',
    '""',
    '"' + "w" * 5000 + '"',
]


def _piece(rng):
    return rng.choice(PIECES)


def shaped_stmt(rng, ctr, atom=None):
    """(text, diags): set req.http.S<n> = <pieces> ATOM <pieces>; with blanks, tabs and line breaks between the tokens"""
    ctr[0] += 1
    a, dg = ATOMS[atom if atom is not None else rng.randrange(len(ATOMS))]
    a = a.replace("{k}", str(rng.randint(0, 9)))
    pre = [_piece(rng) for _ in range(rng.randint(1, 3))]
    post = [_piece(rng) for _ in range(rng.randint(0, 2))]
    seps = [" ", " ", "\t", "  ", "\n    ", "\n\t"]
    toks = ["set", "req.http.S%d" % ctr[0], "="] + pre + [a] + post
    out = toks[0]
    for i, t in enumerate(toks[1:], 1):
        sep = rng.choice(seps if i > 2 else [" ", "\t"])
        if t == a:
            sep = rng.choice([" ", "\t", "\n    ", "\n"])          # the flagged token first on its line ...
        out += sep + t
    out += rng.choice([";", ";", "\n    ;", " ;"])                 # ... or last on it, the statement continuing below
    return out, list(dg)


# ------------------------------------------------------------------------------ scale
SCALE_N = [0, 1, 2, 10, 99, 100, 101, 255, 256, 499, 500, 501, 1000, 4096, 10000]


def scale_case(n_w, n_i, n_e, order, tag):
    """n_w WARNING, n_i INFO, n_e ERROR diagnostics, one per statement of vcl_recv, in l.Errors order `order`:
    'errors-last' | 'errors-first' | 'interleaved'"""
    c = Case("planted/scale/%s/W%d-I%d-E%d-%s" % (tag, n_w, n_i, n_e, order))
    w = ['  set req.http.W%d = "a" re.group.1;' % i for i in range(n_w)]
    inf = ['  set req.http.I%d = "a" now;' % i for i in range(n_i)]
    e = ['  set req.http.E%d = std.itoa(0, 1, 2);' % i for i in range(n_e)]
    if order == "errors-last":
        body = w + inf + e
    elif order == "errors-first":
        body = e + w + inf
    else:
        body, pools = [], [w, inf, e]
        total = n_w + n_i + n_e
        idx = [0, 0, 0]
        for k in range(total):
            # round robin over the non-exhausted pools, proportionally
            j = max(range(3), key=lambda t: (len(pools[t]) - idx[t]) / (len(pools[t]) or 1))
            body.append(pools[j][idx[j]])
            idx[j] += 1
    c.main = "sub vcl_recv {\n  #FASTLY RECV\n" + "\n".join(body) + ("\n" if body else "") + "}\n"
    c.diags = [("deprecated", W)] * n_w + [("-", I)] * n_i + [("function/arguments", E)] * n_e
    return c


def scale_cases(rng, thorough):
    out = []
    # always: more than 500 / 4096 diagnostics of a lower severity in front of a single error, and the mirror images
    fixed = [(600, 0, 1, "errors-last"), (0, 600, 1, "errors-last"), (300, 300, 2, "errors-last"),
             (1, 600, 1, "errors-first"), (501, 501, 501, "interleaved"), (4200, 0, 1, "errors-last")]
    for f in fixed:
        out.append(scale_case(*f, tag="fixed"))
    ns = SCALE_N if thorough else rng.sample(SCALE_N, 5)
    for n in ns:
        for order in (["errors-last", "errors-first", "interleaved"] if thorough else [rng.choice(["errors-last", "errors-first", "interleaved"])]):
            mix = rng.choice(["W", "I", "E", "WI", "WE", "IE", "WIE"]) if not thorough else None
            for m in ([mix] if mix else ["W", "I", "E", "WI", "WIE"]):
                nw = n if "W" in m else 0
                ni = n if "I" in m else 0
                ne = n if "E" in m else rng.choice([0, 1])
                out.append(scale_case(nw, ni, ne, order, tag="n%d" % n))
    return out


POSITIONS = ["middle", "first-on-line", "last-on-line", "last-then-semicolon", "tabs"]


def shape_cases():
    """every atom x every kind of string piece in front of it x every position of the flagged token on its line:
    one program per atom (so that the WARNING-only and the INFO-only program have no error), plus CRLF copies"""
    out = []
    for ai, (atom, dg) in enumerate(ATOMS):
        lines, diags, n = [], [], 0
        for piece in PIECES:
            for pos in POSITIONS:
                n += 1
                a = atom.replace("{k}", str(n % 10))
                lhs = "set req.http.P%d =" % n
                if pos == "middle":
                    t = "%s %s %s %s;" % (lhs, piece, a, '"t"')
                elif pos == "first-on-line":
                    t = "%s %s\n    %s %s;" % (lhs, piece, a, '{"t"}')
                elif pos == "last-on-line":
                    t = "%s %s %s\n    %s;" % (lhs, piece, a, '"!"')
                elif pos == "last-then-semicolon":
                    t = "%s %s %s %s\n    ;" % (lhs, '"s"', piece, a)
                else:
                    t = "%s\t%s\t%s\t%s\t;" % (lhs.replace(" ", "\t"), piece, a, '"t"')
                lines.append("  " + t)
                diags += dg
        main = "sub vcl_recv {\n  #FASTLY RECV\n" + "\n".join(lines) + "\n}\n"
        for crlf in (False, True):
            if crlf and not dg:
                continue
            c = Case("planted/shapes/atom%d%s" % (ai, "/crlf" if crlf else ""))
            c.main = main.replace("\n", "\r\n") if crlf else main
            c.diags = list(diags)
            out.append(c)
    return out
