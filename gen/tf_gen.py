"""C20 generators: Fastly resource sets as Terraform plan JSON (what `terraform show -json` prints).

A resource set is a dict
  {"name": service name, "id": ...,
   "dicts":     [{"name": ident, "items": {key: value}}],
   "acls":      [{"name": ident, "entries": [{"ip", "subnet" (str, may be ""), "negated", "comment"}]}],
   "backends":  [{"name": free text, "address": str|None, "shield": str|None}],
   "directors": [{"name": free text, "type": 1..3, "backends": [backend names], "retries": int, "quorum": int}],
   "conditions", "headers", "response_objects", "snippets": user-authored VCL fragments (well-formed)}
"""
import json
import re

PROVIDER = "registry.terraform.io/fastly/fastly"

FOCUS = ['"', "%", "{", "}", "\n", "\r", "%20", "%41", "%u0041", "%u{1F600}", "%2", "%zz", "%%", "\\", "'", ";", "#", "//", "/*", "*/",
         '"}', '{"', "\t", " ", ",", ":", "é", "日本", "😀", " ", "a", "B", "0", "-", "_", ".", "=", "&", "%0A", "%22", "%25", "%e3%81%82", "%u", "%u{", "%u{}"]
PLAIN = "abcdefghijklmnopqrstuvwxyzABCXYZ0123456789 _-./:;,=+*?&()[]<>!@$^|~"


def ident(rng, n=None):
    n = n or rng.randint(1, 8)
    return rng.choice("abcdefghxyzABC") + "".join(rng.choice("abcxyzABC019_") for _ in range(n - 1))


def text(rng, maxlen=10, focus=0.45):
    """arbitrary printable text (plus LF / CR / TAB), biased to the characters that matter for quoting"""
    out = []
    for _ in range(rng.randint(0, maxlen)):
        out.append(rng.choice(FOCUS) if rng.random() < focus else rng.choice(PLAIN))
    return "".join(out)


def ipv4(rng):
    return ".".join(str(rng.choice([0, 1, 10, 127, 192, 255, rng.randrange(256)])) for _ in range(4))


def ipv6(rng):
    return rng.choice(["::1", "2001:db8::1", "fe80::1", "2001:db8:0:1:1:1:1:1", "::", "2001:DB8::", "::ffff:192.0.2.1",
                       "%x:%x::%x" % (rng.randrange(65536), rng.randrange(65536), rng.randrange(65536))])


def backend_name(rng):
    r = rng.random()
    if r < 0.4:
        return ident(rng)
    return "".join(rng.choice("abcXYZ019-_. ") for _ in range(rng.randint(1, 10))) + rng.choice(["", "-1", " origin", ".example.com", "-eu-west"])


def resource_set(rng, small=False):
    rs = {"name": rng.choice(["svc", "my service", "prod-1", ident(rng)]), "id": "SVC" + ident(rng, 6)}
    used = set()

    def uname():
        while True:
            n = ident(rng)
            if n.lower() not in used:
                used.add(n.lower())
                return n
    rs["dicts"] = []
    for _ in range(rng.choice([0, 1, 1, 2, 3] if not small else [1])):
        items = {}
        for _ in range(rng.choice([0, 1, 2, 3, 5, 12] if not small else [1, 2])):
            items[text(rng, 8)] = text(rng, 12)
        rs["dicts"].append({"name": uname(), "items": items})
    rs["acls"] = []
    for _ in range(rng.choice([0, 1, 1, 2])):
        entries = []
        for _ in range(rng.choice([0, 1, 2, 4, 9])):
            v6 = rng.random() < 0.4
            sub = rng.choice(["", "", str(rng.randint(0, 128 if v6 else 32))])
            entries.append({"ip": ipv6(rng) if v6 else ipv4(rng), "subnet": sub, "negated": rng.random() < 0.3,
                            "comment": rng.choice(["", text(rng, 8, 0.5), "line1\nline2", 'x\n"6.6.6.6";', "a\r\nb", "ok"])})
        rs["acls"].append({"name": uname(), "entries": entries})
    rs["backends"] = []
    bnames = []
    for _ in range(rng.choice([0, 1, 2, 3])):
        n = backend_name(rng)
        if re.sub(r"\W", "_", n) in [re.sub(r"\W", "_", x) for x in bnames]:
            continue
        bnames.append(n)
        rs["backends"].append({"name": n, "address": rng.choice([None, "example.com", ipv4(rng), ipv6(rng), "origin-%d.example.com" % rng.randint(0, 9)]),
                               "shield": rng.choice([None, None, "", "iad-va-us", "lhr-uk"])})
    rs["directors"] = []
    if bnames:
        dn = []
        for _ in range(rng.choice([0, 1, 1, 2])):
            n = backend_name(rng)
            if re.sub(r"\W", "_", n) in dn or not re.match(r"[A-Za-z]", n):
                continue
            dn.append(re.sub(r"\W", "_", n))
            rs["directors"].append({"name": n, "type": rng.choice([1, 2, 3]),
                                    "backends": [rng.choice(bnames) for _ in range(rng.randint(0, 3))],
                                    "retries": rng.choice([0, 0, 3, 5]), "quorum": rng.choice([0, 50, 75, 100])})
    # user-authored VCL fragments: well-formed ones only (the property's "parses" clause is about falco's part)
    rs["conditions"] = [{"name": "c_req", "statement": 'req.url ~ "^/api"', "type": "REQUEST", "priority": 10},
                        {"name": "c_cache", "statement": "beresp.status == 404", "type": "CACHE", "priority": 10},
                        {"name": "c_resp", "statement": 'resp.http.X == "1"', "type": "RESPONSE", "priority": 5}]
    rs["headers"] = []
    for _ in range(rng.choice([0, 0, 1, 2])):
        ty = rng.choice(["request", "cache", "response"])
        act = rng.choice(["set", "append", "delete", "regex", "regex_repeat"])
        h = {"name": "h" + ident(rng, 3), "type": ty, "action": act, "destination": "http.X-" + ident(rng, 4),
             "source": rng.choice(['"v"', "req.http.Host", '"a" "b"']), "ignore_if_set": rng.random() < 0.3,
             "priority": rng.randint(1, 100), "regex": rng.choice(["", "a+", "^x"]), "substitution": rng.choice(["", "y", "\\\\1"]),
             "request_condition": "", "cache_condition": "", "response_condition": ""}
        if rng.random() < 0.4:
            h[{"request": "request_condition", "cache": "cache_condition", "response": "response_condition"}[ty]] = \
                {"request": "c_req", "cache": "c_cache", "response": "c_resp"}[ty]
        rs["headers"].append(h)
    rs["response_objects"] = []
    for _ in range(rng.choice([0, 0, 1])):
        rs["response_objects"].append({"name": "ro" + ident(rng, 3), "status": rng.choice([200, 404, 503]), "response": rng.choice(["OK", "Not Found"]),
                                       "content": rng.choice(["", "<html>x</html>", "plain text", "a {b} c", 'say "hi"', text(rng, 10, 0.3)]),
                                       "content_type": rng.choice(["text/html", "text/plain; charset=utf-8", "application/json"]),
                                       "request_condition": rng.choice(["", "c_req"]), "cache_condition": ""})
    rs["snippets"] = []
    for _ in range(rng.choice([0, 0, 1])):
        rs["snippets"].append({"name": "s" + ident(rng, 3), "type": rng.choice(["recv", "deliver", "init", "none"]),
                               "content": rng.choice(['set req.http.S = "1";', "# only a comment\n"]) if True else "", "priority": rng.randint(1, 100)})
    for s in rs["snippets"]:
        if s["type"] == "init":
            s["content"] = 'table t_init { "a": "b", }\n'
        if s["type"] == "deliver":
            s["content"] = 'set resp.http.S = "1";'
    rs["force_ssl"] = rng.random() < 0.2
    return rs


def plan_json(sets, nested=False):
    """the `terraform show -json` document for a list of resource sets"""
    resources = []
    for rs in sets:
        values = {
            "id": rs["id"], "name": rs["name"],
            "acl": [{"name": a["name"]} for a in rs["acls"]],
            "dictionary": [{"name": d["name"], "write_only": False} for d in rs["dicts"]],
            "backend": [{"name": b["name"], "address": b["address"], "shield": b["shield"]} for b in rs["backends"]],
            "director": [{"name": d["name"], "type": d["type"], "backends": d["backends"], "retries": d["retries"], "quorum": d["quorum"]}
                         for d in rs["directors"]],
            "condition": rs.get("conditions", []),
            "header": rs.get("headers", []),
            "response_object": rs.get("response_objects", []),
            "snippet": rs.get("snippets", []),
            "request_setting": [{"force_ssl": True}] if rs.get("force_ssl") else [],
        }
        resources.append({"provider_name": PROVIDER, "type": "fastly_service_vcl", "name": "svc", "values": values})
        for a in rs["acls"]:
            resources.append({"provider_name": PROVIDER, "type": "fastly_service_acl_entries", "index": a["name"],
                              "values": {"service_id": rs["id"], "entry": a["entries"]}})
        for d in rs["dicts"]:
            resources.append({"provider_name": PROVIDER, "type": "fastly_service_dictionary_items", "index": d["name"],
                              "values": {"service_id": rs["id"], "items": d["items"]}})
    root = {"resources": resources}
    if nested:
        root = {"resources": [], "child_modules": [{"resources": resources}]}
    return json.dumps({"format_version": "1.0", "planned_values": {"root_module": root}}, ensure_ascii=False).encode("utf-8")


def sanitize(name):
    return re.sub(r"\W", "_", name, flags=re.ASCII)
