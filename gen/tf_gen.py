"""C20 generators: Fastly resource sets as Terraform plan JSON (what `terraform show -json` prints).

A resource set is a dict
  {"name": service name, "id": ...,
   "dicts":     [{"name": ident, "items": {key: value}}],
   "acls":      [{"name": ident, "entries": [{"ip", "subnet" (str, may be ""), "negated", "comment"}]}],
   "backends":  [{"name": free text, "address": str|None, "shield": str|None}],
   "directors": [{"name": free text, "type": 1..3, "backends": [backend names], "retries": int, "quorum": int}],
   "conditions", "headers", "response_objects", "snippets": user-authored VCL fragments (well-formed), see header_rules /
   response_objects / snippets below}
"""
import json
import re

PROVIDER = "registry.terraform.io/fastly/fastly"

FOCUS = ['"', "%", "{", "}", "\n", "\r", "%20", "%41", "%u0041", "%u{1F600}", "%2", "%zz", "%%", "\\", "'", ";", "#", "//", "/*", "*/",
         '"}', '{"', "\t", " ", ",", ":", "é", "日本", "😀", " ", "a", "B", "0", "-", "_", ".", "=", "&", "%0A", "%22", "%25", "%e3%81%82", "%u", "%u{", "%u{}"]
PLAIN = "abcdefghijklmnopqrstuvwxyzABCXYZ0123456789 _-./:;,=+*?&()[]<>!@$^|~"


def ident(rng, n=None):
    n = n or rng.randint(1, 8)
    return rng.choice("abcdefghxyzABC") + "".join(rng.choice("abcxyzABC019_") for _ in range(n - 1))


def text(rng, maxlen=10, focus=0.45):
    """arbitrary printable text (plus LF / CR / TAB), biased to the characters that matter for quoting"""
    out = []
    for _ in range(rng.randint(0, maxlen)):
        out.append(rng.choice(FOCUS) if rng.random() < focus else rng.choice(PLAIN))
    return "".join(out)


def ipv4(rng):
    return ".".join(str(rng.choice([0, 1, 10, 127, 192, 255, rng.randrange(256)])) for _ in range(4))


def ipv6(rng):
    return rng.choice(["::1", "2001:db8::1", "fe80::1", "2001:db8:0:1:1:1:1:1", "::", "2001:DB8::", "::ffff:192.0.2.1",
                       "%x:%x::%x" % (rng.randrange(65536), rng.randrange(65536), rng.randrange(65536))])


def backend_name(rng):
    r = rng.random()
    if r < 0.4:
        return ident(rng)
    return "".join(rng.choice("abcXYZ019-_. ") for _ in range(rng.randint(1, 10))) + rng.choice(["", "-1", " origin", ".example.com", "-eu-west"])


# ---------------------------------------------------------------- header rules, response objects, VCL snippets
OBJ = {"request": "req", "cache": "beresp", "response": "resp"}
HEADER_SCOPE = {"request": "recv", "cache": "fetch", "response": "deliver"}
HEADER_ACTIONS = ["set", "append", "delete", "regex", "regex_repeat"]     # every action of the Terraform schema
HEADER_TYPES = ["request", "cache", "response"]                           # every type of the Terraform schema
CONDITIONS = [
    {"name": "c_req", "statement": 'req.url ~ "^/api"', "type": "REQUEST", "priority": 10},
    {"name": "c_req2", "statement": '(req.http.Cookie ~ "a=(b|c)" && !req.http.X-Skip) || req.url.ext == "jpg"', "type": "REQUEST", "priority": 10},
    {"name": "c_req3", "statement": 'req.http.Q == "a%20b" "c" && client.ip ~ my_acl', "type": "REQUEST", "priority": 1},
    {"name": "c_cache", "statement": "beresp.status == 404", "type": "CACHE", "priority": 10},
    {"name": "c_cache2", "statement": 'beresp.http.Cache-Control !~ "private" && beresp.ttl > 10s', "type": "CACHE", "priority": 10},
    {"name": "c_resp", "statement": 'resp.http.X == "1"', "type": "RESPONSE", "priority": 5},
    {"name": "c_resp2", "statement": '!resp.http.Set-Cookie && resp.status >= 500', "type": "RESPONSE", "priority": 5},
]
COND_OF = {"request": ["c_req", "c_req2", "c_req3"], "cache": ["c_cache", "c_cache2"], "response": ["c_resp", "c_resp2"]}
SOURCES = ['"v"', "req.http.Host", '"a" "b"', 'req.http.A ", " req.http.B', "client.ip", "now", 'regsub(req.url, "^/", "")', '{"long {} "text"}',
           '"a%20b"', "server.region", 'if(req.http.X, "y", "n")', 'std.tolower(req.http.Host)', '"%u{1F600}"', "req.http.Cookie:sid"]
REGEXES = ["", "a+", "^x", "(a|b)c*$", "^/([^/]+)/", "\\.(jpg|png)$", "[0-9]{1,3}", " +"]       # no double quote / percent: interpolated verbatim
SUBSTS = ["", "y", "\\1", "\\1-\\2", "/x/", " "]


def header_rules(rng):
    """header rules of every action x type, with and without ignore_if_set / a condition of the rule's own type"""
    out = []
    r = rng.random()
    if r < 0.35:
        combos = []
    elif r < 0.93:
        combos = [(rng.choice(HEADER_TYPES), rng.choice(HEADER_ACTIONS)) for _ in range(rng.choice([1, 1, 2, 3]))]
    else:
        combos = [(t, a) for t in HEADER_TYPES for a in HEADER_ACTIONS]
    for k, (ty, act) in enumerate(combos):
        h = {"name": "h%d%s" % (k, ident(rng, 3)), "type": ty, "action": act,
             "destination": "http." + rng.choice(["X-", "x_", "Fastly-", ""]) + ident(rng, 4) + rng.choice(["", "", ":sub"]),
             "source": rng.choice(SOURCES), "ignore_if_set": rng.random() < 0.35,
             "priority": rng.choice([1, 10, 10, 100, rng.randint(1, 1000)]), "regex": rng.choice(REGEXES), "substitution": rng.choice(SUBSTS),
             "request_condition": "", "cache_condition": "", "response_condition": ""}
        if rng.random() < 0.45:
            h[ty + "_condition"] = rng.choice(COND_OF[ty])
        if rng.random() < 0.1:       # a condition of another type is stored but does not apply
            other = rng.choice([t for t in HEADER_TYPES if t != ty])
            h[other + "_condition"] = rng.choice(COND_OF[other])
        out.append(h)
    return out


def header_expected_vcl(h, conditions):
    """what the rule means, written out by hand (compared as a parsed tree, so layout does not matter)"""
    lhs = OBJ[h["type"]] + "." + h["destination"]
    src = h["source"]
    act = h["action"]
    if act == "set":
        body = "set %s = %s;" % (lhs, src)
    elif act == "append":
        body = "if (!%s) { set %s = %s; } else { set %s = %s %s; }" % (lhs, lhs, src, lhs, lhs, src)
    elif act == "delete":
        body = "unset %s;" % lhs
    elif act == "regex":
        body = 'set %s = regsub(%s, "%s", "%s");' % (lhs, src, h["regex"], h["substitution"])
    else:
        body = 'set %s = regsuball(%s, "%s", "%s");' % (lhs, src, h["regex"], h["substitution"])
    if h["ignore_if_set"]:
        body = "if (!%s) { %s }" % (lhs, body)
    c = h.get(h["type"] + "_condition") or ""
    if c:
        body = "if (%s) { %s }" % (conditions[c], body)
    return body


HOSTILE_CONTENT = ['"}', '{"', '"EOS0}', '"}"EOS0}', '"EOS0}"EOS1}"}', "}", '"', "%", "%20", "%22}", '";\nerror 500;\n{"', "\n", "\r\n", "{\"x\": \"y\"}",
                   "<html>\n<body class=\"a\">100%</body>\n</html>", "é日本😀", "a {b} c", 'say "hi"', "*/", "//", "#", "\\", "EOS0"]
HOSTILE_CTYPE = ["text/html", "text/plain; charset=utf-8", "application/json", 'text/html; charset="utf-8"', '"', "%", "a%20b", "x\ny", "x\r\ny",
                 '";\nset obj.status = 200;\n#', "é", "{\"}", ""]


def response_objects(rng):
    out = []
    for k in range(rng.choice([0, 0, 0, 1, 1, 2, 3])):
        r = rng.random()
        content = rng.choice(HOSTILE_CONTENT) if r < 0.4 else ("" if r < 0.5 else text(rng, 10, 0.5))
        if rng.random() < 0.3:
            content = content + rng.choice(HOSTILE_CONTENT) + rng.choice(["", content])
        cond = rng.random()
        out.append({"name": "ro%d%s" % (k, ident(rng, 3)), "status": rng.choice([200, 301, 404, 503, 599]),
                    "response": rng.choice(["OK", "Not Found", 'Gone "away"}', "100%", ""]),
                    "content": content,
                    "content_type": rng.choice(HOSTILE_CTYPE) if rng.random() < 0.6 else text(rng, 6, 0.5),
                    "request_condition": rng.choice(COND_OF["request"]) if cond < 0.4 else "",
                    "cache_condition": rng.choice(COND_OF["cache"]) if 0.3 < cond < 0.6 else ""})
    return out


SNIPPET_TYPES = ["init", "recv", "hash", "hit", "miss", "pass", "fetch", "error", "deliver", "log", "none"]
# names Fastly accepts; several of them are the same word after \W -> _
SNIPPET_NAMES = ["my-snip", "my_snip", "my snip", "my.snip", "a b", "a_b", "a-b", "A-b", "snip", "Snip", "snip 1", "snip_1", "x", "é-1", "e_1", "recv", "init"]


def snippet_content(ty, k, rng):
    if ty == "init":
        return rng.choice(['table t_init_%d { "a": "%d", }\n' % (k, k), 'sub f_init_%d { set req.http.A = "%d"; }' % (k, k),
                           'acl a_init_%d { "10.0.0.%d"; }' % (k, k % 256), "# nothing declared %d\n" % k])
    if ty == "none":
        return rng.choice(['set req.http.N%d = "%d";' % (k, k), 'sub f_none_%d { return; }' % k, 'if (req.http.N) { esi; }\n# %d\n' % k])
    if ty == "log":
        return 'log "snippet %d";' % k
    if ty == "hash":
        return 'set req.hash += "%d";' % k
    obj = {"fetch": "beresp", "error": "obj", "deliver": "resp"}.get(ty, "req")
    return rng.choice(['set %s.http.S%d = "%d";' % (obj, k, k), 'if (%s.http.S%d) {\n  unset %s.http.S%d;\n}\n' % (obj, k, obj, k),
                       "# only a comment %d\n" % k, 'set %s.http.S%d = "a%%20b" "%d";' % (obj, k, k)])


def snippets(rng):
    """VCL snippets of every type; equal priorities; names that collide after sanitising; dynamic snippets whose content
    comes from a fastly_service_dynamic_snippet_content resource (or never arrives)"""
    out = []
    r = rng.random()
    if r < 0.3:
        n = 0
    elif r < 0.9:
        n = rng.choice([1, 2, 3, 4, 6])
    else:
        n = rng.choice([11, 14, 20])          # more than twelve: sort.Slice leaves insertion sort
    names = []
    focus = rng.choice(SNIPPET_TYPES) if rng.random() < 0.6 else None      # several snippets of ONE type: ordering matters
    prios = rng.choice([[100], [1, 10, 100], [10, 10, 20], [5, 5, 5, 7], list(range(1, 30)), [0, 100, 2147483647]])
    for k in range(n):
        if n >= 11 and k < 11 and focus is None:
            ty = SNIPPET_TYPES[k]
        else:
            ty = focus if focus and rng.random() < 0.75 else rng.choice(SNIPPET_TYPES)
        while True:
            nm = rng.choice(SNIPPET_NAMES) if rng.random() < 0.6 else "s" + ident(rng, 3)
            if nm not in names:
                break
            nm = nm + str(k)
            if nm not in names:
                break
        names.append(nm)
        sn = {"name": nm, "type": ty, "content": snippet_content(ty, k, rng), "priority": rng.choice(prios), "dynamic": False}
        d = rng.random()
        if d < 0.15:
            sn["dynamic"] = True
            sn["snippet_id"] = "SNIP%d" % k
        elif d < 0.2:
            sn["dynamic"] = True
            sn["snippet_id"] = "SNIP%d" % k
            sn["no_content_resource"] = True       # content not (yet) known: falco leaves the snippet out
        elif d < 0.23:
            sn["dynamic"] = True
            sn["snippet_id"] = ""                  # known after apply: cannot be joined, left out
        out.append(sn)
    return out


def expected_snippets(rs):
    """the snippets falco is expected to use, in the order of insertion: static ones, then dynamic ones whose content is known;
    ascending priority, equal priorities in that order"""
    static = [s for s in rs.get("snippets", []) if not s.get("dynamic")]
    dyn = [s for s in rs.get("snippets", []) if s.get("dynamic") and s.get("snippet_id") and not s.get("no_content_resource") and s["content"] != ""]
    return sorted(static + dyn, key=lambda s: s["priority"])


def resource_set(rng, small=False):
    rs = {"name": rng.choice(["svc", "my service", "prod-1", ident(rng)]), "id": "SVC" + ident(rng, 6)}
    used = set()

    def uname():
        while True:
            n = ident(rng)
            if n.lower() not in used:
                used.add(n.lower())
                return n
    rs["dicts"] = []
    for _ in range(rng.choice([0, 1, 1, 2, 3] if not small else [1])):
        items = {}
        for _ in range(rng.choice([0, 1, 2, 3, 5, 12] if not small else [1, 2])):
            items[text(rng, 8)] = text(rng, 12)
        rs["dicts"].append({"name": uname(), "items": items})
    rs["acls"] = []
    for _ in range(rng.choice([0, 1, 1, 2])):
        entries = []
        for _ in range(rng.choice([0, 1, 2, 4, 9])):
            v6 = rng.random() < 0.4
            sub = rng.choice(["", "", str(rng.randint(0, 128 if v6 else 32))])
            entries.append({"ip": ipv6(rng) if v6 else ipv4(rng), "subnet": sub, "negated": rng.random() < 0.3,
                            "comment": rng.choice(["", text(rng, 8, 0.5), "line1\nline2", 'x\n"6.6.6.6";', "a\r\nb", "ok"])})
        rs["acls"].append({"name": uname(), "entries": entries})
    rs["backends"] = []
    bnames = []
    for _ in range(rng.choice([0, 1, 2, 3])):
        n = backend_name(rng)
        if re.sub(r"\W", "_", n) in [re.sub(r"\W", "_", x) for x in bnames]:
            continue
        bnames.append(n)
        rs["backends"].append({"name": n, "address": rng.choice([None, "example.com", ipv4(rng), ipv6(rng), "origin-%d.example.com" % rng.randint(0, 9)]),
                               "shield": rng.choice([None, None, "", "iad-va-us", "lhr-uk"])})
    rs["directors"] = []
    if bnames:
        dn = []
        for _ in range(rng.choice([0, 1, 1, 2])):
            n = backend_name(rng)
            if re.sub(r"\W", "_", n) in dn or not re.match(r"[A-Za-z]", n):
                continue
            dn.append(re.sub(r"\W", "_", n))
            rs["directors"].append({"name": n, "type": rng.choice([1, 2, 3]),
                                    "backends": [rng.choice(bnames) for _ in range(rng.randint(0, 3))],
                                    "retries": rng.choice([0, 0, 3, 5]), "quorum": rng.choice([0, 50, 75, 100])})
    # user-authored VCL fragments: well-formed ones only (the property's "parses" clause is about falco's part)
    rs["conditions"] = [dict(c) for c in CONDITIONS]
    rs["headers"] = header_rules(rng)
    rs["response_objects"] = response_objects(rng)
    rs["snippets"] = snippets(rng)
    rs["force_ssl"] = rng.random() < 0.2
    return rs


def plan_json(sets, nested=False):
    """the `terraform show -json` document for a list of resource sets"""
    resources = []
    for rs in sets:
        values = {
            "id": rs["id"], "name": rs["name"],
            "acl": [{"name": a["name"]} for a in rs["acls"]],
            "dictionary": [{"name": d["name"], "write_only": False} for d in rs["dicts"]],
            "backend": [{"name": b["name"], "address": b["address"], "shield": b["shield"]} for b in rs["backends"]],
            "director": [{"name": d["name"], "type": d["type"], "backends": d["backends"], "retries": d["retries"], "quorum": d["quorum"]}
                         for d in rs["directors"]],
            "condition": rs.get("conditions", []),
            "header": rs.get("headers", []),
            "response_object": rs.get("response_objects", []),
            "snippet": [{"name": x["name"], "type": x["type"], "content": x["content"], "priority": x["priority"]}
                        for x in rs.get("snippets", []) if not x.get("dynamic")],
            "dynamicsnippet": [{"name": x["name"], "type": x["type"], "priority": x["priority"], "snippet_id": x.get("snippet_id", "")}
                               for x in rs.get("snippets", []) if x.get("dynamic")],
            "request_setting": [{"force_ssl": True}] if rs.get("force_ssl") else [],
        }
        resources.append({"provider_name": PROVIDER, "type": "fastly_service_vcl", "name": "svc", "values": values})
        for a in rs["acls"]:
            resources.append({"provider_name": PROVIDER, "type": "fastly_service_acl_entries", "index": a["name"],
                              "values": {"service_id": rs["id"], "entry": a["entries"]}})
        for x in rs.get("snippets", []):
            if x.get("dynamic") and not x.get("no_content_resource"):
                resources.append({"provider_name": PROVIDER, "type": "fastly_service_dynamic_snippet_content", "name": x["name"],
                                  "values": {"service_id": rs["id"], "snippet_id": x.get("snippet_id", ""), "content": x["content"]}})
        for d in rs["dicts"]:
            resources.append({"provider_name": PROVIDER, "type": "fastly_service_dictionary_items", "index": d["name"],
                              "values": {"service_id": rs["id"], "items": d["items"]}})
    root = {"resources": resources}
    if nested:
        root = {"resources": [], "child_modules": [{"resources": resources}]}
    return json.dumps({"format_version": "1.0", "planned_values": {"root_module": root}}, ensure_ascii=False).encode("utf-8")


def sanitize(name):
    return re.sub(r"\W", "_", name, flags=re.ASCII)
