"""Decorate a VCL program with comments at the placeholders that docs/parser.md documents
(C03, C14, C15; also usable by C09).

Input: the source text and its tokens as reported by `implrun fmtlex pos <hex>` (the real Go
lexer; token start = line:column in runes).  A small statement scanner over the token TYPES
finds the documented `<comment>` placeholders; comments are then spliced into the ORIGINAL text
at verified token offsets, so the layout of the program (blank-line groups, long expressions)
is kept.  Nothing here is used to judge the implementation: the checks compare what the Go lexer
sees in the input with what it sees in the output.

Slot kinds
  leading   own-line comment(s) before a statement / declaration / property / case / else
            (also "infix": before the closing brace of a block)
  inline    between two tokens of one statement (block comment, or line comment + line feed)
  trailing  on the same line after `;`, `}`, `,` or `label:`

`SLOTS_DOC` lists, per slot name, the placeholder of docs/parser.md it implements.
"""

SLOTS_DOC = {
    # declarations
    "decl.leading": "<comment> line before any declaration",
    "acl.after_kw": "acl <comment> <acl_name>", "acl.after_name": "<acl_name> <comment> {",
    "acl.cidr.leading": "{ <comment> (line before an entry)", "acl.cidr.after_not": "<!> <comment> \"<ip>\"",
    "acl.cidr.before_semi": "\"<ip>\"</><mask> <comment>;", "acl.cidr.trailing": "; <comment>",
    "acl.infix": "<comment> line before the closing brace", "acl.trailing": "} <comment>",
    "backend.after_kw": "backend <comment> <name>", "backend.after_name": "<name> <comment> {",
    "backend.prop.leading": "<comment> line before a property", "backend.prop.after_key": ".<name> <comment> =",
    "backend.prop.after_eq": "= <comment> <value>", "backend.prop.before_semi": "<value> <comment>;",
    "backend.prop.trailing": "; <comment>", "backend.probe.trailing": "} <comment> (probe object)",
    "backend.infix": "<comment> line before the closing brace", "backend.trailing": "} <comment>",
    "director.after_kw": "director <comment> <name>", "director.after_name": "<name> <comment> <type>",
    "director.after_type": "<type> <comment> {", "director.prop.leading": "<comment> line before a property",
    "director.prop.after_key": ".<name> <comment> =", "director.prop.after_eq": "= <comment> <value>",
    "director.prop.before_semi": "<value> <comment>;", "director.prop.trailing": "; <comment>",
    "director.obj.leading": "<comment> line before a { … } backend object",
    "director.obj.after_brace": "{<comment> .<name>", "director.obj.after_key": ".<name> <comment> = (inside object)",
    "director.obj.after_eq": "= <comment> <value> (inside object)", "director.obj.before_semi": "<value> <comment>; (inside object)",
    "director.obj.after_semi": "; <comment> (inside object)", "director.obj.trailing": "} <comment> (object)",
    "director.infix": "<comment> line before the closing brace", "director.trailing": "} <comment>",
    "table.after_kw": "table <comment> <name>", "table.after_name": "<name> <comment> <type>",
    "table.after_type": "<type> <comment> {", "table.prop.leading": "{ <comment> (line before an entry)",
    "table.prop.after_key": "\"<key>\" <comment>:", "table.prop.after_colon": ": <comment> <value>",
    "table.prop.before_comma": "<value> <comment>,", "table.prop.trailing": ", <comment>",
    "sub.after_kw": "sub <comment> <name>", "sub.after_name": "<name> <comment> {", "sub.trailing": "} <comment>",
    "penaltybox.after_kw": "penaltybox <comment> <name>", "penaltybox.after_name": "<name> <comment> {",
    "penaltybox.infix": "{ <comment> }", "penaltybox.trailing": "} <comment>",
    "ratecounter.after_kw": "ratecounter <comment> <name>", "ratecounter.after_name": "<name> <comment> {",
    "ratecounter.infix": "{ <comment> }", "ratecounter.trailing": "} <comment>",
    # statements
    "stmt.leading": "<comment> line before any statement", "stmt.trailing": "; <comment>",
    "block.infix": "<statement>... <comment> } (line before the closing brace)", "block.trailing": "} <comment> (block statement)",
    "set.after_kw": "set <comment> <identifier>", "set.after_ident": "<identifier> <comment> =",
    "set.after_op": "= <comment> <value>", "set.before_semi": "<value> <comment>;",
    "add.after_kw": "add <comment> <identifier>", "add.after_ident": "<identifier> <comment> =",
    "add.after_op": "= <comment> <value>", "add.before_semi": "<value> <comment>;",
    "unset.after_kw": "unset <comment> <identifier>", "unset.before_semi": "<identifier> <comment>;",
    "remove.after_kw": "remove <comment> <identifier>", "remove.before_semi": "<identifier> <comment>;",
    "call.after_kw": "call <comment> <name>", "call.before_semi": "<name> <comment>;",
    "declare.after_kw": "declare <comment> local", "declare.after_local": "local <comment> <name>",
    "declare.after_name": "<name> <comment> <type>", "declare.before_semi": "<type> <comment>;",
    "error.after_kw": "error <comment> <status_code>", "error.after_code": "<status_code> <comment> <arguments>",
    "error.before_semi": "<arguments> <comment>;",
    "esi.before_semi": "esi <comment>;", "restart.before_semi": "restart <comment>;",
    "break.before_semi": "break <comment>;", "fallthrough.before_semi": "fallthrough <comment>;",
    "funcall.arg.leading": "( <comment> <argument>", "funcall.arg.trailing": "<argument> <comment> , or )",
    "funcall.before_semi": ") <comment>;",
    "goto.after_kw": "goto <comment> <target>", "goto.before_semi": "<target> <comment>;",
    "gotodest.trailing": "<target>: <comment>",
    "if.after_kw": "if <comment> (", "if.cond.leading": "( <comment> <expression>", "if.cond.trailing": "<expression> <comment> )",
    "if.before_block": ") <comment> {", "if.else.leading": "} <comment> line before else / else if",
    "elseif.after_kw": "else if <comment> (", "elseif.cond.leading": "( <comment> <expression> (else if)",
    "elseif.cond.trailing": "<expression> <comment> ) (else if)", "elseif.before_block": ") <comment> { (else if)",
    "else.after_kw": "else <comment> {",
    "import.after_kw": "import <comment> <module>", "import.before_semi": "<module> <comment>;",
    "include.after_kw": "include <comment> <module>", "include.before_semi": "<module> <comment>;",
    "log.after_kw": "log <comment> <expression>", "log.before_semi": "<expression> <comment>;",
    "synthetic.after_kw": "synthetic <comment> <expression>", "synthetic.before_semi": "<expression> <comment>;",
    "synthetic64.after_kw": "synthetic.base64 <comment> <expression>", "synthetic64.before_semi": "<expression> <comment>;",
    "return.after_kw": "return <comment> (", "return.paren.leading": "( <comment> <state>",
    "return.paren.trailing": "<state> <comment> )", "return.before_semi": ") <comment>;  /  return <comment>;",
    "switch.after_kw": "switch <comment> (", "switch.ctl.leading": "( <comment> <expression>",
    "switch.ctl.trailing": "<expression> <comment> )", "switch.before_block": ") <comment> {",
    "case.leading": "<comment> line before case / default", "case.after_kw": "case <comment> <expression>",
    "case.before_colon": "<expression> <comment>:", "case.trailing": ": <comment>",
    "default.before_colon": "default <comment>:",
}

EXPR_START = {"IDENT", "STRING", "OPEN_LONG_STRING", "INT", "FLOAT", "RTIME", "TRUE", "FALSE", "NOT", "MINUS",
              "PLUS", "LEFT_PAREN", "IF", "ERROR", "RESTART"}


class ScanError(Exception):
    pass


class Scanner:
    """finds the documented comment placeholders of a token list (types only)"""

    def __init__(self, toks):
        self.t = toks          # list of (type, literal)
        self.i = 0
        self.slots = []        # (kind, token index, name): leading/inline = before token idx, trailing = after token idx

    def ty(self, k=0):
        j = self.i + k
        return self.t[j][0] if j < len(self.t) else "EOF"

    def adv(self, *types):
        if types and self.ty() not in types:
            raise ScanError("expected %s at %d, got %s" % ("/".join(types), self.i, self.ty()))
        if self.i >= len(self.t):
            raise ScanError("eof")
        self.i += 1

    def inline(self, name):
        self.slots.append(("inline", self.i, name))

    def leading(self, name):
        self.slots.append(("leading", self.i, name))

    def trailing(self, name):
        self.slots.append(("trailing", self.i - 1, name))

    def expr(self, *stops):
        """skip an expression up to (not including) one of the stop types at nesting depth 0"""
        depth = 0
        n = 0
        while True:
            ty = self.ty()
            if ty == "EOF":
                raise ScanError("eof in expression")
            if depth == 0 and ty in stops:
                return n
            if ty == "LEFT_PAREN":
                depth += 1
            elif ty == "RIGHT_PAREN":
                depth -= 1
                if depth < 0:
                    raise ScanError("paren")
            self.i += 1
            n += 1

    # ------------------------------------------------------------ program
    def program(self):
        while self.ty() != "EOF":
            self.decl()
        return self.slots

    def decl(self):
        kw = self.ty()
        self.leading("decl.leading")
        if kw == "ACL":
            self.adv(); self.inline("acl.after_kw"); self.adv("IDENT"); self.inline("acl.after_name"); self.adv("LEFT_BRACE")
            while self.ty() != "RIGHT_BRACE":
                self.leading("acl.cidr.leading")
                if self.ty() == "NOT":
                    self.adv(); self.inline("acl.cidr.after_not")
                self.adv("STRING")
                if self.ty() == "SLASH":
                    self.adv(); self.adv("INT")
                self.inline("acl.cidr.before_semi"); self.adv("SEMICOLON"); self.trailing("acl.cidr.trailing")
            self.leading("acl.infix"); self.adv("RIGHT_BRACE"); self.trailing("acl.trailing")
        elif kw == "BACKEND":
            self.adv(); self.inline("backend.after_kw"); self.adv("IDENT"); self.inline("backend.after_name"); self.adv("LEFT_BRACE")
            self.backend_props()
            self.leading("backend.infix"); self.adv("RIGHT_BRACE"); self.trailing("backend.trailing")
        elif kw == "DIRECTOR":
            self.adv(); self.inline("director.after_kw"); self.adv("IDENT"); self.inline("director.after_name")
            self.adv("IDENT"); self.inline("director.after_type"); self.adv("LEFT_BRACE")
            while self.ty() != "RIGHT_BRACE":
                if self.ty() == "LEFT_BRACE":
                    self.leading("director.obj.leading"); self.adv(); self.inline("director.obj.after_brace")
                    while self.ty() != "RIGHT_BRACE":
                        self.adv("DOT"); self.adv(); self.inline("director.obj.after_key"); self.adv("ASSIGN")
                        self.inline("director.obj.after_eq"); self.expr("SEMICOLON"); self.inline("director.obj.before_semi")
                        self.adv("SEMICOLON"); self.inline("director.obj.after_semi")
                    self.adv("RIGHT_BRACE"); self.trailing("director.obj.trailing")
                else:
                    self.leading("director.prop.leading"); self.adv("DOT"); self.adv(); self.inline("director.prop.after_key")
                    self.adv("ASSIGN"); self.inline("director.prop.after_eq"); self.expr("SEMICOLON")
                    self.inline("director.prop.before_semi"); self.adv("SEMICOLON"); self.trailing("director.prop.trailing")
            self.leading("director.infix"); self.adv("RIGHT_BRACE"); self.trailing("director.trailing")
        elif kw == "TABLE":
            self.adv(); self.inline("table.after_kw"); self.adv("IDENT"); self.inline("table.after_name")
            if self.ty() == "IDENT":
                self.adv(); self.inline("table.after_type")
            self.adv("LEFT_BRACE")
            while self.ty() != "RIGHT_BRACE":
                self.leading("table.prop.leading"); self.adv("STRING"); self.inline("table.prop.after_key"); self.adv("COLON")
                self.inline("table.prop.after_colon"); self.expr("COMMA", "RIGHT_BRACE")
                if self.ty() == "COMMA":
                    self.inline("table.prop.before_comma"); self.adv(); self.trailing("table.prop.trailing")
            self.adv("RIGHT_BRACE")
        elif kw == "SUBROUTINE":
            self.adv(); self.inline("sub.after_kw"); self.adv("IDENT")
            if self.ty() == "LEFT_BRACE":
                self.inline("sub.after_name")
            else:                      # parameters / return type: no documented placeholder
                while self.ty() != "LEFT_BRACE":
                    self.adv()
            self.block("block.infix"); self.trailing("sub.trailing")
        elif kw in ("PENALTYBOX", "RATECOUNTER"):
            n = kw.lower()
            self.adv(); self.inline(n + ".after_kw"); self.adv("IDENT"); self.inline(n + ".after_name"); self.adv("LEFT_BRACE")
            self.leading(n + ".infix"); self.adv("RIGHT_BRACE"); self.trailing(n + ".trailing")
        elif kw in ("IMPORT", "INCLUDE"):
            self.slots.pop()
            self.stmt()
        else:
            raise ScanError("declaration %s" % kw)

    def backend_props(self):
        while self.ty() != "RIGHT_BRACE":
            self.leading("backend.prop.leading"); self.adv("DOT"); self.adv(); self.inline("backend.prop.after_key")
            self.adv("ASSIGN"); self.inline("backend.prop.after_eq")
            if self.ty() == "LEFT_BRACE":
                self.adv(); self.backend_props(); self.leading("backend.infix"); self.adv("RIGHT_BRACE")
                self.trailing("backend.probe.trailing")
            else:
                self.expr("SEMICOLON"); self.inline("backend.prop.before_semi"); self.adv("SEMICOLON")
                self.trailing("backend.prop.trailing")

    # ------------------------------------------------------------ statements
    def block(self, infix_name="block.infix"):
        self.adv("LEFT_BRACE")
        while self.ty() != "RIGHT_BRACE":
            self.stmt()
        self.leading(infix_name)
        self.adv("RIGHT_BRACE")

    def simple(self, n, after_kw=True, what=("IDENT",)):
        """<kw> <c> <operand> <c> ;"""
        self.adv()
        if after_kw:
            self.inline(n + ".after_kw")
        self.expr("SEMICOLON")
        self.inline(n + ".before_semi"); self.adv("SEMICOLON"); self.trailing("stmt.trailing")

    def cond(self, n):
        self.inline(n + ".after_kw"); self.adv("LEFT_PAREN"); self.inline(n + ".cond.leading")
        self.expr("RIGHT_PAREN"); self.inline(n + ".cond.trailing"); self.adv("RIGHT_PAREN")
        self.inline(n + ".before_block"); self.block()

    def stmt(self):
        kw = self.ty()
        if kw == "RIGHT_BRACE" or kw == "EOF":
            raise ScanError("statement expected")
        self.leading("stmt.leading")
        if kw in ("SET", "ADD"):
            n = kw.lower()
            self.adv(); self.inline(n + ".after_kw"); self.adv("IDENT"); self.inline(n + ".after_ident"); self.adv()
            self.inline(n + ".after_op"); self.expr("SEMICOLON"); self.inline(n + ".before_semi"); self.adv("SEMICOLON")
            self.trailing("stmt.trailing")
        elif kw in ("UNSET", "REMOVE", "GOTO", "IMPORT", "INCLUDE", "LOG", "SYNTHETIC", "SYNTHETIC_BASE64"):
            self.simple({"SYNTHETIC_BASE64": "synthetic64"}.get(kw, kw.lower()))
        elif kw == "CALL":
            self.adv(); self.inline("call.after_kw"); self.adv("IDENT")
            if self.ty() == "LEFT_PAREN":
                self.adv(); self.expr("RIGHT_PAREN"); self.adv()
            else:
                self.inline("call.before_semi")
            self.adv("SEMICOLON"); self.trailing("stmt.trailing")
        elif kw == "DECLARE":
            self.adv(); self.inline("declare.after_kw"); self.adv("IDENT"); self.inline("declare.after_local")
            self.adv("IDENT"); self.inline("declare.after_name"); self.adv("IDENT")
            if self.ty() == "SEMICOLON":
                self.inline("declare.before_semi")
            else:
                self.expr("SEMICOLON")
            self.adv("SEMICOLON"); self.trailing("stmt.trailing")
        elif kw == "ERROR":
            self.adv()
            if self.ty() != "SEMICOLON":
                self.inline("error.after_kw")
                # the status code is one operand: a literal / identifier, or a function call
                self.adv()
                if self.ty() == "LEFT_PAREN":
                    self.adv(); self.expr("RIGHT_PAREN"); self.adv()
                if self.ty() != "SEMICOLON":
                    self.inline("error.after_code"); self.expr("SEMICOLON")
                self.inline("error.before_semi")
            self.adv("SEMICOLON"); self.trailing("stmt.trailing")
        elif kw in ("ESI", "RESTART", "BREAK", "FALLTHROUGH"):
            self.adv(); self.inline(kw.lower() + ".before_semi"); self.adv("SEMICOLON"); self.trailing("stmt.trailing")
        elif kw == "RETURN":
            self.adv()
            if self.ty() == "SEMICOLON":
                self.inline("return.before_semi")
            elif self.ty() == "LEFT_PAREN":
                self.inline("return.after_kw"); self.adv(); self.inline("return.paren.leading")
                self.expr("RIGHT_PAREN"); self.inline("return.paren.trailing"); self.adv()
                if self.ty() != "SEMICOLON":
                    raise ScanError("return ( … ) followed by more")
                self.inline("return.before_semi")
            else:
                self.expr("SEMICOLON")
            self.adv("SEMICOLON"); self.trailing("stmt.trailing")
        elif kw == "IF":
            self.adv(); self.cond("if")
            while self.ty() in ("ELSE", "ELSEIF", "ELSIF"):
                self.leading("if.else.leading")
                if self.ty() == "ELSE" and self.ty(1) == "IF":
                    self.adv(); self.adv(); self.cond("elseif")
                elif self.ty() == "ELSE":
                    self.adv(); self.inline("else.after_kw"); self.block()
                    break
                else:
                    self.adv(); self.cond("elseif")
            self.trailing("block.trailing")
        elif kw == "SWITCH":
            self.adv(); self.inline("switch.after_kw"); self.adv("LEFT_PAREN"); self.inline("switch.ctl.leading")
            self.expr("RIGHT_PAREN"); self.inline("switch.ctl.trailing"); self.adv(); self.inline("switch.before_block")
            self.adv("LEFT_BRACE")
            while self.ty() != "RIGHT_BRACE":
                self.leading("case.leading")
                if self.ty() == "CASE":
                    self.adv(); self.inline("case.after_kw")
                    if self.ty() == "REGEX":
                        self.adv()
                    self.expr("COLON"); self.inline("case.before_colon")
                else:
                    self.adv("DEFAULT"); self.inline("default.before_colon")
                self.adv("COLON"); self.trailing("case.trailing")
                while self.ty() not in ("CASE", "DEFAULT", "RIGHT_BRACE"):
                    self.stmt()
            self.adv("RIGHT_BRACE"); self.trailing("stmt.trailing")
        elif kw == "LEFT_BRACE":
            self.block(); self.trailing("block.trailing")
        elif kw == "IDENT" and self.t[self.i][1].endswith(":"):
            self.adv(); self.trailing("gotodest.trailing")
        elif kw == "IDENT" and self.ty(1) == "LEFT_PAREN":
            self.adv(); self.adv()
            while self.ty() != "RIGHT_PAREN":
                self.inline("funcall.arg.leading"); self.expr("COMMA", "RIGHT_PAREN"); self.inline("funcall.arg.trailing")
                if self.ty() == "COMMA":
                    self.adv()
            self.adv(); self.inline("funcall.before_semi"); self.adv("SEMICOLON"); self.trailing("stmt.trailing")
        else:
            raise ScanError("statement %s" % kw)


def find_slots(toks):
    """toks: [(type, literal)] without comments; returns [(kind, index, name)] or raises ScanError"""
    return Scanner(toks).program()


# ---------------------------------------------------------------------------- splicing

def parse_fmtlex(reply, with_pos=False):
    """reply of `fmtlex [pos]` -> list of dicts {k: 'T'|'C', ty, lit, lf, line, col}"""
    out = []
    if not reply:
        return out
    for item in reply.split(" "):
        f = item.split(":")
        d = {"k": f[0], "ty": f[1], "lit": bytes.fromhex(f[2]).decode("utf-8", "replace")}
        if f[0] == "C":
            d["lf"] = f[1] == "1"
            d["ty"] = "COMMENT"
        if with_pos and len(f) >= 5:
            d["line"], d["col"] = int(f[3]), int(f[4])
        out.append(d)
    return out


SPECIAL_LEADING = ["#FASTLY recv", "#FASTLY fetch", "#FASTLY deliver", "# falco-ignore-next-line", "// falco-ignore-next-line",
                   "# falco-ignore-start", "# falco-ignore-end", "# @scope: recv, hash", "// @scope: deliver", "# @suppress"]
SPECIAL_TRAILING = ["// falco-ignore", "# falco-ignore"]


# ---------------------------------------------------------------- comment TEXT: the hostile alphabet
# "@" is replaced by a unique tag (c<N>) so that comments stay distinguishable; a class without "@" has no tag.
_LONG = "long " + "0123456789abcdef " * 260            # > 4096 bytes
LINE_BODIES = [            # text behind the marker (#, //, ##, ...) up to the line feed
    ("empty", ""),
    ("blank", "   "),
    ("opens-block", " @ see /* here"),
    ("closes-block", " @ a */ b"),
    ("ends-in-block", " @ see /* RFC 7234 */"),
    ("ends-star-slash", " @ tmp */"),
    ("is-block", "/* @ */"),                           # "#/* c1 */", "///* c1 */"
    ("slashes", " @ http://example.com//a"),
    ("sharps", " @ a # b ## c"),
    ("ends-backslash", " @ C:\\dir\\"),
    ("code", " set req.http.X = \"1\"; /* @ */"),
    ("code-else", " @ } else {"),
    ("code-open", " @ if (req.http.A) {"),
    ("annotation", " @ @scope: recv, deliver"),
    ("tabs", "\t@\tcol1\tcol2"),
    ("trailing-blanks", " @ text  "),
    ("trailing-tab", " @ text\t"),
    ("multibyte", " @ \u00e9\u65e5\u672c\u8a9e \U0001F642 \u0301"),
    ("open-quote", " @ \"unterminated"),
    ("long-string", " @ {\"not a string\"}"),
    ("percent", " @ 100% %20 %u00e9"),
    ("long", " @ " + _LONG),
]
BLOCK_BODIES = [           # the whole comment
    ("empty", "/**/"),
    ("blank", "/* */"),
    ("doc", "/** @ doc */"),
    ("stars", "/*** @ ***/"),
    ("ends-double-star", "/* @ **/"),
    ("opens-inside", "/* @ a /* b */"),
    ("line-markers", "/* @ // a # b */"),
    ("starts-sharp", "/*# @ */"),                      # ("/*// x */" is not read as one comment by the lexer: "/*/" closes it)
    ("code", "/* set req.http.X = \"1\"; @ } else { */"),
    ("tabs", "/*\t@\tx\t*/"),
    ("multibyte", "/* @ \u00e9\u65e5\u672c\u8a9e \U0001F642 */"),
    ("long", "/* @ " + _LONG + "*/"),
    ("ml-star", "/* @\n * second\n * third\n */"),
    ("ml-star-flush", "/* @\n* second\n*/"),
    ("ml-plain", "/* @\nsecond\nthird */"),
    ("ml-indented", "/* @\n      second\n\tthird\n    */"),
    ("ml-trailing-blanks", "/* @  \n second \t\n */"),
    ("ml-empty-line", "/* @\n\n second */"),
    ("ml-first-line-empty", "/*\n @\n*/"),
    ("ml-code", "/* @\n   set req.http.X = \"1\";\n   } else {\n*/"),
    ("ml-line-markers", "/* @\n// second\n# third */"),
    ("ml-long", "/* @\n " + _LONG + "\n tail */"),
]


class Decorator:
    def __init__(self, rng, hostile=0.0):
        self.r = rng
        self.n = 0
        self.stats = {}
        self.stats_multi = {}
        self.body_stats = {}
        self.hostile = hostile        # share of comments whose text comes from the hostile alphabet

    def text(self, kind, style=None, hostile=None):
        """one comment; returns (source text, is_line_comment).
        The BODY is drawn from the benign words of the first rounds or (share self.hostile, or when a class name is
        forced) from the hostile alphabet LINE_BODIES / BLOCK_BODIES; self.body_stats counts the classes used."""
        self.n += 1
        tag = "c%d" % self.n
        style = style or self.r.choice(["#", "#", "//", "//", "/*", "##", "///", "#//", "//#"])
        block = style == "/*"
        if hostile is None and self.r.random() < self.hostile:
            hostile = self.r.choice([c for c, _ in (BLOCK_BODIES if block else LINE_BODIES)])
        if hostile is not None:
            table = dict(BLOCK_BODIES if block else LINE_BODIES)
            if hostile not in table:          # a class of the other family: take any of this one
                hostile = self.r.choice(sorted(table))
            key = ("block:" if block else "line:") + hostile
            self.body_stats[key] = self.body_stats.get(key, 0) + 1
            body = table[hostile].replace("@", tag)
            return (body, False) if block else (style + body, True)
        words = self.r.choice(["", " note", " TODO: x", " a  b", " é日本", " /* not nested", " ## x", " \"quoted\"", " ;{}", " %20"])
        if block:
            if kind == "leading" and self.r.random() < 0.3:
                return "/* %s%s\n   * second line\n */" % (tag, words.replace("*/", "")), False
            return "/* %s%s */" % (tag, words.replace("/*", "").replace("*/", "")), False
        return "%s %s%s" % (style, tag, words), True

    # ------------------------------------------------------------------ patterns
    # A pattern is what is written at ONE placeholder: a list of pieces (where, style)
    #   where = "prev"  : at the end of the line of the previous token (before the placeholder's line)
    #           "own"   : on a line of its own
    #           "same"  : on the same line, between the two tokens (inline) / behind the token (trailing)
    #           "blank" : an empty line (style ignored)
    #   style = "/*" block, "/**" multi-line block, or a line marker ("#", "//", "##", ...); None = random
    MULTI_LEADING = [
        [("prev", "//"), ("own", "#")],
        [("prev", "/*"), ("own", "/*"), ("own", "//")],
        [("own", "#"), ("blank", None), ("own", "/*"), ("own", "//")],
        [("blank", None), ("own", "//"), ("own", "#"), ("blank", None)],
        [("prev", "#"), ("blank", None), ("own", "/**")],
    ]
    MULTI_INLINE = [
        [("blank", None), ("same", "/*"), ("same", "/*")],
        [("same", "/*"), ("same", "/*")],
        [("same", "/*"), ("own", "/*"), ("same", "/*")],
    ]
    MULTI_TRAILING = [
        [("same", "/*"), ("same", "//")],
        [("same", "/*"), ("same", "/*"), ("own", "#")],
        [("same", "#"), ("own", "/*"), ("own", "//")],
    ]

    def random_pattern(self, kind, multi, blank_lines, line_inline):
        r = self.r
        if kind == "leading":
            pat = []
            if multi and r.random() < 0.35:
                pat.append(("prev", r.choice(["//", "#", "/*"])))
            if blank_lines and r.random() < blank_lines:
                pat.append(("blank", None))
            n = 1 if not multi else r.choice([1, 2, 2, 3])
            for j in range(n):
                pat.append(("own", None))
                if j < n - 1 and blank_lines and r.random() < blank_lines:
                    pat.append(("blank", None))
            if blank_lines and r.random() < blank_lines / 2:
                pat.append(("blank", None))
            return pat
        if kind == "inline":
            n = 1 if not multi else r.choice([1, 2, 2, 3])
            return [(("own" if (j > 0 and r.random() < 0.3) else "same"), None if line_inline else "/*") for j in range(n)]
        n = 1 if not multi else r.choice([1, 2, 2, 3])
        pat = [("same", "/*") for _ in range(n - 1)] + [("same", None)]
        if multi and r.random() < 0.3:
            pat.append(("own", None))
        return pat

    def decorate(self, src, toks, density=0.15, only=None, styles=None, specials=True, blank_lines=0.0, max_per_slot=2,
                 line_inline=False, only_index=None, multi=0.0, pattern=None, body=None):
        """src: str; toks: parse_fmtlex(..., with_pos=True) of src (comments allowed, they are skipped).
        multi: probability that a chosen placeholder gets 2-3 comments in mixed styles / positions;
        pattern: force this pattern at the chosen placeholder(s); body: force this class of the hostile alphabet.
        Returns (new source, [(slot name, comment text)] in source order) or (None, reason)."""
        sig = [t for t in toks if t["k"] == "T"]
        try:
            slots = find_slots([(t["ty"], t["lit"]) for t in sig])
        except ScanError as e:
            return None, "scan: %s" % e
        lines = src.split("\n")
        starts = [0]
        for ln in lines:
            starts.append(starts[-1] + len(ln) + 1)

        def off(t):
            return starts[t["line"] - 1] + t["col"] - 1

        def tok_len(t):
            if t["ty"] == "STRING":
                return len(t["lit"]) + 2
            return len(t["lit"])

        # verify the positions the lexer reported for the tokens we splice around
        for t in sig:
            o = off(t)
            if t["ty"] in ("STRING",):
                ok = src[o:o + 1] == '"'
            elif t["ty"] == "OPEN_LONG_STRING":
                ok = src[o:o + 1] == "{"
            elif t["ty"] == "CLOSE_LONG_STRING":
                ok = True
            else:
                ok = src[o:o + len(t["lit"])] == t["lit"]
            if not ok:
                return None, "position of %s %r not verified" % (t["ty"], t["lit"])

        def end_known(t):
            # the extent of a token is known unless it belongs to a long string
            return t["ty"] not in ("OPEN_LONG_STRING", "CLOSE_LONG_STRING") and not (
                t["ty"] == "STRING" and src[off(t):off(t) + 1] != '"')

        inserts = []        # (offset, order, text)
        twin_inserts = []
        line_closed = set()  # offsets (end of a token) behind which a line comment already runs to the end of the line
        self.inline_line = 0
        self.multi_slots = 0
        placed = []
        order = 0

        def comment(kind, style, first):
            """-> (text, is line comment, twin text)"""
            if specials and style is None and self.r.random() < 0.08 and kind != "inline":
                c = self.r.choice(SPECIAL_LEADING if kind == "leading" else SPECIAL_TRAILING)
                return c, True, c
            st = style
            if st is None and styles:
                st = self.r.choice(styles)
            if st == "/**":
                self.n += 1
                return "/* c%d\n   * second line \n */" % self.n, False, None
            c, line = self.text("inline" if st == "/*" else kind, style=st, hostile=body)
            return c, line, None

        for slot_no, (kind, idx, name) in enumerate(slots):
            if only is not None and name not in only:
                continue
            if only_index is not None and slot_no != only_index:
                continue
            chosen = self.r.random() < density
            if not chosen:
                if kind == "leading" and blank_lines and self.r.random() < blank_lines and idx < len(sig):
                    inserts.append((self._line_start(src, off(sig[idx])), order, "\n" * self.r.choice([1, 1, 2, 3])))
                    twin_inserts.append(inserts[-1])
                    order += 1
                continue
            is_multi = pattern is not None or self.r.random() < multi
            pat = pattern if pattern is not None else self.random_pattern(kind, is_multi, blank_lines, line_inline)
            if kind in ("leading", "inline") and idx >= len(sig):
                continue
            if kind == "inline":
                t = sig[idx]
                if t["ty"] == "CLOSE_LONG_STRING" or (t["ty"] == "STRING" and idx > 0 and sig[idx - 1]["ty"] == "OPEN_LONG_STRING"):
                    continue
                o = off(t)
                ins, twin = " ", " "
                ncom = 0
                for where, style in pat:
                    if where == "blank":
                        # an empty line between the previous token and the comment (`if <LF><LF> /* c */ (cond)`)
                        ins = ins.rstrip(" ") + "\n\n  "
                        twin = twin.rstrip(" ") + "\n\n  "
                        continue
                    c, line, _ = comment(kind, style, ncom == 0)
                    if where == "own" and ncom > 0:
                        ins = ins.rstrip(" ") + "\n  "
                        twin = twin.rstrip(" ") + "\n  "
                    placed.append((name, c))
                    ncom += 1
                    ins += c + ("\n" if line else " ")
                    if line:
                        # a line comment between two tokens of one statement is the recorded finding: the twin
                        # text carries the same comment in block style at the same place
                        self.inline_line += 1
                        body = c.lstrip("#/").replace("/*", "").replace("*/", "")
                        twin += "/*%s */ " % body
                    else:
                        twin += c + " "
                inserts.append((o, order, ins))
                twin_inserts.append((o, order, twin))
            elif kind == "trailing":
                t = sig[idx]
                if not end_known(t):
                    continue
                o = off(t) + tok_len(t)
                if o in line_closed:
                    continue
                nl = src.find("\n", o)
                rest = src[o:nl if nl >= 0 else len(src)]
                same = [(w, st) for w, st in pat if w == "same"]
                own = [(w, st) for w, st in pat if w == "own"]
                txt = ""
                ended = False
                for j, (w, st) in enumerate(same):
                    if j < len(same) - 1 and st is None:
                        st = "/*"          # only the last comment on a line may be a line comment
                    c, line, _ = comment(kind, st, j == 0)
                    if line and j < len(same) - 1:
                        c, line, _ = comment(kind, "/*", False)
                    placed.append((name, c))
                    txt += " " + c
                    ended = line
                if ended or own:
                    line_closed.add(o)      # nothing more can be written behind this token on its line
                need_nl = rest.strip() != "" or own
                if need_nl:
                    txt += "\n"
                for w, st in own:
                    c, line, _ = comment("leading", st, False)
                    placed.append((name + "+own", c))
                    txt += c + "\n"
                if own and rest.strip() == "":
                    txt = txt[:-1]          # the line feed that was there ends the last own-line comment
                inserts.append((o, order, txt))
                twin_inserts.append(inserts[-1])
            else:  # leading
                o = off(sig[idx])
                ls = self._line_start(src, o)
                indent = src[ls:o] if src[ls:o].strip() == "" else None
                L = []
                ncom = 0
                for where, style in pat:
                    if where == "blank":
                        L.append("")
                    elif where == "own":
                        c, line, _ = comment(kind, style, ncom == 0)
                        placed.append((name, c))
                        ncom += 1
                        L.append(c)
                    elif where == "prev" and idx > 0 and end_known(sig[idx - 1]):
                        # behind the previous token, on its line
                        pt = sig[idx - 1]
                        po = off(pt) + tok_len(pt)
                        if po in line_closed:
                            continue
                        between = src[po:o]
                        c, line, _ = comment("trailing", style, True)
                        if line:
                            line_closed.add(po)
                        placed.append((name + "+prevline", c))
                        ptxt = " " + c
                        if "\n" not in between:
                            ptxt += "\n"       # the two tokens were on one line
                        inserts.append((po, order, ptxt))
                        twin_inserts.append(inserts[-1])
                        order += 1
                if not L:
                    ins = ""
                elif indent is not None:
                    ins = ("\n" + indent).join(L) + "\n" + indent
                else:
                    ins = "\n" + "\n".join(L) + "\n"
                inserts.append((o, order, ins))
                twin_inserts.append(inserts[-1])
            if is_multi:
                self.multi_slots += 1
                self.stats_multi[name] = self.stats_multi.get(name, 0) + 1
            order += 1
            self.stats[name] = self.stats.get(name, 0) + 1
        out = src
        for o, _, text in sorted(inserts, key=lambda x: (-x[0], -x[1])):
            out = out[:o] + text + out[o:]
        self.twin = None
        if self.inline_line:
            tw = src
            for o, _, text in sorted(twin_inserts, key=lambda x: (-x[0], -x[1])):
                tw = tw[:o] + text + tw[o:]
            self.twin = tw
        return out, placed

    @staticmethod
    def _line_start(src, o):
        p = src.rfind("\n", 0, o)
        return p + 1


# a program with every statement and declaration kind: used to place ONE comment at EVERY documented
# placeholder in turn (exhaustive over the slots of this program x comment styles)
TEMPLATE = '''import foo;
include "mod";
acl a {
  "10.0.0.0"/8;
  !"10.1.0.0"/16;
}
backend b {
  .host = "a";
  .probe = {
    .request = "GET";
  }
}
director d random {
  .quorum = 50%;
  { .backend = F_a; .weight = 1; }
}
table t STRING {
  "k": "v",
  "k2": "v2",
}
penaltybox p {
}
ratecounter r {
}
sub vcl_recv {
  set req.http.X = "a";
  add req.http.Y = "b";
  unset req.http.Z;
  remove req.http.W;
  call custom_a;
  declare local var.s STRING;
  error 404 "msg";
  esi;
  restart;
  std.collect(req.http.A, "b");
  goto lbl;
  lbl:
  if (req.http.A) {
    esi;
  }
  else if (req.http.B) {
    esi;
  }
  else {
    esi;
  }
  log "x";
  synthetic "y";
  synthetic.base64 "eg==";
  return (lookup);
  return;
  switch (req.url) {
  case "a":
    esi;
    fallthrough;
  case ~ "b":
    break;
  default:
    break;
  }
  {
    esi;
  }
  include "inner";
}
'''


# conditions and branches: flat compound conditions, nested compound groups, negations, a condition that wraps,
# every spelling of else-if, comments-sensitive neighbours (values that wrap, postfix %, if-expressions)
TEMPLATE_COND = '''sub vcl_recv {
  if (req.http.A && req.http.B || req.http.C) {
    esi;
  } else if (req.http.A && (req.http.B || !(req.http.C && req.http.D))) {
    esi;
  } elseif (!req.http.A && req.http.B ~ "x" && req.http.Host == "www.example.com" && req.url ~ "^/some/long/path/that/wraps") {
    esi;
  } elsif ((req.http.A)) {
    esi;
  } else {
    esi;
  }
  if (req.http.A == "a" "b" || std.strlen(req.http.B) > 10) {
    set req.http.X = "a" req.http.B + "c" if(req.http.D, "e", "f") std.itoa(10);
    set var.p = 10%;
  }
  if (!(req.http.A || req.http.B)) {
    restart;
  }
}
'''


def one_comment_per_slot(rng, toks):
    """-> [(slot name, kind, style, text, twin text or None)]: TEMPLATE with one comment at one slot"""
    sig = [(t["ty"], t["lit"]) for t in toks if t["k"] == "T"]
    slots = find_slots(sig)
    out = []
    for i, (kind, idx, name) in enumerate(slots):
        for style in ("/*", "#", "//"):
            d = Decorator(rng)
            text, placed = d.decorate(TEMPLATE, toks, density=1.1, styles=[style], specials=False, max_per_slot=1,
                                      only_index=i, line_inline=True)
            if text is None or not placed:
                continue
            out.append((name, kind, style, text, d.twin))
    return out


def several_comments_per_slot(rng, toks):
    """-> [(slot name, kind, pattern label, text, twin)]: TEMPLATE with 2-3 comments in mixed styles and positions
    (line of the previous token / own line / same line, empty lines between) at ONE slot; every slot x every
    pattern of its kind"""
    sig = [(t["ty"], t["lit"]) for t in toks if t["k"] == "T"]
    slots = find_slots(sig)
    out = []
    pats = {"leading": Decorator.MULTI_LEADING, "inline": Decorator.MULTI_INLINE, "trailing": Decorator.MULTI_TRAILING}
    for i, (kind, idx, name) in enumerate(slots):
        for pn, pat in enumerate(pats[kind]):
            d = Decorator(rng)
            text, placed = d.decorate(TEMPLATE, toks, density=1.1, specials=False, only_index=i, pattern=pat)
            if text is None or len(placed) < 2:
                continue
            out.append((name, kind, "%s%d" % (kind[0], pn), text, d.twin))
    return out


def hostile_comment_per_slot(rng, toks, per_slot=None, template=None, only=None, all_line_inline=False):
    """-> [(slot name, kind, "block:<class>" | "line:<class>", text, twin)]: TEMPLATE with ONE comment whose text is of
    one class of the hostile alphabet at ONE slot.  per_slot=None: every slot x every class (exhaustive);
    otherwise per_slot classes of each family drawn per slot (every class is used about equally often).
    template: the program (default TEMPLATE; toks are its tokens); only: predicate on the slot name."""
    template = template or TEMPLATE
    sig = [(t["ty"], t["lit"]) for t in toks if t["k"] == "T"]
    slots = find_slots(sig)
    out = []
    fams = (("block", "/*", [c for c, _ in BLOCK_BODIES]), ("line", None, [c for c, _ in LINE_BODIES]))
    for i, (kind, idx, name) in enumerate(slots):
        if only is not None and not only(name):
            continue
        for fam, style, classes in fams:
            if per_slot is None and fam == "line" and kind == "inline" and not all_line_inline:
                # a line comment between two tokens of a statement is the recorded finding whatever its text: two classes
                chosen = [classes[(2 * i) % len(classes)], classes[(2 * i + 1) % len(classes)]]
            elif per_slot is None:
                chosen = classes
            else:
                k0 = (i * per_slot) % len(classes)          # rotate: all classes are met over the slots
                chosen = [classes[(k0 + j) % len(classes)] for j in range(per_slot)]
                chosen[-1] = rng.choice(classes)
            for cls in chosen:
                # a leading placeholder is met twice: the comment on a line of its own, and on the line of the
                # previous token (`} // c` before else, `; /* c */` before the next statement)
                for where in (("own", "prev") if kind == "leading" else ("own",)):
                    d = Decorator(rng)
                    st = style or rng.choice(["#", "//", "//", "#", "##", "///"])
                    text, placed = d.decorate(template, toks, density=1.1, styles=[st], specials=False, max_per_slot=1,
                                              only_index=i, line_inline=True, body=cls,
                                              pattern=[("prev", st)] if where == "prev" else None)
                    if text is None or not placed:
                        continue
                    out.append((name, kind, "%s:%s%s" % (fam, cls, "@prev" if where == "prev" else ""), text, d.twin))
    return out


def comment_at_every_slot(rng, template, toks):
    """-> [(slot name, kind, variant, text, twin)]: `template` with ONE comment at ONE placeholder, every placeholder in
    turn; variants: block style, line style, and for leading placeholders both again on the line of the previous
    token.  Used with the shape programs of gen/fmt_shapes.py (every chain / list shape x every placeholder)."""
    sig = [(t["ty"], t["lit"]) for t in toks if t["k"] == "T"]
    slots = find_slots(sig)
    out = []
    for i, (kind, idx, name) in enumerate(slots):
        variants = [("block", "/*", None), ("line", rng.choice(["//", "#"]), None)]
        if kind == "leading":
            variants += [("block@prev", "/*", "prev"), ("line@prev", rng.choice(["//", "#"]), "prev")]
        for vname, st, where in variants:
            d = Decorator(rng)
            text, placed = d.decorate(template, toks, density=1.1, styles=[st], specials=False, max_per_slot=1,
                                      only_index=i, line_inline=True, pattern=[("prev", st)] if where else None)
            if text is None or not placed:
                continue
            out.append((name, kind, vname, text, d.twin))
    return out
