(* Shared glue for the extracted models: hex, Sq-expressions, line protocol.
   Parameterised over nothing: conversions for positive/N/Z are written against
   constructor shapes passed in by each driver (the extracted types are generative). *)

type sexp = At of string | Sq of string (* quoted hex string *) | Ls of sexp list

let parse_sexps (s : string) : sexp list =
  let n = String.length s in
  let pos = ref 0 in
  let rec skip () = if !pos < n && (s.[!pos] = ' ' || s.[!pos] = '\t') then (incr pos; skip ()) in
  let rec one () : sexp =
    skip ();
    if !pos >= n then failwith "sexp: eof";
    match s.[!pos] with
    | '(' -> incr pos; let l = many [] in Ls l
    | '"' ->
        incr pos; let st = !pos in
        while !pos < n && s.[!pos] <> '"' do incr pos done;
        let r = String.sub s st (!pos - st) in incr pos; Sq r
    | _ ->
        let st = !pos in
        while !pos < n && s.[!pos] <> ' ' && s.[!pos] <> '(' && s.[!pos] <> ')' do incr pos done;
        At (String.sub s st (!pos - st))
  and many acc =
    skip ();
    if !pos >= n then failwith "sexp: unclosed";
    if s.[!pos] = ')' then (incr pos; List.rev acc) else let x = one () in many (x :: acc)
  in
  let rec top acc = skip (); if !pos >= n then List.rev acc else let x = one () in top (x :: acc) in
  top []

let rec print_sexp (b : Buffer.t) (x : sexp) : unit =
  match x with
  | At a -> Buffer.add_string b a
  | Sq h -> Buffer.add_char b '"'; Buffer.add_string b h; Buffer.add_char b '"'
  | Ls l ->
      Buffer.add_char b '(';
      List.iteri (fun i y -> if i > 0 then Buffer.add_char b ' '; print_sexp b y) l;
      Buffer.add_char b ')'

let sexp_to_string x = let b = Buffer.create 256 in print_sexp b x; Buffer.contents b

let hexdigit c =
  match c with
  | '0'..'9' -> Char.code c - 48
  | 'a'..'f' -> Char.code c - 87
  | 'A'..'F' -> Char.code c - 55
  | _ -> failwith "hex"

let ints_of_hex (h : string) : int list =
  let n = String.length h / 2 in
  List.init n (fun i -> hexdigit h.[2*i] * 16 + hexdigit h.[2*i+1])

let hex_of_ints (l : int list) : string =
  let b = Buffer.create (2 * List.length l) in
  List.iter (fun i -> Buffer.add_string b (Printf.sprintf "%02x" i)) l;
  Buffer.contents b

(* line protocol: "<idx>\t<request>" -> "<idx>\t<reply>" *)
let serve (handle : string -> string) : unit =
  try
    while true do
      let line = input_line stdin in
      if line <> "" then begin
        let idx, rest =
          match String.index_opt line '\t' with
          | Some i -> String.sub line 0 i, String.sub line (i+1) (String.length line - i - 1)
          | None -> line, "" in
        let reply = try handle rest with
          | Stack_overflow -> "stackoverflow"
          | Failure m -> "badreq " ^ m
          | Not_found -> "badreq notfound" in
        print_string idx; print_char '\t'; print_string reply; print_newline ()
      end
    done
  with End_of_file -> ()
