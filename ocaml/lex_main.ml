open Common
open Lex_model

(* ---- numbers ---- *)
let rec pos_of_int (i : int) : positive =
  if i = 1 then XH else if i land 1 = 0 then XO (pos_of_int (i lsr 1)) else XI (pos_of_int (i lsr 1))
let n_of_int i = if i = 0 then N0 else Npos (pos_of_int i)
let rec int_of_pos = function XH -> 1 | XO p -> 2 * int_of_pos p | XI p -> 2 * int_of_pos p + 1
let int_of_n = function N0 -> 0 | Npos p -> int_of_pos p
let int_of_z = function Z0 -> 0 | Zpos p -> int_of_pos p | Zneg p -> - (int_of_pos p)

let byte_of_int i = n2b (n_of_int i)
let int_of_byte b = int_of_n (b2n b)
let bytes_of_hex h = List.map byte_of_int (ints_of_hex h)
let hex_of_bytes l = hex_of_ints (List.map int_of_byte l)
let hex_of_str s = hex_of_bytes (enc_all s)
let ascii_of_str s = String.concat "" (List.map (fun r -> String.make 1 (Char.chr (int_of_n r land 255))) s)

let tok_sx (t : token) : string =
  let ty = ascii_of_str t.ttype in
  Printf.sprintf "(%s \"%s\" %d %d %d)" (if ty = "" then "<empty>" else ty) (hex_of_str t.tlit)
    (int_of_n t.tline) (int_of_n t.tpos) (int_of_n t.toff)

let comment_sx (c : comment) : string =
  Printf.sprintf "(c \"%s\" %d %d %s %d)" (hex_of_str c.ctok.tlit) (int_of_n c.ctok.tline)
    (int_of_n c.ctok.tpos) (if c.clf then "1" else "0") (int_of_n c.cprev)

let meta_sx (m : meta) : string =
  Printf.sprintf "(m %s %d %d (%s))" (tok_sx m.mtok) (int_of_z m.mnest) (int_of_n m.mprev)
    (String.concat " " (List.map comment_sx m.mlead))

let res_to_string (f : 'a -> string) (r : 'a res) : string =
  match r with
  | OK l -> f l
  | Err -> "err"
  | Crash -> "crash"
  | OutOfFuel -> "outoffuel"

let handle (req : string) : string =
  match String.index_opt req ' ' with
  | None -> failwith "no command"
  | Some i ->
    let cmd = String.sub req 0 i in
    let h = String.trim (String.sub req (i + 1) (String.length req - i - 1)) in
    let src = bytes_of_hex h in
    (match cmd with
     | "lex" -> res_to_string (fun l -> String.concat " " (List.map tok_sx l)) (tokens src)
     | "pump" -> res_to_string (fun l -> String.concat " " (List.map meta_sx l)) (pump src)
     | _ -> failwith "unknown command")

let () = serve handle
