(* Driver of the extracted formatter token model (coq/Model/FmtTok.v, FmtNorm.v).
   requests:
     norm <config> <tokens>      -> tokens of [norm config tokens]
     norm2 <config> <tokens>     -> "same" | tokens of norm (norm ts) when it differs from norm ts
     restyle <none|sharp|slash> <hex text> -> hex text
   config  = sixteen fields in the order of config.FormatConfig, comma separated:
             iw,tcw,istyle,lw,esc,sdp,adp,ei,anl,rsp,sd,atc,cstyle,uu,icl,bcc   (bools 0/1, lw may be negative)
   tokens  = space separated  T:<GOTYPE>:<hex literal>  |  C:<0|1>:<hex text>   (implrun fmtlex format) *)
open Common
open Fmt_model
type string = Stdlib.String.t   (* the extracted module defines Coq's string *)

let rec pos_of_int (i : int) : positive =
  if i = 1 then XH else if i land 1 = 0 then XO (pos_of_int (i lsr 1)) else XI (pos_of_int (i lsr 1))
let n_of_int i = if i = 0 then N0 else Npos (pos_of_int i)
let rec int_of_pos = function XH -> 1 | XO p -> 2 * int_of_pos p | XI p -> 2 * int_of_pos p + 1
let int_of_n = function N0 -> 0 | Npos p -> int_of_pos p
let byte_of_int i = n2b (n_of_int i)
let int_of_byte b = int_of_n (b2n b)
let bytes_of_hex h = List.map byte_of_int (ints_of_hex h)
let hex_of_bytes l = hex_of_ints (List.map int_of_byte l)
let bytes_of_string s = List.init (String.length s) (fun i -> byte_of_int (Char.code s.[i]))
let string_of_bytes l = String.concat "" (List.map (fun b -> String.make 1 (Char.chr (int_of_byte b))) l)

let assign_ops = ["ASSIGN"; "ADDITION"; "SUBTRACTION"; "MULTIPLICATION"; "DIVISION"; "REMAINDER"; "BITWISE_OR";
                  "BITWISE_AND"; "BITWISE_XOR"; "LEFT_SHIFT"; "RIGHT_SHIFT"; "LEFT_ROTATE"; "RIGHT_ROTATE";
                  "LOGICAL_AND"; "LOGICAL_OR"]

let simple_kinds : (string * kind) list = [
  "IDENT", KIdent; "STRING", KString; "OPEN_LONG_STRING", KOpenLong; "CLOSE_LONG_STRING", KCloseLong;
  "INT", KInt; "FLOAT", KFloat; "RTIME", KRTime; "TRUE", KTrue; "FALSE", KFalse; "PERCENT", KPercent;
  "PLUS", KPlus; "LEFT_PAREN", KLParen; "RIGHT_PAREN", KRParen; "LEFT_BRACE", KLBrace; "RIGHT_BRACE", KRBrace;
  "SEMICOLON", KSemi; "COMMA", KComma; "COLON", KColon; "DOT", KDot;
  "IF", KIf; "ELSE", KElse; "ELSEIF", KElseIf; "ELSIF", KElsIf; "RETURN", KReturn; "REMOVE", KRemove;
  "UNSET", KUnset; "SET", KSet; "ADD", KAdd; "DECLARE", KDeclare; "ERROR", KError; "LOG", KLog;
  "SYNTHETIC", KSynthetic; "SYNTHETIC_BASE64", KSynthetic64; "CALL", KCall; "CASE", KCase; "DEFAULT", KDefault;
  "SWITCH", KSwitch; "SUBROUTINE", KSub; "TABLE", KTable; "ACL", KAcl; "BACKEND", KBackend; "DIRECTOR", KDirector;
  "PENALTYBOX", KPenaltybox; "RATECOUNTER", KRatecounter; "IMPORT", KImport; "INCLUDE", KInclude ]

let kind_of_name (n : string) : kind =
  match List.assoc_opt n simple_kinds with
  | Some k -> k
  | None -> if List.mem n assign_ops then KAssign (bytes_of_string n) else KOther (bytes_of_string n)

let name_of_kind (k : kind) : string =
  match k with
  | KAssign n | KOther n -> string_of_bytes n
  | _ -> (match List.find_opt (fun (_, k') -> k' = k) simple_kinds with Some (n, _) -> n | None -> "?")

let elt_of_string (s : string) : elt =
  match String.split_on_char ':' s with
  | ["T"; ty; h] -> Sig { tk = kind_of_name ty; tl = bytes_of_hex h }
  | ["C"; lf; h] -> Cm { clf = (lf = "1"); ctx = bytes_of_hex h }
  | _ -> failwith ("token " ^ s)

let string_of_elt (e : elt) : string =
  match e with
  | Sig t -> "T:" ^ name_of_kind t.tk ^ ":" ^ hex_of_bytes t.tl
  | Cm c -> "C:" ^ (if c.clf then "1" else "0") ^ ":" ^ hex_of_bytes c.ctx

let elts_of_string (s : string) : elt list =
  List.map elt_of_string (List.filter (fun x -> x <> "") (String.split_on_char ' ' s))
let string_of_elts (l : elt list) : string = String.concat " " (List.map string_of_elt l)

let cstyle_of = function "sharp" -> CSharp | "slash" -> CSlash | _ -> CNone

let config_of_string (s : string) : fmt_config =
  match String.split_on_char ',' s with
  | [iw; tcw; ist; lw; esc; sdp; adp; ei; anl; rsp; sd; atc; cst; uu; icl; bcc] ->
      let b x = (x = "1") in
      let lwi = int_of_string lw in
      { indent_width = n_of_int (int_of_string iw); trailing_comment_width = n_of_int (int_of_string tcw);
        indent_style = (if ist = "tab" then ITab else ISpace);
        line_width = (if lwi < 0 then None else Some (n_of_int lwi));
        explicit_string_concat = b esc; sort_declaration_property = b sdp; align_declaration_property = b adp;
        else_if = b ei; always_next_line_else_if = b anl; return_statement_parenthesis = b rsp;
        sort_declaration = b sd; align_trailing_comment = b atc; comment_style = cstyle_of cst;
        should_use_unset = b uu; indent_case_labels = b icl; break_compound_conditions = b bcc }
  | _ -> failwith "config"

let split2 (s : string) : string * string =
  match String.index_opt s ' ' with
  | Some i -> String.sub s 0 i, String.sub s (i+1) (String.length s - i - 1)
  | None -> s, ""

let handle (req : string) : string =
  let cmd, arg = split2 req in
  match cmd with
  | "norm" ->
      let c, toks = split2 arg in
      string_of_elts (norm (config_of_string c) (elts_of_string toks))
  | "norm2" ->
      let c, toks = split2 arg in
      let cf = config_of_string c in
      let once = norm cf (elts_of_string toks) in
      let twice = norm cf once in
      if once = twice then "same" else string_of_elts twice
  | "restyle" ->
      let st, h = split2 arg in
      hex_of_bytes (restyle_text (cstyle_of st) (bytes_of_hex h))
  | _ -> "badreq"

let () = serve handle
