open Common
open Codec_model
(* Codec_model extracts Coq's [string] (kind names); in this file [string] is OCaml's *)
type cstring = Codec_model.string
type string = Stdlib.String.t

let ocaml_of_cstring (s : cstring) : string =
  let b = Buffer.create 32 in
  let bit x k = if x then k else 0 in
  let rec go = function
    | EmptyString -> ()
    | String (Ascii (b0, b1, b2, b3, b4, b5, b6, b7), r) ->
        Buffer.add_char b (Char.chr (bit b0 1 + bit b1 2 + bit b2 4 + bit b3 8 + bit b4 16 + bit b5 32 + bit b6 64 + bit b7 128));
        go r in
  go s; Buffer.contents b

(* ---- numbers ---- *)
let rec pos_of_int (i : int) : positive =
  if i = 1 then XH else if i land 1 = 0 then XO (pos_of_int (i lsr 1)) else XI (pos_of_int (i lsr 1))
let n_of_int i = if i = 0 then N0 else Npos (pos_of_int i)
let rec int_of_pos = function XH -> 1 | XO p -> 2 * int_of_pos p | XI p -> 2 * int_of_pos p + 1
let int_of_n = function N0 -> 0 | Npos p -> int_of_pos p

let byte_of_int i = n2b (n_of_int i)
let int_of_byte b = int_of_n (b2n b)
let bytes_of_hex h = List.map byte_of_int (ints_of_hex h)
let hex_of_bytes l = hex_of_ints (List.map int_of_byte l)

(* uint64 as "x%016x" <-> Z (bits, no OCaml int overflow) *)
let z_of_x (s : string) : z =
  (* s = 'x' followed by hex digits, MSB first *)
  let bits = ref [] in
  for i = 1 to String.length s - 1 do
    let d = hexdigit s.[i] in
    bits := (d land 1 = 1) :: (d land 2 = 2) :: (d land 4 = 4) :: (d land 8 = 8) :: !bits
  done;
  (* !bits is LSB first *)
  let rec build (l : bool list) : positive option =
    match l with
    | [] -> None
    | b :: t ->
      (match build t with
       | None -> if b then Some XH else None
       | Some p -> Some (if b then XI p else XO p)) in
  match build !bits with None -> Z0 | Some p -> Zpos p

let x_of_z (v : z) : string =
  let rec bits p = match p with XH -> [true] | XO q -> false :: bits q | XI q -> true :: bits q in
  let l = match v with Z0 -> [] | Zpos p -> bits p | Zneg _ -> failwith "negative" in
  let arr = Array.make 64 false in
  List.iteri (fun i b -> if i < 64 then arr.(i) <- b else if b then failwith "x_of_z: >64 bits") l;
  let b = Buffer.create 17 in
  Buffer.add_char b 'x';
  for d = 15 downto 0 do
    let v = (if arr.(4*d) then 1 else 0) + (if arr.(4*d+1) then 2 else 0)
            + (if arr.(4*d+2) then 4 else 0) + (if arr.(4*d+3) then 8 else 0) in
    Buffer.add_string b (Printf.sprintf "%x" v)
  done;
  Buffer.contents b

(* ---- strings: hex of UTF-8 bytes <-> rune list (through the extracted Go-UTF-8 model) ---- *)
let str_of_hex h = dec_all (bytes_of_hex h)
let hex_of_str s = hex_of_bytes (enc_all s)

(* ---- sexp -> model AST ---- *)
(* a Go string is represented in the model by the rune sequence `range s` yields; the representation is
   faithful iff the string is the UTF-8 encoding of that sequence (set to false otherwise) *)
let faithful = ref true
let str_of = function
  | Sq h -> let r = str_of_hex h in
            if hex_of_str r <> String.lowercase_ascii h then faithful := false; r
  | _ -> failwith "expected string"
let bool_of = function At "1" -> true | At "0" -> false | _ -> failwith "expected bool"
let z_of = function At x -> z_of_x x | _ -> failwith "expected x-number"

let rec expr_of (x : sexp) : expr =
  match x with
  | Ls [At "ident"; s] -> EIdent (str_of s)
  | Ls [At "str"; s] -> EString (str_of s)
  | Ls [At "ip"; s] -> EIp (str_of s)
  | Ls [At "rtime"; s] -> ERTime (str_of s)
  | Ls [At "bool"; b] -> EBool (bool_of b)
  | Ls [At "int"; v; l] -> EInt (z_of v, str_of l)
  | Ls [At "float"; v; l] -> EFloat (z_of v, str_of l)
  | Ls [At "group"; e] -> EGroup (expr_of e)
  | Ls [At "infix"; l; op; r] -> let ((a, b), c) = infix_of x in ignore (l, op, r); EInfix (a, b, c)
  | Ls [At "postfix"; l; op] -> EPostfix (expr_of l, str_of op)
  | Ls [At "prefix"; op; r] -> EPrefix (str_of op, expr_of r)
  | Ls [At "ifexp"; c; t; e] -> EIfExp (expr_of c, expr_of t, expr_of e)
  | Ls (At "call" :: f :: args) -> ECall (str_of f, List.map expr_of args)
  | Ls [At "unknown"] -> EUnknown
  | _ -> failwith ("bad expr " ^ sexp_to_string x)
and infix_of (x : sexp) =
  match x with
  | Ls [At "infix"; l; op; r] ->
      (((match l with At "_" -> None | _ -> Some (expr_of l)), str_of op), expr_of r)
  | _ -> failwith "bad infix"

let opt_expr = function At "_" -> None | e -> Some (expr_of e)
let kv_of = function Ls [At "kv"; k; v] -> (str_of k, expr_of v) | _ -> failwith "bad kv"

let rec stmt_of (x : sexp) : stmt =
  match x with
  | Ls [At "add"; i; o; v] -> SAdd (str_of i, str_of o, expr_of v)
  | Ls [At "set"; i; o; v] -> SSet (str_of i, str_of o, expr_of v)
  | Ls [At "block"; Ls b] -> SBlock (List.map stmt_of b)
  | Ls [At "break"] -> SBreak | Ls [At "esi"] -> SEsi
  | Ls [At "fallthrough"] -> SFallthrough | Ls [At "restart"] -> SRestart
  | Ls (At "call" :: f :: args) -> SCall (str_of f, List.map expr_of args)
  | Ls [At "case"; c] -> SCase (cas_of c)
  | Ls [At "declare"; n; t; v] -> SDeclare (str_of n, str_of t, opt_expr v)
  | Ls [At "error"; c; a] -> SError (opt_expr c, opt_expr a)
  | Ls (At "funcall" :: f :: args) -> SFunCall (str_of f, List.map expr_of args)
  | Ls [At "goto"; d] -> SGoto (str_of d)
  | Ls [At "gotodest"; d] -> SGotoDest (str_of d)
  | Ls [At "if"; i] -> SIf (ifs_of i)
  | Ls [At "import"; n] -> SImport (str_of n)
  | Ls [At "include"; n] -> SInclude (str_of n)
  | Ls [At "log"; e] -> SLog (expr_of e)
  | Ls [At "remove"; n] -> SRemove (str_of n)
  | Ls [At "unset"; n] -> SUnset (str_of n)
  | Ls [At "return"; p; v] -> SReturn (bool_of p, opt_expr v)
  | Ls [At "switch"; c; Ls cs; d] -> SSwitch (expr_of c, List.map cas_of cs, z_of d)
  | Ls [At "synthetic"; e] -> SSynthetic (expr_of e)
  | Ls [At "synthetic64"; e] -> SSyntheticB64 (expr_of e)
  | Ls (At "acl" :: n :: cs) -> DAcl (str_of n, List.map cidr_of cs)
  | Ls (At "backend" :: n :: ps) -> DBackend (str_of n, List.map bprop_of ps)
  | Ls (At "director" :: n :: t :: ps) -> DDirector (str_of n, str_of t, List.map dprop_of ps)
  | Ls [At "penaltybox"; n] -> DPenaltybox (str_of n)
  | Ls [At "ratecounter"; n] -> DRatecounter (str_of n)
  | Ls [At "sub"; n; Ls ps; r; Ls b] ->
      DSub (str_of n,
            List.map (function Ls [At "p"; t; m] -> (str_of t, str_of m) | _ -> failwith "bad param") ps,
            (match r with At "_" -> None | s -> Some (str_of s)),
            List.map stmt_of b)
  | Ls (At "table" :: n :: t :: ps) ->
      DTable (str_of n, (match t with At "_" -> None | s -> Some (str_of s)),
              List.map (function Ls [At "tp"; k; v] -> (str_of k, expr_of v) | _ -> failwith "bad tprop") ps)
  | Ls [At "unknownstmt"] -> SUnknownStmt
  | _ -> failwith ("bad stmt " ^ sexp_to_string x)
and ifs_of (x : sexp) : ifs =
  match x with
  | Ls [At "ifs"; kw; c; Ls cons; Ls an; alt] ->
      IfS (str_of kw, expr_of c, List.map stmt_of cons, List.map ifs_of an,
           (match alt with At "_" -> None | Ls b -> Some (List.map stmt_of b) | _ -> failwith "bad alt"))
  | _ -> failwith "bad ifs"
and cas_of (x : sexp) : cas =
  match x with
  | Ls [At "cas"; t; Ls b; ft] ->
      Cas ((match t with At "_" -> None | i -> Some (infix_of i)), List.map stmt_of b, bool_of ft)
  | _ -> failwith "bad cas"
and cidr_of (x : sexp) : cidr =
  match x with
  | Ls [At "cidr"; inv; ip; m] ->
      Cidr ((match inv with At "_" -> None | b -> Some (bool_of b)), str_of ip,
            (match m with At "_" -> None | Ls [At "m"; v; l] -> Some (z_of v, str_of l) | _ -> failwith "bad mask"))
  | _ -> failwith "bad cidr"
and bprop_of (x : sexp) : bprop =
  match x with
  | Ls [At "bp"; k; v] -> BProp (str_of k, expr_of v)
  | Ls (At "probe" :: k :: vs) -> BProbe (str_of k, List.map kv_of vs)
  | _ -> failwith "bad bprop"
and dprop_of (x : sexp) : dprop =
  match x with
  | Ls [At "dp"; k; v] -> DProp (str_of k, expr_of v)
  | Ls (At "dbackend" :: vs) -> DBackendObj (List.map kv_of vs)
  | _ -> failwith "bad dprop"

(* ---- model AST -> sexp ---- *)
let sstr s = Sq (hex_of_str s)
let sbool b = At (if b then "1" else "0")
let sz v = At (x_of_z v)
let rec sexp_of_expr (e : expr) : sexp =
  match e with
  | EIdent v -> Ls [At "ident"; sstr v] | EString v -> Ls [At "str"; sstr v]
  | EIp v -> Ls [At "ip"; sstr v] | ERTime v -> Ls [At "rtime"; sstr v]
  | EBool b -> Ls [At "bool"; sbool b]
  | EInt (v, l) -> Ls [At "int"; sz v; sstr l]
  | EFloat (v, l) -> Ls [At "float"; sz v; sstr l]
  | EGroup r -> Ls [At "group"; sexp_of_expr r]
  | EInfix (l, op, r) -> sexp_of_infix ((l, op), r)
  | EPostfix (l, op) -> Ls [At "postfix"; sexp_of_expr l; sstr op]
  | EPrefix (op, r) -> Ls [At "prefix"; sstr op; sexp_of_expr r]
  | EIfExp (c, t, e) -> Ls [At "ifexp"; sexp_of_expr c; sexp_of_expr t; sexp_of_expr e]
  | ECall (f, args) -> Ls (At "call" :: sstr f :: List.map sexp_of_expr args)
  | EUnknown -> Ls [At "unknown"]
and sexp_of_infix ((l, op), r) =
  Ls [At "infix"; (match l with None -> At "_" | Some e -> sexp_of_expr e); sstr op; sexp_of_expr r]
let sopt = function None -> At "_" | Some e -> sexp_of_expr e
let skv (k, v) = Ls [At "kv"; sstr k; sexp_of_expr v]

let rec sexp_of_stmt (s : stmt) : sexp =
  match s with
  | SAdd (i, o, v) -> Ls [At "add"; sstr i; sstr o; sexp_of_expr v]
  | SSet (i, o, v) -> Ls [At "set"; sstr i; sstr o; sexp_of_expr v]
  | SBlock b -> Ls [At "block"; Ls (List.map sexp_of_stmt b)]
  | SBreak -> Ls [At "break"] | SEsi -> Ls [At "esi"]
  | SFallthrough -> Ls [At "fallthrough"] | SRestart -> Ls [At "restart"]
  | SCall (f, args) -> Ls (At "call" :: sstr f :: List.map sexp_of_expr args)
  | SCase c -> Ls [At "case"; sexp_of_cas c]
  | SDeclare (n, t, v) -> Ls [At "declare"; sstr n; sstr t; sopt v]
  | SError (c, a) -> Ls [At "error"; sopt c; sopt a]
  | SFunCall (f, args) -> Ls (At "funcall" :: sstr f :: List.map sexp_of_expr args)
  | SGoto d -> Ls [At "goto"; sstr d] | SGotoDest d -> Ls [At "gotodest"; sstr d]
  | SIf i -> Ls [At "if"; sexp_of_ifs i]
  | SImport n -> Ls [At "import"; sstr n] | SInclude n -> Ls [At "include"; sstr n]
  | SLog e -> Ls [At "log"; sexp_of_expr e]
  | SRemove n -> Ls [At "remove"; sstr n] | SUnset n -> Ls [At "unset"; sstr n]
  | SReturn (p, v) -> Ls [At "return"; sbool p; sopt v]
  | SSwitch (c, cs, d) -> Ls [At "switch"; sexp_of_expr c; Ls (List.map sexp_of_cas cs); sz d]
  | SSynthetic e -> Ls [At "synthetic"; sexp_of_expr e]
  | SSyntheticB64 e -> Ls [At "synthetic64"; sexp_of_expr e]
  | DAcl (n, cs) -> Ls (At "acl" :: sstr n :: List.map sexp_of_cidr cs)
  | DBackend (n, ps) ->
      Ls (At "backend" :: sstr n ::
         List.map (function BProp (k, v) -> Ls [At "bp"; sstr k; sexp_of_expr v]
                          | BProbe (k, vs) -> Ls (At "probe" :: sstr k :: List.map skv vs)) ps)
  | DDirector (n, t, ps) ->
      Ls (At "director" :: sstr n :: sstr t ::
         List.map (function DProp (k, v) -> Ls [At "dp"; sstr k; sexp_of_expr v]
                          | DBackendObj vs -> Ls (At "dbackend" :: List.map skv vs)) ps)
  | DPenaltybox n -> Ls [At "penaltybox"; sstr n]
  | DRatecounter n -> Ls [At "ratecounter"; sstr n]
  | DSub (n, ps, r, b) ->
      Ls [At "sub"; sstr n; Ls (List.map (fun (t, m) -> Ls [At "p"; sstr t; sstr m]) ps);
         (match r with None -> At "_" | Some s -> sstr s); Ls (List.map sexp_of_stmt b)]
  | DTable (n, t, ps) ->
      Ls (At "table" :: sstr n :: (match t with None -> At "_" | Some s -> sstr s) ::
         List.map (fun (k, v) -> Ls [At "tp"; sstr k; sexp_of_expr v]) ps)
  | SUnknownStmt -> Ls [At "unknownstmt"]
and sexp_of_ifs (IfS (kw, c, cons, an, alt)) =
  Ls [At "ifs"; sstr kw; sexp_of_expr c; Ls (List.map sexp_of_stmt cons); Ls (List.map sexp_of_ifs an);
     (match alt with None -> At "_" | Some b -> Ls (List.map sexp_of_stmt b))]
and sexp_of_cas (Cas (t, b, ft)) =
  Ls [At "cas"; (match t with None -> At "_" | Some i -> sexp_of_infix i); Ls (List.map sexp_of_stmt b); sbool ft]
and sexp_of_cidr (Cidr (inv, ip, m)) =
  Ls [At "cidr"; (match inv with None -> At "_" | Some b -> sbool b); sstr ip;
     (match m with None -> At "_" | Some (v, l) -> Ls [At "m"; sz v; sstr l])]

let show_res (f : 'a -> string) (r : 'a res) : string =
  match r with OK a -> f a | Err -> "err" | Crash -> "crash" | OutOfFuel -> "fuel"

(* ---- the plugin path ---- *)
let kname k = ocaml_of_cstring (kind_name k)
let show_req (r : req_result) : string =
  match r with
  | ROk s -> "ok " ^ kname (kind_of s) ^ " " ^ sexp_to_string (sexp_of_stmt s)
  | RDecodeErr -> "decode" | REmpty -> "empty" | RType k -> "type:" ^ kname k
  | RCrash -> "crash" | RHang -> "fuel"

(* ReadLinterRequest[T] for EVERY T of the LintStatement union, aggregated:
   "<ok T sexp ...|none> | rest <distinct other results>" *)
let plug_all (bs : byte list) : string =
  (* read_request t bs = classify t (decode bs) by definition: the decoder runs once for all T *)
  let d = decode bs in
  let rs = List.map (fun t -> show_req (classify t d)) (List.filter lintable all_kinds) in
  let is_ok r = String.length r >= 3 && String.sub r 0 3 = "ok " in
  let oks = List.filter is_ok rs in
  let rest = List.sort_uniq compare (List.filter (fun r -> not (is_ok r)) rs) in
  (if oks = [] then "none" else String.concat " " oks) ^ " | rest " ^ String.concat "," rest

let wf_flag (model_ok : bool) : string =
  if not !faithful then "wf 0 utf8" else if model_ok then "wf 1" else "wf 0 model"

(* requests:  enc <sexp list> | enc1 <sexp stmt> | dec <hex> | plug <hex>
   every AST given is also checked against the hypothesis of the round-trip theorem: "| wf 1|0" *)
let handle (req : string) : string =
  let cmd, arg =
    match String.index_opt req ' ' with
    | Some i -> String.sub req 0 i, String.sub req (i+1) (String.length req - i - 1)
    | None -> req, "" in
  match cmd with
  | "enc" ->
      (match parse_sexps arg with
       | [Ls l] ->
           faithful := true;
           let ss = List.map stmt_of l in
           show_res (fun bs -> "enc " ^ hex_of_bytes bs) (encode ss) ^ " | " ^ wf_flag (wfb_block ss)
       | _ -> "badreq")
  | "enc1" ->
      (match parse_sexps arg with
       | [x] ->
           faithful := true;
           let s = stmt_of x in
           show_res (fun bs -> "enc " ^ hex_of_bytes bs) (encode1 s) ^ " | " ^ wf_flag (wfb_stmt s)
       | _ -> "badreq")
  | "dec" ->
      show_res (fun ss -> "ok " ^ sexp_to_string (Ls (List.map sexp_of_stmt ss))) (decode (bytes_of_hex arg))
  | "plug" -> plug_all (bytes_of_hex arg)
  | _ -> "badreq"

let () = serve handle
