(* driver of the extracted C11 models
   inc ((<id> L|B (s <tag>)|(i <id>)|(b item ...) ...) ...) ((s <tag>)|(i <id>)|(b item ...) ...)
       -> ok (s t) (m id) (c id) (f id) ... | outoffuel | crash | err
   infer <seed> ((<name> <fastly 0|1> <scope decimal> <callee> ...) ...)
       -> ok ((<name> <scopes>) ...) cyc (<name> ...) | ...
   the key order of every round / of the detection loop is a pseudo-random shuffle drawn from <seed> *)
open Common
open Lintdet_model

let rec nat_of_int (i : int) : nat = if i <= 0 then O else S (nat_of_int (i - 1))
let rec int_of_nat = function O -> 0 | S n -> 1 + int_of_nat n
let rec pos_of_int (i : int) : positive =
  if i = 1 then XH else if i land 1 = 0 then XO (pos_of_int (i lsr 1)) else XI (pos_of_int (i lsr 1))
let n_of_int i = if i = 0 then N0 else Npos (pos_of_int i)
let rec int_of_pos = function XH -> 1 | XO p -> 2 * int_of_pos p | XI p -> 2 * int_of_pos p + 1
let int_of_n = function N0 -> 0 | Npos p -> int_of_pos p

let atom_int = function At a -> int_of_string a | _ -> failwith "expected number"

let rec item_of = function
  | Ls [At "s"; t] -> Stmt (nat_of_int (atom_int t))
  | Ls [At "i"; t] -> Inc (nat_of_int (atom_int t))
  | Ls (At "b" :: items) -> Blk (List.map item_of items)
  | _ -> failwith "item"

let mod_of = function
  | Ls (id :: At "L" :: items) -> (nat_of_int (atom_int id), Loaded (List.map item_of items))
  | Ls [id; At "B"] -> (nat_of_int (atom_int id), Broken)
  | _ -> failwith "module"

let ev_str = function
  | EStmt t -> Printf.sprintf "(s %d)" (int_of_nat t)
  | EMissing t -> Printf.sprintf "(m %d)" (int_of_nat t)
  | ECycle t -> Printf.sprintf "(c %d)" (int_of_nat t)
  | EFatal t -> Printf.sprintf "(f %d)" (int_of_nat t)

let res_str f = function
  | OK x -> "ok " ^ f x
  | Err -> "err"
  | Crash -> "crash"
  | OutOfFuel -> "outoffuel"

(* deterministic shuffle of a list from an integer seed (LCG + Fisher-Yates) *)
let shuffle (seed : int) (l : 'a list) : 'a list =
  let a = Array.of_list l in
  let st = ref ((seed * 2654435761 + 12345) land 0x3fffffff) in
  let next () = st := (!st * 1103515245 + 12345) land 0x3fffffff; !st lsr 8 in
  for i = Array.length a - 1 downto 1 do
    let j = next () mod (i + 1) in
    let t = a.(i) in a.(i) <- a.(j); a.(j) <- t
  done;
  Array.to_list a

let decl_of = function
  | Ls (n :: f :: sc :: cs) ->
    (* <fastly>: 0 plain, 1 Fastly lifecycle name, 2 name rejected at registration (builtin function / namespace) *)
    { d_name = nat_of_int (atom_int n); d_fastly = (atom_int f = 1); d_rejected = (atom_int f = 2);
      d_scope = n_of_int (atom_int sc);
      d_callees = List.map (fun c -> nat_of_int (atom_int c)) cs }
  | _ -> failwith "decl"

let handle (req : string) : string =
  match parse_sexps req with
  | [At "inc"; Ls tbl; Ls main] ->
    res_str (fun evs -> String.concat " " (List.map ev_str evs))
      (resolve_table (List.map mod_of tbl) (List.map item_of main))
  | [At "infer"; seed; Ls ds] ->
    let seed = atom_int seed in
    let ds = List.map decl_of ds in
    let perm i keys = if seed = 0 then keys else shuffle (seed * 1000 + int_of_nat i) keys in
    let r1 = infer_program (nat_of_int 10) ds perm in
    let r2 = detect_program ds (fun keys -> if seed = 0 then keys else shuffle (seed * 7919) keys) in
    res_str (fun l -> "(" ^ String.concat " " (List.map (fun (n, s) -> Printf.sprintf "(%d %d)" (int_of_nat n) (int_of_n s)) l) ^ ")") r1
    ^ " cyc " ^
    res_str (fun l -> "(" ^ String.concat " " (List.map string_of_int (List.sort_uniq compare (List.map int_of_nat l))) ^ ")") r2
  | _ -> "badreq"

let () = serve handle
