(* Driver of the extracted store model (C13): S-expression program in, trace of snapshots out.
   request:  run <cfg: repaired|original> <fuel> <number of http objects> (prog (globals v...) (subs (sub f (params (k ty)...) ret|_ (body s...))...) (main s...))
   reply  :  <status> (snaps (snap depth (locals (k v)...) (globals v...) (groups v...) (hdrs ((o h) "hex")...))...) (logs "hex"...)
             status = norm | bare | val | err | crash | fuel   (no state after err/crash/fuel) *)
open Common
open Store_model

let rec pos_of_int (i : int) : positive =
  if i = 1 then XH else if i land 1 = 0 then XO (pos_of_int (i lsr 1)) else XI (pos_of_int (i lsr 1))
let n_of_int i = if i = 0 then N0 else Npos (pos_of_int i)
let rec int_of_pos = function XH -> 1 | XO p -> 2 * int_of_pos p | XI p -> 2 * int_of_pos p + 1
let int_of_n = function N0 -> 0 | Npos p -> int_of_pos p
let rec nat_of_int i = if i <= 0 then O else S (nat_of_int (i - 1))
let rec int_of_nat = function O -> 0 | S n -> 1 + int_of_nat n

let byte_of_int i = n2b (n_of_int i)
let int_of_byte b = int_of_n (b2n b)
let str_of_hex h = List.map byte_of_int (ints_of_hex h)
let hex_of_str l = hex_of_ints (List.map int_of_byte l)

(* "x%016x" (64-bit pattern) <-> Z, bit by bit *)
let z_of_x (s : string) : z =
  let bits = ref [] in
  for i = 1 to String.length s - 1 do
    let d = hexdigit s.[i] in
    bits := (d land 1 = 1) :: (d land 2 = 2) :: (d land 4 = 4) :: (d land 8 = 8) :: !bits
  done;
  let rec build (l : bool list) : positive option =
    match l with
    | [] -> None
    | b :: t ->
      (match build t with
       | None -> if b then Some XH else None
       | Some p -> Some (if b then XI p else XO p)) in
  match build !bits with None -> Z0 | Some p -> Zpos p
let x_of_z (v : z) : string =
  let rec bits p = match p with XH -> [true] | XO q -> false :: bits q | XI q -> true :: bits q in
  let l = match v with Z0 -> [] | Zpos p -> bits p | Zneg _ -> failwith "negative" in
  let arr = Array.make 64 false in
  List.iteri (fun i b -> if i < 64 then arr.(i) <- b else if b then failwith "x_of_z: >64 bits") l;
  let b = Buffer.create 17 in
  Buffer.add_char b 'x';
  for d = 15 downto 0 do
    let v = (if arr.(4*d) then 1 else 0) + (if arr.(4*d+1) then 2 else 0)
            + (if arr.(4*d+2) then 4 else 0) + (if arr.(4*d+3) then 8 else 0) in
    Buffer.add_string b (Printf.sprintf "%x" v)
  done;
  Buffer.contents b

let int_of = function At s -> int_of_string s | _ -> failwith "expected int"
let n_of x = n_of_int (int_of x)
let bool_of = function At "1" -> true | At "0" -> false | _ -> failwith "expected bool"
let str_of = function Sq h -> str_of_hex h | _ -> failwith "expected string"
let signed_of = function At x -> of_bits64 (z_of_x x) | _ -> failwith "expected x-number"
let bits_of = function At x -> z_of_x x | _ -> failwith "expected x-number"

let ty_of = function
  | At "I" -> TInt | At "F" -> TFloat | At "S" -> TStr | At "B" -> TBool | At "R" -> TRTime
  | At "T" -> TOpaque (n_of (At "0")) | At "P" -> TOpaque (n_of (At "1"))
  | At "K" -> TOpaque (n_of (At "2")) | At "A" -> TOpaque (n_of (At "3"))
  | _ -> failwith "bad type"
let val_of = function
  | Ls [At "I"; x; l] -> VInt (signed_of x, bool_of l)
  | Ls [At "F"; x; l] -> VFloat (bits_of x, bool_of l)
  | Ls [At "S"; s; ns; l] -> VStr0 (str_of s, bool_of ns, bool_of l)
  | Ls [At "B"; b; l] -> VBool (bool_of b, bool_of l)
  | Ls [At "R"; x; l] -> VRTime (signed_of x, bool_of l)
  | Ls [At "O"; k; s] -> VOpaque (n_of k, str_of s)
  | x -> failwith ("bad value " ^ sexp_to_string x)
let name_of = function
  | Ls [At "l"; k] -> NLocal (n_of k)
  | Ls [At "g"; k] -> NGlobal (n_of k)
  | Ls [At "h"; o; h] -> NHeader (n_of o, n_of h)
  | Ls [At "f"; o; h; k] -> NField (n_of o, n_of h, n_of k)
  | Ls [At "r"; j] -> NGroup (nat_of_int (int_of j))
  | x -> failwith ("bad name " ^ sexp_to_string x)
let binop_of = function
  | At "==" -> BEq | At "!=" -> BNe | At "<" -> BLt | At ">" -> BGt | At "<=" -> BLe | At ">=" -> BGe
  | At "&&" -> BAnd | At "||" -> BOr | _ -> failwith "bad binop"
let aop_of = function
  | At "=" -> AEq | At "+=" -> AAdd | At "-=" -> ASub | At "*=" -> AMul | At "||=" -> ALor | At "&&=" -> ALand
  | _ -> failwith "bad aop"
let pat_of = function
  | Ls [At "pre"; s] -> PPrefix (str_of s)
  | Ls [At "spl"; c] -> PSplit (byte_of_int (int_of c))
  | _ -> failwith "bad pat"
let atom_of = function
  | Ls [At "s"; s] -> ALit (str_of s)
  | Ls [At "v"; x] -> AVar (name_of x)
  | _ -> failwith "bad atom"
let rec expr_of (x : sexp) : expr =
  match x with
  | Ls [At "var"; n] -> EVar (name_of n)
  | Ls [At "lit"; v] -> ELit (val_of v)
  | Ls [At "not"; e] -> ENot (expr_of e)
  | Ls [At "neg"; e] -> ENeg (expr_of e)
  | Ls [At "pos"; e] -> EPos (expr_of e)
  | Ls [At "grp"; e] -> EGroup (expr_of e)
  | Ls [At "bin"; op; a; b] -> EBin (binop_of op, expr_of a, expr_of b)
  | Ls [At "match"; ng; a; p] -> EMatch (bool_of ng, expr_of a, pat_of p)
  | Ls (At "cat" :: xs) -> EConcat (List.map atom_of xs)
  | Ls [At "if"; c; a; b] -> EIf (expr_of c, expr_of a, expr_of b)
  | Ls (At "bi" :: f :: args) -> EBuiltin (n_of f, List.map expr_of args)
  | Ls (At "call" :: f :: args) -> ECall (n_of f, List.map expr_of args)
  | _ -> failwith ("bad expr " ^ sexp_to_string x)
let opt_expr = function At "_" -> None | e -> Some (expr_of e)
let rec stmt_of (x : sexp) : stmt =
  match x with
  | Ls [At "decl"; k; t; i] -> SDeclare (n_of k, ty_of t, opt_expr i)
  | Ls [At "set"; n; op; e] -> SSet (name_of n, aop_of op, expr_of e)
  | Ls [At "unset"; n] -> SUnset (name_of n)
  | Ls [At "log"; e] -> SLog (expr_of e)
  | Ls [At "if"; c; Ls th; Ls elifs; el] ->
      SIf (expr_of c, List.map stmt_of th,
           List.map (function Ls [c; Ls b] -> (expr_of c, List.map stmt_of b) | _ -> failwith "bad elif") elifs,
           (match el with At "_" -> None | Ls b -> Some (List.map stmt_of b) | _ -> failwith "bad else"))
  | Ls (At "call" :: f :: args) -> SCall (n_of f, List.map expr_of args)
  | Ls [At "ret"; e] -> SReturn (opt_expr e)
  | Ls [At "retstate"; n] -> SReturnState (n_of n)
  | Ls [At "nop"] -> SNop
  | Ls [At "add"; o; h; e] -> SAdd (n_of o, n_of h, expr_of e)
  | Ls [At "restart"; ok] -> SRestart (bool_of ok)
  | Ls [At "unsetwild"; o; pre] -> SUnsetWild (n_of o, str_of pre)
  | Ls [At "synth"; gb; e] -> SSynthetic (n_of gb, expr_of e)
  | Ls [At "error"; ok; gs; gr; c; a] -> SError (bool_of ok, n_of gs, n_of gr, opt_expr c, opt_expr a)
  | Ls (At "switch" :: c :: d :: cases) ->
      SSwitch (expr_of c,
               List.map (function
                 | Ls [At "case"; t; ft; Ls b] ->
                     (((match t with
                        | At "_" -> CDefault
                        | Ls [At "str"; s] -> CStr (str_of s)
                        | Ls [At "re"; p] -> CMatch (pat_of p)
                        | _ -> failwith "bad case test"), List.map stmt_of b), bool_of ft)
                 | _ -> failwith "bad case") cases,
               (match d with At "_" -> None | n -> Some (nat_of_int (int_of n))))
  | _ -> failwith ("bad stmt " ^ sexp_to_string x)
let sub_of = function
  | Ls [At "sub"; f; Ls (At "params" :: ps); r; Ls (At "body" :: b)] ->
      (n_of f, { s_params = List.map (function Ls [k; t] -> (n_of k, ty_of t) | _ -> failwith "bad param") ps;
                 s_ret = (match r with At "_" -> None | t -> Some (ty_of t));
                 s_body = List.map stmt_of b })
  | x -> failwith ("bad sub " ^ sexp_to_string x)

(* ---- output *)
let sb b = At (if b then "1" else "0")
let sval = function
  | VInt (z, l) -> Ls [At "I"; At (x_of_z (to_bits64 z)); sb l]
  | VFloat (z, l) -> Ls [At "F"; At (x_of_z z); sb l]
  | VStr0 (s, ns, l) -> Ls [At "S"; Sq (hex_of_str s); sb ns; sb l]
  | VBool (b, l) -> Ls [At "B"; sb b; sb l]
  | VRTime (z, l) -> Ls [At "R"; At (x_of_z (to_bits64 z)); sb l]
  | VOpaque (k, s) -> Ls [At "O"; At (string_of_int (int_of_n k)); Sq (hex_of_str s)]
let soval = function Some v -> sval v | None -> Ls [At "dangling"]
let nobjs = ref 0
let ssnap (s : snapshot) : sexp =
  let fields =
    List.concat (List.init !nobjs (fun o -> List.concat (List.init 2 (fun h ->
      let t = (match hget (n_of_int o, n_of_int h) s.sn_hdrs with Some t -> t | None -> []) in
      List.map (fun k -> sval (field_of_text t (n_of_int k))) [1; 2])))) in
  Ls [At "snap"; At (string_of_int (int_of_nat s.sn_depth));
      Ls (At "locals" :: List.map (fun (k, v) -> Ls [At (string_of_int (int_of_n k)); soval v]) s.sn_locals);
      Ls (At "globals" :: List.map (fun (_, v) -> soval v) s.sn_globals);
      Ls (At "groups" :: List.map soval s.sn_groups);
      Ls (At "hdrs" :: List.map (fun ((o, h), v) ->
            Ls [Ls [At (string_of_int (int_of_n o)); At (string_of_int (int_of_n h))]; Sq (hex_of_str v)]) s.sn_hdrs);
      Ls (At "fields" :: fields)]

let handle (req : string) : string =
  match parse_sexps req with
  | [At "run"; At cfgname; At fuel; At no;
     Ls [At "prog"; Ls (At "globals" :: gs); Ls (At "subs" :: subs); Ls (At "main" :: main)]] ->
      nobjs := int_of_string no;
      let c = (match cfgname with "repaired" -> repaired | "original" -> original | _ -> failwith "cfg") in
      let prog = List.map sub_of subs in
      let st0 = init_state (List.map val_of gs) in
      (match run_main c std_ops prog (nat_of_int (int_of_string fuel)) (List.map stmt_of main) st0 with
       | OK (o, st) ->
           let status = (match o with ONorm -> "norm" | OBare -> "bare" | OVal _ -> "val"
                                      | OState st -> "state" ^ string_of_int (int_of_n st)) in
           let snaps = List.rev (mk_snap st :: st.trace) in
           status ^ " " ^ sexp_to_string (Ls (At "snaps" :: List.map ssnap snaps))
           ^ " " ^ sexp_to_string (Ls (At "logs" :: List.map (fun l -> Sq (hex_of_str l)) st.logs))
       | Err -> "err" | Crash -> "crash" | OutOfFuel -> "fuel")
  | _ -> "badreq"

let () = serve handle
