open Common
open Sm_model

(* ---- numbers (decimal strings <-> extracted nat / N / Z), bit by bit ---- *)
let rec pos_of_int (i : int) : positive =
  if i = 1 then XH else if i land 1 = 0 then XO (pos_of_int (i lsr 1)) else XI (pos_of_int (i lsr 1))
let n_of_int i = if i = 0 then N0 else Npos (pos_of_int i)
let z_of_int i = if i = 0 then Z0 else if i > 0 then Zpos (pos_of_int i) else Zneg (pos_of_int (-i))
let rec int_of_pos = function XH -> 1 | XO p -> 2 * int_of_pos p | XI p -> 2 * int_of_pos p + 1
let int_of_n = function N0 -> 0 | Npos p -> int_of_pos p
let int_of_z = function Z0 -> 0 | Zpos p -> int_of_pos p | Zneg p -> - (int_of_pos p)
let rec nat_of_int i = if i <= 0 then O else S (nat_of_int (i - 1))
let rec int_of_nat = function O -> 0 | S n -> 1 + int_of_nat n

let atom = function At a -> a | x -> failwith ("expected atom: " ^ sexp_to_string x)
let num x = int_of_string (atom x)

let rstate_of = function
  | "lookup" -> SLookup | "pass" -> SPass | "hash" -> SHash | "error" -> SError | "restart" -> SRestart
  | "deliver" -> SDeliver | "fetch" -> SFetch | "deliver_stale" -> SDeliverStale
  | "hit_for_pass" -> SHitForPass | "end" -> SEnd | "upgrade" -> SUpgrade | "other" -> SOther
  | s -> failwith ("bad state " ^ s)
let action_of (s : string) : action =
  match s with
  | "absent" -> AAbsent | "none" -> ANone | "bare" -> ABare | "errstmt" -> AErrorStmt | "restartstmt" -> ARestartStmt | "fail" -> AFail
  | _ when String.length s > 2 && String.sub s 0 2 = "r-" -> ARet (rstate_of (String.sub s 2 (String.length s - 2)))
  | _ -> failwith ("bad action " ^ s)

let scope_index = function
  | Recv -> 0 | Hash -> 1 | Hit -> 2 | Miss -> 3 | Pass -> 4 | Fetch -> 5 | Error -> 6 | Deliver -> 7 | Log -> 8
let scope_name = function
  | Recv -> "recv" | Hash -> "hash" | Hit -> "hit" | Miss -> "miss" | Pass -> "pass" | Fetch -> "fetch"
  | Error -> "error" | Deliver -> "deliver" | Log -> "log"

(* a table indexed by req.restarts; beyond its end the last entry is used *)
let by_restarts (l : 'a list) (r : nat) : 'a =
  let i = int_of_nat r in
  let n = List.length l in
  List.nth l (if i < n then i else n - 1)

let op_of = function
  | Ls [At "incr"; k; d] -> OIncr (n_of_int (num k), z_of_int (num d))
  | Ls [At "pbadd"; k; t] -> OPbAdd (n_of_int (num k), z_of_int (num t))
  | Ls [At "pbhas"; k] -> OPbHas (n_of_int (num k))
  | Ls [At "check"; k; kpb; d; w; l; t] ->
      OCheck (n_of_int (num k), n_of_int (num kpb), z_of_int (num d), z_of_int (num w), z_of_int (num l), z_of_int (num t))
  | x -> failwith ("bad op " ^ sexp_to_string x)

let req_of (x : sexp) =
  match x with
  | Ls [At "req"; now; be; Ls (At "orc" :: tabs); Ls (At "hash" :: hs); Ls (At "bresp" :: bs);
        Ls (At "hit" :: ts); Ls (At "ops" :: os); Ls (At "err" :: es)] ->
      let tabs = List.map (function Ls l -> List.map (fun a -> action_of (atom a)) l | _ -> failwith "orc") tabs in
      let orc sc r = by_restarts (List.nth tabs (scope_index sc)) r in
      let hs = List.map (fun h -> n_of_int (num h)) hs in
      let bs = List.map (function At "x" -> None
                                | Ls [c; t] -> Some ((num c = 1), z_of_int (num t))
                                | _ -> failwith "bresp") bs in
      let ts = List.map (function At "x" -> None | t -> Some (z_of_int (num t))) ts in
      let os = List.map (function Ls l -> List.map op_of l | _ -> failwith "ops") os in
      let es = List.map (function Ls l -> List.map (function At "x" -> None | c -> Some (nat_of_int (num c))) l
                                  | _ -> failwith "err") es in
      let q = { q_now = z_of_int (num now); q_hash = by_restarts hs; q_backend = (num be = 1);
                q_bresp = by_restarts bs; q_hit_ttl = by_restarts ts; q_ops = by_restarts os;
                q_errcode = (fun sc r -> by_restarts (List.nth es (scope_index sc)) r) } in
      (orc, q)
  | _ -> failwith ("bad request " ^ sexp_to_string x)

let xst_name = function XNone -> "NONE" | XHit -> "HIT" | XMiss -> "MISS"

let show_report (r : report) : string =
  let flows = String.concat "," (List.map scope_name (r_flows r)) in
  Printf.sprintf "R flows=%s restarts=%d cached=%d xcache=%s xhits=%s status=%s error=%d obs=%s"
    flows (int_of_nat r.r_restarts) (if r.r_cached then 1 else 0)
    (match r.r_xcache with None -> "-" | Some x -> xst_name x)
    (match r.r_xhits with None -> "-" | Some h -> string_of_int (int_of_nat h))
    (match r.r_status with None -> "-" | Some k -> string_of_int (int_of_nat k))
    (if r.r_error then 1 else 0)
    (String.concat "," (List.map (fun z -> string_of_int (int_of_z z)) r.r_obs))

let show_persistent (now : z) (p : persistent) : string =
  let cache = List.sort compare (List.map (fun (k, it) ->
      (int_of_n k, (if stored_fresh now k p.p_cache then 1 else 0), int_of_nat it.hits)) p.p_cache) in
  let tot = Hashtbl.create 8 in
  List.iter (fun ((k, _), d) ->
      let k = int_of_n k in
      Hashtbl.replace tot k (int_of_z d + (try Hashtbl.find tot k with Not_found -> 0))) p.p_rc;
  let rc = List.sort compare (Hashtbl.fold (fun k v acc -> (k, v) :: acc) tot []) in
  let pb = List.sort compare (List.filter_map (fun (k, e) ->
      if int_of_z e < int_of_z now then None else Some (int_of_n k)) p.p_pb) in
  Printf.sprintf "P cache=%s rc=%s pb=%s"
    (String.concat ";" (List.map (fun (k, f, h) -> Printf.sprintf "%d:%d:%d" k f h) cache))
    (String.concat ";" (List.map (fun (k, v) -> Printf.sprintf "%d:%d" k v) rc))
    (String.concat ";" (List.map string_of_int pb))

let dnode_name = function
  | DRecv -> "recv" | DHashL -> "hashL" | DHashP -> "hashP" | DHit -> "hit" | DMiss -> "miss" | DPass -> "pass"
  | DFetch -> "fetch" | DError -> "error" | DDeliver -> "deliver" | DLog -> "log"
let outcome_name = function
  | OGo s -> "go-" ^ scope_name s | OLookup -> "lookup" | OEnd -> "end" | OErr -> "err"

let handle (line : string) : string =
  match parse_sexps line with
  | At "hist" :: final_now :: reqs ->
      let h = List.map req_of reqs in
      (match run_history h init with
       | OK (rs, p) ->
           String.concat " | " (List.map show_report rs @ [show_persistent (z_of_int (num final_now)) p])
       | Err -> "err" | Crash -> "crash" | OutOfFuel -> "outoffuel")
  | [At "maxrestarts"] -> string_of_int (int_of_nat max_varnish_restarts)
  | _ -> failwith "unknown request"

let () = serve handle
