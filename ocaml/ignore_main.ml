open Common
open Ignore_model

(* request:  "vcl (DECL ...)"   ->  "ok <path>:<rulehex> ..."   (report_vcl, emission order)
             "vclold (DECL ...)" ->  the same through report_vcl_unrepaired
             "parse <hex>"      ->  "none" | "<kind> <rulehex> ..."  (parse_ignore_comment)
   paths are child indices joined by '.', root-first (see Model/Ignore.v run). *)

let rec pos_of_int (i : int) : positive =
  if i = 1 then XH else if i land 1 = 0 then XO (pos_of_int (i lsr 1)) else XI (pos_of_int (i lsr 1))
let n_of_int i = if i = 0 then N0 else Npos (pos_of_int i)
let rec int_of_pos = function XH -> 1 | XO p -> 2 * int_of_pos p | XI p -> 2 * int_of_pos p + 1
let int_of_n = function N0 -> 0 | Npos p -> int_of_pos p
let byte_of_int i = n2b (n_of_int i)
let int_of_byte b = int_of_n (b2n b)
let bytes_of_hex h = List.map byte_of_int (ints_of_hex h)
let hex_of_bytes l = hex_of_ints (List.map int_of_byte l)
let rec int_of_nat = function O -> 0 | S n -> 1 + int_of_nat n

let str_of = function Sq h -> bytes_of_hex h | _ -> failwith "expected string"
let strs_of = function Ls l -> List.map str_of l | _ -> failwith "expected list of strings"

let meta_of = function
  | Ls [At "m"; a; b; c] -> { leading = strs_of a; trailing = strs_of b; infix = strs_of c }
  | _ -> failwith "meta"

let rec stmt_of (x : sexp) : stmt =
  match x with
  | Ls [At "simple"; m; now; later] -> SSimple (meta_of m, strs_of now, strs_of later)
  | Ls [At "if"; m; cond; blk; Ls others; alt] ->
      SIf (meta_of m, strs_of cond, block_of blk, List.map branch_of others,
           (match alt with At "_" -> None | b -> Some (branch_of b)))
  | Ls [At "switch"; m; ctrl; Ls cases] -> SSwitch (meta_of m, strs_of ctrl, List.map case_of cases)
  | _ -> failwith "stmt"
and block_of = function
  | Ls [At "block"; m; Ls ss] -> SBlock (meta_of m, List.map stmt_of ss)
  | _ -> failwith "block"
and branch_of = function
  | Ls [At "branch"; m; cond; blk] -> SBranch (meta_of m, strs_of cond, block_of blk)
  | _ -> failwith "branch"
and case_of = function
  | Ls [At "case"; m; Ls ss] -> SCase (meta_of m, List.map stmt_of ss)
  | _ -> failwith "case"

let decl_of = function
  | Ls [At "sub"; m; pre; later; blk] -> DSub (meta_of m, strs_of pre, strs_of later, block_of blk)
  | Ls [At "other"; m; now; later] -> DOther (meta_of m, strs_of now, strs_of later)
  | _ -> failwith "decl"

let show_diag (p, r) =
  String.concat "." (List.map (fun n -> string_of_int (int_of_nat n)) p) ^ ":" ^ hex_of_bytes r

let kind_name = function NextLine -> "next-line" | ThisLine -> "this-line" | Start -> "start" | End -> "end"

let handle (req : string) : string =
  match String.index_opt req ' ' with
  | None -> "badreq"
  | Some i ->
    let cmd = String.sub req 0 i and rest = String.sub req (i + 1) (String.length req - i - 1) in
    (match cmd with
     | "vcl" ->
        (match parse_sexps rest with
         | [Ls ds] -> String.trim ("ok " ^ String.concat " " (List.map show_diag (report_vcl (List.map decl_of ds))))
         | _ -> "badreq vcl")
     | "vclold" ->   (* the model of the code before the C12 repairs (Model/IgnoreLegacy.v) *)
        (match parse_sexps rest with
         | [Ls ds] -> String.trim ("ok " ^ String.concat " " (List.map show_diag (report_vcl_unrepaired (List.map decl_of ds))))
         | _ -> "badreq vclold")
     | "parse" ->
        (match parse_ignore_comment (bytes_of_hex (String.trim rest)) with
         | None -> "none"
         | Some (k, rs) -> String.trim (kind_name k ^ " " ^ String.concat " " (List.map hex_of_bytes rs)))
     | _ -> "badreq cmd")

let () = serve handle
