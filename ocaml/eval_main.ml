open Common
open Eval_model

(* ---- numbers: hex / decimal text <-> extracted positive / N / Z, bit by bit ---- *)
let bits_of_hex (s : string) : bool list =   (* LSB first *)
  let bits = ref [] in
  for i = 0 to String.length s - 1 do
    let d = hexdigit s.[i] in
    bits := (d land 1 = 1) :: (d land 2 = 2) :: (d land 4 = 4) :: (d land 8 = 8) :: !bits
  done; !bits
let rec pos_of_bits (l : bool list) : positive option =
  match l with
  | [] -> None
  | b :: t -> (match pos_of_bits t with
               | None -> if b then Some XH else None
               | Some p -> Some (if b then XI p else XO p))
let n_of_hex s = match pos_of_bits (bits_of_hex s) with None -> N0 | Some p -> Npos p
let z_of_hex s =
  if String.length s > 0 && s.[0] = '-' then
    (match pos_of_bits (bits_of_hex (String.sub s 1 (String.length s - 1))) with None -> Z0 | Some p -> Zneg p)
  else (match pos_of_bits (bits_of_hex s) with None -> Z0 | Some p -> Zpos p)
let rec bits_of_pos p = match p with XH -> [true] | XO q -> false :: bits_of_pos q | XI q -> true :: bits_of_pos q
let hex_of_bits (l : bool list) : string =
  let a = Array.of_list l in
  let n = Array.length a in
  if n = 0 then "0" else begin
    let nd = (n + 3) / 4 in
    let b = Buffer.create nd in
    for d = nd - 1 downto 0 do
      let g i = if 4*d+i < n && a.(4*d+i) then 1 lsl i else 0 in
      Buffer.add_string b (Printf.sprintf "%x" (g 0 + g 1 + g 2 + g 3))
    done; Buffer.contents b end
let hex_of_z (v : z) : string =
  match v with Z0 -> "0" | Zpos p -> hex_of_bits (bits_of_pos p) | Zneg p -> "-" ^ hex_of_bits (bits_of_pos p)
let hex_of_n (v : n) : string = match v with N0 -> "0" | Npos p -> hex_of_bits (bits_of_pos p)

let split_on c s = String.split_on_char c s

(* ---- acl ---- *)
let fam_of = function "4" -> V4 | "6" -> V6 | _ -> failwith "family"
let addr_of (s : string) : addr =
  match split_on ':' s with
  | [f; h] -> { afam = fam_of f; abits = n_of_hex h }
  | _ -> failwith "addr"
let entry_of (s : string) : entry =
  match split_on ':' s with
  | [n; f; h; m] ->
      { eneg = (n = "1"); eaddr = { afam = fam_of f; abits = n_of_hex h };
        emask = (if m = "_" then None else Some (z_of_hex m)) }
  | _ -> failwith "entry"
let res_bool (r : bool res) : string =
  match r with OK true -> "1" | OK false -> "0" | Err -> "err" | Crash -> "crash" | OutOfFuel -> "outoffuel"

let handle_acl (which : string) (rest : string list) : string =
  match rest with
  | [es; ip] ->
      let l = if es = "-" then [] else List.map entry_of (split_on ',' es) in
      let one ip =
        let a = addr_of ip in
        (match which with
         | "acl" -> res_bool (impl_match l a)
         | "aclspec" -> res_bool (spec_match l a)
         | _ -> res_bool (old_match l a)) in
      "ok " ^ String.concat " " (List.map one (split_on ',' ip))
  | _ -> failwith "acl request"

let handle (req : string) : string =
  match split_on ' ' req with
  | ("acl" | "aclspec" | "aclold" as w) :: rest -> handle_acl w rest
  | _ -> failwith "unknown request"

let () = serve handle
