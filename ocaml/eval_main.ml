open Common
open Eval_model

(* ---- numbers: hex / decimal text <-> extracted positive / N / Z, bit by bit ---- *)
let bits_of_hex (s : string) : bool list =   (* LSB first *)
  let bits = ref [] in
  for i = 0 to String.length s - 1 do
    let d = Common.hexdigit s.[i] in
    bits := (d land 1 = 1) :: (d land 2 = 2) :: (d land 4 = 4) :: (d land 8 = 8) :: !bits
  done; !bits
let rec pos_of_bits (l : bool list) : positive option =
  match l with
  | [] -> None
  | b :: t -> (match pos_of_bits t with
               | None -> if b then Some XH else None
               | Some p -> Some (if b then XI p else XO p))
let n_of_hex s = match pos_of_bits (bits_of_hex s) with None -> N0 | Some p -> Npos p
let z_of_hex s =
  if String.length s > 0 && s.[0] = '-' then
    (match pos_of_bits (bits_of_hex (String.sub s 1 (String.length s - 1))) with None -> Z0 | Some p -> Zneg p)
  else (match pos_of_bits (bits_of_hex s) with None -> Z0 | Some p -> Zpos p)
let rec bits_of_pos p = match p with XH -> [true] | XO q -> false :: bits_of_pos q | XI q -> true :: bits_of_pos q
let hex_of_bits (l : bool list) : string =
  let a = Array.of_list l in
  let n = Array.length a in
  if n = 0 then "0" else begin
    let nd = (n + 3) / 4 in
    let b = Buffer.create nd in
    for d = nd - 1 downto 0 do
      let g i = if 4*d+i < n && a.(4*d+i) then 1 lsl i else 0 in
      Buffer.add_string b (Printf.sprintf "%x" (g 0 + g 1 + g 2 + g 3))
    done; Buffer.contents b end
let hex_of_z (v : z) : string =
  match v with Z0 -> "0" | Zpos p -> hex_of_bits (bits_of_pos p) | Zneg p -> "-" ^ hex_of_bits (bits_of_pos p)
let hex_of_n (v : n) : string = match v with N0 -> "0" | Npos p -> hex_of_bits (bits_of_pos p)

let split_on c s = String.split_on_char c s

(* ---- acl ---- *)
let fam_of = function "4" -> V4 | "6" -> V6 | _ -> failwith "family"
let addr_of (s : string) : addr =
  match split_on ':' s with
  | [f; h] -> { afam = fam_of f; abits = n_of_hex h }
  | _ -> failwith "addr"
let entry_of (s : string) : entry =
  match split_on ':' s with
  | [n; f; h; m] ->
      { eneg = (n = "1"); eaddr = { afam = fam_of f; abits = n_of_hex h };
        emask = (if m = "_" then None else Some (z_of_hex m)) }
  | _ -> failwith "entry"
let res_bool (r : bool res) : string =
  match r with OK true -> "1" | OK false -> "0" | Err -> "err" | Crash -> "crash" | OutOfFuel -> "outoffuel"

let handle_acl (which : string) (rest : string list) : string =
  match rest with
  | [es; ip] ->
      let l = if es = "-" then [] else List.map entry_of (split_on ',' es) in
      let one ip =
        let a = addr_of ip in
        (match which with
         | "acl" -> res_bool (impl_match l a)
         | "aclspec" -> res_bool (spec_match l a)
         | _ -> res_bool (old_match l a)) in
      "ok " ^ String.concat " " (List.map one (split_on ',' ip))
  | _ -> failwith "acl request"

(* ---- decimal text <-> Z (schoolbook, no bignum library) ---- *)
let bits_of_dec (s : string) : bool list =     (* s: decimal digits, non-negative; LSB first *)
  let d = Array.init (String.length s) (fun i -> Char.code s.[i] - 48) in
  let n = Array.length d in
  let bits = ref [] in
  let start = ref 0 in
  while !start < n do
    let carry = ref 0 in
    for i = !start to n - 1 do
      let v = !carry * 10 + d.(i) in
      d.(i) <- v / 2; carry := v mod 2
    done;
    bits := (!carry = 1) :: !bits;
    while !start < n && d.(!start) = 0 do incr start done
  done;
  List.rev !bits
let z_of_dec (s : string) : z =
  if s <> "" && s.[0] = '-' then
    (match pos_of_bits (bits_of_dec (String.sub s 1 (String.length s - 1))) with None -> Z0 | Some p -> Zneg p)
  else (match pos_of_bits (bits_of_dec s) with None -> Z0 | Some p -> Zpos p)
let dec_of_bits (l : bool list) : string =       (* LSB first *)
  let digits = ref [0] in                        (* little endian decimal *)
  List.iter (fun b ->
    let carry = ref (if b then 1 else 0) in
    digits := List.map (fun d -> let v = 2 * d + !carry in carry := v / 10; v mod 10) !digits;
    if !carry > 0 then digits := !digits @ [!carry]) (List.rev l);
  String.concat "" (List.rev_map string_of_int !digits)
let dec_of_z (v : z) : string =
  match v with Z0 -> "0" | Zpos p -> dec_of_bits (bits_of_pos p) | Zneg p -> "-" ^ dec_of_bits (bits_of_pos p)

(* ---- strings ---- *)
let rec pos_of_int (i : int) : positive =
  if i = 1 then XH else if i land 1 = 0 then XO (pos_of_int (i lsr 1)) else XI (pos_of_int (i lsr 1))
let n_of_int i = if i = 0 then N0 else Npos (pos_of_int i)
let rec int_of_pos = function XH -> 1 | XO p -> 2 * int_of_pos p | XI p -> 2 * int_of_pos p + 1
let int_of_n = function N0 -> 0 | Npos p -> int_of_pos p
let str_of_hex (h : string) = List.map (fun i -> n2b (n_of_int i)) (ints_of_hex h)
let hex_of_str l = hex_of_ints (List.map (fun b -> int_of_n (b2n b)) l)

(* ---- cell values (model-side text; the check translates from/to the harness text) ----
   I:<dec>:<nan><ninf><pinf>  F:<hex bits>|nan:<flags>  S:<hex>:<notset>  B:<0|1>  R:<dec ns>
   T:<dec ext>:<dec nsec>:<oob>  P:nil:<notset> | P:<4|6>:<hex>:<notset>  K:nil | K:<hex>
   A:<hex name>:<entries neg;fam;hexbits;mask,...> *)
let b01 c = (c = '1')
let s01 b = if b then "1" else "0"

let val_of (s : string) : val0 =
  match split_on ':' s with
  | ["I"; d; f] -> VInt (z_of_dec d, b01 f.[0], b01 f.[1], b01 f.[2])
  | ["F"; h; f] -> VFloat (sf_of_bits (z_of_hex h), b01 f.[0], b01 f.[1], b01 f.[2])
  | ["S"; h; n] -> VStr (str_of_hex h, n = "1")
  | ["B"; b] -> VBool (b = "1")
  | ["R"; d] -> VRTime (z_of_dec d)
  | ["T"; ext; ns; oob] -> VTime (z_of_dec ext, z_of_dec ns, oob = "1")
  | ["P"; "nil"; n] -> VIp (None, n = "1")
  | ["P"; f; h; n] -> VIp (Some { afam = fam_of f; abits = n_of_hex h }, n = "1")
  | ["K"; "nil"] -> VBackend None
  | ["K"; h] -> VBackend (Some (str_of_hex h))
  | ["A"; h; es] ->
      let ent e = entry_of (String.map (fun c -> if c = ';' then ':' else c) e) in
      VAcl (str_of_hex h, (if es = "-" then [] else List.map ent (split_on ',' es)))
  | _ -> failwith ("bad value " ^ s)

let is_nan_sf (f : spec_float) = match f with S754_nan -> true | _ -> false

let show_val (v : val0) : string =
  let fl a b c = s01 a ^ s01 b ^ s01 c in
  match v with
  | VInt (z, a, b, c) -> "I:" ^ dec_of_z z ^ ":" ^ fl a b c
  | VFloat (f, a, b, c) -> "F:" ^ (if is_nan_sf f then "nan" else hex_of_z (bits_of_sf f)) ^ ":" ^ fl a b c
  | VStr (s, n) -> "S:" ^ hex_of_str s ^ ":" ^ s01 n
  | VBool b -> "B:" ^ s01 b
  | VRTime z -> "R:" ^ dec_of_z z
  | VTime (e, n, o) -> "T:" ^ dec_of_z e ^ ":" ^ dec_of_z n ^ ":" ^ s01 o
  | VIp (None, n) -> "P:nil:" ^ s01 n
  | VIp (Some a, n) -> "P:" ^ (match a.afam with V4 -> "4" | V6 -> "6") ^ ":" ^ hex_of_n a.abits ^ ":" ^ s01 n
  | VBackend None -> "K:nil"
  | VBackend (Some s) -> "K:" ^ hex_of_str s
  | VAcl (s, _) -> "A:" ^ hex_of_str s

let operand_of (s : string) : operand =
  { oval = val_of (String.sub s 1 (String.length s - 1)); olit = (s.[0] = 'l') }

let aop_of = function
  | "set" -> OpSet | "add" -> OpAdd | "sub" -> OpSub | "mul" -> OpMul | "div" -> OpDiv | "rem" -> OpRem
  | "or" -> OpOr | "and" -> OpAnd | "xor" -> OpXor | "shl" -> OpShl | "shr" -> OpShr | "rol" -> OpRol
  | "ror" -> OpRor | "lor" -> OpLOr | "land" -> OpLAnd | s -> failwith ("aop " ^ s)
let bop_of = function
  | "eq" -> BEq | "ne" -> BNe | "lt" -> BLt | "gt" -> BGt | "le" -> BLe | "ge" -> BGe
  | "match" -> BMatch | "nmatch" -> BNMatch | "and" -> BAnd | "or" -> BOr | "concat" -> BConcat
  | s -> failwith ("bop " ^ s)

(* oracle answers obtained by the implementation: pip0= pip1= (net.ParseIP of the left / right
   string operand), re= (pattern = right string, subject = left string) *)
let str_of_operand (o : operand) = match o.oval with VStr (s, _) -> Some s | _ -> None
let oracles (l : operand) (r : operand) (extra : string list) =
  let get k = List.fold_left (fun acc e ->
      let kl = String.length k in
      if String.length e > kl && String.sub e 0 (kl + 1) = k ^ "=" then Some (String.sub e (kl + 1) (String.length e - kl - 1)) else acc) None extra in
  let addr_opt = function
    | None -> failwith "missing ParseIP oracle answer"
    | Some "nil" -> None
    | Some a -> Some (addr_of a) in
  let parse_ip (s : byte list) : addr option =
    if str_of_operand l = Some s then addr_opt (get "pip0")
    else if str_of_operand r = Some s then addr_opt (get "pip1")
    else failwith "ParseIP oracle asked about an unknown string" in
  let re_match (_ : byte list) (_ : byte list) : bool option =
    match get "re" with Some "1" -> Some true | Some "0" -> Some false | Some "x" -> None
                      | _ -> failwith "missing regex oracle answer" in
  (parse_ip, re_match)

let handle_cell (rest : string list) : string =
  match rest with
  | kind :: op :: ls :: rs :: extra ->
      let l = operand_of ls and r = operand_of rs in
      let (parse_ip, re_match) = oracles l r extra in
      (match kind with
       | "a" ->
           (match local_set parse_ip (aop_of op) l.oval r with
            | AOk v -> "ok " ^ show_val v
            | AErr v -> "err " ^ show_val v
            | ACrash -> "crash")
       | "o" | "c" ->
           (match oper parse_ip re_match (bop_of op) l r with
            | OK v -> "ok " ^ show_val v
            | Err -> "err"
            | Crash -> "crash"
            | OutOfFuel -> "outoffuel")
       | _ -> failwith "cell kind")
  | _ -> failwith "cell request"

(* ---- C08: call depth / restarts / includes ---- *)
let rec nat_of_int (i : int) : nat = if i <= 0 then O else S (nat_of_int (i - 1))
let rec int_of_nat = function O -> 0 | S n -> 1 + int_of_nat n

let xstate_of = function
  | "none" -> XNone | "lookup" -> XLookup | "pass" -> XPass | "error" -> XErrorSt
  | "restart" -> XRestartSt | "deliver" -> XDeliver | s -> failwith ("state " ^ s)
let xstate_text = function
  | XNone -> "none" | XLookup -> "lookup" | XPass -> "pass" | XErrorSt -> "error"
  | XRestartSt -> "restart" | XDeliver -> "deliver"

let rec xstmt_of (x : sexp) : xstmt =
  match x with
  | Ls [At "skip"] -> XSkip
  | Ls [At "call"; At n] -> XCall (nat_of_int (int_of_string n))
  | Ls [At "if"; At c; Ls t; Ls e] -> XIf (c = "1", List.map xstmt_of t, List.map xstmt_of e)
  | Ls [At "ifr"; At k; Ls t; Ls e] -> XIfRestartsLt (nat_of_int (int_of_string k), List.map xstmt_of t, List.map xstmt_of e)
  | Ls [At "restart"] -> XRestart
  | Ls [At "ret"; At s] -> XReturn (xstate_of s)
  | Ls [At "error"] -> XError
  | _ -> failwith ("bad xstmt " ^ sexp_to_string x)

(* sim <sexp of subs> : ((stmt ...) (stmt ...) ...)  ->  ok <state> <restarts> | err *)
let handle_sim (rest : string) : string =
  match parse_sexps rest with
  | [Ls subs] ->
      let subs = List.map (function Ls l -> List.map xstmt_of l | _ -> failwith "sub") subs in
      (match Eval_model.serve subs maxCallStackExceedCount maxVarnishRestarts (S maxVarnishRestarts) O with
       | OK (st, n) -> "ok " ^ xstate_text st ^ " " ^ string_of_int (int_of_nat n)
       | Err -> "err" | Crash -> "crash" | OutOfFuel -> "outoffuel")
  | _ -> failwith "sim request"

(* inc <m0>|<m1>|... <top> : items i<n> include, s<tag> statement; "-" = empty -> ok <count> | err *)
let items_of (s : string) : item list =
  if s = "-" then [] else
  List.map (fun w ->
    let n = nat_of_int (int_of_string (String.sub w 1 (String.length w - 1))) in
    if w.[0] = 'i' then IInclude n else IStmt n) (split_on ',' s)
let handle_inc (rest : string list) : string =
  match rest with
  | [ms; top] ->
      let mods = if ms = "." then [] else List.map items_of (split_on '|' ms) in
      (match resolve (S (nat_of_int (List.length mods))) mods [] (items_of top) with
       | OK out -> "ok " ^ string_of_int (List.length out)
       | Err -> "err" | Crash -> "crash" | OutOfFuel -> "outoffuel")
  | _ -> failwith "inc request"

(* ---- C07: programs over local variables (Model/Eval.v) ---- *)
let vtype_of = function
  | "INTEGER" -> TInt | "FLOAT" -> TFloat | "STRING" -> TStr | "BOOL" -> TBool | "RTIME" -> TRTime
  | "TIME" -> TTime | "IP" -> TIp | "BACKEND" -> TBackend | "ACL" -> TAcl | s -> failwith ("type " ^ s)
let rexp_of = function
  | Ls [At "lit"; At v] -> RLit (val_of v)
  | Ls [At "var"; At x] -> RVar (nat_of_int (int_of_string x))
  | x -> failwith ("bad rexp " ^ sexp_to_string x)
let rec cexp_of = function
  | Ls [At "op"; r] -> EOp (rexp_of r)
  | Ls [At "not"; c] -> ENot (cexp_of c)
  | Ls [At "infix"; At op; l; r] -> EInfix (bop_of op, cexp_of l, cexp_of r)
  | x -> failwith ("bad cexp " ^ sexp_to_string x)
let rec pstmt_of = function
  | Ls [At "decl"; At x; At t] -> PDeclare (nat_of_int (int_of_string x), vtype_of t)
  | Ls [At "set"; At x; At op; r] -> PSet (nat_of_int (int_of_string x), aop_of op, rexp_of r)
  | Ls [At "setcat"; At x; At op; Ls items] ->
      let sign_of = function "_" -> SNone | "+" -> SPlus | "-" -> SMinus | g -> failwith ("sign " ^ g) in
      let item_of = function
        | Ls [At g; Ls [At "lit"; Sq h]] -> (sign_of g, RILit (str_of_hex h))
        | Ls [At g; Ls [At "var"; At y]] -> (sign_of g, RIVar (nat_of_int (int_of_string y)))
        | Ls [At g; Ls [At "rt"; At d]] -> (sign_of g, RIRTime (z_of_dec d))
        | y -> failwith ("bad series item " ^ sexp_to_string y) in
      PSetCat (nat_of_int (int_of_string x), aop_of op, List.map item_of items)
  | Ls [At "if"; c; Ls t; Ls elifs; e] ->
      PIf (cexp_of c, List.map pstmt_of t,
           List.map (function Ls [c'; Ls b] -> (cexp_of c', List.map pstmt_of b) | _ -> failwith "elif") elifs,
           (match e with At "_" -> None | Ls b -> Some (List.map pstmt_of b) | _ -> failwith "else"))
  | Ls [At "switch"; r; Ls cases; d] ->
      let case_of = function
        | Ls [t; Ls body; At ft] ->
            let t' = (match t with
                      | At "_" -> None
                      | Ls [At "eq"; Sq h] -> Some (false, str_of_hex h)
                      | Ls [At "re"; Sq h] -> Some (true, str_of_hex h)
                      | _ -> failwith "case test") in
            ((t', List.map pstmt_of body), ft = "1")
        | _ -> failwith "case" in
      PSwitch (rexp_of r, List.map case_of cases,
               (match d with At "_" -> None | At n -> Some (nat_of_int (int_of_string n)) | _ -> failwith "default"))
  | x -> failwith ("bad pstmt " ^ sexp_to_string x)

(* oracles the generator keeps decidable by construction: patterns ^lit, lit$, lit over [A-Za-z0-9./ -];
   strings that are canonical dotted quads are IPv4 addresses, strings without a digit are not *)
let bytes_to_string (l : byte list) : string =
  String.init (List.length l) (fun i -> Char.chr (int_of_n (b2n (List.nth l i))))
let simple_re (pat : byte list) (subj : byte list) : bool option =
  let p = bytes_to_string pat and s = bytes_to_string subj in
  let plain t = String.length t > 0 && (let ok = ref true in String.iter (fun c ->
      if not ((c >= 'a' && c <= 'z') || (c >= 'A' && c <= 'Z') || (c >= '0' && c <= '9') || c = '/' || c = ' ' || c = '-') then ok := false) t; !ok) in
  let n = String.length p in
  let contains t = let lt = String.length t and ls = String.length s in
    let r = ref false in for i = 0 to ls - lt do if String.sub s i lt = t then r := true done; !r in
  if n > 1 && p.[0] = '^' && plain (String.sub p 1 (n - 1)) then
    (let t = String.sub p 1 (n - 1) in Some (String.length s >= String.length t && String.sub s 0 (String.length t) = t))
  else if n > 1 && p.[n - 1] = '$' && plain (String.sub p 0 (n - 1)) then
    (let t = String.sub p 0 (n - 1) in
     Some (String.length s >= String.length t && String.sub s (String.length s - String.length t) (String.length t) = t))
  else if plain p then Some (contains p)
  else failwith ("regex oracle: pattern outside the decidable class: " ^ p)
let simple_ip (s : byte list) : addr option =
  let t = bytes_to_string s in
  if String.contains t ':' then failwith ("ip oracle: IPv6-like string outside the decidable class: " ^ t) else
  match String.split_on_char '.' t with
  | [a; b; c; d] ->
      (* Go's net.ParseIP: decimal octets without leading zeros, each <= 255 *)
      let num x =
        if x = "" || String.length x > 3 || (String.length x > 1 && x.[0] = '0') then None
        else if not (String.for_all (fun ch -> ch >= '0' && ch <= '9') x) then None
        else (let v = int_of_string x in if v > 255 then None else Some v) in
      (match num a, num b, num c, num d with
       | Some a, Some b, Some c, Some d -> Some { afam = V4; abits = n_of_int (((a * 256 + b) * 256 + c) * 256 + d) }
       | _ -> None)
  | _ -> None

let handle_prog (rest : string) : string =
  match parse_sexps rest with
  | [Ls stmts] ->
      let prog = List.map pstmt_of stmts in
      let show st store =
        st ^ String.concat "" (List.map (fun (x, v) -> Printf.sprintf " %d=%s" (int_of_nat x) (show_val v))
                                 (List.sort (fun (a, _) (b, _) -> compare (int_of_nat a) (int_of_nat b)) store)) in
      (match exec_block simple_ip simple_re prog [] with
       | Done s -> show "ok" s
       | Failed s -> show "err" s
       | Panicked -> "crash")
  | _ -> failwith "prog request"

(* ---- C07: concatenation series (Model/Concat.v) ----
   series <item>|<item>|...   item = <sign _ + -><kind>: L<hex> string literal, V<value text> variable, R<ns> RTIME literal, O other
   a single operand is not a concatenation: the expression is the operand itself *)
let sitem_of (w : string) : sitem =
  let sg = (match w.[0] with '_' -> SNone | '+' -> SPlus | '-' -> SMinus | _ -> failwith "sign") in
  let body = String.sub w 2 (String.length w - 2) in
  let it = (match w.[1] with
            | 'L' -> CLit (str_of_hex body)
            | 'V' -> CVar (val_of body)
            | 'R' -> CRTimeLit (z_of_dec body)
            | 'O' -> COther
            | _ -> failwith "item kind") in
  { sop = sg; sit = it }
let handle_series (rest : string list) : string =
  match rest with
  | [items] ->
      let l = List.map sitem_of (split_on '|' items) in
      let one local =
        (match l with
         | [ { sit = CVar v; _ } ] -> "ok:" ^ show_val v
         | [ { sit = CLit t; _ } ] -> "ok:" ^ show_val (VStr (t, false))
         | _ -> (match concat_series local l with
                 | OK v -> "ok:" ^ show_val v
                 | Err -> "err" | Crash -> "crash" | OutOfFuel -> "outoffuel")) in
      "nl=" ^ one false ^ " lo=" ^ one true
  | _ -> failwith "series request"

(* ---- C08: the call-tree pre-pass (Model/CallTree.v): calltree <callees of sub 0>|<callees of sub 1>|...  ("-" = none) *)
let handle_calltree (rest : string list) : string =
  match rest with
  | [gs] ->
      let subs = List.map (fun w -> if w = "-" then [] else List.map (fun c -> nat_of_int (int_of_string c)) (split_on ',' w))
          (split_on '|' gs) in
      (match check_call_tree maxSubroutineCallTree subs with
       | OK true -> "ok accepted" | OK false -> "ok rejected"
       | Err -> "err" | Crash -> "crash" | OutOfFuel -> "outoffuel")
  | _ -> failwith "calltree request"

(* ---- C08: argument-driven built-ins (Model/Builtins.v):  bi strrep <hex s> <count> | bi strpad <hex s> <width> <hex pad> | bi randomstr <n> <hex chars>
   reply: ok <length> <notset> <hex> | err *)
let handle_bi (rest : string list) : string =
  let limit = maxRequestWorkspaceSize in
  let hx h = if h = "-" then [] else str_of_hex h in
  let show = function
    | OK r -> Printf.sprintf "ok %d 0 %s" (List.length r) (if List.length r <= 8192 then hex_of_str r else "-")
    | Err -> "err" | Crash -> "crash" | OutOfFuel -> "outoffuel" in
  match rest with
  | ["strrep"; s; c] -> show (strrep limit (hx s) (z_of_dec c))
  | ["strpad"; s; w; p] -> show (strpad limit (hx s) (z_of_dec w) (hx p))
  | ["randomstr"; n; cs] ->
      (match randomstr limit (fun _ -> O) (z_of_dec n) (hx cs) with
       | OK None -> "ok 0 1 "
       | OK (Some r) -> Printf.sprintf "ok %d 0 -" (List.length r)
       | Err -> "err" | Crash -> "crash" | OutOfFuel -> "outoffuel")
  | _ -> failwith "bi request"

(* ---- C07: re.group.N (Model/ReGroup.v):  regroup ((m _) (m ("hex" "hex")) (call (...)))
   reply: for every step the text  <g0|g1|g2|g3>  (hex), "(null)" for a group that is not set *)
let rec rop_of = function
  | Ls [At "m"; At "_"] -> RMatch None
  | Ls [At "m"; Ls l] -> RMatch (Some (List.map (function Sq h -> str_of_hex h | _ -> failwith "group") l))
  | Ls [At "call"; Ls body] -> RCall (List.map rop_of body)
  | x -> failwith ("bad rop " ^ sexp_to_string x)
let handle_regroup (rest : string) : string =
  match parse_sexps rest with
  | [Ls ops] ->
      let show g =
        let one n = (match read g (nat_of_int n) with VStr (s, false) -> hex_of_str s | _ -> "286e756c6c29") in
        "3c" ^ one 0 ^ "7c" ^ one 1 ^ "7c" ^ one 2 ^ "7c" ^ one 3 ^ "3e" in
      "ok " ^ String.concat " " (List.map show (trace [] (List.map rop_of ops)))
  | _ -> failwith "regroup request"

let handle (req : string) : string =
  match split_on ' ' req with
  | ("acl" | "aclspec" | "aclold" as w) :: rest -> handle_acl w rest
  | "cell" :: rest -> handle_cell rest
  | "sim" :: rest -> handle_sim (String.concat " " rest)
  | "inc" :: rest -> handle_inc rest
  | "prog" :: rest -> handle_prog (String.concat " " rest)
  | "series" :: rest -> handle_series rest
  | "calltree" :: rest -> handle_calltree rest
  | "bi" :: rest -> handle_bi rest
  | "regroup" :: rest -> handle_regroup (String.concat " " rest)
  | _ -> failwith "unknown request"

let () = Common.serve handle
