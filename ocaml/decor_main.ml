(* driver of the extracted C09 model
   pump <tokens>   tokens (space separated): s<base36> significant, c ordinary comment, a<base36> annotation,
                   l line feed, b blank
       -> ok (<sig> (<ann> <0|1>) ...) ...    one group per significant token *)
open Common
open Decor_model

(* the model is polymorphic in the payload of significant tokens and annotations: plain ints here *)
let of_base36 (s : string) : int =
  let v = ref 0 in
  String.iter (fun c ->
    let d = match c with '0'..'9' -> Char.code c - 48 | 'a'..'z' -> Char.code c - 87 | _ -> failwith "base36" in
    v := !v * 36 + d) s;
  !v

let tok_of (w : string) : (int, int) tok =
  if w = "" then failwith "empty token" else
  let rest = String.sub w 1 (String.length w - 1) in
  match w.[0] with
  | 's' -> Sig (of_base36 rest)
  | 'a' -> Ann (of_base36 rest)
  | 'c' -> Cmt
  | 'l' -> LF
  | 'b' -> Blank
  | _ -> failwith "token"

let handle (req : string) : string =
  match String.split_on_char ' ' req with
  | "pump" :: ws ->
    let ts = List.map tok_of (List.filter (fun w -> w <> "") ws) in
    let items = pump ts in
    "ok " ^ String.concat " " (List.map (fun (s, anns) ->
      "(" ^ string_of_int s ^
      String.concat "" (List.map (fun (a, f) -> Printf.sprintf " (%d %d)" a (if f then 1 else 0)) anns) ^ ")") items)
  | _ -> "badreq"

let () = serve handle
