(* driver of the extracted C09 model
   pump <tokens>   tokens (space separated): s<base36> significant, c ordinary comment, a<base36> annotation,
                   l line feed, b blank
       -> ok (<sig> (<ann> <0|1>) ...) ...    one group per significant token *)
open Common
open Decor_model

let rec pos_of_int (i : int) : positive =
  if i = 1 then XH else if i land 1 = 0 then XO (pos_of_int (i lsr 1)) else XI (pos_of_int (i lsr 1))
let n_of_int i = if i = 0 then N0 else Npos (pos_of_int i)
let rec int_of_pos = function XH -> 1 | XO p -> 2 * int_of_pos p | XI p -> 2 * int_of_pos p + 1
let int_of_n = function N0 -> 0 | Npos p -> int_of_pos p

let of_base36 (s : string) : int =
  let v = ref 0 in
  String.iter (fun c ->
    let d = match c with '0'..'9' -> Char.code c - 48 | 'a'..'z' -> Char.code c - 87 | _ -> failwith "base36" in
    v := !v * 36 + d) s;
  !v

let tok_of (w : string) : tok =
  if w = "" then failwith "empty token" else
  let rest = String.sub w 1 (String.length w - 1) in
  match w.[0] with
  | 's' -> Sig (n_of_int (of_base36 rest))
  | 'a' -> Ann (n_of_int (of_base36 rest))
  | 'c' -> Cmt
  | 'l' -> LF
  | 'b' -> Blank
  | _ -> failwith "token"

let handle (req : string) : string =
  match String.split_on_char ' ' req with
  | "pump" :: ws ->
    let ts = List.map tok_of (List.filter (fun w -> w <> "") ws) in
    let items = pump ts in
    "ok " ^ String.concat " " (List.map (fun (s, anns) ->
      "(" ^ string_of_int (int_of_n s) ^
      String.concat "" (List.map (fun (a, f) -> Printf.sprintf " (%d %d)" (int_of_n a) (if f then 1 else 0)) anns) ^ ")") items)
  | _ -> "badreq"

let () = serve handle
