(* modelrun_lexparse: the composed extracted model (Model/LexParse.v) on a byte string.
   request : <float oracle> <hex source>
     oracle = hex=0/1,...   ("-" for none) verdicts of strconv.ParseFloat, from the Go side
   reply   : <vcl> | <snippet> | <auto>      one outcome per entry point:
     ok | perr (TYPE "hexlit" line col off) | perr ? | plain | crash | fuel
   or  crash / outoffuel / err  when the lexer / pump model itself does not return. *)
open Common
open Lexparse_model

let rec pos_of_int (i : int) : positive =
  if i = 1 then XH else if i land 1 = 0 then XO (pos_of_int (i lsr 1)) else XI (pos_of_int (i lsr 1))
let n_of_int i = if i = 0 then N0 else Npos (pos_of_int i)
let rec int_of_pos = function XH -> 1 | XO p -> 2 * int_of_pos p | XI p -> 2 * int_of_pos p + 1
let int_of_n = function N0 -> 0 | Npos p -> int_of_pos p

let byte_of_int i = n2b (n_of_int i)
let int_of_byte b = int_of_n (b2n b)
let bytes_of_hex h = List.map byte_of_int (ints_of_hex h)
let hex_of_bytes l = hex_of_ints (List.map int_of_byte l)
let hex_of_str s = hex_of_bytes (enc_all s)
let ascii_of_str s = String.concat "" (List.map (fun r -> String.make 1 (Char.chr (int_of_n r land 255))) s)

let split_on c s = if s = "" then [] else String.split_on_char c s

let oracle_of (s : Stdlib.String.t) =
  let h = Hashtbl.create 16 in
  if s <> "-" then
    List.iter (fun p ->
      match String.split_on_char '=' p with
      | [k; v] -> Hashtbl.replace h k (v = "1")
      | _ -> failwith "bad oracle") (split_on ',' s);
  fun l ->
    let k = hex_of_bytes l in
    try Hashtbl.find h k with Not_found -> failwith ("oracle miss " ^ k)

let tok_sx t =
  let ty = ascii_of_str t.ttype in
  Printf.sprintf "(%s \"%s\" %d %d %d)" (if ty = "" then "<empty>" else ty) (hex_of_str t.tlit)
    (int_of_n t.tline) (int_of_n t.tpos) (int_of_n t.toff)

let show = function
  | OOk _ -> "ok"
  | OErr (_, Some m) -> "perr " ^ tok_sx m.mtok
  | OErr (_, None) -> "perr ?"
  | ONoTok -> "plain"
  | OCrash -> "crash"
  | OFuel -> "fuel"

let handle (req : Stdlib.String.t) : Stdlib.String.t =
  match String.split_on_char ' ' req with
  | [orc; h] ->
    (match parse_outcomes (oracle_of orc) (bytes_of_hex h) with
     | OK ((v, s), a) -> show v ^ " | " ^ show s ^ " | " ^ show a
     | Err -> "err" | Crash -> "crash" | OutOfFuel -> "outoffuel")
  | _ -> "badreq"

let () = serve handle
