open Common
open Hdr_model

let rec pos_of_int (i : int) : positive =
  if i = 1 then XH else if i land 1 = 0 then XO (pos_of_int (i lsr 1)) else XI (pos_of_int (i lsr 1))
let n_of_int i = if i = 0 then N0 else Npos (pos_of_int i)
let rec int_of_pos = function XH -> 1 | XO p -> 2 * int_of_pos p | XI p -> 2 * int_of_pos p + 1
let int_of_n = function N0 -> 0 | Npos p -> int_of_pos p
let byte_of_int i = n2b (n_of_int i)
let int_of_byte b = int_of_n (b2n b)
let bytes_of_hex h = List.map byte_of_int (ints_of_hex h)
let hex_of_bytes l = hex_of_ints (List.map int_of_byte l)
let bytes_of_string s = List.init (String.length s) (fun i -> byte_of_int (Char.code s.[i]))

let split_on c s = String.split_on_char c s |> List.filter (fun x -> x <> "")

(* "=<hex>" | "_" *)
let val_of (s : string) : val0 =
  if s = "_" then VNotSet
  else if String.length s >= 1 && s.[0] = '=' then VStr (bytes_of_hex (String.sub s 1 (String.length s - 1)))
  else failwith "value"

let show_rd = function RNotSet -> "N" | RStr s -> "S" ^ hex_of_bytes s

let show_obs = function
  | ORead r -> show_rd r
  | OOk -> "ok"
  | OErr -> "err"
  | OUnmodelled -> "unmodelled"

let op_of (s : string) : op =
  match split_on ' ' s with
  | ["g"; n] -> OGet (bytes_of_string n)
  | ["s"; n; v] -> OSet (bytes_of_string n, val_of v)
  | ["a"; n; v] -> OAdd (bytes_of_string n, val_of v)
  | ["u"; n] -> OUnset (bytes_of_string n)
  | _ -> failwith "op"

let obj_of = function
  | "req" -> Req | "bereq" -> Bereq | "beresp" -> Beresp | "obj" -> Obj | "resp" -> Resp
  | _ -> failwith "object"

(* ops on several objects:  g OBJ.T | s OBJ.T V | a OBJ.N V | u OBJ.T | d DST<SRC | @SCOPE (no model effect) *)
let split_obj (s : string) : obj * string =
  match String.index_opt s '.' with
  | Some i -> obj_of (String.sub s 0 i), String.sub s (i+1) (String.length s - i - 1)
  | None -> failwith "object prefix"

let mop_of (s : string) : mop option =
  match split_on ' ' s with
  | ["g"; t] -> let (o, n) = split_obj t in Some (MOp (o, OGet (bytes_of_string n)))
  | ["s"; t; v] -> let (o, n) = split_obj t in Some (MOp (o, OSet (bytes_of_string n, val_of v)))
  | ["a"; t; v] -> let (o, n) = split_obj t in Some (MOp (o, OAdd (bytes_of_string n, val_of v)))
  | ["u"; t] -> let (o, n) = split_obj t in Some (MOp (o, OUnset (bytes_of_string n)))
  | ["d"; x] -> (match String.split_on_char '<' x with
                 | [d; s] -> Some (MDerive (obj_of d, obj_of s))
                 | _ -> failwith "derive")
  | [x] when String.length x > 0 && x.[0] = '@' -> None
  | [] -> None
  | _ -> failwith "mop"

let unhex s = bytes_of_hex (if String.length s >= 1 && s.[0] = '=' then String.sub s 1 (String.length s - 1) else s)

(* one object: ops as for implrun hdr, plus  hg T (header.get)  and  B n (n ballast headers) *)
type xop = XOp of op | XHg of string | XBallast of int

let xop_of (s : string) : xop =
  match split_on ' ' s with
  | ["hg"; t] -> XHg t
  | ["B"; n] -> XBallast (int_of_string n)
  | _ -> XOp (op_of s)

let ballast_ops (n : int) : op list =
  List.init n (fun i -> OSet (bytes_of_string ("Ballast-" ^ string_of_int i), VStr (bytes_of_string ("v" ^ string_of_int i))))

let run_x (kd : kind) (st : hstate) (xs : xop list) : hstate * string list =
  List.fold_left (fun (st, acc) x ->
    match x with
    | XOp o -> let (st', r) = step kd st o in (st', show_obs r :: acc)
    | XHg t -> (st, show_rd (h_getfn st (bytes_of_string t)) :: acc)
    | XBallast n ->
      let (st', bad) = List.fold_left (fun (s, bad) o -> let (s', r) = step kd s o in (s', bad || r <> OOk)) (st, false) (ballast_ops n) in
      (st', (if bad then "err" else "ok") :: acc)) (st, []) xs
  |> fun (st, acc) -> (st, List.rev acc)

(* several objects *)
type mxop = MX of mop | MHg of obj * string | MBallast of obj * int | MScope

let mxop_of (s : string) : mxop option =
  match split_on ' ' s with
  | ["hg"; t] -> let (o, n) = split_obj t in Some (MHg (o, n))
  | ["B"; t] -> let (o, n) = split_obj t in Some (MBallast (o, int_of_string n))
  | [x] when String.length x > 0 && x.[0] = '@' -> Some MScope
  | [] -> None
  | _ -> (match mop_of s with Some m -> Some (MX m) | None -> None)

let kind_of_obj = function Req | Bereq -> KReq | _ -> KResp

let run_mx (m : mstate) (xs : mxop list) : mstate * string list =
  List.fold_left (fun (m, acc) x ->
    match x with
    | MX o -> let (m', r) = mstep m o in (m', show_obs r :: acc)
    | MHg (o, t) -> (m, show_rd (h_getfn (m o) (bytes_of_string t)) :: acc)
    | MBallast (o, n) ->
      let (m', bad) = List.fold_left (fun (s, bad) y -> let (s', r) = mstep s (MOp (o, y)) in (s', bad || r <> OOk)) (m, false) (ballast_ops n) in
      (m', (if bad then "err" else "ok") :: acc)
    | MScope -> (m, "ok" :: acc)) (m, []) xs
  |> fun (m, acc) -> (m, List.rev acc)

(* requests:  hdr <req|resp> <op>;<op>;...   |  hdrmulti <pre> | <ops>  |  field get|unset|set <subject> <key> [<value>] *)
let handle (req : string) : string =
  match String.index_opt req ' ' with
  | None -> "badreq"
  | Some i ->
    let cmd = String.sub req 0 i and rest = String.sub req (i+1) (String.length req - i - 1) in
    (match cmd with
     | "hdr" ->
       (match String.index_opt rest ' ' with
        | None -> "badreq"
        | Some j ->
          let kd = (match String.sub rest 0 j with "req" -> KReq | "resp" -> KResp | _ -> failwith "kind") in
          let ops = List.map xop_of (split_on ';' (String.sub rest (j+1) (String.length rest - j - 1))) in
          let (_, outs) = run_x kd st0 ops in
          String.concat " " outs)
     | "hdrmulti" ->
       let pre, ops = (match String.index_opt rest '|' with
         | Some j -> String.sub rest 0 j, String.sub rest (j+1) (String.length rest - j - 1)
         | None -> failwith "bar") in
       let parse l = List.filter_map mxop_of (List.filter (fun x -> String.trim x <> "") (split_on ';' l)) in
       let (m1, o1) = run_mx mst0 (parse pre) in
       let (m2, _) = mstep m1 (MDerive (Bereq, Req)) in
       let (_, o2) = run_mx m2 (parse ops) in
       String.concat " " (o1 @ ["|"] @ o2)
     | "field" ->
       (match split_on ' ' rest with
        | ["get"; s; k] -> show_rd (get_field (unhex s) (unhex k))
        | ["unset"; s; k] ->
          (match unset_field (unhex s) (unhex k) with [] -> "D" | t -> "S" ^ hex_of_bytes t)
        | ["set"; s; k; v] -> "S" ^ hex_of_bytes (set_field (unhex s) (unhex k) (val_of v))
        | _ -> "badreq")
     | _ -> "badreq")

let () = serve handle
