open Common
open Hdr_model

let rec pos_of_int (i : int) : positive =
  if i = 1 then XH else if i land 1 = 0 then XO (pos_of_int (i lsr 1)) else XI (pos_of_int (i lsr 1))
let n_of_int i = if i = 0 then N0 else Npos (pos_of_int i)
let rec int_of_pos = function XH -> 1 | XO p -> 2 * int_of_pos p | XI p -> 2 * int_of_pos p + 1
let int_of_n = function N0 -> 0 | Npos p -> int_of_pos p
let byte_of_int i = n2b (n_of_int i)
let int_of_byte b = int_of_n (b2n b)
let bytes_of_hex h = List.map byte_of_int (ints_of_hex h)
let hex_of_bytes l = hex_of_ints (List.map int_of_byte l)
let bytes_of_string s = List.init (String.length s) (fun i -> byte_of_int (Char.code s.[i]))

let split_on c s = String.split_on_char c s |> List.filter (fun x -> x <> "")

(* "=<hex>" | "_" *)
let val_of (s : string) : val0 =
  if s = "_" then VNotSet
  else if String.length s >= 1 && s.[0] = '=' then VStr (bytes_of_hex (String.sub s 1 (String.length s - 1)))
  else failwith "value"

let show_rd = function RNotSet -> "N" | RStr s -> "S" ^ hex_of_bytes s

let show_obs = function
  | ORead r -> show_rd r
  | OOk -> "ok"
  | OErr -> "err"
  | OUnmodelled -> "unmodelled"

let op_of (s : string) : op =
  match split_on ' ' s with
  | ["g"; n] -> OGet (bytes_of_string n)
  | ["s"; n; v] -> OSet (bytes_of_string n, val_of v)
  | ["a"; n; v] -> OAdd (bytes_of_string n, val_of v)
  | ["u"; n] -> OUnset (bytes_of_string n)
  | _ -> failwith "op"

let unhex s = bytes_of_hex (if String.length s >= 1 && s.[0] = '=' then String.sub s 1 (String.length s - 1) else s)

(* requests:  hdr <req|resp> <op>;<op>;...   |  field get|unset|set <subject> <key> [<value>] *)
let handle (req : string) : string =
  match String.index_opt req ' ' with
  | None -> "badreq"
  | Some i ->
    let cmd = String.sub req 0 i and rest = String.sub req (i+1) (String.length req - i - 1) in
    (match cmd with
     | "hdr" ->
       (match String.index_opt rest ' ' with
        | None -> "badreq"
        | Some j ->
          let kd = (match String.sub rest 0 j with "req" -> KReq | "resp" -> KResp | _ -> failwith "kind") in
          let ops = List.map op_of (split_on ';' (String.sub rest (j+1) (String.length rest - j - 1))) in
          let (_, outs) = run kd st0 ops in
          String.concat " " (List.map show_obs outs))
     | "field" ->
       (match split_on ' ' rest with
        | ["get"; s; k] -> show_rd (get_field (unhex s) (unhex k))
        | ["unset"; s; k] ->
          (* the harness reads the header map afterwards: an empty result deletes the header *)
          (match unset_field (unhex s) (unhex k) with [] -> "D" | t -> "S" ^ hex_of_bytes t)
        | ["set"; s; k; v] -> "S" ^ hex_of_bytes (set_field (unhex s) (unhex k) (val_of v))
        | _ -> "badreq")
     | _ -> "badreq")

let () = serve handle
