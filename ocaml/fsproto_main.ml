open Common
open Fsproto_model

let rec pos_of_int (i : int) : positive =
  if i = 1 then XH else if i land 1 = 0 then XO (pos_of_int (i lsr 1)) else XI (pos_of_int (i lsr 1))
let n_of_int i = if i = 0 then N0 else Npos (pos_of_int i)
let rec int_of_pos = function XH -> 1 | XO p -> 2 * int_of_pos p | XI p -> 2 * int_of_pos p + 1
let int_of_n = function N0 -> 0 | Npos p -> int_of_pos p
let byte_of_int i = n2b (n_of_int i)
let int_of_byte b = int_of_n (b2n b)
let bytes_of_hex h = List.map byte_of_int (ints_of_hex h)
let hex_of_bytes l = hex_of_ints (List.map int_of_byte l)

let rec nat_of_int i = if i <= 0 then O else S (nat_of_int (i - 1))
let rec int_of_nat = function O -> 0 | S n -> 1 + int_of_nat n

let split_on c s = String.split_on_char c s |> List.filter (fun x -> x <> "")

(* "-" | "3:fail,5:short10" *)
let faults_of (s : string) : nat -> fault =
  let tbl = Hashtbl.create 8 in
  if s <> "-" then
    List.iter (fun item ->
      match String.split_on_char ':' item with
      | [i; "fail"] -> Hashtbl.replace tbl (int_of_string i) FFail
      | [i; f] when String.length f > 5 && String.sub f 0 5 = "short" ->
          Hashtbl.replace tbl (int_of_string i) (FShort (nat_of_int (int_of_string (String.sub f 5 (String.length f - 5)))))
      | _ -> failwith "fault") (split_on ',' s);
  fun n -> match Hashtbl.find_opt tbl (int_of_nat n) with Some f -> f | None -> FNone

let path_name = function FILE -> "FILE" | TMP -> "TMP" | Other _ -> "OTHER"
let op_name = function
  | OStat p -> "stat:" ^ path_name p
  | OProbe p -> "probe:" ^ path_name p
  | OOpenTrunc p -> "open_trunc:" ^ path_name p
  | OCreateTmp p -> "create_tmp:" ^ path_name p
  | OWrite (p, _) -> "write:" ^ path_name p
  | OChmod p -> "chmod:" ^ path_name p
  | OFsync p -> "fsync:" ^ path_name p
  | OClose p -> "close:" ^ path_name p
  | ORename (s, d) -> "rename:" ^ path_name s ^ ">" ^ path_name d
  | ORemove p -> "remove:" ^ path_name p

(* run <new|old> <ok|parse|nil|panic> <outhex|-> <contenthex|-> <faults> <k|all> *)
let handle (req : string) : string =
  match split_on ' ' req with
  | ["run"; proto; cls; outh; conth; fl; k] ->
    let out = if outh = "-" then [] else bytes_of_hex outh in
    let content = if conth = "-" then [] else bytes_of_hex conth in
    let r = (match cls with "ok" -> FmtOk out | "parse" -> FmtParseError | "nil" -> FmtNil | "panic" -> FmtPanic
                           | _ -> failwith "class") in
    let faults = faults_of fl in
    let ps = if proto = "old" then fmt_w_old r else fmt_w r in
    let effs = inject faults ps in
    let neff = List.length effs in
    let fs0 = (fun p -> match p with FILE -> Some content | _ -> None) in
    let fs1 = if k = "all" then run_effs effs fs0 else run_prefix (nat_of_int (int_of_string k)) effs fs0 in
    let ex = int_of_nat (if proto = "old" then exit_of_old faults r else exit_of faults r) in
    let ops = exec_ops O faults ps in
    let show_file = (match fs1 FILE with
      | None -> "none"
      | Some b -> if b = content then "orig" else if cls = "ok" && b = out then "out" else "other:" ^ hex_of_bytes b) in
    let show_tmp = (match fs1 TMP with None -> "none" | Some b -> "x" ^ hex_of_bytes b) in
    Printf.sprintf "ops=%s exit=%d file=%s tmp=%s neff=%d"
      (String.concat "," (List.map (fun (o, ok) -> op_name o ^ (if ok then "" else "!")) ops))
      ex show_file show_tmp neff
  | _ -> "badreq"

let () = serve handle
