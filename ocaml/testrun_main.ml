(* Driver of the extracted test-runner model (C10).
   request: run <cov 0|1> (subs (sub k (b stmt...))...) (items (single test) | (group g (before (scope (steps))...) (after ...) test...) ...)
            test = (test name (scope...) skip (steps...))
   reply  : (cases (case group|_ name scope skip verdict (logs m...))...) (counter asserts passes fails skips) <exit>  |  abort *)
open Common
open Testrun_model

let rec pos_of_int (i : int) : positive =
  if i = 1 then XH else if i land 1 = 0 then XO (pos_of_int (i lsr 1)) else XI (pos_of_int (i lsr 1))
let n_of_int i = if i = 0 then N0 else Npos (pos_of_int i)
let rec int_of_pos = function XH -> 1 | XO p -> 2 * int_of_pos p | XI p -> 2 * int_of_pos p + 1
let int_of_n = function N0 -> 0 | Npos p -> int_of_pos p
let rec nat_of_int i = if i <= 0 then O else S (nat_of_int (i - 1))
let rec int_of_nat = function O -> 0 | S n -> 1 + int_of_nat n

let int_of = function At s -> int_of_string s | _ -> failwith "expected int"
let n_of x = n_of_int (int_of x)
let bool_of = function At "1" -> true | At "0" -> false | _ -> failwith "expected bool"

let cond_of = function
  | Ls [At "f"; k] -> CFlag (n_of k)
  | Ls [At "nf"; k] -> CNotFlag (n_of k)
  | Ls [At "eq"; k] -> CEq (n_of k)
  | Ls [At "c"; b] -> CConst (bool_of b)
  | x -> failwith ("bad cond " ^ sexp_to_string x)

let rec block_of = function
  | Ls (At "b" :: ss) -> List.fold_right (fun s acc -> BCons (stmt_of s, acc)) ss BNil
  | x -> failwith ("bad block " ^ sexp_to_string x)
and stmt_of = function
  | Ls (At "set" :: f :: cs) -> Prim (PSet (n_of f, List.map cond_of cs))
  | Ls (At "log" :: m :: cs) -> Prim (PLog (n_of m, List.map cond_of cs))
  | Ls [At "unset"; f] -> Prim (PUnset (n_of f))
  | Ls [At "ret"] -> Prim PRet
  | Ls [At "raise"] -> Prim PRaise
  | Ls [At "if"; c; th; el] -> If (cond_of c, block_of th, alt_of el)
  | Ls (At "switch" :: f :: Ls (At "tests" :: ts) :: d :: cs) ->
      Switch ((n_of f, List.map bool_of ts), cases_of cs,
              (match d with At "_" -> None | x -> Some (nat_of_int (int_of x))))
  | Ls [At "block"; b] -> Block (block_of b)
  | x -> failwith ("bad stmt " ^ sexp_to_string x)
and alt_of = function
  | At "_" -> ANone
  | Ls [At "else"; b] -> AElse (block_of b)
  | Ls [At "elif"; c; th; rest] -> AElif (cond_of c, block_of th, alt_of rest)
  | x -> failwith ("bad alt " ^ sexp_to_string x)
and cases_of = function
  | [] -> CNil
  | Ls [At "case"; ft; b] :: r -> CCons (block_of b, bool_of ft, cases_of r)
  | x :: _ -> failwith ("bad case " ^ sexp_to_string x)

let step_of = function
  | Ls [At "set"; f] -> TSet (n_of f)
  | Ls [At "unset"; f] -> TUnset (n_of f)
  | Ls [At "log"; m] -> TLog (n_of m)
  | Ls [At "call"; k] -> TCall (n_of k)
  | Ls [At "raise"] -> TRaise
  | Ls [At "af"; f; w] -> TAssertFlag (n_of f, bool_of w)
  | Ls [At "ac"; h] -> TAssertConst (bool_of h)
  | Ls [At "res"; r; v] -> TRes (n_of r, n_of v)
  | Ls [At "ar"; r; v] -> TAssertRes (n_of r, n_of v)
  | x -> failwith ("bad step " ^ sexp_to_string x)

let cli_tags : n list ref = ref []
let test_of = function
  | Ls [At "test"; name; Ls scopes; skip; Ls steps] ->
      { t_name = n_of name; t_scopes = List.map n_of scopes; t_skip = bool_of skip;
        t_body = List.map step_of steps }
  | Ls [At "test"; name; Ls scopes; skip; Ls steps; Ls (At "tags" :: tags)] ->
      (* what the runner makes of a tagged test under the -t option *)
      untag !cli_tags
        (List.map (function Ls [k; inv] -> (n_of k, bool_of inv) | _ -> failwith "bad tag") tags,
         { t_name = n_of name; t_scopes = List.map n_of scopes; t_skip = bool_of skip;
           t_body = List.map step_of steps })
  | x -> failwith ("bad test " ^ sexp_to_string x)

let hooks_of (l : sexp list) : n -> tstep list option =
  let tbl = List.map (function Ls [sc; Ls steps] -> (int_of sc, List.map step_of steps) | _ -> failwith "bad hook") l in
  fun sc -> List.assoc_opt (int_of_n sc) tbl

let item_of = function
  | Ls [At "single"; t] -> ISingle (test_of t)
  | Ls (At "group" :: g :: Ls (At "before" :: bs) :: Ls (At "after" :: afs) :: tests) ->
      IGroup { g_name = n_of g; g_before = hooks_of bs; g_after = hooks_of afs; g_tests = List.map test_of tests }
  | x -> failwith ("bad item " ^ sexp_to_string x)

let sub_of = function
  | Ls [At "sub"; k; b] -> (n_of k, block_of b)
  | x -> failwith ("bad sub " ^ sexp_to_string x)

let rec handle (req : string) : string =
  match parse_sexps req with
  | At "run" :: cov :: Ls (At "cli" :: cli) :: rest ->
      cli_tags := List.map n_of cli;
      handle_run cov rest
  | At "run" :: cov :: rest -> cli_tags := []; handle_run cov rest
  | _ -> "badreq"
and handle_run cov rest =
  match rest with
  | [Ls (At "subs" :: subs); Ls (At "items" :: items)] ->
    (match irun_items (bool_of cov) (List.map sub_of subs) (List.map item_of items) with
     | None -> "abort"
     | Some (cases, c) ->
      let scase ((g, x) : n option * (n, n) tcase) =
        Ls [At "case"; At (match g with None -> "_" | Some k -> string_of_int (int_of_n k));
            At (string_of_int (int_of_n x.tc_name)); At (string_of_int (int_of_n x.tc_scope));
            At (if x.tc_skip then "1" else "0");
            At (match x.tc_verdict with Pass -> "pass" | FailAssert -> "assert" | FailRuntime -> "runtime");
            Ls (At "logs" :: List.map (fun m -> At (string_of_int (int_of_n m))) x.tc_logs)] in
      sexp_to_string (Ls (At "cases" :: List.map scase cases)) ^ " "
      ^ sexp_to_string (Ls [At "counter"; At (string_of_int (int_of_nat c.asserts)); At (string_of_int (int_of_nat c.passes));
                            At (string_of_int (int_of_nat c.fails)); At (string_of_int (int_of_nat c.skips))])
      ^ " " ^ string_of_int (int_of_nat (exit_status c)))
  | _ -> "badreq"

let () = serve handle
