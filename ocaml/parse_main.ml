(* modelrun_parse: the extracted parser model on a significant token stream.
   request : <mode> <tokens> <float oracle>
     mode    = vcl | snippet | auto | expr
     tokens  = TYPE:hexliteral:offset;...   ("-" for the empty stream)
     oracle  = hex=0/1,...                  ("-" for none) verdicts of strconv.ParseFloat
   reply   : ok <sexp> | err <kind> <index> | err notoken | crash | fuel
   The S-expression is the projection of Model/Ast.v onto the Go AST (what
   harness/cmd/implrun/parse.go prints): names, operators, literal values, explicit-concat
   flag, parenthesis nodes; no positions, no comments, no punctuation tokens. *)
open Common
open Parse_model

let rec pos_of_int (i : int) : positive =
  if i = 1 then XH else if i land 1 = 0 then XO (pos_of_int (i lsr 1)) else XI (pos_of_int (i lsr 1))
let n_of_int i = if i = 0 then N0 else Npos (pos_of_int i)
let rec int_of_pos = function XH -> 1 | XO p -> 2 * int_of_pos p | XI p -> 2 * int_of_pos p + 1
let int_of_n = function N0 -> 0 | Npos p -> int_of_pos p
let rec int_of_nat = function O -> 0 | S n -> 1 + int_of_nat n

let byte_of_int i = n2b (n_of_int i)
let int_of_byte b = int_of_n (b2n b)
let bytes_of_hex h = List.map byte_of_int (ints_of_hex h)
let hex_of_bytes l = hex_of_ints (List.map int_of_byte l)
let string_of_bytes l = String.concat "" (List.map (fun b -> String.make 1 (Char.chr (int_of_byte b))) l)

(* int64 decimal of a Z (|z| <= 2^63) *)
let rec i64_of_pos = function
  | XH -> 1L
  | XO p -> Int64.mul 2L (i64_of_pos p)
  | XI p -> Int64.add (Int64.mul 2L (i64_of_pos p)) 1L
let dec_of_z = function
  | Z0 -> "0"
  | Zpos p -> Int64.to_string (i64_of_pos p)
  | Zneg p -> Int64.to_string (Int64.neg (i64_of_pos p))

let ttype_tbl : (Stdlib.String.t, ttype) Hashtbl.t =
  let h = Hashtbl.create 128 in
  List.iter (fun t -> Hashtbl.replace h (string_of_bytes (tname_b t)) t) all_ttypes; h

let split_on c s = if s = "" then [] else String.split_on_char c s

let tokens_of (s : Stdlib.String.t) : token list =
  if s = "-" then [] else
  List.map (fun p ->
    match String.split_on_char ':' p with
    | [ty; l; o] ->
      (* a type name that is no token constant (the unrepaired lexer emits the empty type for a lone
         `|`, `&`, `^`, `*`, `<<`, `>>`; C01 turns them into ILLEGAL) is in no table of the parser and
         is compared with no constant: it behaves exactly as ILLEGAL *)
      let t = try Hashtbl.find ttype_tbl ty with Not_found -> Hashtbl.find ttype_tbl "ILLEGAL" in
      { typ = t; lit = bytes_of_hex l; off = n_of_int (int_of_string o) }
    | _ -> failwith "bad token") (split_on ';' s)

let oracle_of (s : Stdlib.String.t) : (str -> bool) =
  let h = Hashtbl.create 16 in
  if s <> "-" then
    List.iter (fun p ->
      match String.split_on_char '=' p with
      | [k; v] -> Hashtbl.replace h k (v = "1")
      | _ -> failwith "bad oracle") (split_on ',' s);
  fun l ->
    let k = hex_of_bytes l in
    try Hashtbl.find h k with Not_found -> failwith ("oracle miss " ^ k)

(* ---- projection ---- *)
let hx l = Sq (hex_of_bytes l)
let b01 b = At (if b then "1" else "0")
let plus = hx (bytes_of_hex "2b")

let rec px_e (e : expr) : sexp =
  match e with
  | EIdent t -> Ls [At "ident"; hx t.lit]
  | EBool t -> Ls [At "bool"; b01 (string_of_bytes (tname_b t.typ) = "TRUE")]
  | EInt (t, v) -> Ls [At "int"; At (dec_of_z v); hx t.lit]
  | EFloat t -> Ls [At "float"; hx t.lit]
  | ERTime t -> Ls [At "rtime"; hx t.lit]
  | EString (t, v) -> Ls [At "str"; hx v; b01 false; hx []; hx t.lit; At (string_of_int (int_of_n t.off))]
  | ELong (o, s, _, v) -> Ls [At "str"; hx v; b01 true; hx o.lit; hx s.lit; At (string_of_int (int_of_n s.off))]
  | EPrefix (op, r) -> Ls [At "prefix"; hx op.lit; px_e r]
  | EGroup (_, r, _) -> Ls [At "group"; px_e r]
  | EIfExp (_, _, c, _, t, _, e, _) -> Ls [At "ifexp"; px_e c; px_e t; px_e e]
  | EInfix (l, op, expl, r) -> Ls [At "infix"; px_e l; (if expl then plus else hx op.lit); b01 expl; px_e r]
  | EConcat (l, r) -> Ls [At "infix"; px_e l; plus; b01 false; px_e r]
  | EPostfix (l, op) -> Ls [At "postfix"; px_e l; hx op.lit]
  | ECall (f, _, a, _) -> Ls (At "call" :: hx f.lit :: px_args a)
and px_args = function
  | ANone -> []
  | ASome (e, m) -> px_e e :: px_tail m
and px_tail = function
  | ATNil -> []
  | ATCons (_, e, m) -> px_e e :: px_tail m

let px_opt = function None -> At "_" | Some e -> px_e e

let rec px_bprop (p : bprop) : sexp =
  match p with
  | BProp (_, k, _, v, _) -> Ls [At "prop"; hx k.lit; px_e v]
  | BProbe (_, k, _, _, ps, _) -> Ls (At "probe" :: hx k.lit :: List.map px_bprop ps)

let px_dfield (DField (_, k, _, v, _)) = Ls [At "dprop"; hx k.lit; px_e v]

let eq_op = hx (bytes_of_hex "3d3d")
let re_op = hx (bytes_of_hex "7e")
let else_if = hx (bytes_of_hex "656c7365206966")
let kw_if = hx (bytes_of_hex "6966")

let rec px_s (s : stmt) : sexp =
  match s with
  | SSet (_, id, op, v, _) -> Ls [At "set"; hx id.lit; hx op.lit; px_e v]
  | SAdd (_, id, op, v, _) -> Ls [At "add"; hx id.lit; hx op.lit; px_e v]
  | SUnset (_, id, _) -> Ls [At "unset"; hx id.lit]
  | SRemove (_, id, _) -> Ls [At "remove"; hx id.lit]
  | SDeclare (_, _, name, ty, v, _) ->
      Ls [At "declare"; hx name.lit; hx ty.lit; (match v with None -> At "_" | Some (_, e) -> px_e e)]
  | SCall (_, sub, a, _) ->
      let es = match a with None -> [] | Some ((_, items), _) -> List.map (fun (e, _) -> px_e e) items in
      Ls (At "call" :: hx sub.lit :: es)
  | SError (_, code, arg, _) -> Ls [At "error"; px_opt code; px_opt arg]
  | SEsi _ -> Ls [At "esi"]
  | SRestart _ -> Ls [At "restart"]
  | SBreak _ -> Ls [At "break"]
  | SFallthrough _ -> Ls [At "fallthrough"]
  | SReturn (_, v, _) ->
      (match v with
       | None -> Ls [At "return"; b01 false; At "_"]
       | Some ((lp, e), _) -> Ls [At "return"; b01 (lp <> None); px_e e])
  | SLog (_, v, _) -> Ls [At "log"; px_e v]
  | SSynthetic (_, v, _) -> Ls [At "synthetic"; px_e v]
  | SSyntheticB64 (_, v, _) -> Ls [At "synthetic64"; px_e v]
  | SGoto (_, d, _) -> Ls [At "goto"; hx d.lit]
  | SGotoDest n -> Ls [At "gotodest"; hx n.lit]
  | SInclude (_, m, v, _) -> Ls [At "include"; px_e (EString (m, v))]
  | SImport (_, n, _) -> Ls [At "import"; hx n.lit]
  | SBlock (_, b, _) -> Ls [At "block"; px_ss b]
  | SFunCall (f, _, a, _, _) -> Ls (At "funcall" :: hx f.lit :: px_args a)
  | SIf (_, _, c, _, _, b, _, another, els) ->
      let an = List.map (fun (Elif (k1, k2, _, c, _, _, b, _)) ->
        Ls [At "elif"; (match k2 with Some _ -> else_if | None -> hx k1.lit); px_e c; px_ss b]) another in
      let alt = match els with None -> At "_" | Some (((_, _), ss), _) -> px_ss ss in
      Ls [At "if"; kw_if; px_e c; px_ss b; Ls an; alt]
  | SSwitch (_, _, ctl, _, _, cases, dflt, _) ->
      let cs = List.map (fun (Case (h, _, body, ft)) ->
        let test = match h with
          | CDefault _ -> At "_"
          | CCase (_, CTEq e) -> Ls [At "test"; eq_op; px_e e]
          | CCase (_, CTRegex (_, e)) -> Ls [At "test"; re_op; px_e e] in
        Ls [At "case"; test; px_ss body; b01 ft]) cases in
      Ls [At "switch"; px_e ctl; Ls cs; At (dec_of_z dflt)]
  | DAcl (_, name, _, cs, _) ->
      let c1 (Cidr (inv, ip, mask, _)) =
        let ipv = match ip with IpStr t -> t.lit | IpLong (_, _, _, v) -> v in
        Ls [At "cidr"; b01 (inv <> None); hx ipv; (match mask with None -> At "_" | Some ((_, _), v) -> At (dec_of_z v))] in
      Ls (At "acl" :: hx name.lit :: List.map c1 cs)
  | DBackend (_, name, _, ps, _) -> Ls (At "backend" :: hx name.lit :: List.map px_bprop ps)
  | DDirector (_, name, ty, _, ps, _) ->
      let p1 = function
        | DProp f -> px_dfield f
        | DBackendObj (_, fs, _) -> Ls (At "dbackend" :: List.map px_dfield fs) in
      Ls (At "director" :: hx name.lit :: hx ty.lit :: List.map p1 ps)
  | DTable (_, name, ty, _, ps, _) ->
      let p1 (TProp (k, _, v, comma)) = Ls [At "tprop"; px_e k; px_e v; b01 (comma <> None)] in
      Ls (At "table" :: hx name.lit :: (match ty with None -> At "_" | Some t -> hx t.lit) :: List.map p1 ps)
  | DSub (_, name, params, ret, _, b, _) ->
      let ps = match params with
        | None -> []
        | Some ((_, l), _) -> List.map (fun ((ty, nm), _) -> Ls [At "param"; hx ty.lit; hx nm.lit]) l in
      Ls [At "sub"; hx name.lit; Ls ps; (match ret with None -> At "_" | Some t -> hx t.lit); px_ss b]
  | DPenaltybox (_, name, _, b, _) -> Ls [At "penaltybox"; hx name.lit; px_ss b]
  | DRatecounter (_, name, _, b, _) -> Ls [At "ratecounter"; hx name.lit; px_ss b]
and px_ss (l : stmt list) : sexp = Ls (List.map px_s l)

let kind_name = function
  | E_unexpected -> "unexpected" | E_missing_semi -> "missing-semi" | E_missing_colon -> "missing-colon"
  | E_undef_prefix -> "undefined-prefix" | E_conversion -> "conversion" | E_escape -> "escape"
  | E_dup_case -> "dup-case" | E_multi_default -> "multi-default" | E_final_fallthrough -> "final-fallthrough"
  | E_empty_switch -> "empty-switch" | E_paren_mismatch -> "paren-mismatch" | E_fname -> "fname-not-ident"

let reply (n : int) (show : 'a -> Stdlib.String.t) (r : 'a pres) : Stdlib.String.t =
  match r with
  | POK a -> "ok " ^ show a
  | PErr (k, t, rem) ->
      let idx = if string_of_bytes (tname_b t.typ) = "EOF" then n else n - int_of_nat rem in
      Printf.sprintf "err %s %d" (kind_name k) idx
  | PErrNoTok -> "err notoken"
  | PCrash -> "crash"
  | PFuel -> "fuel"

let handle (req : Stdlib.String.t) : Stdlib.String.t =
  match String.split_on_char ' ' req with
  | [mode; ts; orc] ->
    let toks = tokens_of ts in
    let fok = oracle_of orc in
    let n = List.length toks in
    let show_vcl v = (if v.vsnippet then "1 " else "0 ") ^ sexp_to_string (px_ss v.vstmts) in
    (match mode with
     | "vcl" -> reply n show_vcl (parse_vcl fok toks)
     | "snippet" -> reply n show_vcl (parse_snippet fok toks)
     | "auto" -> reply n show_vcl (parse_vcl_or_snippet fok toks)
     | "expr" ->
         reply n (fun (e, rest) ->
           (* rest = cur :: what follows; cur is the last token of the expression *)
           Printf.sprintf "%s %d" (sexp_to_string (px_e e)) (max 0 (List.length rest - 1)))
           (parse_expression fok toks)
     | "comments" ->
         (* the decorated stream of Model/ParseComments.v: TYPE:index:nest:pel:cidx.plf.pel,... *)
         String.concat ";" (List.map (fun d ->
           Printf.sprintf "%s:%d:%s:%d:%s" (string_of_bytes (tname_b d.dtk.typ)) (int_of_n d.dtk.off)
             (dec_of_z d.dnest) (int_of_n d.dpel)
             (String.concat "," (List.map (fun c ->
                Printf.sprintf "%d.%s.%d" (int_of_n c.ctok.off) (if c.cplf then "1" else "0") (int_of_n c.cpel)) d.dlead)))
           (read_peek_stream toks))
     | _ -> "badmode")
  | _ -> "badreq"

let () = serve handle
