open Common
open Escape_model

let rec pos_of_int (i : int) : positive =
  if i = 1 then XH else if i land 1 = 0 then XO (pos_of_int (i lsr 1)) else XI (pos_of_int (i lsr 1))
let n_of_int i = if i = 0 then N0 else Npos (pos_of_int i)
let rec int_of_pos = function XH -> 1 | XO p -> 2 * int_of_pos p | XI p -> 2 * int_of_pos p + 1
let int_of_n = function N0 -> 0 | Npos p -> int_of_pos p
let byte_of_int i = n2b (n_of_int i)
let int_of_byte b = int_of_n (b2n b)
let unhex h = if h = "-" then [] else List.map byte_of_int (ints_of_hex h)
let tohex l = match l with [] -> "-" | _ -> hex_of_ints (List.map int_of_byte l)

let split_on c s = String.split_on_char c s |> List.filter (fun x -> x <> "")
let show_res f = function OK a -> f a | Err -> "err" | Crash -> "crash" | OutOfFuel -> "fuel"

(* requests (every string field is hex, "-" = empty):
     quote S | comment S | sanitize S | unescape S | lex S
     dict NAME K:V,K:V,...        -> <rendered> <ok K:V,... | err>     (the rendering, and the model's own parse of it)
     acl NAME N/IP/MASK/COMMENT,...   N = 0|1, MASK = number | _
     backend NAME ADDR|_
     director NAME TYPE RETRIES QUORUM B,B,... *)
let handle (req : string) : string =
  match split_on ' ' req with
  | ["quote"; s] -> tohex (vcl_quote (unhex s))
  | ["comment"; s] -> tohex (clean_comment (unhex s))
  | ["sanitize"; s] -> tohex (sanitize (unhex s))
  | ["unescape"; s] -> show_res (fun b -> "ok " ^ tohex b) (decode_string_escapes (unhex s))
  | ["lex"; s] -> show_res (fun (l, r) -> "ok " ^ tohex l ^ " " ^ tohex r) (read_string (unhex s))
  | "dict" :: name :: rest ->
    let items = (match rest with
      | [] | ["."] -> []
      | [l] -> List.map (fun kv -> match String.split_on_char ':' kv with
                                   | [k; v] -> (unhex k, unhex v) | _ -> failwith "item") (split_on ',' l)
      | _ -> failwith "dict") in
    let text = render_dict (unhex name) items in
    tohex text ^ " " ^
    show_res (fun l -> "ok " ^ (match l with [] -> "." | _ -> String.concat "," (List.map (fun (k, v) -> tohex k ^ ":" ^ tohex v) l)))
      (parse_table text)
  | "acl" :: name :: rest ->
    let es = (match rest with
      | [] | ["."] -> []
      | [l] -> List.map (fun e -> match String.split_on_char '/' e with
          | [n; ip; m; c] -> { a_neg = (n = "1"); a_ip = unhex ip;
                               a_mask = (if m = "_" then None else Some (n_of_int (int_of_string m))); a_comment = unhex c }
          | _ -> failwith "entry") (split_on ',' l)
      | _ -> failwith "acl") in
    tohex (render_acl (unhex name) es)
  | ["backend"; name; addr] -> tohex (render_backend (unhex name) (if addr = "_" then None else Some (unhex addr)))
  | "director" :: name :: ty :: retries :: quorum :: rest ->
    let bs = (match rest with [] | ["."] -> [] | [l] -> List.map unhex (split_on ',' l) | _ -> failwith "director") in
    tohex (render_director (unhex name) (n_of_int (int_of_string ty)) (n_of_int (int_of_string retries)) (n_of_int (int_of_string quorum)) bs)
  | _ -> "badreq"

let () = serve handle
