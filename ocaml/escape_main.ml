open Common
open Escape_model

let rec pos_of_int (i : int) : positive =
  if i = 1 then XH else if i land 1 = 0 then XO (pos_of_int (i lsr 1)) else XI (pos_of_int (i lsr 1))
let n_of_int i = if i = 0 then N0 else Npos (pos_of_int i)
let rec int_of_pos = function XH -> 1 | XO p -> 2 * int_of_pos p | XI p -> 2 * int_of_pos p + 1
let int_of_n = function N0 -> 0 | Npos p -> int_of_pos p
let byte_of_int i = n2b (n_of_int i)
let int_of_byte b = int_of_n (b2n b)
let unhex h = if h = "-" then [] else List.map byte_of_int (ints_of_hex h)
let tohex l = match l with [] -> "-" | _ -> hex_of_ints (List.map int_of_byte l)

let split_on c s = String.split_on_char c s |> List.filter (fun x -> x <> "")
let show_res f = function OK a -> f a | Err -> "err" | Crash -> "crash" | OutOfFuel -> "fuel"

(* requests (every string field is hex, "-" = empty):
     quote S | comment S | sanitize S | unescape S | lex S
     dict NAME K:V,K:V,...        -> <rendered> <ok K:V,... | err>     (the rendering, and the model's own parse of it)
     acl NAME N/IP/MASK/COMMENT,...   N = 0|1, MASK = number | _
     backend NAME ADDR|_
     director NAME TYPE RETRIES QUORUM B,B,...
     rule TY DEST IGNORE(0|1) set SRC | rule TY DEST IGNORE delete     -> the text of Model/Rules.v render_rule
     ctype CT                     -> set obj.http.Content-Type = "quote(CT)";
     longstring S                 -> the long string literal | none
     snips TYPE NAME/TYPE/PRIO/CONTENT,...   -> the names of scoped TYPE (for TYPE = none: the names found by include_of), comma separated *)
let handle (req : string) : string =
  match split_on ' ' req with
  | ["quote"; s] -> tohex (vcl_quote (unhex s))
  | ["comment"; s] -> tohex (clean_comment (unhex s))
  | ["sanitize"; s] -> tohex (sanitize (unhex s))
  | ["unescape"; s] -> show_res (fun b -> "ok " ^ tohex b) (decode_string_escapes (unhex s))
  | ["lex"; s] -> show_res (fun (l, r) -> "ok " ^ tohex l ^ " " ^ tohex r) (read_string (unhex s))
  | "dict" :: name :: rest ->
    let items = (match rest with
      | [] | ["."] -> []
      | [l] -> List.map (fun kv -> match String.split_on_char ':' kv with
                                   | [k; v] -> (unhex k, unhex v) | _ -> failwith "item") (split_on ',' l)
      | _ -> failwith "dict") in
    let text = render_dict (unhex name) items in
    tohex text ^ " " ^
    show_res (fun l -> "ok " ^ (match l with [] -> "." | _ -> String.concat "," (List.map (fun (k, v) -> tohex k ^ ":" ^ tohex v) l)))
      (parse_table text)
  | "acl" :: name :: rest ->
    let es = (match rest with
      | [] | ["."] -> []
      | [l] -> List.map (fun e -> match String.split_on_char '/' e with
          | [n; ip; m; c] -> { a_neg = (n = "1"); a_ip = unhex ip;
                               a_mask = (if m = "_" then None else Some (n_of_int (int_of_string m))); a_comment = unhex c }
          | _ -> failwith "entry") (split_on ',' l)
      | _ -> failwith "acl") in
    tohex (render_acl (unhex name) es)
  | ["backend"; name; addr] -> tohex (render_backend (unhex name) (if addr = "_" then None else Some (unhex addr)))
  | "director" :: name :: ty :: retries :: quorum :: rest ->
    let bs = (match rest with [] | ["."] -> [] | [l] -> List.map unhex (split_on ',' l) | _ -> failwith "director") in
    tohex (render_director (unhex name) (n_of_int (int_of_string ty)) (n_of_int (int_of_string retries)) (n_of_int (int_of_string quorum)) bs)
  | ["rule"; ty; dest; ign; "set"; src] ->
    tohex (render_rule (n_of_int (int_of_string ty)) (unhex dest) (ign = "1") (RSet (unhex src)))
  | ["rule"; ty; dest; ign; "delete"] ->
    tohex (render_rule (n_of_int (int_of_string ty)) (unhex dest) (ign = "1") RDelete)
  | ["ctype"; ct] -> tohex (render_content_type (unhex ct))
  | ["longstring"; s] -> (match longstring (unhex s) with Some t -> tohex t | None -> "none")
  | "snips" :: ty :: rest ->
    let z_of_int i = if i = 0 then Z0 else if i > 0 then Zpos (pos_of_int i) else Zneg (pos_of_int (- i)) in
    let l = (match rest with
      | [] | ["."] -> []
      | [l] -> List.map (fun e -> match String.split_on_char '/' e with
          | [n; t; p; c] -> { s_name = unhex n; s_type = unhex t; s_prio = z_of_int (int_of_string p); s_content = unhex c }
          | _ -> failwith "snip") (split_on ',' l)
      | _ -> failwith "snips") in
    let tyb = unhex ty in
    let names =
      if tyb = t_none then
        List.filter_map (fun s -> if s.s_type = t_none then
            (match include_of s.s_name l with Some x -> Some (tohex x.s_name ^ ":" ^ tohex x.s_content) | None -> Some "missing") else None) l
      else List.map (fun s -> tohex s.s_name ^ ":" ^ tohex s.s_content) (scoped tyb l) in
    (match names with [] -> "." | _ -> String.concat "," names)
  | _ -> "badreq"

let () = serve handle
