open Common
open Verdict_model

(* request: "(cfg <json 0|1> <verbosity 0|1|2> ((<rulehex> <levelhex>) ...)) (in <main 0|1> <inc 0|1> ((<rulehex> <E|W|I|G>) ...))"
   reply:   "exit=<n> summary=<e,w,i|none> doc=<none|e,w,i,parse> listed=<E,W,I,G counts of the listed diagnostics> shown=<E,W,I counts>" *)

let rec pos_of_int (i : int) : positive =
  if i = 1 then XH else if i land 1 = 0 then XO (pos_of_int (i lsr 1)) else XI (pos_of_int (i lsr 1))
let n_of_int i = if i = 0 then N0 else Npos (pos_of_int i)
let rec int_of_pos = function XH -> 1 | XO p -> 2 * int_of_pos p | XI p -> 2 * int_of_pos p + 1
let int_of_n = function N0 -> 0 | Npos p -> int_of_pos p
let byte_of_int i = n2b (n_of_int i)
let bytes_of_hex h = List.map byte_of_int (ints_of_hex h)
let rec int_of_nat = function O -> 0 | S n -> 1 + int_of_nat n
let rec nat_of_int i = if i <= 0 then O else S (nat_of_int (i - 1))

let str_of = function Sq h -> bytes_of_hex h | _ -> failwith "expected string"
let bool_of = function At "1" -> true | At "0" -> false | _ -> failwith "expected bool"
let sev_of = function
  | At "E" -> SevError | At "W" -> SevWarning | At "I" -> SevInfo | At "G" -> SevIgnore
  | _ -> failwith "severity"

let hist l proj =
  let c s = List.length (List.filter (fun d -> proj d = s) l) in
  Printf.sprintf "%d,%d,%d,%d" (c SevError) (c SevWarning) (c SevInfo) (c SevIgnore)

(* flags and the yaml verbose value arrive as the strings the check wrote on the command line / into .falco.yml
   (hex); the model decodes them with the spellings regenerated from config/config.go *)
let flag_of = function
  | Sq h -> (match flag_of_name (bytes_of_hex h) with Some f -> f | None -> failwith "unknown flag name")
  | At "J" -> FJson | At "V" -> FV | At "VV" -> FVV | _ -> failwith "flag"
let yv_of = function
  | Sq h -> yverbose_of (Some (bytes_of_hex h))
  | At "N" -> yverbose_of None | At "W" -> YWarning | At "I" -> YInfo | At "O" -> YOther | _ -> failwith "yaml verbose"

(* a severity: the letter the check computed, or the string the linter printed (decoded by the model, with
   the spellings regenerated from linter/errors.go) *)
let sev_any = function
  | Sq h -> (match sev_of_string (bytes_of_hex h) with Some s -> s | None -> failwith "unknown severity string")
  | x -> sev_of x

let handle (req : string) : string =
  match parse_sexps req with
  | [cfgx; Ls [At "in"; m; i; Ls ds]] ->
      let rules_of ovs = List.map (function Ls [k; l] -> (str_of k, str_of l) | _ -> failwith "override") ovs in
      let c = match cfgx with
        | Ls [At "cfg"; j; At v; Ls ovs] ->
            { json = bool_of j; verbosity = nat_of_int (int_of_string v); overrides = overrides_of (rules_of ovs) }
        | Ls [At "cfgof"; yv; Ls fl; Ls ovs] -> cfg_of (yv_of yv) (rules_of ovs) (List.map flag_of fl)
        | _ -> failwith "cfg" in
      let fds = List.map (function
        | Ls [r; s] -> ([], (str_of r, sev_any s))
        | Ls [r; s; f] -> (str_of f, (str_of r, sev_any s))
        | _ -> failwith "diag") ds in
      let x = { parse_error_main = bool_of m; parse_error_included = bool_of i; diags = List.map snd fds } in
      let o = run_lint c x in
      let summary = match o.summary with
        | None -> "none"
        | Some ((e, w), i) -> Printf.sprintf "%d,%d,%d" (int_of_nat e) (int_of_nat w) (int_of_nat i) in
      let doc, listed = match o.doc with
        | None -> "none", "none"
        | Some r -> Printf.sprintf "%d,%d,%d,%d" (int_of_nat r.res_errors) (int_of_nat r.res_warnings) (int_of_nat r.res_infos) (int_of_nat r.res_parse),
                    hist r.res_lint snd in
      (* the -json document per file: file hex -> E,W,I,G of its entries, sorted by file *)
      let files =
        if o.doc = None || x.parse_error_main || x.parse_error_included then "none"
        else
          let m = doc_files c fds in
          let items = List.map (fun (f, l) -> hex_of_ints (List.map (fun b -> int_of_n (b2n b)) f) ^ ":" ^ hist l snd) m in
          if items = [] then "-" else String.concat ";" (List.sort compare items) in
      Printf.sprintf "exit=%d summary=%s doc=%s listed=%s shown=%s files=%s stats=%d" (int_of_nat o.exit) summary doc listed
        (hist o.terminal snd) files (int_of_nat (run_stats x))
  | _ -> "badreq"

let () = serve handle
