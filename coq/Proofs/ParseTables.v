(* The documented tables (docs/parser.md, Fastly operator reference, the C02 property text)
   written by hand, and the proof that the tables regenerated from parser/parser.go and
   parser/expression_parser.go (Gen/ParserTables.v) are exactly these. *)
From Coq Require Import List NArith ZArith Bool Lia.
From Falco Require Import Base.Bytes Gen.TokenTypes Model.ParseKinds Gen.ParserTables
  Model.ParseBase Model.ParseExpr.
Import ListNotations.
Local Open Scope N_scope.

(* ---------- token types: the enumeration is complete and tcode is injective *)
Lemma tdecode_tcode t : tdecode (tcode t) = Some t.
Proof. destruct t; reflexivity. Qed.

Lemma tcode_inj a b : tcode a = tcode b -> a = b.
Proof.
  intros H. pose proof (tdecode_tcode a) as Ha. rewrite H, tdecode_tcode in Ha. congruence.
Qed.

Lemma ttype_eqb_eq a b : ttype_eqb a b = true <-> a = b.
Proof. unfold ttype_eqb. rewrite N.eqb_eq. split; [apply tcode_inj | congruence]. Qed.

Lemma ttype_eqb_refl a : ttype_eqb a a = true.
Proof. apply ttype_eqb_eq. reflexivity. Qed.

Lemma ttype_eqb_neq a b : ttype_eqb a b = false <-> a <> b.
Proof.
  split.
  - intros H E. apply ttype_eqb_eq in E. congruence.
  - intros H. destruct (ttype_eqb a b) eqn:E; [apply ttype_eqb_eq in E; contradiction | reflexivity].
Qed.

Lemma all_ttypes_complete t : In t all_ttypes.
Proof. destruct t; unfold all_ttypes; repeat (first [left; reflexivity | right]). Qed.

(* ---------- the documented precedence table.
   Loosest first: `||`, `&&`, `~ !~`, `== !=`, `< > <= >=`, string concatenation (explicit `+`
   or juxtaposition: the next expression starts with a STRING, a long string, an IDENT or
   `if(`), then prefix `!` / `-`; above them the postfix `%` and the call parenthesis. *)
Definition doc_levels : list (list ttype) :=
  [ [T_OR];
    [T_AND];
    [T_REGEX_MATCH; T_NOT_REGEX_MATCH];
    [T_EQUAL; T_NOT_EQUAL];
    [T_LESS_THAN; T_GREATER_THAN; T_LESS_THAN_EQUAL; T_GREATER_THAN_EQUAL];
    [T_PLUS; T_STRING; T_OPEN_LONG_STRING; T_IDENT; T_IF] ].

Definition D_LOWEST : N := 1.
Definition D_PREFIX : N := 8.
Definition D_POSTFIX : N := 9.
Definition D_CALL : N := 10.

Fixpoint level_of (t : ttype) (ls : list (list ttype)) (k : N) : option N :=
  match ls with
  | [] => None
  | l :: ls' => if mem t l then Some k else level_of t ls' (k + 1)
  end.

(* precedence of a token type in infix / postfix position (LOWEST = none) *)
Definition doc_prec (t : ttype) : N :=
  match level_of t doc_levels 2 with
  | Some k => k
  | None =>
    match t with
    | T_PERCENT => D_POSTFIX
    | T_LEFT_PAREN => D_CALL
    | _ => D_LOWEST
    end
  end.

(* how an expression may start *)
Definition doc_prefix (t : ttype) : option prefix_kind :=
  match t with
  | T_IDENT | T_ERROR | T_RESTART => Some PK_ParseIdent
  | T_STRING => Some PK_ParseString
  | T_OPEN_LONG_STRING => Some PK_ParseLongString
  | T_INT => Some PK_ParseInteger
  | T_FLOAT => Some PK_ParseFloat
  | T_RTIME => Some PK_ParseRTime
  | T_NOT | T_MINUS | T_PLUS => Some PK_ParsePrefixExpression
  | T_TRUE | T_FALSE => Some PK_ParseBoolean
  | T_LEFT_PAREN => Some PK_ParseGroupedExpression
  | T_IF => Some PK_ParseIfExpression
  | _ => None
  end.

(* how an expression may continue: explicit `+` (explicit flag true), juxtaposition (false),
   binary operators, call *)
Definition doc_infix (t : ttype) : option infix_kind :=
  match t with
  | T_PLUS => Some (IK_ParseInfixStringConcatExpression true)
  | T_IF | T_STRING | T_OPEN_LONG_STRING | T_IDENT => Some (IK_ParseInfixStringConcatExpression false)
  | T_MINUS | T_EQUAL | T_NOT_EQUAL | T_GREATER_THAN | T_GREATER_THAN_EQUAL | T_LESS_THAN
  | T_LESS_THAN_EQUAL | T_REGEX_MATCH | T_NOT_REGEX_MATCH | T_AND | T_OR => Some IK_ParseInfixExpression
  | T_LEFT_PAREN => Some IK_ParseFunctionCallExpression
  | _ => None
  end.

Definition doc_postfix (t : ttype) : option postfix_kind :=
  match t with T_PERCENT => Some QK_ParsePostfixExpression | _ => None end.

Definition doc_assignment (t : ttype) : bool :=
  match t with
  | T_ASSIGN | T_ADDITION | T_SUBTRACTION | T_MULTIPLICATION | T_DIVISION | T_REMAINDER
  | T_BITWISE_OR | T_BITWISE_AND | T_BITWISE_XOR | T_LEFT_SHIFT | T_RIGHT_SHIFT | T_LEFT_ROTATE
  | T_RIGHT_ROTATE | T_LOGICAL_AND | T_LOGICAL_OR => true
  | _ => false
  end.

Definition doc_declaration (t : ttype) : bool :=
  match t with
  | T_ACL | T_IMPORT | T_INCLUDE | T_BACKEND | T_DIRECTOR | T_TABLE | T_SUBROUTINE
  | T_PENALTYBOX | T_RATECOUNTER => true
  | _ => false
  end.

Definition opt_eqb {A} (code : A -> N) (a b : option A) : bool :=
  match a, b with
  | None, None => true
  | Some x, Some y => code x =? code y
  | _, _ => false
  end.
Definition pk_code (k : prefix_kind) : N :=
  match k with
  | PK_ParseIdent => 0 | PK_ParseString => 1 | PK_ParseLongString => 2 | PK_ParseInteger => 3
  | PK_ParseFloat => 4 | PK_ParseRTime => 5 | PK_ParsePrefixExpression => 6 | PK_ParseBoolean => 7
  | PK_ParseGroupedExpression => 8 | PK_ParseIfExpression => 9
  end.
Definition ik_code (k : infix_kind) : N :=
  match k with
  | IK_ParseInfixExpression => 0
  | IK_ParseInfixStringConcatExpression true => 1
  | IK_ParseInfixStringConcatExpression false => 2
  | IK_ParseFunctionCallExpression => 3
  end.
Definition qk_code (k : postfix_kind) : N := 0.

Definition tables_check : bool :=
  forallb (fun t =>
    (match assoc t precedences with Some v => v | None => P_LOWEST end =? doc_prec t)
    && opt_eqb pk_code (assoc t prefix_parsers) (doc_prefix t)
    && opt_eqb ik_code (assoc t infix_parsers) (doc_infix t)
    && opt_eqb qk_code (assoc t postfix_parsers) (doc_postfix t)
    && Bool.eqb (mem t assignment_operators) (doc_assignment t)
    && Bool.eqb (mem t declaration_tokens) (doc_declaration t)) all_ttypes
  && (P_LOWEST =? D_LOWEST) && (P_PREFIX =? D_PREFIX) && (P_POSTFIX =? D_POSTFIX) && (P_CALL =? D_CALL).

Lemma tables_check_ok : tables_check = true.
Proof. vm_compute. reflexivity. Qed.

Lemma pk_code_inj a b : pk_code a = pk_code b -> a = b.
Proof. destruct a, b; simpl; intros H; try reflexivity; discriminate. Qed.
Lemma ik_code_inj a b : ik_code a = ik_code b -> a = b.
Proof. destruct a as [|[]|], b as [|[]|]; simpl; intros H; try reflexivity; discriminate. Qed.
Lemma opt_eqb_eq {A} (code : A -> N) (inj : forall a b, code a = code b -> a = b) x y :
  opt_eqb code x y = true -> x = y.
Proof.
  destruct x, y; simpl; intros H; try discriminate; try reflexivity.
  apply N.eqb_eq in H. f_equal. apply inj. exact H.
Qed.

Definition type_prec (t : ttype) : N :=
  match assoc t precedences with Some v => v | None => P_LOWEST end.

(* The theorem: every table of the parser is the documented one, for every token type. *)
Theorem tables_are_documented :
  (forall t : ttype,
      type_prec t = doc_prec t
      /\ assoc t prefix_parsers = doc_prefix t
      /\ assoc t infix_parsers = doc_infix t
      /\ assoc t postfix_parsers = doc_postfix t
      /\ mem t assignment_operators = doc_assignment t
      /\ mem t declaration_tokens = doc_declaration t)
  /\ P_LOWEST = D_LOWEST /\ P_PREFIX = D_PREFIX /\ P_POSTFIX = D_POSTFIX /\ P_CALL = D_CALL.
Proof.
  pose proof tables_check_ok as H. unfold tables_check in H.
  do 4 (apply andb_true_iff in H; destruct H as [H ?]).
  split.
  - intros t. rewrite forallb_forall in H. specialize (H t (all_ttypes_complete t)).
    do 5 (apply andb_true_iff in H; destruct H as [H ?]).
    unfold type_prec. repeat split.
    + apply N.eqb_eq. assumption.
    + eapply opt_eqb_eq; [apply pk_code_inj | eassumption].
    + eapply opt_eqb_eq; [apply ik_code_inj | eassumption].
    + eapply opt_eqb_eq; [|eassumption]. intros [] []; reflexivity.
    + apply Bool.eqb_prop. assumption.
    + apply Bool.eqb_prop. assumption.
  - repeat split; apply N.eqb_eq; assumption.
Qed.

(* rewriting lemmas used by the proofs about the Pratt loop *)
Lemma prec_of_doc t : prec_of t = doc_prec (typ t).
Proof. unfold prec_of. apply (proj1 tables_are_documented (typ t)). Qed.
Lemma prefix_doc t : assoc t prefix_parsers = doc_prefix t.
Proof. apply (proj1 tables_are_documented t). Qed.
Lemma infix_doc t : assoc t infix_parsers = doc_infix t.
Proof. apply (proj1 tables_are_documented t). Qed.
Lemma postfix_doc t : assoc t postfix_parsers = doc_postfix t.
Proof. apply (proj1 tables_are_documented t). Qed.
Lemma P_LOWEST_doc : P_LOWEST = 1. Proof. apply tables_are_documented. Qed.
Lemma P_PREFIX_doc : P_PREFIX = 8. Proof. apply tables_are_documented. Qed.

(* the documented order: every binary level is strictly between LOWEST and PREFIX *)
Lemma doc_prec_range t : 1 <= doc_prec t <= 10.
Proof. destruct t; vm_compute; split; discriminate. Qed.
