(* C07 - proofs about Model/Acl.v *)
From Coq Require Import List NArith ZArith Bool Lia Permutation.
From Falco Require Import Base.Res Model.Acl.
Import ListNotations.
Local Open Scope Z_scope.

Section WithIp.
Variable ip : addr.

Let f := (fun (e : entry) acc => if contains e ip then Z.max (plen e) acc else acc).

Lemma bestlen_cons e l :
  bestlen (e :: l) ip = if contains e ip then Z.max (plen e) (bestlen l ip) else bestlen l ip.
Proof. reflexivity. Qed.

Lemma bestlen_ge_m1 l : -1 <= bestlen l ip.
Proof.
  induction l as [|e l IH]; [cbn; lia|].
  rewrite bestlen_cons. destruct (contains e ip); lia.
Qed.

Lemma fold_from a l : -1 <= a -> fold_right f a l = Z.max (bestlen l ip) a.
Proof.
  intros Ha. induction l as [|e l IH].
  - unfold bestlen; cbn. lia.
  - cbn [fold_right]. rewrite IH, bestlen_cons. unfold f at 1.
    destruct (contains e ip); lia.
Qed.

Lemma bestlen_snoc l e :
  bestlen (l ++ [e]) ip = if contains e ip then Z.max (bestlen l ip) (plen e) else bestlen l ip.
Proof.
  unfold bestlen at 1. rewrite fold_right_app. fold f. cbn [fold_right].
  unfold f at 2. pose proof (bestlen_ge_m1 l).
  destruct (contains e ip).
  - rewrite fold_from by lia. lia.
  - rewrite fold_from by lia. lia.
Qed.

Lemma bestlen_upper l e : In e l -> contains e ip = true -> plen e <= bestlen l ip.
Proof.
  induction l as [|x l IH]; [contradiction|].
  intros [->|Hin] Hc; rewrite bestlen_cons.
  - rewrite Hc. lia.
  - specialize (IH Hin Hc). destruct (contains x ip); lia.
Qed.

Lemma bestlen_attained l : 0 <= bestlen l ip ->
  exists e, In e l /\ contains e ip = true /\ plen e = bestlen l ip.
Proof.
  induction l as [|x l IH].
  - unfold bestlen; cbn; lia.
  - rewrite bestlen_cons. destruct (contains x ip) eqn:Hc.
    + intros H. destruct (Z.max_spec (plen x) (bestlen l ip)) as [[Hlt Hm]|[Hge Hm]]; rewrite Hm in *.
      * destruct (IH H) as (e & Hi & Hce & He). exists e; repeat split; auto. now right.
      * exists x; repeat split; auto. now left.
    + intros H. destruct (IH H) as (e & Hi & Hce & He). exists e; repeat split; auto. now right.
Qed.

Definition clause (b : Z) (e : entry) : bool := implb (contains e ip && (plen e =? b)) (negb (eneg e)).

Lemma spec_bool_unfold l :
  spec_bool l ip = (0 <=? bestlen l ip) && forallb (clause (bestlen l ip)) l.
Proof. reflexivity. Qed.

Lemma clause_vacuous b l : (forall e, In e l -> contains e ip = true -> plen e < b) ->
  forallb (clause b) l = true.
Proof.
  intros H. apply forallb_forall. intros e Hin. unfold clause.
  destruct (contains e ip) eqn:Hc; [|reflexivity].
  specialize (H e Hin Hc). replace (plen e =? b) with false by (symmetry; apply Z.eqb_neq; lia).
  reflexivity.
Qed.

(* the loop state after a prefix is the specification of that prefix *)
Definition st_of (l : acl) : Z * bool := (bestlen l ip, spec_bool l ip).

Lemma st_of_snoc l e : valid e = true -> st_of (l ++ [e]) = step ip (st_of l) e.
Proof.
  intros Hv. unfold valid in Hv. apply andb_prop in Hv as [Hv0 _]. apply Z.leb_le in Hv0.
  unfold st_of, step. rewrite !spec_bool_unfold, bestlen_snoc, forallb_app. cbn [forallb].
  pose proof (bestlen_ge_m1 l) as Hm1.
  destruct (contains e ip) eqn:Hc.
  - destruct (bestlen l ip <? plen e) eqn:Hlt.
    + apply Z.ltb_lt in Hlt. replace (Z.max (bestlen l ip) (plen e)) with (plen e) by lia.
      f_equal. rewrite clause_vacuous.
      * unfold clause. rewrite Hc, Z.eqb_refl. cbn.
        replace (0 <=? plen e) with true by (symmetry; apply Z.leb_le; lia).
        now rewrite andb_true_r.
      * intros e' Hin Hc'. pose proof (bestlen_upper l e' Hin Hc'). lia.
    + apply Z.ltb_ge in Hlt. replace (Z.max (bestlen l ip) (plen e)) with (bestlen l ip) by lia.
      unfold clause at 2. rewrite Hc. cbn [andb].
      destruct (plen e =? bestlen l ip) eqn:He; cbn [andb implb].
      * destruct (eneg e); cbn.
        -- f_equal. now rewrite andb_false_r, andb_false_r.
        -- f_equal. now rewrite !andb_true_r.
      * f_equal. now rewrite !andb_true_r.
  - f_equal. unfold clause at 2. rewrite Hc. cbn. now rewrite andb_true_r.
Qed.

Lemma loop_fold l : forall st, forallb valid l = true ->
  loop ip l st = OK (snd (fold_left (step ip) l st)).
Proof.
  induction l as [|e l IH]; intros st Hv; [reflexivity|].
  cbn in Hv. apply andb_prop in Hv as [He Hl]. cbn. rewrite He. now apply IH.
Qed.

Lemma loop_invalid l : forall st, forallb valid l = false -> loop ip l st = Err.
Proof.
  induction l as [|e l IH]; intros st Hv; [discriminate|].
  cbn in Hv. cbn. destruct (valid e); [apply IH; exact Hv|reflexivity].
Qed.

Lemma fold_st_of l : forallb valid l = true -> fold_left (step ip) l (st_of []) = st_of l.
Proof.
  induction l as [|e l IH] using rev_ind; intros Hv; [reflexivity|].
  rewrite forallb_app in Hv. apply andb_prop in Hv as [Hl He]. cbn in He. rewrite andb_true_r in He.
  rewrite fold_left_app. cbn [fold_left]. rewrite IH by assumption. symmetry. now apply st_of_snoc.
Qed.

Theorem acl_impl_eq_spec_ip (l : acl) : impl_match l ip = spec_match l ip.
Proof.
  unfold impl_match, spec_match. destruct (forallb valid l) eqn:Hv.
  - rewrite loop_fold by assumption.
    change (-1, false) with (st_of []). now rewrite fold_st_of.
  - now apply loop_invalid.
Qed.

(* the boolean specification says what the declarative one says (entries with a parsable mask) *)
Theorem spec_bool_iff_ip (l : acl) : forallb valid l = true ->
  (spec_bool l ip = true <-> spec_matches l ip).
Proof.
  intros Hv. rewrite spec_bool_unfold. split.
  - intros H. apply andb_prop in H as [Hb Hf]. apply Z.leb_le in Hb.
    destruct (bestlen_attained l Hb) as (e & Hin & Hc & Hp).
    exists e. repeat split; auto.
    + intros e' Hin' Hc'. rewrite Hp. now apply bestlen_upper.
    + intros e' Hin' Hc' Hpe. rewrite forallb_forall in Hf. specialize (Hf e' Hin').
      unfold clause in Hf. rewrite Hc', Hpe, Hp, Z.eqb_refl in Hf. cbn in Hf.
      now destruct (eneg e').
  - intros (e & Hin & Hc & Hmax & Hneg).
    assert (Hle : plen e <= bestlen l ip) by now apply bestlen_upper.
    assert (H0 : 0 <= bestlen l ip).
    { rewrite forallb_forall in Hv. specialize (Hv e Hin). unfold valid in Hv.
      apply andb_prop in Hv as [Hv _]. apply Z.leb_le in Hv. lia. }
    assert (Hp : plen e = bestlen l ip).
    { destruct (bestlen_attained l H0) as (e2 & Hin2 & Hc2 & Hp2).
      specialize (Hmax e2 Hin2 Hc2). lia. }
    apply andb_true_intro. split; [now apply Z.leb_le|].
    apply forallb_forall. intros e' Hin'. unfold clause.
    destruct (contains e' ip) eqn:Hc'; [|reflexivity]. cbn [andb].
    destruct (plen e' =? bestlen l ip) eqn:He'; [|reflexivity]. apply Z.eqb_eq in He'.
    rewrite (Hneg e' Hin' Hc'); [reflexivity|]. now rewrite He'.
Qed.

End WithIp.

Theorem acl_impl_eq_spec : forall (l : acl) (ip : addr), impl_match l ip = spec_match l ip.
Proof. intros l ip. apply acl_impl_eq_spec_ip. Qed.

Theorem spec_bool_iff : forall (l : acl) (ip : addr), forallb valid l = true ->
  (spec_bool l ip = true <-> spec_matches l ip).
Proof. intros l ip. apply spec_bool_iff_ip. Qed.

Theorem spec_match_meaning : forall (l : acl) (ip : addr), forallb valid l = true ->
  (spec_match l ip = OK true <-> spec_matches l ip).
Proof.
  intros l ip Hv. unfold spec_match. rewrite Hv.
  split; [intros H; injection H as H; now apply spec_bool_iff|intros H; f_equal; now apply spec_bool_iff].
Qed.

(* ---------------------------------------------------------------- order independence *)

Lemma forallb_perm {A} (p : A -> bool) l l' : Permutation l l' -> forallb p l = forallb p l'.
Proof.
  intros P. induction P as [|x l l' P IH|x y l|l l' l'' P1 IH1 P2 IH2]; cbn.
  - reflexivity.
  - now rewrite IH.
  - destruct (p x), (p y); reflexivity.
  - congruence.
Qed.

Lemma spec_matches_perm l l' ip : Permutation l l' -> spec_matches l ip -> spec_matches l' ip.
Proof.
  intros P (e & Hin & Hc & Hmax & Hneg). exists e. repeat split; auto.
  - eapply Permutation_in; eauto.
  - intros e' Hin'. apply Hmax. eapply Permutation_in; [apply Permutation_sym|]; eauto.
  - intros e' Hin'. apply Hneg. eapply Permutation_in; [apply Permutation_sym|]; eauto.
Qed.

Theorem spec_perm_invariant l l' ip : Permutation l l' -> spec_match l ip = spec_match l' ip.
Proof.
  intros P. unfold spec_match. rewrite <- (forallb_perm valid l l' P).
  destruct (forallb valid l) eqn:Hv; [|reflexivity]. f_equal.
  assert (Hv' : forallb valid l' = true) by now rewrite <- (forallb_perm valid l l' P).
  pose proof (spec_bool_iff l ip Hv) as H1. pose proof (spec_bool_iff l' ip Hv') as H2.
  destruct (spec_bool l ip) eqn:E1, (spec_bool l' ip) eqn:E2; try reflexivity.
  - assert (spec_matches l' ip) by (eapply spec_matches_perm; eauto; now apply H1).
    apply H2 in H. discriminate.
  - assert (spec_matches l ip) by (eapply spec_matches_perm; [apply Permutation_sym|]; eauto; now apply H2).
    apply H1 in H. discriminate.
Qed.

Theorem acl_perm_invariant : forall (l l' : acl) (ip : addr),
  Permutation l l' -> impl_match l ip = impl_match l' ip.
Proof. intros. rewrite !acl_impl_eq_spec. now apply spec_perm_invariant. Qed.

(* ---------------------------------------------------------------- host default *)

Theorem acl_host_default : forall (e : entry) (ip : addr), emask e = None ->
  (contains e ip = true <-> ip = eaddr e) /\ plen e = width (afam (eaddr e)).
Proof.
  intros e ip Hm. unfold contains, plen. rewrite Hm. split; [|reflexivity].
  rewrite Z.sub_diag, !Z.shiftr_0_r. split.
  - intros H. apply andb_prop in H as [Hf Hb]. apply Z.eqb_eq in Hb. apply N2Z.inj in Hb.
    destruct ip as [f b], (eaddr e) as [f' b']. cbn in *. subst.
    destruct f, f'; try discriminate; reflexivity.
  - intros ->. apply andb_true_intro. split; [destruct (afam (eaddr e)); reflexivity|apply Z.eqb_refl].
Qed.

(* ---------------------------------------------------------------- witnesses *)

(* acl { "10.0.0.0"/8; !"10.1.0.0"/16; "10.1.2.3"; } and three probes *)
Definition ex_acl : acl :=
  [ mkEntry false (mkAddr V4 167772160%N) (Some 8);
    mkEntry true  (mkAddr V4 167837696%N) (Some 16);
    mkEntry false (mkAddr V4 167838211%N) None ].
Example ex_inside_negated : impl_match ex_acl (mkAddr V4 167837697%N) = OK false.   (* 10.1.0.1 *)
Proof. reflexivity. Qed.
Example ex_host_in_negated : impl_match ex_acl (mkAddr V4 167838211%N) = OK true.   (* 10.1.2.3 *)
Proof. reflexivity. Qed.
Example ex_outer : impl_match ex_acl (mkAddr V4 167772161%N) = OK true.             (* 10.0.0.1 *)
Proof. reflexivity. Qed.
Example ex_outside : impl_match ex_acl (mkAddr V4 184549377%N) = OK false.          (* 11.0.0.1 *)
Proof. reflexivity. Qed.
Example ex_perm : Permutation ex_acl (rev ex_acl).
Proof. apply Permutation_rev. Qed.
Example ex_valid : forallb valid ex_acl = true.
Proof. reflexivity. Qed.

(* the algorithm of the unchanged tree does not meet the specification: an address outside a
   negated entry matched, an address inside a negated entry matched too, and a
   bare IPv6 host was a /32 *)
Theorem old_match_refuted :
  (exists l ip, forallb valid l = true /\ old_match l ip = OK true /\ spec_match l ip = OK false) /\
  (exists l ip, forallb valid l = true /\ In (mkEntry true (mkAddr V4 167837696%N) (Some 16)) l /\
     contains (mkEntry true (mkAddr V4 167837696%N) (Some 16)) ip = true /\
     old_match l ip = OK true /\ spec_match l ip = OK false) /\
  (exists l ip, forallb valid l = true /\ afam ip = V6 /\ old_match l ip = OK true /\ spec_match l ip = OK false).
Proof.
  split; [|split].
  - exists [mkEntry true (mkAddr V4 167837696%N) (Some 16)], (mkAddr V4 184549377%N). now vm_compute.
  - exists [mkEntry false (mkAddr V4 167772160%N) (Some 8); mkEntry true (mkAddr V4 167837696%N) (Some 16)],
           (mkAddr V4 167837697%N).
    split; [reflexivity|]. split; [right; left; reflexivity|]. now vm_compute.
  - (* acl { "2001:db8::1"; }  probed with 2001:db8::2 *)
    exists [mkEntry false (mkAddr V6 42540766411282592856903984951653826561%N) None],
           (mkAddr V6 42540766411282592856903984951653826562%N). now vm_compute.
Qed.
