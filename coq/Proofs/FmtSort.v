(* sort_declaration: Declarations.Sort only permutes the declarations. *)
From Coq Require Import List Bool NArith Arith Lia Permutation.
From Falco Require Import Base.Bytes Model.FmtTok Model.FmtNorm.
Import ListNotations.

Lemma insert_left_perm {A} (less : A -> A -> bool) x l : Permutation (insert_left less x l) (x :: l).
Proof.
  induction l as [|y r IH]; simpl; auto.
  destruct (less x y); auto.
  rewrite IH. apply perm_swap.
Qed.

Lemma isort_fold_perm {A} (less : A -> A -> bool) l : forall acc,
  Permutation (fold_left (fun acc x => insert_left less x acc) l acc) (l ++ acc).
Proof.
  induction l as [|x r IH]; intros acc; simpl; auto.
  rewrite IH. rewrite insert_left_perm. symmetry. apply Permutation_middle.
Qed.

(* the insertion sort of Go's sort.Slice (n <= 12) is a permutation, whatever [less] is -
   even the comparators of lines.go that are not strict weak orders *)
Theorem isort_perm {A} (less : A -> A -> bool) l : Permutation (isort less l) l.
Proof.
  unfold isort. rewrite <- Permutation_rev. rewrite isort_fold_perm. now rewrite app_nil_r.
Qed.

Lemma filter_partition3 {A} (p q : A -> bool) l :
  Permutation (filter (fun g => negb (p g)) l ++ filter (fun g => p g && q g) l
               ++ filter (fun g => p g && negb (q g)) l) l.
Proof.
  induction l as [|x r IH]; simpl; auto.
  destruct (p x), (q x); simpl.
  - rewrite <- Permutation_middle. now apply perm_skip.
  - rewrite app_assoc. rewrite <- Permutation_middle. rewrite <- app_assoc. now apply perm_skip.
  - now apply perm_skip.
  - now apply perm_skip.
Qed.

Theorem sort_groups_perm gs : Permutation (sort_groups gs) gs.
Proof.
  unfold sort_groups. rewrite !isort_perm. apply filter_partition3.
Qed.

(* nothing is added, dropped or duplicated: same declarations, each with its own comments *)
Corollary sort_groups_length gs : length (sort_groups gs) = length gs.
Proof. apply Permutation_length, sort_groups_perm. Qed.

Corollary sort_groups_in gs g : In g (sort_groups gs) <-> In g gs.
Proof. split; apply Permutation_in; [|symmetry]; apply sort_groups_perm. Qed.

(* ---------------------------------------------------------------- sorting again changes nothing *)
(* on the reversed accumulator of [isort] (head = last element): each element is not less than
   the one before it *)
Fixpoint rsorted {A} (less : A -> A -> bool) (l : list A) : Prop :=
  match l with
  | b :: ((a :: _) as r) => less b a = false /\ rsorted less r
  | _ => True
  end.

Lemma rsorted_tail {A} (less : A -> A -> bool) b r : rsorted less (b :: r) -> rsorted less r.
Proof. destruct r; simpl; tauto. Qed.

Lemma insert_left_rsorted {A} (less : A -> A -> bool) :
  (forall a b, less a b = true -> less b a = false) ->
  forall x l, rsorted less l -> rsorted less (insert_left less x l).
Proof.
  intros Hasym x l. induction l as [|y r IH]; simpl; auto.
  intros H. destruct (less x y) eqn:E.
  - pose proof (rsorted_tail _ _ _ H) as Hr. specialize (IH Hr).
    destruct r as [|z r'].
    + simpl. split; auto.
    + destruct H as [H1 _]. simpl in IH |- *.
      destruct (less x z) eqn:E2.
      * split; auto.
      * split; [now apply Hasym|exact IH].
  - split; auto.
Qed.

Lemma fold_insert_rsorted {A} (less : A -> A -> bool) :
  (forall a b, less a b = true -> less b a = false) ->
  forall l acc, rsorted less acc -> rsorted less (fold_left (fun acc x => insert_left less x acc) l acc).
Proof.
  intros Hasym. induction l as [|x r IH]; intros acc Ha; simpl; auto.
  apply IH. now apply insert_left_rsorted.
Qed.

Lemma fold_rev_rsorted {A} (less : A -> A -> bool) : forall l,
  rsorted less l -> fold_left (fun acc x => insert_left less x acc) (rev l) [] = l.
Proof.
  induction l as [|b r IH]; intros H; simpl; auto.
  rewrite fold_left_app. simpl. rewrite IH by (eapply rsorted_tail; eauto).
  destruct r as [|a r']; simpl; auto. destruct H as [H _]. now rewrite H.
Qed.

Theorem isort_idem {A} (less : A -> A -> bool) :
  (forall a b, less a b = true -> less b a = false) ->
  forall l, isort less (isort less l) = isort less l.
Proof.
  intros Hasym l. unfold isort.
  assert (Ha : rsorted less (fold_left (fun acc x => insert_left less x acc) l []))
    by (apply fold_insert_rsorted; simpl; auto).
  now rewrite (fold_rev_rsorted less _ Ha).
Qed.

(* ---------------------------------------------------------------- Declarations.Sort twice *)
Lemma blt_asym : forall a b, blt a b = true -> blt b a = false.
Proof.
  induction a as [|x a IH]; intros [|y b]; simpl; auto; try discriminate.
  destruct (N.ltb (b2n x) (b2n y)) eqn:E1.
  - intros _. apply N.ltb_lt in E1.
    assert (N.ltb (b2n y) (b2n x) = false) as -> by (apply N.ltb_ge; lia). reflexivity.
  - destruct (N.ltb (b2n y) (b2n x)) eqn:E2; [discriminate|]. intros H. auto.
Qed.

Lemma less_other_asym a b : less_other a b = true -> less_other b a = false.
Proof.
  unfold less_other. destruct (Nat.eqb (decl_rank (g_kind a)) (decl_rank (g_kind b))) eqn:E.
  - apply Nat.eqb_eq in E. rewrite E, Nat.eqb_refl. apply blt_asym.
  - rewrite Nat.eqb_sym, E. intros H. apply Nat.ltb_lt in H. apply Nat.ltb_ge. lia.
Qed.

Lemma less_fastly_asym a b : less_fastly a b = true -> less_fastly b a = false.
Proof.
  unfold less_fastly. destruct (fastly_rank a), (fastly_rank b); auto.
  intros H. apply Nat.ltb_lt in H. apply Nat.ltb_ge. lia.
Qed.

Lemma less_user_asym a b : less_user a b = true -> less_user b a = false.
Proof. apply blt_asym. Qed.

Lemma filter_all {A} (p : A -> bool) l : Forall (fun x => p x = true) l -> filter p l = l.
Proof. induction 1; simpl; auto. now rewrite H, IHForall. Qed.

Lemma filter_none {A} (p : A -> bool) l : Forall (fun x => p x = false) l -> filter p l = [].
Proof. induction 1; simpl; auto. now rewrite H. Qed.

Lemma isort_forall {A} (less : A -> A -> bool) (P : A -> Prop) l : Forall P l -> Forall P (isort less l).
Proof. intros H. eapply Permutation_Forall; [symmetry; apply isort_perm|exact H]. Qed.

Lemma forall_filter {A} (p : A -> bool) l : Forall (fun x => p x = true) (filter p l).
Proof. apply Forall_forall. intros x H. now apply filter_In in H. Qed.

Theorem sort_groups_idem gs : sort_groups (sort_groups gs) = sort_groups gs.
Proof.
  unfold sort_groups.
  set (pA := fun g => negb (is_sub g)). set (pB := fun g => is_sub g && is_fastly g).
  set (pC := fun g => is_sub g && negb (is_fastly g)).
  set (A := isort less_other (filter pA gs)). set (B := isort less_fastly (filter pB gs)).
  set (C' := isort less_user (filter pC gs)).
  assert (HA : Forall (fun x => pA x = true) A) by (apply isort_forall, forall_filter).
  assert (HB : Forall (fun x => pB x = true) B) by (apply isort_forall, forall_filter).
  assert (HC : Forall (fun x => pC x = true) C') by (apply isort_forall, forall_filter).
  assert (excl : forall g, (pA g = true -> pB g = false /\ pC g = false)
                        /\ (pB g = true -> pA g = false /\ pC g = false)
                        /\ (pC g = true -> pA g = false /\ pB g = false)).
  { intros g. unfold pA, pB, pC. destruct (is_sub g), (is_fastly g); simpl; repeat split; auto; discriminate. }
  assert (imp : forall (p q : group -> bool) l, Forall (fun x => p x = true) l ->
                (forall g, p g = true -> q g = false) -> Forall (fun x => q x = false) l).
  { intros p q l H Hpq. eapply Forall_impl; [|exact H]. simpl. auto. }
  rewrite !filter_app.
  rewrite (filter_all pA A HA), (filter_none pA B), (filter_none pA C').
  2:{ eapply imp; [exact HC|]. intros g Hg. now apply (proj2 (proj2 (excl g))). }
  2:{ eapply imp; [exact HB|]. intros g Hg. now apply (proj1 (proj2 (excl g))). }
  rewrite (filter_none pB A), (filter_all pB B HB), (filter_none pB C').
  2:{ eapply imp; [exact HC|]. intros g Hg. now apply (proj2 (proj2 (excl g))). }
  2:{ eapply imp; [exact HA|]. intros g Hg. now apply (proj1 (excl g)). }
  rewrite (filter_none pC A), (filter_none pC B), (filter_all pC C' HC).
  2:{ eapply imp; [exact HB|]. intros g Hg. now apply (proj1 (proj2 (excl g))). }
  2:{ eapply imp; [exact HA|]. intros g Hg. now apply (proj1 (excl g)). }
  rewrite !app_nil_r. simpl.
  unfold A, B, C'.
  rewrite (isort_idem less_other less_other_asym), (isort_idem less_fastly less_fastly_asym),
          (isort_idem less_user less_user_asym).
  reflexivity.
Qed.

(* a map that keeps the sort keys commutes with the sort *)
Lemma insert_left_map {A} (less : A -> A -> bool) (f : A -> A) :
  (forall a b, less (f a) (f b) = less a b) ->
  forall x l, insert_left less (f x) (map f l) = map f (insert_left less x l).
Proof.
  intros H x l. induction l as [|y r IH]; simpl; auto.
  rewrite H. destruct (less x y); simpl; auto. now rewrite IH.
Qed.

Lemma isort_map {A} (less : A -> A -> bool) (f : A -> A) :
  (forall a b, less (f a) (f b) = less a b) -> forall l, isort less (map f l) = map f (isort less l).
Proof.
  intros H l. unfold isort.
  assert (G : forall l acc, fold_left (fun acc x => insert_left less x acc) (map f l) (map f acc)
                            = map f (fold_left (fun acc x => insert_left less x acc) l acc)).
  { induction l0 as [|x r IH]; intros acc; simpl; auto.
    rewrite insert_left_map by exact H. apply IH. }
  pose proof (G l []) as G0. simpl in G0. rewrite G0. now rewrite map_rev.
Qed.

Lemma filter_map_keep {A} (p : A -> bool) (f : A -> A) :
  (forall a, p (f a) = p a) -> forall l, filter p (map f l) = map f (filter p l).
Proof. intros H l. induction l as [|x r IH]; simpl; auto. rewrite H. destruct (p x); simpl; now rewrite IH. Qed.

Theorem sort_groups_map f :
  (forall g, g_kind (f g) = g_kind g) -> (forall g, g_name (f g) = g_name g) ->
  forall gs, sort_groups (map f gs) = map f (sort_groups gs).
Proof.
  intros Hk Hn gs. unfold sort_groups.
  assert (Hs : forall g, is_sub (f g) = is_sub g) by (intros g; unfold is_sub; now rewrite Hk).
  assert (Hr : forall g, fastly_rank (f g) = fastly_rank g) by (intros g; unfold fastly_rank; now rewrite Hn).
  assert (Hf : forall g, is_fastly (f g) = is_fastly g) by (intros g; unfold is_fastly; now rewrite Hr).
  rewrite !map_app.
  rewrite <- (isort_map less_other f), <- (isort_map less_fastly f), <- (isort_map less_user f).
  - rewrite !filter_map_keep; auto; intros g; now rewrite ?Hs, ?Hf.
  - intros a b. unfold less_user. now rewrite !Hn.
  - intros a b. unfold less_fastly. now rewrite !Hr.
  - intros a b. unfold less_other. now rewrite !Hk, !Hn.
Qed.
