(* sort_declaration: Declarations.Sort only permutes the declarations. *)
From Coq Require Import List Bool NArith Arith Lia Permutation.
From Falco Require Import Base.Bytes Model.FmtTok Model.FmtNorm.
Import ListNotations.

Lemma insert_left_perm {A} (less : A -> A -> bool) x l : Permutation (insert_left less x l) (x :: l).
Proof.
  induction l as [|y r IH]; simpl; auto.
  destruct (less x y); auto.
  rewrite IH. apply perm_swap.
Qed.

Lemma isort_fold_perm {A} (less : A -> A -> bool) l : forall acc,
  Permutation (fold_left (fun acc x => insert_left less x acc) l acc) (l ++ acc).
Proof.
  induction l as [|x r IH]; intros acc; simpl; auto.
  rewrite IH. rewrite insert_left_perm. symmetry. apply Permutation_middle.
Qed.

(* the insertion sort of Go's sort.Slice (n <= 12) is a permutation, whatever [less] is -
   even the comparators of lines.go that are not strict weak orders *)
Theorem isort_perm {A} (less : A -> A -> bool) l : Permutation (isort less l) l.
Proof.
  unfold isort. rewrite <- Permutation_rev. rewrite isort_fold_perm. now rewrite app_nil_r.
Qed.

Lemma filter_partition3 {A} (p q : A -> bool) l :
  Permutation (filter (fun g => negb (p g)) l ++ filter (fun g => p g && q g) l
               ++ filter (fun g => p g && negb (q g)) l) l.
Proof.
  induction l as [|x r IH]; simpl; auto.
  destruct (p x), (q x); simpl.
  - rewrite <- Permutation_middle. now apply perm_skip.
  - rewrite app_assoc. rewrite <- Permutation_middle. rewrite <- app_assoc. now apply perm_skip.
  - now apply perm_skip.
  - now apply perm_skip.
Qed.

Theorem sort_groups_perm gs : Permutation (sort_groups gs) gs.
Proof.
  unfold sort_groups. rewrite !isort_perm. apply filter_partition3.
Qed.

(* nothing is added, dropped or duplicated: same declarations, each with its own comments *)
Corollary sort_groups_length gs : length (sort_groups gs) = length gs.
Proof. apply Permutation_length, sort_groups_perm. Qed.

Corollary sort_groups_in gs g : In g (sort_groups gs) <-> In g gs.
Proof. split; apply Permutation_in; [|symmetry]; apply sort_groups_perm. Qed.
