(* parse_error_located, part 1: every *ParseError of the model is raised on the cur, peek or prev
   token of a state reached from the start state by NextToken only (ER), expressions. *)
From Coq Require Import List NArith ZArith Bool Lia.
From Falco Require Import Base.Bytes Gen.TokenTypes Model.ParseKinds Gen.ParserTables
  Model.ParseBase Model.Ast Model.ParseLit Model.ParseExpr Model.Yield
  Proofs.ParseTables Proofs.ParseExprYield Proofs.ParseExprTotal.
Import ListNotations.
Local Open Scope parse_scope.

Definition origin (s : pstate) (k : perr) (t : token) (rem : nat) : Prop :=
  @PErr unit k t rem = err_cur k s \/ @PErr unit k t rem = err_peek k s \/ @PErr unit k t rem = err_prev k s.

Definition EV {A} (st : pstate) (r : pres A) : Prop :=
  forall k t rem, r = PErr k t rem -> exists s, reach st s /\ origin s k t rem.
Definition ER {A} (st : pstate) (r : pres (A * pstate)) : Prop :=
  (forall a s', r = POK (a, s') -> reach st s') /\ EV st r.

Lemma EV_cur {A} st k s : reach st s -> EV st (@err_cur A k s).
Proof. intros R k0 t rem E. exists s. split; [exact R|]. left. unfold err_cur in *. inversion E. reflexivity. Qed.
Lemma EV_peek {A} st k s : reach st s -> EV st (@err_peek A k s).
Proof. intros R k0 t rem E. exists s. split; [exact R|]. right. left. unfold err_peek in *. inversion E. reflexivity. Qed.
Lemma EV_prev {A} st k s : reach st s -> EV st (@err_prev A k s).
Proof.
  intros R k0 t rem E. exists s. split; [exact R|]. right. right. unfold err_prev in *.
  destruct (prev s); inversion E. reflexivity.
Qed.

Lemma ER_ok {A} st (a : A) s' : reach st s' -> ER st (POK (a, s')).
Proof. intros H. split; [intros a0 s0 E; inversion E; subst; exact H | intros k t rem E; discriminate]. Qed.
Lemma ER_cur {A} st k s : reach st s -> ER st (@err_cur (A * pstate) k s).
Proof. intros R. split; [intros; discriminate | apply EV_cur; exact R]. Qed.
Lemma ER_peek {A} st k s : reach st s -> ER st (@err_peek (A * pstate) k s).
Proof. intros R. split; [intros; discriminate | apply EV_peek; exact R]. Qed.
Lemma ER_prev {A} st k s : reach st s -> ER st (@err_prev (A * pstate) k s).
Proof.
  intros R. split; [unfold err_prev; destruct (prev s); intros; discriminate | apply EV_prev; exact R].
Qed.
Lemma ER_notok {A} st : ER st (@PErrNoTok (A * pstate)). Proof. split; intros; discriminate. Qed.
Lemma ER_crash {A} st : ER st (@PCrash (A * pstate)). Proof. split; intros; discriminate. Qed.
Lemma ER_fuel {A} st : ER st (@PFuel (A * pstate)). Proof. split; intros; discriminate. Qed.

Lemma EV_reach {A} st s (r : pres A) : reach st s -> EV s r -> EV st r.
Proof.
  intros R H k t rem E. destruct (H k t rem E) as [s0 [R0 O]]. exists s0. split; [eapply reach_trans; eauto | exact O].
Qed.
Lemma ER_reach {A} st s (r : pres (A * pstate)) : reach st s -> ER s r -> ER st r.
Proof.
  intros R [H1 H2]. split; [intros a s' E; eapply reach_trans; [exact R | eapply H1; eauto] | eapply EV_reach; eauto].
Qed.

Lemma EV_retype {A B} st k t rem : EV st (@PErr A k t rem) -> EV st (@PErr B k t rem).
Proof. intros H k0 t0 r0 E. inversion E; subst. apply (H k0 t0 r0 eq_refl). Qed.

Lemma ER_bind {A B} st (x : pres (A * pstate)) (f : A * pstate -> pres (B * pstate)) :
  ER st x -> (forall a s', x = POK (a, s') -> ER s' (f (a, s'))) -> ER st (pbind x f).
Proof.
  intros [H1 H2] Hf. destruct x as [[a s']| | | |]; cbn [pbind].
  - apply (ER_reach st s'); [eapply H1; reflexivity | apply Hf; reflexivity].
  - split; [intros; discriminate | eapply EV_retype; exact H2].
  - apply ER_notok.
  - apply ER_crash.
  - apply ER_fuel.
Qed.

Lemma ER_bindv {A B} st (x : pres A) (f : A -> pres (B * pstate)) :
  EV st x -> (forall a, ER st (f a)) -> ER st (pbind x f).
Proof.
  intros H Hf. destruct x; cbn [pbind]; [apply Hf | split; [intros; discriminate | eapply EV_retype; exact H]
                                         | apply ER_notok | apply ER_crash | apply ER_fuel].
Qed.

Lemma ER_expect {B} s t (f : pstate -> pres (B * pstate)) :
  ER (next s) (f (next s)) -> ER s (pbind (expect s t) f).
Proof.
  intros H. unfold expect, expect_peek. destruct (peek_is s t); cbn [pbind]; [|apply ER_peek, reach_refl].
  eapply ER_reach; [apply reach_next | exact H].
Qed.

Ltac rch_go :=
  first
  [ apply reach_refl
  | match goal with
    | |- reach _ (next _) => apply reach_next_r; rch_go
    | H : reach ?x ?t |- reach _ ?t => apply (reach_trans _ x t); [rch_go | exact H]
    end ].
Ltac eat s2 := match goal with |- ER ?s _ => apply (ER_reach s s2); [solve [rch_go] | ] end.
Ltac ecur := apply ER_cur; solve [rch_go].
Ltac epeek := apply ER_peek; solve [rch_go].
Ltac eok := apply ER_ok; solve [rch_go].

Section E.
Variable fok : str -> bool.

Lemma pstring_EV st : EV st (pstring st).
Proof.
  unfold pstring. destruct (off (cur st) =? 2)%N; [|intros k t rem E; discriminate].
  destruct (decode_escapes (lit (cur st))); try (intros k t rem E; discriminate); apply EV_cur, reach_refl.
Qed.
Lemma pint_EV st : EV st (pint st).
Proof. unfold pint. destruct (conv_integer _ _); [intros k t rem E; discriminate | apply EV_cur, reach_refl]. Qed.

Lemma plong_ER st : ER st (plong st).
Proof.
  unfold plong. destruct (negb (peek_is st T_STRING)); [epeek|].
  destruct (pstring (next st)); try apply ER_crash; try apply ER_fuel.
  destruct (negb _); [epeek|]. destruct (negb _); [epeek|]. eok.
Qed.
Lemma pinteger_ER st : ER st (pinteger st).
Proof. unfold pinteger. apply ER_bindv; [apply pint_EV | intros; eok]. Qed.
Lemma pfloat_ER st : ER st (pfloat fok st).
Proof. unfold pfloat. destruct (fok _); [eok | ecur]. Qed.
Lemma prtime_ER st : ER st (prtime fok st).
Proof. unfold prtime. destruct (rtime_value _); [|ecur]. destruct (fok _); [eok | ecur]. Qed.

Lemma pprefix_ER rec k st :
  (forall p s, ER s (rec p s)) -> ER st (pprefix fok rec k st).
Proof.
  intros IH. destruct k; cbn [pprefix].
  - eok.
  - apply ER_bindv; [apply pstring_EV | intros; eok].
  - apply ER_bind; [apply plong_ER|]. intros [[[o s] c] v] s' _. eok.
  - apply pinteger_ER.
  - apply pfloat_ER.
  - apply prtime_ER.
  - eat (next st). apply ER_bind; [apply IH|]. intros r s' _. eok.
  - eok.
  - eat (next st). apply ER_bind; [apply IH|]. intros r s' _. apply ER_expect. eok.
  - apply ER_expect. eat (next (next st)). apply ER_bind; [apply IH|]. intros c s2 _.
    apply ER_expect. eat (next (next s2)). apply ER_bind; [apply IH|]. intros t s4 _.
    apply ER_expect. eat (next (next s4)). apply ER_bind; [apply IH|]. intros e s6 _.
    apply ER_expect. eok.
Qed.

Lemma pinfix_ER rec ra k l st :
  (forall p s, ER s (rec p s)) -> (forall s, ER s (ra s)) -> ER st (pinfix rec ra k l st).
Proof.
  intros IH IHa. destruct k as [|ex|]; [|destruct ex|]; cbn [pinfix].
  - eat (next st). apply ER_bind; [apply IH|]. intros r s' _. eok.
  - eat (next st). apply ER_bind; [apply IH|]. intros r s' _. eok.
  - apply ER_bind; [apply IH|]. intros r s' _. eok.
  - destruct l; try ecur. apply ER_bind; [apply IHa|]. intros a s' _. eok.
Qed.

Lemma expr_ER_all : forall n,
  (forall p st, ER st (pexpr fok n p st)) /\ (forall p l st, ER st (ploop fok n p l st)) /\
  (forall st, ER st (pargs fok n st)) /\ (forall st, ER st (pargtail fok n st)).
Proof.
  induction n as [|n [IHe [IHl [IHa IHt]]]]; [repeat split; intros; discriminate|].
  split; [|split; [|split]].
  - intros p st. cbn [pexpr]. destruct (assoc _ prefix_parsers); [|ecur].
    apply ER_bind; [apply pprefix_ER; exact IHe|]. intros l s1 _. apply IHl.
  - intros p l st. cbn [ploop]. destruct (_ || _); [eok|].
    destruct (assoc _ infix_parsers).
    + eat (next st). apply ER_bind; [apply pinfix_ER; assumption|]. intros l2 s2 _. apply IHl.
    + destruct (assoc _ postfix_parsers) as [[]|]; [eat (next st); apply IHl | eok].
  - intros st. cbn [pargs]. destruct (peek_is st T_RIGHT_PAREN); [eok|].
    eat (next st). apply ER_bind; [apply IHe|]. intros e s1 _.
    apply ER_bind; [apply IHt|]. intros m s2 _. apply ER_expect. eok.
  - intros st. cbn [pargtail]. destruct (peek_is st T_COMMA); [|eok].
    eat (next (next st)). apply ER_bind; [apply IHe|]. intros e s2 _.
    apply ER_bind; [apply IHt|]. intros m s3 _. eok.
Qed.

Lemma parse_expr_ER p st : ER st (parse_expr fok p st).
Proof. apply (expr_ER_all _). Qed.
Lemma parse_args_ER st : ER st (parse_args fok st).
Proof. apply (expr_ER_all _). Qed.
Lemma pcallexpr_ER f st : ER st (pcallexpr fok f st).
Proof. unfold pcallexpr. apply ER_bind; [apply parse_args_ER|]. intros a s' _. eok. Qed.

End E.

(* ---------- from "origin on a reachable state" to an index into the token list *)
Definition located (ts : list token) (t : token) (rem : nat) : Prop :=
  t = eof_tok \/ (1 <= rem <= length ts /\ nth_error ts (length ts - rem) = Some t).

Lemma iter_toks ts : forall k, toks (Nat.iter k next (start ts)) = skipn k ts.
Proof.
  induction k; [reflexivity|]. simpl. rewrite IHk. clear. revert ts. induction k; intros ts.
  - destruct ts; reflexivity.
  - destruct ts; [reflexivity|]. simpl. apply IHk.
Qed.

Lemma hd_skipn (ts : list token) k : hd eof_tok (skipn k ts) = nth k ts eof_tok.
Proof. revert ts. induction k; intros [|t ts]; simpl; auto. Qed.

Lemma tl_skipn (ts : list token) : forall j, tl (skipn j ts) = skipn (S j) ts.
Proof.
  intros j. revert ts. induction j; intros [|t ts]; try reflexivity. simpl. apply IHj.
Qed.

Lemma iter_cur ts k : cur (Nat.iter k next (start ts)) = nth k ts eof_tok.
Proof. unfold cur. rewrite iter_toks. apply hd_skipn. Qed.

Lemma nth_located ts j : located ts (nth j ts eof_tok) (length ts - j).
Proof.
  destruct (Nat.lt_ge_cases j (length ts)) as [H|H].
  - right. split; [lia|]. replace (length ts - (length ts - j)) with j by lia.
    apply nth_error_nth'. exact H.
  - left. apply nth_overflow. exact H.
Qed.

Lemma origin_located ts s k t rem : reach (start ts) s -> origin s k t rem -> located ts t rem.
Proof.
  intros [j Hj] [O|[O|O]]; subst s.
  - unfold err_cur in O. inversion O; subst. rewrite iter_cur, iter_toks, skipn_length. apply nth_located.
  - unfold err_peek in O. inversion O; subst. clear O.
    unfold peek. rewrite iter_toks.
    rewrite tl_skipn.
    rewrite hd_skipn, skipn_length. replace (Nat.pred (length ts - j)) with (length ts - S j) by lia.
    apply nth_located.
  - unfold err_prev in O. destruct j; [simpl in O; discriminate|].
    cbn [Nat.iter next prev] in O. inversion O; subst. clear O.
    rewrite iter_cur. cbn [toks]. fold (after (Nat.iter j next (start ts))).
    change (after (Nat.iter j next (start ts))) with (toks (Nat.iter (S j) next (start ts))).
    rewrite iter_toks, skipn_length.
    destruct (Nat.lt_ge_cases j (length ts)) as [H|H].
    + replace (S (length ts - S j)) with (length ts - j) by lia. apply nth_located.
    + left. apply nth_overflow. exact H.
Qed.
