(* C17 - level 1: the Go maps (association list + key list, canonical names) implement the
   function store of Model/HdrSpec.v; names are case-insensitive. *)
From Coq Require Import List NArith Bool Lia.
From Coq Require Import Strings.Byte.
From Falco Require Import Base.Bytes Model.HdrField Model.HdrCookie Model.Hdr Model.HdrSpec Proofs.HdrBytes.
Import ListNotations.

(* ---- association lists ---- *)
Lemma map_get_del k m : forall n, map_get n (map_del k m) = if beq k n then None else map_get n m.
Proof.
  intros n. unfold map_del. induction m as [|[k' v] m IH]; simpl.
  - destruct (beq k n); reflexivity.
  - destruct (beq k k') eqn:E; simpl.
    + apply beq_eq in E. subst k'. rewrite IH. rewrite (beq_sym n k).
      destruct (beq k n); reflexivity.
    + destruct (beq n k') eqn:E2.
      * apply beq_eq in E2. subst k'. rewrite E. reflexivity.
      * exact IH.
Qed.

Lemma map_get_set k v m : forall n, map_get n (map_set k v m) = upd (fun n => map_get n m) k (Some v) n.
Proof.
  intros n. unfold map_set, upd. simpl. rewrite (beq_sym n k).
  destruct (beq k n) eqn:E; [reflexivity|]. rewrite map_get_del, E. reflexivity.
Qed.

Lemma map_get_del_upd k m : forall n, map_get n (map_del k m) = upd (fun n => map_get n m) k None n.
Proof. intros n. unfold upd. apply map_get_del. Qed.

Lemma mem_set_add k l : forall n, mem n (set_add k l) = upd (fun n => mem n l) k true n.
Proof.
  intros n. unfold set_add, upd. destruct (mem k l) eqn:E.
  - destruct (beq k n) eqn:E2; [|reflexivity]. apply beq_eq in E2. subst. exact E.
  - unfold mem. simpl. rewrite (beq_sym n k). destruct (beq k n); reflexivity.
Qed.

Lemma mem_set_del k l : forall n, mem n (set_del k l) = upd (fun n => mem n l) k false n.
Proof.
  intros n. unfold set_del, upd, mem. induction l as [|x l IH]; simpl.
  - destruct (beq k n); reflexivity.
  - destruct (beq k x) eqn:E; simpl.
    + apply beq_eq in E. subst x. rewrite IH. rewrite (beq_sym n k). destruct (beq k n); reflexivity.
    + rewrite IH. destruct (beq n x) eqn:E2; [|reflexivity].
      apply beq_eq in E2. subst x. rewrite E. reflexivity.
Qed.

Lemma map_get_filter_prefix p m : forall n,
  map_get n (filter (fun kv => negb (is_prefix p (fst kv))) m) = if is_prefix p n then None else map_get n m.
Proof.
  intros n. induction m as [|[k' v] m IH]; simpl.
  - destruct (is_prefix p n); reflexivity.
  - destruct (is_prefix p k') eqn:E; simpl.
    + rewrite IH. destruct (beq n k') eqn:E2; [|reflexivity].
      apply beq_eq in E2. subst k'. rewrite E. reflexivity.
    + destruct (beq n k') eqn:E2.
      * apply beq_eq in E2. subst k'. rewrite E. reflexivity.
      * exact IH.
Qed.

Lemma mem_filter_prefix p l : forall n,
  mem n (filter (fun k => negb (is_prefix p k)) l) = if is_prefix p n then false else mem n l.
Proof.
  intros n. unfold mem. induction l as [|k l IH]; simpl.
  - destruct (is_prefix p n); reflexivity.
  - destruct (is_prefix p k) eqn:E; simpl.
    + rewrite IH. destruct (beq n k) eqn:E2; [|reflexivity].
      apply beq_eq in E2. subst k. rewrite E. reflexivity.
    + destruct (beq n k) eqn:E2.
      * apply beq_eq in E2. subst k. rewrite E. reflexivity.
      * exact IH.
Qed.

(* ---- refinement: one concrete step = the store step on the classified operation ---- *)
Lemma header_get_abs st n : header_get st n = first_val (abs st) (canon n).
Proof. reflexivity. Qed.

Lemma aeq_refl a : aeq a a.
Proof. split; reflexivity. Qed.

Ltac aeq_tac :=
  split; intros ?n; cbn [a_vals a_asg abs hmap akeys fst snd];
  rewrite ?map_get_set, ?map_get_del_upd, ?mem_set_add, ?mem_set_del, ?map_get_filter_prefix, ?mem_filter_prefix; reflexivity.

Theorem refine_step kd st o :
  snd (step kd st o) = snd (sstep (abs st) (classify kd o)) /\
  aeq (abs (fst (step kd st o))) (fst (sstep (abs st) (classify kd o))).
Proof.
  destruct o as [name|name v|name v|name]; unfold step, classify.
  - (* get *)
    unfold h_get. destruct (cut_colon name) as [[n key] found].
    rewrite header_get_abs. unfold sstep, is_assigned. cbn [fst snd].
    change (mem (canon n) (akeys st)) with (a_asg (abs st) (canon n)).
    destruct (is_nil (first_val (abs st) (canon n))); [split; [reflexivity|apply aeq_refl]|].
    destruct (is_nil key); [split; [reflexivity|apply aeq_refl]|].
    destruct kd; [destruct (is_cookie n)|]; split; try reflexivity; apply aeq_refl.
  - (* set *)
    unfold h_set. destruct (protected name); [split; [reflexivity|apply aeq_refl]|].
    destruct (cut_colon name) as [[n key] found]. destruct found; cbn [negb].
    + destruct kd; [destruct (is_cookie n)|];
        (split; [reflexivity|]); unfold of_outcome, sstep; cbn [fst snd]; rewrite ?header_get_abs;
        unfold assign, header_set, header_set_lines; aeq_tac.
    + destruct v as [|s]; (split; [reflexivity|]); unfold of_outcome, sstep; cbn [fst snd];
        unfold assign, unassign, header_set, header_del; aeq_tac.
  - (* add *)
    unfold h_add. destruct (protected name); [split; [reflexivity|apply aeq_refl]|].
    split; [reflexivity|]. unfold of_outcome, sstep, header_add. cbn [fst snd]. aeq_tac.
  - (* unset *)
    unfold h_unset. destruct (protected name); [split; [reflexivity|apply aeq_refl]|].
    destruct (cut_star name) as [p|].
    + split; [reflexivity|]. unfold of_outcome, sstep. cbn [fst snd]. aeq_tac.
    + destruct (cut_colon name) as [[n key] found]. destruct found; cbn [negb].
      * assert (Hsub : forall st', st' = unset_sub st n key ->
                  aeq (abs st') (fst (sstep (abs st) (SRemoveField (canon n) key)))).
        { intros st' ->. unfold sstep, unset_sub. cbn [fst snd]. rewrite header_get_abs.
          destruct (is_nil (unset_field (first_val (abs st) (canon n)) key));
            unfold unassign, header_set, header_del; aeq_tac. }
        assert (Hck : aeq (abs (cookie_unset_sub st n key)) (fst (sstep (abs st) (SCookieRemove (canon n) key)))).
        { unfold sstep, cookie_unset_sub. cbn [fst snd].
          change (header_lines st n) with (all_vals (abs st) (canon n)).
          destruct (all_vals (abs st) (canon n)) as [|l0 ls]; [apply aeq_refl|].
          destruct (remove_cookie (l0 :: ls) key); unfold header_del, header_set_lines; aeq_tac. }
        destruct kd; [destruct (is_cookie n)|]; (split; [reflexivity|]); unfold of_outcome; cbn [fst snd];
          first [exact Hck | exact (Hsub _ eq_refl)].
      * split; [reflexivity|]. unfold of_outcome, sstep. cbn [fst snd].
        unfold unassign, header_del. aeq_tac.
Qed.

(* sstep respects extensional equality of states *)
Lemma first_val_ext a b cn : aeq a b -> first_val a cn = first_val b cn.
Proof. intros [H _]. unfold first_val. rewrite H. reflexivity. Qed.

Lemma sstep_ext a b s : aeq a b ->
  snd (sstep a s) = snd (sstep b s) /\ aeq (fst (sstep a s)) (fst (sstep b s)).
Proof.
  intros H. pose proof H as [Hv Ha].
  assert (Hall : forall cn, all_vals a cn = all_vals b cn) by (intros cn; unfold all_vals; rewrite Hv; reflexivity).
  destruct s as [cn key ck|cn v|cn key v|cn s|cn|cn key|p|cn key s|cn key| |]; unfold sstep; cbn [fst snd].
  - rewrite (first_val_ext a b cn H), Ha, Hall. split; [reflexivity|exact H].
  - destruct v; cbn [fst snd]; (split; [reflexivity|]); split; intros n; simpl; unfold upd;
      destruct (beq cn n); auto.
  - rewrite (first_val_ext a b cn H). split; [reflexivity|]. split; intros n; simpl; unfold upd;
      destruct (beq cn n); auto.
  - rewrite Hv. split; [reflexivity|]. split; intros n; simpl; unfold upd; destruct (beq cn n); auto.
  - split; [reflexivity|]. split; intros n; simpl; unfold upd; destruct (beq cn n); auto.
  - rewrite (first_val_ext a b cn H). split; [reflexivity|]. split; intros n; simpl; unfold upd;
      destruct (beq cn n); auto.
  - split; [reflexivity|]. split; intros n; simpl; destruct (is_prefix p n); auto.
  - rewrite Hall. split; [reflexivity|]. split; intros n; simpl; unfold upd; destruct (beq cn n); auto.
  - rewrite Hall. split; [reflexivity|]. destruct (all_vals b cn) as [|l0 ls]; [exact H|].
    destruct (remove_cookie (l0 :: ls) key); split; intros n; simpl; unfold upd; destruct (beq cn n); auto.
  - split; [reflexivity|exact H].
  - split; [reflexivity|exact H].
Qed.

(* histories on the abstract side *)
Fixpoint srun (kd : kind) (a : astate) (h : list op) : astate * list obs :=
  match h with
  | [] => (a, [])
  | o :: t => let (a1, x) := sstep a (classify kd o) in
              let (a2, xs) := srun kd a1 t in (a2, x :: xs)
  end.

Lemma srun_ext kd h : forall a b, aeq a b ->
  snd (srun kd a h) = snd (srun kd b h) /\ aeq (fst (srun kd a h)) (fst (srun kd b h)).
Proof.
  induction h as [|o t IH]; intros a b H; [split; [reflexivity|exact H]|].
  simpl. destruct (sstep_ext a b (classify kd o) H) as [Hx Hs].
  destruct (sstep a (classify kd o)) as [a1 x]. destruct (sstep b (classify kd o)) as [b1 y].
  cbn [fst snd] in *. subst y.
  destruct (IH a1 b1 Hs) as [Hxs Hs2].
  destruct (srun kd a1 t) as [a2 xs]. destruct (srun kd b1 t) as [b2 ys]. cbn [fst snd] in *.
  subst ys. split; [reflexivity|exact Hs2].
Qed.

Theorem refinement kd h : forall st,
  snd (run kd st h) = snd (srun kd (abs st) h) /\ aeq (abs (fst (run kd st h))) (fst (srun kd (abs st) h)).
Proof.
  induction h as [|o t IH]; intros st; [split; [reflexivity|apply aeq_refl]|].
  simpl. destruct (refine_step kd st o) as [Hx Hs].
  destruct (step kd st o) as [st1 x]. destruct (sstep (abs st) (classify kd o)) as [a1 y].
  cbn [fst snd] in *. subst y.
  destruct (IH st1) as [Hxs Hs2].
  destruct (srun_ext kd t (abs st1) a1 Hs) as [Hxs' Hs2'].
  destruct (run kd st1 t) as [st2 xs]. destruct (srun kd (abs st1) t) as [a2 ys].
  destruct (srun kd a1 t) as [a3 zs]. cbn [fst snd] in *. subst. split; [reflexivity|].
  destruct Hs2 as [H1 H2]. destruct Hs2' as [H3 H4]. split; intros n; [rewrite H1; apply H3 | rewrite H2; apply H4].
Qed.

(* ---- names are case-insensitive ---- *)
Lemma tchar_lower c : tchar (lower c) = tchar c.
Proof. destruct c; reflexivity. Qed.
Lemma upper_lower c : upper (lower c) = upper c.
Proof. destruct c; reflexivity. Qed.

Lemma canon_go_lower up s : canon_go up (map lower s) = canon_go up s.
Proof.
  revert up. induction s as [|c s IH]; intros up; [reflexivity|].
  simpl. destruct up; rewrite ?upper_lower, ?lower_idem, IH; reflexivity.
Qed.

Lemma forallb_tchar_lower s : forallb tchar (map lower s) = forallb tchar s.
Proof. induction s as [|c s IH]; [reflexivity|]. simpl. rewrite tchar_lower, IH. reflexivity. Qed.

Definition eqfold (a b : bytes) : Prop := map lower a = map lower b.

Theorem canon_fold a b : eqfold a b -> forallb tchar a = true -> canon a = canon b.
Proof.
  unfold eqfold, canon. intros H Ha.
  assert (Hb : forallb tchar b = true) by (rewrite <- forallb_tchar_lower, <- H, forallb_tchar_lower; exact Ha).
  rewrite Ha, Hb. rewrite <- (canon_go_lower true a), <- (canon_go_lower true b), H. reflexivity.
Qed.
