(* Unbounded lemmas about scope masks (any N, not just the nine scopes or the 36 pairs). *)
From Coq Require Import NArith List Bool Lia.
From Falco Require Import Model.ScopeMask.
Import ListNotations.
Local Open Scope N_scope.

Lemma testbit_lt_size : forall a n, N.testbit a n = true -> n < N.size a.
Proof.
  intros a n H.
  destruct (N.eq_dec a 0) as [->|Hz].
  - rewrite N.bits_0 in H. discriminate.
  - rewrite N.size_log2 by exact Hz.
    apply N.lt_succ_r.
    destruct (N.le_gt_cases n (N.log2 a)) as [Hle|Hgt]; [exact Hle|].
    rewrite (N.bits_above_log2 a n Hgt) in H. discriminate.
Qed.

Lemma in_scopes_of : forall cur s, In s (scopes_of cur) <-> N.testbit cur s = true.
Proof.
  intros cur s. unfold scopes_of. rewrite filter_In. split.
  - intros [_ H]. exact H.
  - intros H. split; [|exact H].
    apply in_map_iff. exists (N.to_nat s). split.
    + apply N2Nat.id.
    + apply in_seq. split; [lia|].
      pose proof (testbit_lt_size cur s H). lia.
Qed.

Lemma land_eq_iff : forall obj cur,
  N.land obj cur = cur <-> (forall s, N.testbit cur s = true -> N.testbit obj s = true).
Proof.
  intros obj cur. split.
  - intros H s Hs. rewrite <- H in Hs. rewrite N.land_spec in Hs.
    apply andb_true_iff in Hs. tauto.
  - intros H. apply N.bits_inj. intro s. rewrite N.land_spec.
    destruct (N.testbit cur s) eqn:E.
    + rewrite (H s E). reflexivity.
    + apply andb_false_r.
Qed.

(* "every scope": the test used for variables (and, after the repairs, for functions and the
   scope-restricted statements) accepts exactly when every scope of the current mask allows the object *)
Theorem mask_all_iff : forall obj cur,
  all_scopes_test obj cur = forallb (fun s => allowed obj s) (scopes_of cur).
Proof.
  intros obj cur. unfold all_scopes_test, allowed.
  apply eq_true_iff_eq. rewrite N.eqb_eq, land_eq_iff, forallb_forall.
  split.
  - intros H s Hs. apply H. apply in_scopes_of. exact Hs.
  - intros H s Hs. apply H. apply in_scopes_of. exact Hs.
Qed.

Lemma land_ne0_iff : forall obj cur,
  N.land obj cur <> 0 <-> (exists s, N.testbit cur s = true /\ N.testbit obj s = true).
Proof.
  intros obj cur. split.
  - intros H. destruct (N.land obj cur) eqn:E; [congruence|].
    assert (Hb : N.testbit (N.land obj cur) (N.log2 (N.land obj cur)) = true).
    { apply N.bit_log2. rewrite E. discriminate. }
    rewrite N.land_spec in Hb. apply andb_true_iff in Hb.
    exists (N.log2 (N.land obj cur)). tauto.
  - intros [s [H1 H2]] E.
    assert (Hb : N.testbit (N.land obj cur) s = true) by (rewrite N.land_spec, H1, H2; reflexivity).
    rewrite E, N.bits_0 in Hb. discriminate.
Qed.

(* "some scope": what the guards tested before the repair *)
Theorem mask_some_iff : forall obj cur,
  some_scope_test obj cur = existsb (fun s => allowed obj s) (scopes_of cur).
Proof.
  intros obj cur. unfold some_scope_test, allowed.
  apply eq_true_iff_eq. rewrite negb_true_iff, N.eqb_neq, land_ne0_iff, existsb_exists.
  split.
  - intros [s [H1 H2]]. exists s. split; [apply in_scopes_of; exact H1|exact H2].
  - intros [s [H1 H2]]. exists s. split; [apply in_scopes_of; exact H1|exact H2].
Qed.

(* the two tests agree on a single scope ... *)
Lemma tests_agree_single : forall obj s,
  some_scope_test obj (N.shiftl 1 s) = all_scopes_test obj (N.shiftl 1 s).
Proof.
  intros obj s. rewrite mask_all_iff, mask_some_iff.
  assert (Hs : forall t, N.testbit (N.shiftl 1 s) t = N.eqb s t).
  { intro t. rewrite N.shiftl_1_l. destruct (N.eqb_spec s t) as [->|Hne].
    - apply N.pow2_bits_true.
    - apply N.pow2_bits_false. exact Hne. }
  destruct (existsb (fun s0 => allowed obj s0) (scopes_of (N.shiftl 1 s))) eqn:E.
  - apply existsb_exists in E. destruct E as [t [Ht Hobj]].
    apply in_scopes_of in Ht. rewrite Hs in Ht. apply N.eqb_eq in Ht. subst t.
    symmetry. apply forallb_forall. intros t Ht.
    apply in_scopes_of in Ht. rewrite Hs in Ht. apply N.eqb_eq in Ht. subst t. exact Hobj.
  - symmetry. apply not_true_is_false. intro F.
    rewrite forallb_forall in F.
    assert (Hin : In s (scopes_of (N.shiftl 1 s))) by (apply in_scopes_of; rewrite Hs; apply N.eqb_refl).
    assert (Hex : existsb (fun s0 => allowed obj s0) (scopes_of (N.shiftl 1 s)) = true).
    { apply existsb_exists. exists s. split; [exact Hin|apply F; exact Hin]. }
    congruence.
Qed.

(* ... and differ on an annotation with several scopes: "some scope allows" does not imply
   "every scope allows" (witness: a DELIVER-only object, linter bit 28, in a RECV|DELIVER subroutine) *)
Theorem some_scope_test_refuted :
  exists obj cur, some_scope_test obj cur = true /\
                  forallb (fun s => allowed obj s) (scopes_of cur) = false.
Proof. exists 268435456, 268435457. vm_compute. split; reflexivity. Qed.

Lemma all_scopes_single : forall obj s, all_scopes_test obj (N.shiftl 1 s) = N.testbit obj s.
Proof.
  intros obj s. rewrite mask_all_iff. unfold allowed.
  assert (Hs : forall t, N.testbit (N.shiftl 1 s) t = N.eqb s t).
  { intro t. rewrite N.shiftl_1_l. destruct (N.eqb_spec s t) as [->|Hne].
    - apply N.pow2_bits_true.
    - apply N.pow2_bits_false. exact Hne. }
  destruct (N.testbit obj s) eqn:E.
  - apply forallb_forall. intros t Ht. apply in_scopes_of in Ht. rewrite Hs in Ht.
    apply N.eqb_eq in Ht. subst t. exact E.
  - apply not_true_is_false. intro F. rewrite forallb_forall in F.
    assert (Hin : In s (scopes_of (N.shiftl 1 s))) by (apply in_scopes_of; rewrite Hs; apply N.eqb_refl).
    rewrite (F s Hin) in E. discriminate.
Qed.

(* the use in the linter: for ANY annotation mask (two scopes, three, all nine, ...), the test on the whole
   mask accepts exactly when the test accepts in each single scope of the mask *)
Lemma forallb_ext : forall A (f g : A -> bool) l, (forall x, f x = g x) -> forallb f l = forallb g l.
Proof. intros A f g l H. induction l as [|x r IH]; simpl; [reflexivity|]. rewrite H, IH. reflexivity. Qed.

Theorem multi_scope_exact : forall obj cur,
  all_scopes_test obj cur = forallb (fun s => all_scopes_test obj (N.shiftl 1 s)) (scopes_of cur).
Proof.
  intros obj cur. rewrite mask_all_iff. unfold allowed.
  apply forallb_ext. intro s. symmetry. apply all_scopes_single.
Qed.
