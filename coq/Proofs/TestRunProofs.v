(* C10 - runner theorems over Model/TestRun.v. *)
From Coq Require Import List NArith Bool Lia Arith Permutation.
From Falco Require Import Model.TestRun.
Import ListNotations.

(* ---------------------------------------------------------------- verdict of one body *)
Section StepsP.
Variable scope logline istate : Type.
Notation step := (step scope logline istate).

(* "some assertion that is reached does not hold (a = true), or some statement that is reached
   raises (a = false)" *)
Inductive bad (sc : scope) : list step -> istate -> bool -> Prop :=
| bad_assert h r σ : h sc σ = false -> bad sc (Assert h :: r) σ true
| bad_raise f r σ σ' l : f sc σ = (σ', l, false) -> bad sc (Act f :: r) σ false
| bad_after_act f r σ σ' l a : f sc σ = (σ', l, true) -> bad sc r σ' a -> bad sc (Act f :: r) σ a
| bad_after_assert h r σ a : h sc σ = true -> bad sc r σ a -> bad sc (Assert h :: r) σ a.

Lemma bad_fun sc b : forall σ a a', bad sc b σ a -> bad sc b σ a' -> a = a'.
Proof.
  induction b as [|s r IH]; intros σ a a' H1 H2.
  - inversion H1.
  - inversion H1; subst; inversion H2; subst; auto; try congruence;
      try (match goal with
           | A : ?f sc σ = _, B : ?f sc σ = _ |- _ => rewrite A in B; inversion B; subst
           end); eauto.
Qed.

Lemma run_steps_spec sc b : forall σ k lg,
  match run_steps _ _ _ sc b σ k lg with
  | (_, Pass, _, _) => forall a, ~ bad sc b σ a
  | (_, FailAssert, _, _) => bad sc b σ true
  | (_, FailRuntime, _, _) => bad sc b σ false
  end.
Proof.
  induction b as [|s r IH]; intros σ k lg; simpl.
  - intros a H. inversion H.
  - destruct s as [f|h].
    + destruct (f sc σ) as [[σ' l] [|]] eqn:E.
      * specialize (IH σ' k (lg ++ l)).
        destruct (run_steps _ _ _ sc r σ' k (lg ++ l)) as [[[k' v] lg'] σ''].
        destruct v.
        -- intros a H. inversion H; subst; try congruence.
           match goal with A : f sc σ = _ |- _ => rewrite E in A; inversion A; subst end.
           eapply IH; eauto.
        -- eapply bad_after_act; eauto.
        -- eapply bad_after_act; eauto.
      * eapply bad_raise; eauto.
    + destruct (h sc σ) eqn:E.
      * specialize (IH σ (S k) lg).
        destruct (run_steps _ _ _ sc r σ (S k) lg) as [[[k' v] lg'] σ''].
        destruct v.
        -- intros a H. inversion H; subst; try congruence. eapply IH; eauto.
        -- apply bad_after_assert; auto.
        -- apply bad_after_assert; auto.
      * apply bad_assert; auto.
Qed.

(* a test body is reported failed exactly when a reached assertion does not hold or a reached
   statement raises; and the two kinds of failure are told apart correctly *)
Theorem verdict_iff sc b σ :
  let '(_, v, _, _) := run_body_steps _ _ _ sc b σ in
  (failed v = true <-> exists a, bad sc b σ a) /\
  (v = FailAssert <-> bad sc b σ true) /\
  (v = FailRuntime <-> bad sc b σ false).
Proof.
  unfold run_body_steps. pose proof (run_steps_spec sc b σ 0 []) as H.
  destruct (run_steps _ _ _ sc b σ 0 []) as [[[k v] lg] σ'].
  destruct v; simpl.
  - split; [|split]; split; intros; try discriminate.
    + destruct H0 as [a Ha]. exfalso. eapply H; eauto.
    + exfalso. eapply H; eauto.
    + exfalso. eapply H; eauto.
  - split; [|split]; split; intros; auto; try discriminate; eauto.
    pose proof (bad_fun _ _ _ _ _ H H0). discriminate.
  - split; [|split]; split; intros; auto; try discriminate; eauto.
    pose proof (bad_fun _ _ _ _ _ H H0). discriminate.
Qed.

End StepsP.

(* ---------------------------------------------------------------- counters, exit status, order *)
Section RunnerP.
Variable scope logline istate body : Type.
Variable run_body : scope -> body -> istate -> nat * verdict * list logline * istate.
Variable init : istate.
Notation test := (test scope body).
Notation tcase := (tcase scope logline).
Notation run_scopes := (run_scopes scope logline istate body run_body).
Notation run_test := (run_test scope logline istate body run_body init).
Notation run_file := (run_file scope logline istate body run_body init).

Definition cadd (a b : counter) : counter :=
  {| asserts := asserts a + asserts b; passes := passes a + passes b;
     fails := fails a + fails b; skips := skips a + skips b |}.

Lemma counter_eq a b :
  asserts a = asserts b -> passes a = passes b -> fails a = fails b -> skips a = skips b -> a = b.
Proof. destruct a, b; simpl; intros; subst; reflexivity. Qed.

Lemma cadd_c0 a : cadd a c0 = a.
Proof. apply counter_eq; simpl; lia. Qed.
Lemma cadd_assoc a b c : cadd (cadd a b) c = cadd a (cadd b c).
Proof. apply counter_eq; simpl; lia. Qed.
Lemma cadd_comm a b : cadd a b = cadd b a.
Proof. apply counter_eq; simpl; lia. Qed.

(* the cases of a test do not depend on the counter, and the counter only accumulates *)
Lemma run_scopes_split t ss : forall σ c,
  run_scopes t ss σ c = (fst (run_scopes t ss σ c0), cadd c (snd (run_scopes t ss σ c0))).
Proof.
  induction ss as [|s r IH]; intros σ c; simpl.
  - rewrite cadd_c0. reflexivity.
  - destruct (t_skip t).
    + rewrite (IH σ (c_skip c)), (IH σ (c_skip c0)).
      destruct (run_scopes t r σ c0) as [cs c']. simpl. f_equal.
      apply counter_eq; simpl; lia.
    + destruct (run_body s (t_body t) σ) as [[[k v] lg] σ'].
      set (dc := match v with Pass => c_pass k c | FailAssert => c_fail 2 (c_pass k c)
                         | FailRuntime => c_fail 1 (c_pass k c) end).
      set (dc0 := match v with Pass => c_pass k c0 | FailAssert => c_fail 2 (c_pass k c0)
                          | FailRuntime => c_fail 1 (c_pass k c0) end).
      rewrite (IH σ' dc). rewrite (IH σ' dc0).
      destruct (run_scopes t r σ' c0) as [cs c']. simpl. f_equal.
      unfold dc, dc0. destruct v; apply counter_eq; simpl; lia.
Qed.

Definition cases_of (t : test) : list tcase := fst (run_test t c0).
Definition delta_of (t : test) : counter := snd (run_test t c0).

Lemma run_test_split t c : run_test t c = (cases_of t, cadd c (delta_of t)).
Proof. unfold run_test, cases_of, delta_of. apply run_scopes_split. Qed.

Fixpoint csum (l : list counter) : counter :=
  match l with [] => c0 | a :: r => cadd a (csum r) end.

Theorem run_file_by_test ts : forall c,
  run_file ts c = (flat_map cases_of ts, cadd c (csum (map delta_of ts))).
Proof.
  induction ts as [|t r IH]; intros c; simpl.
  - rewrite cadd_c0. reflexivity.
  - rewrite run_test_split, IH. simpl. rewrite cadd_assoc. reflexivity.
Qed.

Lemma csum_perm l l' : Permutation l l' -> csum l = csum l'.
Proof.
  induction 1; simpl; auto.
  - congruence.
  - rewrite <- !cadd_assoc. f_equal. apply cadd_comm.
  - congruence.
Qed.

(* order_independent: each ungrouped test yields the same cases (verdicts and logs) whatever
   else is in the file and in whatever order; the counters - hence the exit status - too *)
Theorem order_independent ts ts' :
  Permutation ts ts' ->
  Permutation (fst (run_file ts c0)) (fst (run_file ts' c0)) /\
  snd (run_file ts c0) = snd (run_file ts' c0).
Proof.
  intros HP. rewrite !run_file_by_test. simpl. split.
  - apply Permutation_flat_map; auto.
  - f_equal. apply csum_perm. apply Permutation_map; auto.
Qed.

Theorem subset_independent ts t :
  In t ts -> exists before after, fst (run_file ts c0) = before ++ cases_of t ++ after.
Proof.
  intros H. rewrite run_file_by_test. simpl.
  apply in_split in H. destruct H as (l1 & l2 & ->).
  rewrite flat_map_app. simpl. eauto.
Qed.

(* ---- what each case contributes to Statistics.Fails / Skips *)
Definition fails_of (x : tcase) : nat :=
  if tc_skip x then 0 else match tc_verdict x with Pass => 0 | FailAssert => 2 | FailRuntime => 1 end.
Fixpoint nsum (l : list nat) : nat := match l with [] => 0 | a :: r => a + nsum r end.

Lemma run_scopes_fails t ss : forall σ c,
  fails (snd (run_scopes t ss σ c)) = fails c + nsum (map fails_of (fst (run_scopes t ss σ c))) /\
  skips (snd (run_scopes t ss σ c)) = skips c + count is_skipped (fst (run_scopes t ss σ c)).
Proof.
  induction ss as [|s r IH]; intros σ c; simpl.
  - unfold count; simpl; split; lia.
  - destruct (t_skip t) eqn:Sk.
    + specialize (IH σ (c_skip c)). destruct (run_scopes t r σ (c_skip c)) as [cs c']. simpl in *.
      unfold count in *. simpl. destruct IH as [A B]. split; [rewrite A | rewrite B]; unfold fails_of; simpl; lia.
    + destruct (run_body s (t_body t) σ) as [[[k v] lg] σ'].
      match goal with |- context [run_scopes t r σ' ?cc] => specialize (IH σ' cc);
        destruct (run_scopes t r σ' cc) as [cs c'] end.
      simpl in *. unfold count in *. simpl. destruct IH as [A B].
      split; [rewrite A | rewrite B]; unfold fails_of; simpl; destruct v; simpl; lia.
Qed.

Lemma run_file_fails ts : forall c,
  fails (snd (run_file ts c)) = fails c + nsum (map fails_of (fst (run_file ts c))) /\
  skips (snd (run_file ts c)) = skips c + count is_skipped (fst (run_file ts c)).
Proof.
  induction ts as [|t r IH]; intros c; simpl.
  - split; unfold count; simpl; lia.
  - unfold run_test. destruct (run_scopes_fails t (t_scopes t) init c) as [A B].
    destruct (run_scopes t (t_scopes t) init c) as [cs1 c1]. simpl in *.
    destruct (IH c1) as [A' B']. destruct (run_file r c1) as [cs2 c2]. simpl in *.
    unfold count in *. rewrite map_app, filter_app, app_length.
    assert (N : forall a b, nsum (a ++ b) = nsum a + nsum b) by (induction a; simpl; intros; auto; rewrite IHa; lia).
    rewrite N. split; lia.
Qed.

Lemma nsum_pos l : nsum l <> 0 <-> exists a, In a l /\ a <> 0.
Proof.
  induction l; simpl.
  - split; [lia | intros [a [[] _]]].
  - split.
    + intros H. destruct a.
      * destruct IHl as [IH _]. destruct IH as [b [Hb Hn]]; [lia | eauto].
      * exists (S a). split; auto.
    + intros [b [[->|Hb] Hn]]; [lia|]. destruct IHl as [_ IH]. assert (nsum l <> 0) by eauto. lia.
Qed.

(* `falco test` exits non-zero exactly when at least one case failed *)
Theorem exit_iff_fail ts :
  exit_status (snd (run_file ts c0)) = 1 <-> exists x, In x (fst (run_file ts c0)) /\ is_failed x = true.
Proof.
  destruct (run_file_fails ts c0) as [A _]. simpl in A. unfold exit_status.
  split.
  - intros H. destruct (fails (snd (run_file ts c0))) eqn:E; [discriminate|].
    assert (Hn : nsum (map fails_of (fst (run_file ts c0))) <> 0) by lia.
    apply nsum_pos in Hn. destruct Hn as [a [Ha Hn]]. apply in_map_iff in Ha. destruct Ha as [x [Hx Hin]].
    exists x. split; auto. unfold is_failed, fails_of in *. destruct (tc_skip x); [lia|].
    destruct (tc_verdict x); simpl; auto; lia.
  - intros [x [Hin Hf]].
    assert (Hn : nsum (map fails_of (fst (run_file ts c0))) <> 0).
    { apply nsum_pos. exists (fails_of x). split; [apply in_map; auto|].
      unfold is_failed, fails_of in *. destruct (tc_skip x); [discriminate|].
      destruct (tc_verdict x); simpl in *; try discriminate; lia. }
    destruct (fails (snd (run_file ts c0))); [lia | reflexivity].
Qed.

Theorem exit_zero_iff ts :
  exit_status (snd (run_file ts c0)) = 0 <->
  forall x, In x (fst (run_file ts c0)) -> is_passed x = true \/ is_skipped x = true.
Proof.
  split.
  - intros H x Hin. destruct (is_failed x) eqn:F.
    + assert (E : exit_status (snd (run_file ts c0)) = 1) by (apply exit_iff_fail; eauto). congruence.
    + unfold is_failed, is_passed, is_skipped in *. destruct (tc_skip x); auto.
      simpl in *. left. rewrite F. reflexivity.
  - intros H. destruct (exit_status (snd (run_file ts c0))) eqn:E; auto.
    assert (E1 : exit_status (snd (run_file ts c0)) = 1).
    { unfold exit_status in *. destruct (fails (snd (run_file ts c0))); congruence. }
    apply exit_iff_fail in E1. destruct E1 as [x [Hin Hf]]. destruct (H x Hin) as [Hp|Hs];
      unfold is_failed, is_passed, is_skipped in *; destruct (tc_skip x); simpl in *; try discriminate.
    destruct (failed (tc_verdict x)); discriminate.
Qed.

(* passed + failed + skipped = number of (test, scope) pairs run *)
Lemma run_scopes_length t ss : forall σ c, length (fst (run_scopes t ss σ c)) = length ss.
Proof.
  induction ss as [|s r IH]; intros σ c; simpl; auto.
  destruct (t_skip t).
  - specialize (IH σ (c_skip c)). destruct (run_scopes t r σ (c_skip c)). simpl in *. lia.
  - destruct (run_body s (t_body t) σ) as [[[k v] lg] σ'].
    match goal with |- context [run_scopes t r σ' ?cc] => specialize (IH σ' cc);
      destruct (run_scopes t r σ' cc) end. simpl in *. lia.
Qed.

Theorem count_sum ts :
  let cs := fst (run_file ts c0) in
  count is_passed cs + count is_failed cs + count is_skipped cs
    = length (expand_scopes ts) /\
  skips (snd (run_file ts c0)) = count is_skipped cs.
Proof.
  simpl. split.
  - assert (L : length (fst (run_file ts c0)) = length (expand_scopes ts)).
    { rewrite run_file_by_test. simpl. unfold expand_scopes.
      induction ts as [|t r IH]; simpl; auto. rewrite !app_length, IH, map_length.
      unfold cases_of, run_test. rewrite run_scopes_length. reflexivity. }
    rewrite <- L. generalize (fst (run_file ts c0)). intros l. unfold count.
    induction l as [|x r IH]; simpl; auto.
    unfold is_passed, is_failed, is_skipped in *. destruct (tc_skip x); simpl;
      [|destruct (failed (tc_verdict x)); simpl]; lia.
  - destruct (run_file_fails ts c0) as [_ B]. simpl in B. exact B.
Qed.

(* ---------------------------------------------------------------- tests that do not run influence nothing *)
Lemma run_scopes_skipped t ss : t_skip t = true -> forall σ c,
  forallb (fun x => tc_skip x) (fst (run_scopes t ss σ c)) = true /\
  asserts (snd (run_scopes t ss σ c)) = asserts c /\ passes (snd (run_scopes t ss σ c)) = passes c /\
  fails (snd (run_scopes t ss σ c)) = fails c.
Proof.
  intros Hs. induction ss as [|s r IH]; intros σ c; simpl; auto.
  rewrite Hs. specialize (IH σ (c_skip c)). destruct (run_scopes t r σ (c_skip c)) as [cs c']. simpl in *.
  destruct IH as (A & B & C & D). auto.
Qed.

Lemma run_scopes_executed t ss : t_skip t = false -> forall σ c,
  forallb (fun x => negb (tc_skip x)) (fst (run_scopes t ss σ c)) = true.
Proof.
  intros Hs. induction ss as [|s r IH]; intros σ c; simpl; auto.
  rewrite Hs. destruct (run_body s (t_body t) σ) as [[[k v] lg] σ'].
  match goal with |- context [run_scopes t r σ' ?cc] => specialize (IH σ' cc); destruct (run_scopes t r σ' cc) end.
  simpl in *. auto.
Qed.

Definition executed (t : test) : bool := negb (t_skip t).

(* The cases that were executed, the assertion / pass / fail counters and the exit status are those
   of the file with every skipped (@skip or filtered out by @tag) test REMOVED: a test that does not
   run influences nothing but the number of skipped cases. *)
Theorem skipped_influence_nothing ts :
  let r := run_file ts c0 in
  let r' := run_file (filter executed ts) c0 in
  filter (fun x => negb (tc_skip x)) (fst r) = fst r' /\
  asserts (snd r) = asserts (snd r') /\ passes (snd r) = passes (snd r') /\ fails (snd r) = fails (snd r') /\
  exit_status (snd r) = exit_status (snd r').
Proof.
  simpl. rewrite !run_file_by_test. simpl.
  assert (K : filter (fun x : tcase => negb (tc_skip x)) (flat_map cases_of ts) = flat_map cases_of (filter executed ts) /\
              asserts (csum (map delta_of ts)) = asserts (csum (map delta_of (filter executed ts))) /\
              passes (csum (map delta_of ts)) = passes (csum (map delta_of (filter executed ts))) /\
              fails (csum (map delta_of ts)) = fails (csum (map delta_of (filter executed ts)))).
  { unfold cases_of, delta_of, run_test, executed. induction ts as [|t r IH]; simpl; auto.
    destruct IH as (A & B & C & D). rewrite filter_app.
    destruct (t_skip t) eqn:Hs; simpl.
    - destruct (run_scopes_skipped t (t_scopes t) Hs init c0) as (S1 & S2 & S3 & S4). simpl in S2, S3, S4.
      assert (E : filter (fun x : tcase => negb (tc_skip x)) (fst (run_scopes t (t_scopes t) init c0)) = []).
      { revert S1. generalize (fst (run_scopes t (t_scopes t) init c0)). induction l; simpl; auto.
        intros H. apply andb_prop in H. destruct H as [H1 H2]. rewrite H1. simpl. auto. }
      rewrite E, S2, S3, S4. simpl. auto.
    - pose proof (run_scopes_executed t (t_scopes t) Hs init c0) as S1.
      assert (E : filter (fun x : tcase => negb (tc_skip x)) (fst (run_scopes t (t_scopes t) init c0)) =
                  fst (run_scopes t (t_scopes t) init c0)).
      { revert S1. generalize (fst (run_scopes t (t_scopes t) init c0)). induction l; simpl; auto.
        intros H. apply andb_prop in H. destruct H as [H1 H2]. rewrite H1. f_equal. auto. }
      rewrite E, A, B, C, D. auto. }
  destruct K as (A & B & C & D). simpl. repeat split; auto.
  unfold exit_status. simpl. rewrite D. reflexivity.
Qed.

(* ---------------------------------------------------------------- describe groups and hooks *)
Notation group := (group scope body).
Notation item := (item scope body).
Notation grp_scopes := (grp_scopes scope logline istate body run_body).
Notation grp_tests := (grp_tests scope logline istate body run_body).
Notation run_item := (run_item scope logline istate body run_body init).
Notation run_items := (run_items scope logline istate body run_body init).
Notation run_hook := (run_hook scope logline istate body run_body).

Definition omap3 {A B} (c : counter) (r : option (A * B * counter)) : option (A * B * counter) :=
  match r with Some (a, b, d) => Some (a, b, cadd c d) | None => None end.

Lemma run_hook_split h s σ c :
  run_hook h s σ c = omap3 c (run_hook h s σ c0).
Proof.
  unfold run_hook. destruct h as [b|]; simpl.
  - destruct (run_body s b σ) as [[[k v] lg] σ']. destruct v; simpl; auto.
    f_equal. f_equal. apply counter_eq; simpl; lia.
  - rewrite cadd_c0. reflexivity.
Qed.

Lemma grp_scopes_split g t ss : forall σ c,
  grp_scopes g t ss σ c = omap3 c (grp_scopes g t ss σ c0).
Proof.
  induction ss as [|s r IH]; intros σ c; simpl.
  - rewrite cadd_c0. reflexivity.
  - destruct (t_skip t).
    + rewrite (IH σ (c_skip c)), (IH σ (c_skip c0)).
      destruct (grp_scopes g t r σ c0) as [[[cs σ'] d]|]; simpl; auto.
      f_equal. f_equal. apply counter_eq; simpl; lia.
    + rewrite (run_hook_split _ s σ c).
      destruct (run_hook (g_before g s) s σ c0) as [[[lg0 σ0] d0]|]; simpl; auto.
      destruct (run_body s (t_body t) σ0) as [[[k v] lg] σ1].
      match goal with |- context [run_hook (g_after g s) s σ1 ?cc] =>
        rewrite (run_hook_split _ s σ1 cc) end.
      match goal with |- _ = omap3 c (match run_hook (g_after g s) s σ1 ?cc with _ => _ end) =>
        rewrite (run_hook_split _ s σ1 cc) end.
      destruct (run_hook (g_after g s) s σ1 c0) as [[[lg2 σ2] d2]|]; simpl; auto.
      match goal with |- context [grp_scopes g t r σ2 ?cc] => rewrite (IH σ2 cc) end.
      match goal with |- _ = omap3 c (match grp_scopes g t r σ2 ?cc with _ => _ end) => rewrite (IH σ2 cc) end.
      destruct (grp_scopes g t r σ2 c0) as [[[cs σ'] d]|]; simpl; auto.
      f_equal. f_equal. destruct v; apply counter_eq; simpl; lia.
Qed.

Lemma grp_tests_split g ts : forall σ c,
  grp_tests g ts σ c = omap3 c (grp_tests g ts σ c0).
Proof.
  induction ts as [|t r IH]; intros σ c; simpl.
  - rewrite cadd_c0. reflexivity.
  - rewrite (grp_scopes_split g t (t_scopes t) σ c).
    destruct (grp_scopes g t (t_scopes t) σ c0) as [[[cs1 σ1] d1]|]; simpl; auto.
    rewrite (IH σ1 (cadd c d1)), (IH σ1 d1).
    destruct (grp_tests g r σ1 c0) as [[[cs2 σ2] d2]|]; simpl; auto.
    f_equal. f_equal. apply counter_eq; simpl; lia.
Qed.

(* what one item of the file yields on its own: its cases and what it adds to the counters, or
   [None] when one of its hooks raises (then `falco test` fails as a whole, whatever else is there) *)
Definition item_res (i : item) : option (list (gcase scope logline) * counter) := run_item i c0.
Definition item_ok (i : item) : bool := match item_res i with Some _ => true | None => false end.
Definition item_cases (i : item) : list (gcase scope logline) :=
  match item_res i with Some (cs, _) => cs | None => [] end.
Definition item_delta (i : item) : counter :=
  match item_res i with Some (_, d) => d | None => c0 end.

Lemma run_item_split i c :
  run_item i c = match item_res i with Some (cs, d) => Some (cs, cadd c d) | None => None end.
Proof.
  unfold item_res. destruct i as [t|g]; simpl.
  - rewrite (run_test_split t c), (run_test_split t c0). simpl.
    replace (cadd c0 (delta_of t)) with (delta_of t) by (apply counter_eq; simpl; lia). reflexivity.
  - rewrite (grp_tests_split g (g_tests g) init c).
    destruct (grp_tests g (g_tests g) init c0) as [[[cs σ'] d]|]; simpl; auto.
Qed.

Theorem run_items_by_item is : forall c,
  run_items is c =
  if forallb item_ok is then Some (flat_map item_cases is, cadd c (csum (map item_delta is))) else None.
Proof.
  induction is as [|i r IH]; intros c; simpl.
  - rewrite cadd_c0. reflexivity.
  - rewrite run_item_split. unfold item_ok, item_cases, item_delta.
    destruct (item_res i) as [[cs d]|]; simpl; auto.
    rewrite IH. fold item_ok. destruct (forallb item_ok r); auto.
    rewrite cadd_assoc. reflexivity.
Qed.

(* an ungrouped test is an item whose cases are [cases_of t]: a function of t alone *)
Theorem single_item t :
  item_ok (ISingle t) = true /\ item_cases (ISingle t) = map (fun x => (None, x)) (cases_of t).
Proof.
  unfold item_ok, item_cases, item_res. simpl. rewrite (run_test_split t c0). simpl. auto.
Qed.

Lemma forallb_perm {A} (f : A -> bool) l l' : Permutation l l' -> forallb f l = forallb f l'.
Proof.
  induction 1; simpl; auto.
  - congruence.
  - destruct (f x), (f y); auto.
  - congruence.
Qed.

(* order independence with groups: ungrouped tests and WHOLE groups can be permuted freely:
   whether the run fails as a whole, the multiset of cases and the counters stay the same *)
Theorem items_order_independent is is' :
  Permutation is is' ->
  match run_items is c0, run_items is' c0 with
  | Some (cs, c), Some (cs', c') => Permutation cs cs' /\ c = c'
  | None, None => True
  | _, _ => False
  end.
Proof.
  intros HP. rewrite !run_items_by_item. rewrite (forallb_perm item_ok _ _ HP).
  destruct (forallb item_ok is'); auto. split.
  - apply Permutation_flat_map; auto.
  - f_equal. apply csum_perm. apply Permutation_map; auto.
Qed.

(* and every item contributes exactly [item_cases i], wherever it stands *)
Theorem items_subset_independent is i cs c :
  run_items is c0 = Some (cs, c) -> In i is ->
  exists before after, cs = before ++ item_cases i ++ after.
Proof.
  rewrite run_items_by_item. destruct (forallb item_ok is); [|discriminate].
  intros H Hin. inversion H; subst. apply in_split in Hin. destruct Hin as (l1 & l2 & ->).
  rewrite flat_map_app. simpl. eauto.
Qed.

(* ---- a file that fails before any of its tests runs ---- *)
Notation run_files := (run_files scope logline istate body run_body init).
Notation cli_outcome := (cli_outcome scope logline istate body run_body init).

Lemma run_files_broken fs c : In FBroken fs -> run_files fs c = None.
Proof.
  revert c. induction fs as [|f r IH]; intros c Hin; [destruct Hin|].
  destruct f as [|is]; [reflexivity|]. simpl.
  destruct Hin as [Hf|Hin]; [discriminate|].
  destruct (run_items is c) as [[cs1 c1]|]; [|reflexivity].
  rewrite (IH c1 Hin). reflexivity.
Qed.

(* exit status non-zero, nothing reported, nothing counted - whatever the other files contain, wherever the
   broken file stands *)
Theorem broken_file_verdict fs :
  In FBroken fs ->
  let '(ex, cs, c) := cli_outcome fs in ex <> 0 /\ cs = [] /\ c = c0.
Proof.
  intros Hin. unfold TestRun.cli_outcome. rewrite (run_files_broken fs c0 Hin). repeat split. discriminate.
Qed.

Lemma run_items_app_opt a b c :
  run_items (a ++ b) c =
  match run_items a c with
  | None => None
  | Some (cs1, c1) =>
    match run_items b c1 with
    | None => None
    | Some (cs2, c2) => Some (cs1 ++ cs2, c2)
    end
  end.
Proof.
  revert c. induction a as [|i r IH]; intros c; simpl.
  - destruct (run_items b c) as [[cs2 c2]|]; reflexivity.
  - destruct (run_item i c) as [[cs0 c0']|]; [|reflexivity].
    rewrite IH.
    destruct (run_items r c0') as [[cs1 c1]|]; [|reflexivity].
    destruct (run_items b c1) as [[cs2 c2]|]; [|reflexivity].
    rewrite app_assoc. reflexivity.
Qed.

(* and without a broken file the files are just their items in sequence, on one counter *)
Theorem run_files_all_ok fls c :
  run_files (map FOk fls) c = run_items (concat fls) c.
Proof.
  revert c. induction fls as [|is r IH]; intros c; [reflexivity|].
  simpl. rewrite run_items_app_opt. 
  destruct (run_items is c) as [[cs1 c1]|]; [|reflexivity].
  rewrite IH. reflexivity.
Qed.

End RunnerP.

(* ---------------------------------------------------------------- the runner only looks at run_body pointwise *)
(* witness: one passing test in a good file, then a file that does not parse: exit 1, nothing reported;
   without the broken file the same test is reported and the exit status is 0 *)
Definition bf_body (_ : unit) (_ : unit) (σ : unit) : nat * verdict * list unit * unit := (1, Pass, [], σ).
Definition bf_test : test unit unit := {| t_name := 1%N; t_scopes := [tt]; t_skip := false; t_body := tt |}.
Example broken_file_example :
  cli_outcome unit unit unit unit bf_body tt [FOk [ISingle bf_test]; FBroken] = (1, [], c0) /\
  fst (fst (cli_outcome unit unit unit unit bf_body tt [FOk [ISingle bf_test]])) = 0 /\
  length (snd (fst (cli_outcome unit unit unit unit bf_body tt [FOk [ISingle bf_test]]))) = 1.
Proof. vm_compute. repeat split; reflexivity. Qed.

Section Ext.
Variable scope logline istate body : Type.
Variables rb rb' : scope -> body -> istate -> nat * verdict * list logline * istate.
Variable init : istate.
Hypothesis rb_eq : forall s b σ, rb s b σ = rb' s b σ.

Lemma run_scopes_ext t ss : forall σ c,
  run_scopes scope logline istate body rb t ss σ c = run_scopes scope logline istate body rb' t ss σ c.
Proof.
  induction ss as [|s r IH]; intros σ c; simpl; auto.
  destruct (t_skip t); [rewrite IH; reflexivity|].
  rewrite rb_eq. destruct (rb' s (t_body t) σ) as [[[k v] lg] σ']. rewrite IH. reflexivity.
Qed.

Lemma grp_scopes_ext g t ss : forall σ c,
  grp_scopes scope logline istate body rb g t ss σ c = grp_scopes scope logline istate body rb' g t ss σ c.
Proof.
  assert (HK : forall h s σ c, run_hook scope logline istate body rb h s σ c = run_hook scope logline istate body rb' h s σ c).
  { intros [b|] s σ c; simpl; auto. rewrite rb_eq. reflexivity. }
  induction ss as [|s r IH]; intros σ c; simpl; auto.
  destruct (t_skip t); [rewrite IH; reflexivity|].
  rewrite HK. destruct (run_hook scope logline istate body rb' (g_before g s) s σ c) as [[[lg0 σ0] d0]|]; auto.
  rewrite rb_eq. destruct (rb' s (t_body t) σ0) as [[[k v] lg] σ1].
  rewrite HK. match goal with |- match ?X with _ => _ end = _ => destruct X as [[[lg2 σ2] d2]|]; auto end.
  rewrite IH. reflexivity.
Qed.

Theorem run_items_ext is : forall c,
  run_items scope logline istate body rb init is c = run_items scope logline istate body rb' init is c.
Proof.
  induction is as [|i r IH]; intros c; simpl; auto.
  assert (E : run_item scope logline istate body rb init i c = run_item scope logline istate body rb' init i c).
  { destruct i as [t|g]; simpl.
    - unfold run_test. rewrite run_scopes_ext. reflexivity.
    - assert (G : forall ts σ c, grp_tests scope logline istate body rb g ts σ c = grp_tests scope logline istate body rb' g ts σ c).
      { induction ts as [|t r' IHt]; intros σ c1; simpl; auto. rewrite grp_scopes_ext.
        destruct (grp_scopes scope logline istate body rb' g t (t_scopes t) σ c1) as [[[cs1 σ1] d1]|]; auto.
        rewrite IHt. reflexivity. }
      rewrite G. reflexivity. }
  rewrite E. destruct (run_item scope logline istate body rb' init i c) as [[cs1 c1]|]; auto.
  rewrite IH. reflexivity.
Qed.

End Ext.

(* ---------------------------------------------------------------- the documented @tag table (docs/testing.md) *)
Theorem tag_table (p d : N) : p <> d ->
  tag_runs [(p, false)] [] = false /\ tag_runs [(p, false)] [p] = true /\ tag_runs [(p, false)] [d] = false /\
  tag_runs [(p, true)] [] = true /\ tag_runs [(p, true)] [p] = false /\ tag_runs [(p, true)] [d] = true /\
  tag_runs [] [] = true /\ tag_runs [] [p] = true /\ tag_runs [] [d] = true.
Proof.
  intros H. unfold tag_runs, match_tags, tag_hit. simpl. rewrite N.eqb_refl.
  destruct (N.eqb_spec p d); [contradiction|]. simpl. repeat split; reflexivity.
Qed.
