(* C10 - runner theorems over Model/TestRun.v. *)
From Coq Require Import List NArith Bool Lia Arith Permutation.
From Falco Require Import Model.TestRun.
Import ListNotations.

(* ---------------------------------------------------------------- verdict of one body *)
Section StepsP.
Variable scope logline istate : Type.
Notation step := (step scope logline istate).

(* "some assertion that is reached does not hold (a = true), or some statement that is reached
   raises (a = false)" *)
Inductive bad (sc : scope) : list step -> istate -> bool -> Prop :=
| bad_assert h r σ : h sc σ = false -> bad sc (Assert h :: r) σ true
| bad_raise f r σ σ' l : f sc σ = (σ', l, false) -> bad sc (Act f :: r) σ false
| bad_after_act f r σ σ' l a : f sc σ = (σ', l, true) -> bad sc r σ' a -> bad sc (Act f :: r) σ a
| bad_after_assert h r σ a : h sc σ = true -> bad sc r σ a -> bad sc (Assert h :: r) σ a.

Lemma bad_fun sc b : forall σ a a', bad sc b σ a -> bad sc b σ a' -> a = a'.
Proof.
  induction b as [|s r IH]; intros σ a a' H1 H2.
  - inversion H1.
  - inversion H1; subst; inversion H2; subst; auto; try congruence;
      try (match goal with
           | A : ?f sc σ = _, B : ?f sc σ = _ |- _ => rewrite A in B; inversion B; subst
           end); eauto.
Qed.

Lemma run_steps_spec sc b : forall σ k lg,
  match run_steps _ _ _ sc b σ k lg with
  | (_, Pass, _, _) => forall a, ~ bad sc b σ a
  | (_, FailAssert, _, _) => bad sc b σ true
  | (_, FailRuntime, _, _) => bad sc b σ false
  end.
Proof.
  induction b as [|s r IH]; intros σ k lg; simpl.
  - intros a H. inversion H.
  - destruct s as [f|h].
    + destruct (f sc σ) as [[σ' l] [|]] eqn:E.
      * specialize (IH σ' k (lg ++ l)).
        destruct (run_steps _ _ _ sc r σ' k (lg ++ l)) as [[[k' v] lg'] σ''].
        destruct v.
        -- intros a H. inversion H; subst; try congruence.
           match goal with A : f sc σ = _ |- _ => rewrite E in A; inversion A; subst end.
           eapply IH; eauto.
        -- eapply bad_after_act; eauto.
        -- eapply bad_after_act; eauto.
      * eapply bad_raise; eauto.
    + destruct (h sc σ) eqn:E.
      * specialize (IH σ (S k) lg).
        destruct (run_steps _ _ _ sc r σ (S k) lg) as [[[k' v] lg'] σ''].
        destruct v.
        -- intros a H. inversion H; subst; try congruence. eapply IH; eauto.
        -- apply bad_after_assert; auto.
        -- apply bad_after_assert; auto.
      * apply bad_assert; auto.
Qed.

(* a test body is reported failed exactly when a reached assertion does not hold or a reached
   statement raises; and the two kinds of failure are told apart correctly *)
Theorem verdict_iff sc b σ :
  let '(_, v, _, _) := run_body_steps _ _ _ sc b σ in
  (failed v = true <-> exists a, bad sc b σ a) /\
  (v = FailAssert <-> bad sc b σ true) /\
  (v = FailRuntime <-> bad sc b σ false).
Proof.
  unfold run_body_steps. pose proof (run_steps_spec sc b σ 0 []) as H.
  destruct (run_steps _ _ _ sc b σ 0 []) as [[[k v] lg] σ'].
  destruct v; simpl.
  - split; [|split]; split; intros; try discriminate.
    + destruct H0 as [a Ha]. exfalso. eapply H; eauto.
    + exfalso. eapply H; eauto.
    + exfalso. eapply H; eauto.
  - split; [|split]; split; intros; auto; try discriminate; eauto.
    pose proof (bad_fun _ _ _ _ _ H H0). discriminate.
  - split; [|split]; split; intros; auto; try discriminate; eauto.
    pose proof (bad_fun _ _ _ _ _ H H0). discriminate.
Qed.

End StepsP.

(* ---------------------------------------------------------------- counters, exit status, order *)
Section RunnerP.
Variable scope logline istate body : Type.
Variable run_body : scope -> body -> istate -> nat * verdict * list logline * istate.
Variable init : istate.
Notation test := (test scope body).
Notation tcase := (tcase scope logline).
Notation run_scopes := (run_scopes scope logline istate body run_body).
Notation run_test := (run_test scope logline istate body run_body init).
Notation run_file := (run_file scope logline istate body run_body init).

Definition cadd (a b : counter) : counter :=
  {| asserts := asserts a + asserts b; passes := passes a + passes b;
     fails := fails a + fails b; skips := skips a + skips b |}.

Lemma counter_eq a b :
  asserts a = asserts b -> passes a = passes b -> fails a = fails b -> skips a = skips b -> a = b.
Proof. destruct a, b; simpl; intros; subst; reflexivity. Qed.

Lemma cadd_c0 a : cadd a c0 = a.
Proof. apply counter_eq; simpl; lia. Qed.
Lemma cadd_assoc a b c : cadd (cadd a b) c = cadd a (cadd b c).
Proof. apply counter_eq; simpl; lia. Qed.
Lemma cadd_comm a b : cadd a b = cadd b a.
Proof. apply counter_eq; simpl; lia. Qed.

(* the cases of a test do not depend on the counter, and the counter only accumulates *)
Lemma run_scopes_split t ss : forall σ c,
  run_scopes t ss σ c = (fst (run_scopes t ss σ c0), cadd c (snd (run_scopes t ss σ c0))).
Proof.
  induction ss as [|s r IH]; intros σ c; simpl.
  - rewrite cadd_c0. reflexivity.
  - destruct (t_skip t).
    + rewrite (IH σ (c_skip c)), (IH σ (c_skip c0)).
      destruct (run_scopes t r σ c0) as [cs c']. simpl. f_equal.
      apply counter_eq; simpl; lia.
    + destruct (run_body s (t_body t) σ) as [[[k v] lg] σ'].
      set (dc := match v with Pass => c_pass k c | FailAssert => c_fail 2 (c_pass k c)
                         | FailRuntime => c_fail 1 (c_pass k c) end).
      set (dc0 := match v with Pass => c_pass k c0 | FailAssert => c_fail 2 (c_pass k c0)
                          | FailRuntime => c_fail 1 (c_pass k c0) end).
      rewrite (IH σ' dc). rewrite (IH σ' dc0).
      destruct (run_scopes t r σ' c0) as [cs c']. simpl. f_equal.
      unfold dc, dc0. destruct v; apply counter_eq; simpl; lia.
Qed.

Definition cases_of (t : test) : list tcase := fst (run_test t c0).
Definition delta_of (t : test) : counter := snd (run_test t c0).

Lemma run_test_split t c : run_test t c = (cases_of t, cadd c (delta_of t)).
Proof. unfold run_test, cases_of, delta_of. apply run_scopes_split. Qed.

Fixpoint csum (l : list counter) : counter :=
  match l with [] => c0 | a :: r => cadd a (csum r) end.

Theorem run_file_by_test ts : forall c,
  run_file ts c = (flat_map cases_of ts, cadd c (csum (map delta_of ts))).
Proof.
  induction ts as [|t r IH]; intros c; simpl.
  - rewrite cadd_c0. reflexivity.
  - rewrite run_test_split, IH. simpl. rewrite cadd_assoc. reflexivity.
Qed.

Lemma csum_perm l l' : Permutation l l' -> csum l = csum l'.
Proof.
  induction 1; simpl; auto.
  - congruence.
  - rewrite <- !cadd_assoc. f_equal. apply cadd_comm.
  - congruence.
Qed.

(* order_independent: each ungrouped test yields the same cases (verdicts and logs) whatever
   else is in the file and in whatever order; the counters - hence the exit status - too *)
Theorem order_independent ts ts' :
  Permutation ts ts' ->
  Permutation (fst (run_file ts c0)) (fst (run_file ts' c0)) /\
  snd (run_file ts c0) = snd (run_file ts' c0).
Proof.
  intros HP. rewrite !run_file_by_test. simpl. split.
  - apply Permutation_flat_map; auto.
  - f_equal. apply csum_perm. apply Permutation_map; auto.
Qed.

Theorem subset_independent ts t :
  In t ts -> exists before after, fst (run_file ts c0) = before ++ cases_of t ++ after.
Proof.
  intros H. rewrite run_file_by_test. simpl.
  apply in_split in H. destruct H as (l1 & l2 & ->).
  rewrite flat_map_app. simpl. eauto.
Qed.

(* ---- what each case contributes to Statistics.Fails / Skips *)
Definition fails_of (x : tcase) : nat :=
  if tc_skip x then 0 else match tc_verdict x with Pass => 0 | FailAssert => 2 | FailRuntime => 1 end.
Fixpoint nsum (l : list nat) : nat := match l with [] => 0 | a :: r => a + nsum r end.

Lemma run_scopes_fails t ss : forall σ c,
  fails (snd (run_scopes t ss σ c)) = fails c + nsum (map fails_of (fst (run_scopes t ss σ c))) /\
  skips (snd (run_scopes t ss σ c)) = skips c + count is_skipped (fst (run_scopes t ss σ c)).
Proof.
  induction ss as [|s r IH]; intros σ c; simpl.
  - unfold count; simpl; split; lia.
  - destruct (t_skip t) eqn:Sk.
    + specialize (IH σ (c_skip c)). destruct (run_scopes t r σ (c_skip c)) as [cs c']. simpl in *.
      unfold count in *. simpl. destruct IH as [A B]. split; [rewrite A | rewrite B]; unfold fails_of; simpl; lia.
    + destruct (run_body s (t_body t) σ) as [[[k v] lg] σ'].
      match goal with |- context [run_scopes t r σ' ?cc] => specialize (IH σ' cc);
        destruct (run_scopes t r σ' cc) as [cs c'] end.
      simpl in *. unfold count in *. simpl. destruct IH as [A B].
      split; [rewrite A | rewrite B]; unfold fails_of; simpl; destruct v; simpl; lia.
Qed.

Lemma run_file_fails ts : forall c,
  fails (snd (run_file ts c)) = fails c + nsum (map fails_of (fst (run_file ts c))) /\
  skips (snd (run_file ts c)) = skips c + count is_skipped (fst (run_file ts c)).
Proof.
  induction ts as [|t r IH]; intros c; simpl.
  - split; unfold count; simpl; lia.
  - unfold run_test. destruct (run_scopes_fails t (t_scopes t) init c) as [A B].
    destruct (run_scopes t (t_scopes t) init c) as [cs1 c1]. simpl in *.
    destruct (IH c1) as [A' B']. destruct (run_file r c1) as [cs2 c2]. simpl in *.
    unfold count in *. rewrite map_app, filter_app, app_length.
    assert (N : forall a b, nsum (a ++ b) = nsum a + nsum b) by (induction a; simpl; intros; auto; rewrite IHa; lia).
    rewrite N. split; lia.
Qed.

Lemma nsum_pos l : nsum l <> 0 <-> exists a, In a l /\ a <> 0.
Proof.
  induction l; simpl.
  - split; [lia | intros [a [[] _]]].
  - split.
    + intros H. destruct a.
      * destruct IHl as [IH _]. destruct IH as [b [Hb Hn]]; [lia | eauto].
      * exists (S a). split; auto.
    + intros [b [[->|Hb] Hn]]; [lia|]. destruct IHl as [_ IH]. assert (nsum l <> 0) by eauto. lia.
Qed.

(* `falco test` exits non-zero exactly when at least one case failed *)
Theorem exit_iff_fail ts :
  exit_status (snd (run_file ts c0)) = 1 <-> exists x, In x (fst (run_file ts c0)) /\ is_failed x = true.
Proof.
  destruct (run_file_fails ts c0) as [A _]. simpl in A. unfold exit_status.
  split.
  - intros H. destruct (fails (snd (run_file ts c0))) eqn:E; [discriminate|].
    assert (Hn : nsum (map fails_of (fst (run_file ts c0))) <> 0) by lia.
    apply nsum_pos in Hn. destruct Hn as [a [Ha Hn]]. apply in_map_iff in Ha. destruct Ha as [x [Hx Hin]].
    exists x. split; auto. unfold is_failed, fails_of in *. destruct (tc_skip x); [lia|].
    destruct (tc_verdict x); simpl; auto; lia.
  - intros [x [Hin Hf]].
    assert (Hn : nsum (map fails_of (fst (run_file ts c0))) <> 0).
    { apply nsum_pos. exists (fails_of x). split; [apply in_map; auto|].
      unfold is_failed, fails_of in *. destruct (tc_skip x); [discriminate|].
      destruct (tc_verdict x); simpl in *; try discriminate; lia. }
    destruct (fails (snd (run_file ts c0))); [lia | reflexivity].
Qed.

Theorem exit_zero_iff ts :
  exit_status (snd (run_file ts c0)) = 0 <->
  forall x, In x (fst (run_file ts c0)) -> is_passed x = true \/ is_skipped x = true.
Proof.
  split.
  - intros H x Hin. destruct (is_failed x) eqn:F.
    + assert (E : exit_status (snd (run_file ts c0)) = 1) by (apply exit_iff_fail; eauto). congruence.
    + unfold is_failed, is_passed, is_skipped in *. destruct (tc_skip x); auto.
      simpl in *. left. rewrite F. reflexivity.
  - intros H. destruct (exit_status (snd (run_file ts c0))) eqn:E; auto.
    assert (E1 : exit_status (snd (run_file ts c0)) = 1).
    { unfold exit_status in *. destruct (fails (snd (run_file ts c0))); congruence. }
    apply exit_iff_fail in E1. destruct E1 as [x [Hin Hf]]. destruct (H x Hin) as [Hp|Hs];
      unfold is_failed, is_passed, is_skipped in *; destruct (tc_skip x); simpl in *; try discriminate.
    destruct (failed (tc_verdict x)); discriminate.
Qed.

(* passed + failed + skipped = number of (test, scope) pairs run *)
Lemma run_scopes_length t ss : forall σ c, length (fst (run_scopes t ss σ c)) = length ss.
Proof.
  induction ss as [|s r IH]; intros σ c; simpl; auto.
  destruct (t_skip t).
  - specialize (IH σ (c_skip c)). destruct (run_scopes t r σ (c_skip c)). simpl in *. lia.
  - destruct (run_body s (t_body t) σ) as [[[k v] lg] σ'].
    match goal with |- context [run_scopes t r σ' ?cc] => specialize (IH σ' cc);
      destruct (run_scopes t r σ' cc) end. simpl in *. lia.
Qed.

Theorem count_sum ts :
  let cs := fst (run_file ts c0) in
  count is_passed cs + count is_failed cs + count is_skipped cs
    = length (expand_scopes ts) /\
  skips (snd (run_file ts c0)) = count is_skipped cs.
Proof.
  simpl. split.
  - assert (L : length (fst (run_file ts c0)) = length (expand_scopes ts)).
    { rewrite run_file_by_test. simpl. unfold expand_scopes.
      induction ts as [|t r IH]; simpl; auto. rewrite !app_length, IH, map_length.
      unfold cases_of, run_test. rewrite run_scopes_length. reflexivity. }
    rewrite <- L. generalize (fst (run_file ts c0)). intros l. unfold count.
    induction l as [|x r IH]; simpl; auto.
    unfold is_passed, is_failed, is_skipped in *. destruct (tc_skip x); simpl;
      [|destruct (failed (tc_verdict x)); simpl]; lia.
  - destruct (run_file_fails ts c0) as [_ B]. simpl in B. exact B.
Qed.

End RunnerP.
