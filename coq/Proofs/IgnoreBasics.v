(* Basic facts about Model/Ignore.v: unfolding lemmas, induction principle for the walk tree,
   denotation of the rule sets, and the leakage invariant (ignore_restores). *)
From Coq Require Import List Bool Arith Lia.
From Falco Require Import Base.Bytes Model.Ignore Model.IgnoreSpec.
Import ListNotations.

(* ------------------------------------------------------------------ projections of a result *)

Lemma r_st_mk a b c d : r_st (a, b, c, d) = a. Proof. reflexivity. Qed.
Lemma r_qv_mk a b c d : r_qv (a, b, c, d) = b. Proof. reflexivity. Qed.
Lemma r_qp_mk a b c d : r_qp (a, b, c, d) = c. Proof. reflexivity. Qed.
Lemma r_out_mk a b c d : r_out (a, b, c, d) = d. Proof. reflexivity. Qed.
Ltac rproj := rewrite ?r_st_mk, ?r_qv_mk, ?r_qp_mk, ?r_out_mk.

Lemma rres_eta (r : rres) : r = (r_st r, r_qv r, r_qp r, r_out r).
Proof. destruct r as [[[a b] c] d]. reflexivity. Qed.

(* ------------------------------------------------------------------ unfolding *)
Lemma run_kids_nil p i s qv qp : run_kids [] p i s qv qp = (s, qv, qp, []).
Proof. reflexivity. Qed.

Lemma run_kids_cons k ks p i s qv qp :
  run_kids (k :: ks) p i s qv qp =
  let r := run k (p ++ [i]) s qv qp in
  let r' := run_kids ks p (S i) (r_st r) (r_qv r) (r_qp r) in
  (r_st r', r_qv r', r_qp r', r_out r ++ r_out r').
Proof.
  unfold run_kids at 1. cbn [kids_with]. fold (kids_with run). fold run_kids.
  destruct (run k (p ++ [i]) s qv qp) as [[[a b] c] d]. cbn.
  destruct (run_kids ks p (S i) a b c) as [[[a' b'] c'] d']. reflexivity.
Qed.

Definition inner (fl : bool) (pre lsub lprog : list rule) (kids : list node)
    (p : path) (s1 : istate) (qv qp : list diag) : rres :=
  let rk := run_kids kids p 0 s1 (if fl then [] else qv) qp in
  (r_st rk,
   (if fl then qv else r_qv rk) ++ emit p lsub s1,
   r_qp rk ++ emit p lprog s1,
   emit p pre s1 ++ r_out rk ++ (if fl then r_qv rk else [])).

Lemma run_inner_eq fl pre lsub lprog kids p s1 qv qp :
  run_inner run fl pre lsub lprog kids p s1 qv qp = inner fl pre lsub lprog kids p s1 qv qp.
Proof.
  unfold run_inner, inner. fold run_kids.
  destruct (run_kids kids p 0 s1 (if fl then [] else qv) qp) as [[[a b] c] d]. reflexivity.
Qed.

Lemma run_node w m fl pre lsub lprog kids p s qv qp :
  run (Node w m fl pre lsub lprog kids) p s qv qp =
  let r := inner fl pre lsub lprog kids p (setup w m s) qv qp in
  (teardown w m (r_st r), r_qv r, r_qp r, r_out r).
Proof.
  cbn [run]. rewrite run_inner_eq.
  destruct (inner fl pre lsub lprog kids p (setup w m s) qv qp) as [[[a b] c] d]. reflexivity.
Qed.

Global Opaque run run_kids.

(* ------------------------------------------------------------------ induction on the tree *)
Section node_induction.
  Variable P : node -> Prop.
  Hypothesis H : forall w m fl pre lsub lprog kids, Forall P kids -> P (Node w m fl pre lsub lprog kids).
  Fixpoint node_ind' (n : node) : P n :=
    match n with
    | Node w m fl pre lsub lprog kids =>
        H w m fl pre lsub lprog kids
          ((fix go (ks : list node) : Forall P ks :=
              match ks with
              | [] => Forall_nil P
              | k :: ks' => Forall_cons k (node_ind' k) (go ks')
              end) kids)
    end.
End node_induction.

(* ------------------------------------------------------------------ rule sets *)
Lemma bytes_eqb_refl a : bytes_eqb a a = true.
Proof. induction a; cbn; auto. rewrite IHa. replace (byte_eqb a a) with true; auto.
  symmetry. apply byte_eqb_eq. reflexivity. Qed.

Lemma bytes_eqb_eq a b : bytes_eqb a b = true <-> a = b.
Proof.
  revert b. induction a as [|x a IH]; destruct b as [|y b]; cbn; split; intros H; try congruence; auto.
  - apply andb_true_iff in H. destruct H as [H1 H2]. apply byte_eqb_eq in H1. apply IH in H2. congruence.
  - inversion H; subst. apply (bytes_eqb_refl (y :: b)).
Qed.

Lemma mem_app r l1 l2 : mem r (l1 ++ l2) = mem r l1 || mem r l2.
Proof. unfold mem. apply existsb_app. Qed.

Lemma mem_filter r f l :
  (forall x, bytes_eqb r x = true -> f x = f r) ->
  mem r (filter f l) = mem r l && f r.
Proof.
  intros Hf. unfold mem. induction l as [|x l IH]; cbn; auto.
  destruct (f x) eqn:Fx; cbn.
  - rewrite IH. destruct (bytes_eqb r x) eqn:E; cbn; auto.
    rewrite <- (Hf x E), Fx. reflexivity.
  - rewrite IH. destruct (bytes_eqb r x) eqn:E; cbn; auto.
    rewrite <- (Hf x E), Fx. rewrite andb_false_r. reflexivity.
Qed.

Lemma mem_congr r x l : bytes_eqb r x = true -> mem x l = mem r l.
Proof. intros E. apply bytes_eqb_eq in E. subst. reflexivity. Qed.

Lemma den_ignore a L r : den (ignore_rules a L) r = den a r || named L r.
Proof.
  unfold den, ignore_rules, named. destruct L as [|x L]; cbn [all rules].
  - cbn. rewrite orb_true_r. reflexivity.
  - rewrite mem_app. rewrite orb_assoc. reflexivity.
Qed.

Lemma is_enable_den r s : is_enable r s = den (nl s) r || den (tl s) r || den (rg s) r.
Proof.
  unfold is_enable, den.
  destruct (all (nl s)), (all (tl s)), (all (rg s)), (mem r (rules (nl s))), (mem r (rules (tl s))), (mem r (rules (rg s))); reflexivity.
Qed.

(* ------------------------------------------------------------------ setup / teardown: what they touch *)
Lemma apply_leading_stack s c : stack (apply_leading s c) = stack s.
Proof. unfold apply_leading. destruct (parse_ignore_comment c) as [[[] L]|]; reflexivity. Qed.
Lemma apply_leading_tl s c : tl (apply_leading s c) = tl s.
Proof. unfold apply_leading. destruct (parse_ignore_comment c) as [[[] L]|]; reflexivity. Qed.
Lemma apply_trailing_stack s c : stack (apply_trailing s c) = stack s.
Proof. unfold apply_trailing. destruct (parse_ignore_comment c) as [[[] L]|]; reflexivity. Qed.
Lemma apply_trailing_nl s c : nl (apply_trailing s c) = nl s.
Proof. unfold apply_trailing. destruct (parse_ignore_comment c) as [[[] L]|]; reflexivity. Qed.
Lemma apply_trailing_rg s c : rg (apply_trailing s c) = rg s.
Proof. unfold apply_trailing. destruct (parse_ignore_comment c) as [[[] L]|]; reflexivity. Qed.
Lemma apply_block_end_stack s c : stack (apply_block_end s c) = stack s.
Proof. unfold apply_block_end. destruct (parse_ignore_comment c) as [[[] L]|]; reflexivity. Qed.
Lemma apply_block_end_nl s c : nl (apply_block_end s c) = nl s.
Proof. unfold apply_block_end. destruct (parse_ignore_comment c) as [[[] L]|]; reflexivity. Qed.
Lemma apply_block_end_tl s c : tl (apply_block_end s c) = tl s.
Proof. unfold apply_block_end. destruct (parse_ignore_comment c) as [[[] L]|]; reflexivity. Qed.

Lemma fold_inv {A} (f : istate -> list byte -> istate) (g : istate -> A) :
  (forall s c, g (f s c) = g s) -> forall l s, g (fold_left f l s) = g s.
Proof. intros H l. induction l as [|c l IH]; intros s; cbn; auto. rewrite IH. apply H. Qed.

Lemma setup_stack w m s : stack (setup w m s) = (nl s, tl s) :: stack s.
Proof.
  destruct w; cbn [setup]; unfold setup_statement, setup_block.
  - rewrite (fold_inv apply_trailing stack apply_trailing_stack).
    rewrite (fold_inv apply_leading stack apply_leading_stack). reflexivity.
  - rewrite (fold_inv apply_leading stack apply_leading_stack). reflexivity.
Qed.

(* teardown restores what the matching setup saved *)
Lemma teardown_restores w m s2 a b st :
  stack s2 = (a, b) :: st ->
  nl (teardown w m s2) = a /\ tl (teardown w m s2) = b /\ stack (teardown w m s2) = st.
Proof.
  intros H. destruct w; cbn [teardown]; unfold teardown_statement, teardown_block.
  - unfold pop. rewrite H. cbn. auto.
  - rewrite (fold_inv apply_block_end nl apply_block_end_nl), (fold_inv apply_block_end tl apply_block_end_tl),
      (fold_inv apply_block_end stack apply_block_end_stack).
    rewrite (fold_inv apply_block_end nl apply_block_end_nl), (fold_inv apply_block_end tl apply_block_end_tl),
      (fold_inv apply_block_end stack apply_block_end_stack).
    unfold pop. rewrite H. cbn. auto.
Qed.

(* ------------------------------------------------------------------ the leakage invariant *)
Definition restores (s s' : istate) : Prop := nl s' = nl s /\ tl s' = tl s /\ stack s' = stack s.

Lemma restores_refl s : restores s s.
Proof. unfold restores; auto. Qed.
Lemma restores_trans a b c : restores a b -> restores b c -> restores a c.
Proof. unfold restores. intuition congruence. Qed.

Lemma run_kids_restores ks :
  Forall (fun n => forall p s qv qp, restores s (r_st (run n p s qv qp))) ks ->
  forall p i s qv qp, restores s (r_st (run_kids ks p i s qv qp)).
Proof.
  induction 1 as [|k ks Hk _ IH]; intros p i s qv qp.
  - rewrite run_kids_nil. apply restores_refl.
  - rewrite run_kids_cons. cbn zeta. unfold r_st at 1. cbn [fst].
    eapply restores_trans; [apply Hk | apply IH].
Qed.

Lemma run_restores n : forall p s qv qp, restores s (r_st (run n p s qv qp)).
Proof.
  induction n as [w m fl pre lsub lprog kids IH] using node_ind'. intros p s qv qp.
  rewrite run_node. cbn zeta. unfold r_st at 1. cbn [fst].
  unfold inner. cbn [r_st fst].
  pose proof (run_kids_restores kids IH p 0 (setup w m s) (if fl then [] else qv) qp) as (_ & _ & Hs).
  rewrite setup_stack in Hs.
  destruct (teardown_restores w m _ _ _ _ Hs) as (A & B & C).
  unfold restores. auto.
Qed.

Lemma run_kids_restores' ks p i s qv qp : restores s (r_st (run_kids ks p i s qv qp)).
Proof. apply run_kids_restores. apply Forall_forall. intros n _. apply run_restores. Qed.

(* the state in which the body of a node ends still carries the snapshot pushed by its setup *)
Lemma inner_stack w m fl pre lsub lprog kids p s qv qp :
  stack (r_st (inner fl pre lsub lprog kids p (setup w m s) qv qp)) = (nl s, tl s) :: stack s.
Proof.
  unfold inner. cbn [r_st fst].
  pose proof (run_kids_restores' kids p 0 (setup w m s) (if fl then [] else qv) qp) as (_ & _ & Hs).
  rewrite Hs. apply setup_stack.
Qed.
