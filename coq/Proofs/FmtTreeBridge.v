(* C03, tree level: the decision tables that tie Model/FmtNorm.v (token kinds of the formatter
   model) to the parser-side rewrites of Proofs/FmtTreeTokens.v / FmtTreeTokensDel.v (token types of
   the parser model): inside an expression [normal] inserts / removes "+" exactly where [ins_plus] /
   [del_plus] do. *)
From Coq Require Import List Bool NArith.
From Falco Require Import Base.Bytes Gen.TokenTypes Gen.FmtConfig.
From Falco Require Model.FmtTok Model.FmtNorm.
From Falco Require Import Model.ParseBase Proofs.FmtTreeExpr Proofs.FmtTreeTokens Proofs.FmtTreeTokensDel.
Import ListNotations.

(* the token kinds of the formatter model that occur inside expressions, as parser token types
   (operators other than "+" are [KOther] there: see [other_inert]) *)
Definition kind_tt (k : FmtTok.kind) : option ttype :=
  match k with
  | FmtTok.KIdent => Some T_IDENT | FmtTok.KString => Some T_STRING
  | FmtTok.KOpenLong => Some T_OPEN_LONG_STRING | FmtTok.KCloseLong => Some T_CLOSE_LONG_STRING
  | FmtTok.KInt => Some T_INT | FmtTok.KFloat => Some T_FLOAT | FmtTok.KRTime => Some T_RTIME
  | FmtTok.KTrue => Some T_TRUE | FmtTok.KFalse => Some T_FALSE | FmtTok.KPercent => Some T_PERCENT
  | FmtTok.KPlus => Some T_PLUS | FmtTok.KLParen => Some T_LEFT_PAREN | FmtTok.KRParen => Some T_RIGHT_PAREN
  | FmtTok.KComma => Some T_COMMA | FmtTok.KIf => Some T_IF
  | _ => None
  end.

Lemma kind_tt_agree k ty : kind_tt k = Some ty ->
  FmtTok.juxt k = t_juxt ty /\ FmtTok.opend k = t_opend ty /\ FmtTok.kis k FmtTok.KPlus = is_plus ty.
Proof. destruct k; simpl; intros H; try discriminate; inversion H; subst; repeat split; reflexivity. Qed.

Lemma other_inert n :
  FmtTok.juxt (FmtTok.KOther n) = false /\ FmtTok.opend (FmtTok.KOther n) = false
  /\ FmtTok.kis (FmtTok.KOther n) FmtTok.KPlus = false.
Proof. repeat split; reflexivity. Qed.

(* [normal] on an expression token, in an expression: the "+" decisions of ins_plus / del_plus *)
Lemma normal_in_expr c s t nk ty :
  kind_tt (FmtTok.tk t) = Some ty -> FmtNorm.inexpr (FmtNorm.mode s) = true ->
  FmtNorm.normal c s t nk =
    if FmtTok.explicit_string_concat c
    then (if FmtNorm.pe s && t_juxt ty then FmtNorm.AInsBefore FmtTok.t_plus else FmtNorm.AKeep)
    else (if FmtNorm.pe s && is_plus ty && FmtNorm.nk_juxt nk then FmtNorm.ADrop FmtNorm.PNone
          else FmtNorm.AKeep).
Proof.
  intros H Hm. unfold FmtNorm.normal, FmtNorm.spelling. rewrite Hm.
  destruct (FmtTok.tk t); simpl in H; try discriminate; inversion H; subst; simpl;
    destruct (FmtNorm.tbl s), (FmtNorm.pe s), (FmtTok.explicit_string_concat c),
      (FmtTok.else_if c), (FmtTok.should_use_unset c); simpl; try reflexivity;
    destruct (FmtNorm.nk_juxt nk); reflexivity.
Qed.

(* the keyword respellings of [spelling]: the token lists FmtTreeStmt.v's theorems are about *)
Lemma spelling_remove c t :
  FmtTok.should_use_unset c = true -> FmtTok.tk t = FmtTok.KRemove ->
  FmtNorm.spelling c t = FmtNorm.AReplace [FmtTok.t_unset] /\ FmtTok.tk FmtTok.t_unset = FmtTok.KUnset.
Proof.
  intros H K. unfold FmtNorm.spelling. rewrite K, H. simpl. rewrite andb_false_r. split; reflexivity.
Qed.

Lemma spelling_elseif c t :
  FmtTok.else_if c = true -> FmtTok.tk t = FmtTok.KElseIf \/ FmtTok.tk t = FmtTok.KElsIf ->
  FmtNorm.spelling c t = FmtNorm.AReplace [FmtTok.t_else; FmtTok.t_if]
  /\ FmtTok.tk FmtTok.t_else = FmtTok.KElse /\ FmtTok.tk FmtTok.t_if = FmtTok.KIf.
Proof.
  intros H [K|K]; unfold FmtNorm.spelling; rewrite K, H; repeat split; reflexivity.
Qed.
