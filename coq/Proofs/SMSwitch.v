(* C06, T tie on the transition relation: the `switch state` of every Process* function as the translator
   reads it from interpreter/interpreter.go (Gen/SMSwitch.v), compared - for every scope and every state a
   subroutine can return - with what one step of Model/SM.v does.  A changed case label, a clause calling
   another Process* function, a changed NONE default or hash/log guard breaks this by computation. *)
From Coq Require Import String List ZArith NArith Bool Arith.
From Falco Require Import Base.Res Base.SMBase Gen.SMConst Gen.SMSwitch Model.SM Model.SMDoc.
Import ListNotations.
Local Open Scope string_scope.

Definition rstate_name (r : rstate) : string :=
  match r with
  | SLookup => "LOOKUP" | SPass => "PASS" | SHash => "HASH" | SError => "ERROR" | SRestart => "RESTART"
  | SDeliver => "DELIVER" | SFetch => "FETCH" | SDeliverStale => "DELIVER_STALE" | SHitForPass => "HIT_FOR_PASS"
  | SEnd => "END" | SUpgrade => "upgrade" | SOther => "some other identifier"
  end.
Definition state_name (s : state) : string :=
  match s with NONE => "NONE" | BARE => "BARE_RETURN" | St r => rstate_name r end.
Definition action_of_state (s : state) : action :=
  match s with NONE => ANone | BARE => ABare | St r => ARet r end.
Definition all_states : list state := NONE :: BARE :: map St all_rstates.

Definition mem_string (x : string) (l : list string) : bool := existsb (String.eqb x) l.
Fixpoint assoc_scope {A} (s : scope) (l : list (scope * A)) : option A :=
  match l with [] => None | (k, v) :: t => if scope_eqb s k then Some v else assoc_scope s t end.

(* what the Go switch does with a state: the Process*/restart calls of its clause, [] = the default clause *)
Definition gen_callees (sc : scope) (s : state) : list string :=
  let nm := state_name s in
  let nm := if String.eqb nm "NONE"
            then match assoc_scope sc impl_none_default with Some d => d | None => nm end else nm in
  match assoc_scope sc impl_switch with
  | None => []
  | Some clauses =>
      match find (fun cl => mem_string nm (fst cl)) clauses with
      | Some cl => snd cl
      | None => []
      end
  end.

(* what Model/SM.v does with it: the same names, computed by running one step (cold and warm cache) *)
Definition node_of_scope (sc : scope) : option (node * dnode) :=
  match sc with
  | Recv => Some (NRecv, DRecv) | Hit => Some (NHit, DHit) | Miss => Some (NMiss, DMiss) | Pass => Some (NPass, DPass)
  | Fetch => Some (NFetch, DFetch) | Error => Some (NError, DError) | Deliver => Some (NDeliver, DDeliver)
  | Log => Some (NLog, DLog) | Hash => None
  end.
Definition callee_name (n : node) : string :=
  match n with
  | NRecv => "restart" | NHit => "ProcessHit" | NMiss => "ProcessMiss" | NPass => "ProcessPass"
  | NFetch => "ProcessFetch" | NError => "ProcessError" | NDeliver => "ProcessDeliver" | NLog => "ProcessLog"
  end.
Definition switch_ctx : ctx := mkC 0 XNone false true true None [] [] 0 false None 500 None None.
Definition model_step (sc : scope) (s : state) (p : persistent) : option (list event * next) :=
  match node_of_scope sc with
  | None => None
  | Some (n, _) =>
      let orc := fun sc' (_ : nat) => if scope_eqb sc' sc then action_of_state s else ANone in
      let '(c', _, nx) := step orc edge_request n switch_ctx p in
      Some (c_trace c', nx)
  end.
Definition model_callees (sc : scope) (s : state) : list string :=
  match model_step sc s init, model_step sc s warm with
  | Some (tr, nx1), Some (_, nx2) =>
      (if existsb (fun e => match fst (fst e) with DHashL | DHashP => true | _ => false end) tr
       then ["ProcessHash"] else []) ++
      match nx1, nx2 with
      | Goto a, Goto b => if String.eqb (callee_name a) (callee_name b) then [callee_name a]
                          else [callee_name b; callee_name a]
      | _, _ => []
      end
  | _, _ => []
  end.

Definition switch_scopes : list scope := [Recv; Hit; Miss; Pass; Fetch; Error; Deliver].

Lemma switch_eq_model_b :
  forallb (fun sc => forallb (fun s =>
     if list_eq_dec string_dec (gen_callees sc s) (model_callees sc s) then true else false) all_states)
     switch_scopes = true.
Proof. vm_compute. reflexivity. Qed.

Lemma switch_eq_model sc s : In sc switch_scopes -> In s all_states -> gen_callees sc s = model_callees sc s.
Proof.
  intros Hsc Hs. pose proof (proj1 (forallb_forall _ _) switch_eq_model_b sc Hsc) as H1.
  pose proof (proj1 (forallb_forall _ _) H1 s Hs) as H2. cbn beta in H2.
  destruct (list_eq_dec string_dec (gen_callees sc s) (model_callees sc s)); [assumption|discriminate].
Qed.

(* ProcessHash / ProcessLog: the states their guard accepts are the ones the model accepts *)
Definition model_accepts (sc : scope) (s : state) : bool :=
  let orc := fun sc' (_ : nat) => if scope_eqb sc' sc then action_of_state s else ANone in
  match sc with
  | Hash => snd (process_hash orc edge_request DHashL switch_ctx)
  | Log => match process_log orc edge_request switch_ctx init with (_, _, Done) => true | _ => false end
  | _ => false
  end.
Lemma guards_eq_model_b :
  forallb (fun sc => forallb (fun s =>
     Bool.eqb (match assoc_scope sc impl_accept with Some l => mem_string (state_name s) l | None => false end)
              (model_accepts sc s)) all_states) [Hash; Log] = true.
Proof. vm_compute. reflexivity. Qed.
