(* C08 - totality and output-size bounds of the argument-driven built-ins of Model/Builtins.v. *)
From Coq Require Import List NArith ZArith Bool Lia.
From Falco Require Import Base.Res Base.Bytes Model.Float Model.Val Model.Builtins.
Import ListNotations.
Local Open Scope Z_scope.
Ltac Zify.zify_post_hook ::= Z.div_mod_to_equations.

Lemma rep_length n s : length (rep n s) = (n * length s)%nat.
Proof. induction n as [|n IH]; [reflexivity|]. cbn. rewrite app_length, IH. lia. Qed.

(* std.strrep: a value or an error for every count (negative, huge); a value never exceeds the workspace *)
Theorem strrep_bound : forall limit s count r, 0 <= limit ->
  strrep limit s count = OK r -> zlen r <= limit /\ zlen r = Z.max count 0 * zlen s.
Proof.
  intros limit s count r Hl. unfold strrep. destruct s as [|b s]; [intros H; injection H as <-; cbn; lia|].
  set (x := b :: s). assert (Hx : 0 < zlen x) by (unfold zlen, x; cbn; lia).
  destruct (limit / zlen x <? Z.max count 0) eqn:E; [discriminate|]. intros H. injection H as <-.
  apply Z.ltb_ge in E.
  assert (Hlen : zlen (rep (Z.to_nat (Z.max count 0)) x) = Z.max count 0 * zlen x).
  { unfold zlen. rewrite rep_length, Nat2Z.inj_mul, Z2Nat.id by lia. reflexivity. }
  rewrite Hlen. split; [|reflexivity].
  assert (Z.max count 0 * zlen x <= limit / zlen x * zlen x) by nia.
  pose proof (Z.mul_div_le limit (zlen x) Hx). lia.
Qed.

Theorem strrep_total : forall limit s count, strrep limit s count <> Crash /\ strrep limit s count <> OutOfFuel.
Proof. intros. unfold strrep. destruct s; [split; discriminate|]. destruct (_ <? _); split; discriminate. Qed.

(* std.strpad: the result is the string itself or has exactly |width| bytes, never more than the workspace *)
Theorem strpad_bound : forall limit s width pad r, 0 <= limit ->
  strpad limit s width pad = OK r ->
  r = s \/ (zlen r = f_to_int (f_of_int (Z.abs width)) /\ zlen r <= limit).
Proof.
  intros limit s width pad r Hl. unfold strpad. destruct pad as [|b pad]; [intros H; injection H as <-; now left|].
  set (p := b :: pad). assert (Hp : 0 < zlen p) by (unfold zlen, p; cbn; lia).
  set (w := f_to_int (f_of_int (Z.abs width))).
  destruct (w <=? zlen s) eqn:E1; [intros H; injection H as <-; now left|].
  destruct (limit <? w) eqn:E2; [discriminate|]. apply Z.leb_gt in E1. apply Z.ltb_ge in E2.
  intros H. injection H as <-. right.
  assert (Hf : zlen (firstn (Z.to_nat (w - zlen s)) (rep (Z.to_nat ((w - zlen s) / zlen p + 1)) p)) = w - zlen s).
  { unfold zlen at 1. rewrite firstn_length, rep_length.
    assert (Hq : 0 <= (w - zlen s) / zlen p) by (apply Z.div_pos; lia).
    assert (Z.to_nat (w - zlen s) <= Z.to_nat ((w - zlen s) / zlen p + 1) * length p)%nat.
    { apply Nat2Z.inj_le. rewrite Nat2Z.inj_mul. rewrite (Z2Nat.id (w - zlen s)) by lia.
      rewrite (Z2Nat.id ((w - zlen s) / zlen p + 1)) by lia.
      fold (zlen p). pose proof (Z.div_mod (w - zlen s) (zlen p) ltac:(lia)).
      pose proof (Z.mod_pos_bound (w - zlen s) (zlen p) Hp). nia. }
    rewrite Nat.min_l by assumption. rewrite Z2Nat.id; lia. }
  set (pp := firstn (Z.to_nat (w - zlen s)) (rep (Z.to_nat ((w - zlen s) / zlen p + 1)) p)) in *.
  assert (Happ : forall a b : str, zlen (a ++ b) = zlen a + zlen b)
    by (intros a b0; unfold zlen; rewrite app_length, Nat2Z.inj_add; reflexivity).
  destruct (width <? 0); rewrite Happ, Hf; split; lia.
Qed.

(* randomstr: not set without characters, empty for a negative length, an error beyond the workspace, else exactly n *)
Theorem randomstr_bound : forall limit pick n chars r,
  randomstr limit pick n chars = OK (Some r) -> zlen r = Z.max n 0 /\ (0 <= n -> n <= limit).
Proof.
  intros limit pick n chars r. unfold randomstr. destruct chars as [|c0 cs]; [discriminate|].
  destruct (n <? 0) eqn:E1; [intros H; injection H as <-; apply Z.ltb_lt in E1; cbn; lia|].
  destruct (limit <? n) eqn:E2; [discriminate|]. apply Z.ltb_ge in E1, E2.
  intros H. injection H as <-. unfold zlen. rewrite map_length, seq_length, Z2Nat.id by lia. lia.
Qed.

(* the recorded finding: std.replaceall with an empty target multiplies the sizes - no bound *)
Lemma interleave_length r s : length (interleave r s) = ((length s + 1) * length r + length s)%nat.
Proof. induction s as [|b t IH]; cbn; [lia|]. rewrite app_length. cbn. rewrite IH. lia. Qed.

Theorem replaceall_unbounded_refuted : forall limit : nat, exists r s : str,
  (length r <= S limit /\ length s <= S limit /\ limit < length (interleave r s))%nat.
Proof.
  intros limit. exists (repeat Byte.x61 (S limit)), (repeat Byte.x61 (S limit)).
  rewrite interleave_length, !repeat_length. repeat split; lia.
Qed.

Example ex_strrep : strrep 262144 [Byte.x61; Byte.x62] 3 = OK [Byte.x61; Byte.x62; Byte.x61; Byte.x62; Byte.x61; Byte.x62].
Proof. reflexivity. Qed.
Example ex_strrep_huge : strrep 262144 [Byte.x61] 9223372036854775807 = Err.
Proof. reflexivity. Qed.
Example ex_strpad_left : strpad 262144 [Byte.x61] 4 [Byte.x78; Byte.x79] = OK [Byte.x78; Byte.x79; Byte.x78; Byte.x61].
Proof. vm_compute. reflexivity. Qed.
Example ex_strpad_right : strpad 262144 [Byte.x61] (-3) [Byte.x78] = OK [Byte.x61; Byte.x78; Byte.x78].
Proof. vm_compute. reflexivity. Qed.
