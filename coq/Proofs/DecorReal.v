(* C09 over the REAL pump and parser models (builders lex / parse):
   Model/Pump.v (Parser.ReadPeek over the lexer model's tokens, tied to the Go code by C01's
   correspondence) refines Model/Decor.v.  For every token stream without PRAGMA tokens,
   what pump_all hands to the parser - (type, literal) of every significant token and its
   annotation comments with their PrefixedLineFeed flags - is Decor.pump of the abstracted stream.
   Hence decorations (Decor.decorate on the abstraction: positions, PreviousEmptyLines and brace
   nesting are not part of it) change neither, and the parser model of Model/Parse*.v, fed with
   the pumped tokens, returns the same result.

   Not covered: streams containing PRAGMA tokens (ReadPeek swallows everything up to the next `;`,
   which is no token-wise abstraction); mnest / mprev of the metas (layout data the parser model
   does not read). *)
From Coq Require Import List NArith ZArith Bool Lia Arith.
From Falco Require Import Base.Res Base.Bytes Base.Utf8 Gen.Tokens Model.Lex Model.Pump
  Proofs.PumpTotal Model.Decor Proofs.DecorProofs.
From Falco Require Model.ParseBase Model.ParseDecl Model.Ast Model.Yield Proofs.ParseDeclYield.
Import ListNotations.

Section Real.
Variable is_ann : str -> bool.      (* which comment texts falco gives a meaning (annotation / directive / macro) *)
Variable e : token.                 (* the EOF token the lexer repeats *)
Hypothesis He : is_eof e = true.

Definition key (t : token) : str * str := (ttype t, tlit t).

(* token-wise abstraction, in the order of the tests of ReadPeek *)
Definition abs (t : token) : tok (str * str) str :=
  if is_type T_LF t then LF
  else if is_type T_COMMENT t then (if is_ann (tlit t) then Ann (tlit t) else Cmt)
  else if is_type T_FASTLY_CONTROL t then Blank
  else Sig (key t).

(* the part of the stream  ts e e e ...  the pump loop reads: up to the first EOF token *)
Fixpoint cut (ts : list token) : list token :=
  match ts with
  | [] => [e]
  | t :: r => if is_eof t then [t] else t :: cut r
  end.

Definition absS (ts : list token) : list (tok (str * str) str) := map abs (cut ts).

Definition no_pragma (ts : list token) : Prop := Forall (fun t => is_type T_PRAGMA t = false) ts.

Definition annproj (lead : list comment) : list (str * bool) :=
  map (fun c => (tlit (ctok c), clf c)) (filter (fun c => is_ann (tlit (ctok c))) lead).
Definition proj (m : meta) : str * str * list (str * bool) := (key (mtok m), annproj (mlead m)).

Definition significant_real (ms : list meta) : list (str * str) := map (fun m => key (mtok m)) ms.
Definition annotations_real (ms : list meta) : list (list (str * bool)) := map (fun m => annproj (mlead m)) ms.

(* ---- token type facts *)
Lemma type_is ty t : is_type ty t = true -> ttype t = ty.
Proof. unfold is_type. apply str_eqb_eq. Qed.

Lemma lf_not_eof t : is_type T_LF t = true -> is_eof t = false.
Proof. intros H. unfold is_eof. rewrite (type_is _ _ H). vm_compute. reflexivity. Qed.
Lemma comment_not_eof t : is_type T_COMMENT t = true -> is_eof t = false.
Proof. intros H. unfold is_eof. rewrite (type_is _ _ H). vm_compute. reflexivity. Qed.
Lemma control_not_eof t : is_type T_FASTLY_CONTROL t = true -> is_eof t = false.
Proof. intros H. unfold is_eof. rewrite (type_is _ _ H). vm_compute. reflexivity. Qed.

Lemma eof_abs t : is_eof t = true -> abs t = Sig (key t).
Proof.
  intros H. unfold abs.
  destruct (is_type T_LF t) eqn:A; [rewrite (lf_not_eof _ A) in H; discriminate|].
  destruct (is_type T_COMMENT t) eqn:B; [rewrite (comment_not_eof _ B) in H; discriminate|].
  destruct (is_type T_FASTLY_CONTROL t) eqn:C; [rewrite (control_not_eof _ C) in H; discriminate|].
  reflexivity.
Qed.

Lemma annproj_app lead c :
  annproj (lead ++ [c]) = annproj lead ++ (if is_ann (tlit (ctok c)) then [(tlit (ctok c), clf c)] else []).
Proof.
  unfold annproj. rewrite filter_app, map_app. cbn. destruct (is_ann (tlit (ctok c))); reflexivity.
Qed.

(* ---- the LF loop: the skipped tokens are line feeds, which only set the flag again *)
Lemma skip_lf_abs : forall n ts cnt c ts' acc,
  skip_lf n e ts cnt = OK (c, ts') ->
  pump_go true acc (absS ts) = pump_go true acc (absS ts') /\ (length ts' <= length ts)%nat /\
  (no_pragma ts -> no_pragma ts').
Proof.
  induction n as [|n IH]; intros ts cnt c ts' acc H; [discriminate|].
  cbn [skip_lf] in H. destruct ts as [|t r]; cbn [s_peek s_next snd] in H.
  - rewrite (e_not e He T_LF) in H by (vm_compute; reflexivity). inversion H; subst. auto.
  - destruct (is_type T_LF t) eqn:A.
    + destruct (IH _ _ _ _ acc H) as (P & L & NP). split; [|split].
      * unfold absS at 1. cbn [cut]. rewrite (lf_not_eof _ A). cbn [map]. unfold abs at 1. rewrite A.
        cbn [pump_go]. exact P.
      * cbn. lia.
      * intros Hn. apply NP. inversion Hn; assumption.
    + inversion H; subst. auto.
Qed.

(* ---- one ReadPeek *)
Lemma read_peek_abs : forall n ts level lead lf prev m ts' lv',
  no_pragma ts ->
  read_peek n e ts level lead lf prev = OK (m, ts', lv') ->
  pump_go lf (rev (annproj lead)) (absS ts) =
    (key (mtok m), annproj (mlead m)) ::
    (if is_eof (mtok m) then [] else pump_go false [] (absS ts'))
  /\ no_pragma ts'.
Proof.
  induction n as [|n IH]; intros ts level lead lf prev m ts' lv' NP H; [discriminate|].
  cbn [read_peek] in H. destruct ts as [|t r]; cbn [s_next] in H.
  - rewrite (e_not e He T_LF), (e_not e He T_COMMENT), (e_not e He T_FASTLY_CONTROL), (e_not e He T_PRAGMA) in H
      by (vm_compute; reflexivity).
    inversion H; subst. cbn [mtok mlead]. rewrite He. split; [|constructor].
    unfold absS. cbn [cut map]. rewrite (eof_abs e He). cbn [pump_go]. rewrite rev_involutive. reflexivity.
  - inversion NP as [|? ? Pt NPr]; subst.
    destruct (is_type T_LF t) eqn:A.
    { destruct (skip_lf n e r prev) as [[c ts2]| | |] eqn:S; cbn [bind] in H; try discriminate.
      destruct (skip_lf_abs _ _ _ _ _ (rev (annproj lead)) S) as (P & _ & NP2).
      destruct (IH _ _ _ _ _ _ _ _ (NP2 NPr) H) as (Q & NP').
      split; [|exact NP'].
      unfold absS at 1. cbn [cut]. rewrite (lf_not_eof _ A). cbn [map]. unfold abs at 1. rewrite A.
      cbn [pump_go]. fold (absS r). rewrite P. exact Q. }
    destruct (is_type T_COMMENT t) eqn:B.
    { destruct (IH _ _ _ _ _ _ _ _ NPr H) as (Q & NP'). split; [|exact NP'].
      unfold absS at 1. cbn [cut]. rewrite (comment_not_eof _ B). cbn [map]. unfold abs at 1. rewrite A, B.
      fold (absS r). rewrite annproj_app in Q. cbn [ctok clf] in Q.
      destruct (is_ann (tlit t)); cbn [pump_go].
      - rewrite rev_app_distr in Q. cbn [rev app] in Q. exact Q.
      - rewrite app_nil_r in Q. exact Q. }
    destruct (is_type T_FASTLY_CONTROL t) eqn:C.
    { destruct (IH _ _ _ _ _ _ _ _ NPr H) as (Q & NP'). split; [|exact NP'].
      unfold absS at 1. cbn [cut]. rewrite (control_not_eof _ C). cbn [map]. unfold abs at 1. rewrite A, B, C.
      cbn [pump_go]. exact Q. }
    rewrite Pt in H. inversion H; subst. cbn [mtok mlead]. split; [|exact NPr].
    unfold absS at 1. cbn [cut]. destruct (is_eof t) eqn:E.
    + cbn [map]. rewrite (eof_abs _ E). cbn [pump_go]. rewrite rev_involutive. reflexivity.
    + cbn [map]. unfold abs at 1. rewrite A, B, C. cbn [pump_go]. rewrite rev_involutive. reflexivity.
Qed.

(* ---- the pump loop *)
Lemma pump_loop_abs inner : forall outer ts level ms,
  no_pragma ts -> pump_loop outer inner e ts level = OK ms ->
  map proj ms = pump (absS ts).
Proof.
  induction outer as [|o IH]; intros ts level ms NP H; [discriminate|].
  cbn [pump_loop] in H.
  destruct (read_peek inner e ts level [] false 0%N) as [[[m ts1] lv]| | |] eqn:R; cbn [bind] in H; try discriminate.
  destruct (read_peek_abs _ _ _ _ _ _ _ _ _ NP R) as (Q & NP1).
  unfold pump. cbn [annproj filter map rev] in Q. rewrite Q.
  destruct (is_eof (mtok m)) eqn:E.
  - inversion H; subst. reflexivity.
  - destruct (pump_loop o inner e ts1 lv) as [ms1| | |] eqn:L; try discriminate.
    inversion H; subst. cbn [map]. unfold proj at 1. f_equal. apply (IH _ _ _ NP1 L).
Qed.

(* Model/Pump.v refines Model/Decor.v *)
Theorem pump_refines_decor ts n :
  no_pragma ts -> (S (length ts) <= n)%nat ->
  exists ms, pump_all n e ts = OK ms /\
             significant_real ms = significant (absS ts) /\
             annotations_real ms = annotations (absS ts).
Proof.
  intros NP Hn. destruct (pump_all_ok e He ts n Hn) as (ms & R & _).
  exists ms. split; [exact R|].
  pose proof (pump_loop_abs _ _ _ _ _ NP R) as P.
  unfold significant_real, annotations_real, significant, annotations. rewrite <- P, !map_map.
  split; apply map_ext; reflexivity.
Qed.
End Real.

(* ---- C09 over the real pump: two real token streams (each with its own EOF token and positions)
        whose abstractions are decorations of each other *)
Theorem pump_strip_real (is_ann : str -> bool) e e' ts ts' n n' :
  is_eof e = true -> is_eof e' = true ->
  no_pragma ts -> no_pragma ts' -> (S (length ts) <= n)%nat -> (S (length ts') <= n')%nat ->
  decorate (absS is_ann e ts) (absS is_ann e' ts') ->
  exists ms ms', pump_all n e ts = OK ms /\ pump_all n' e' ts' = OK ms' /\
                 significant_real ms' = significant_real ms /\
                 annotations_real is_ann ms' = annotations_real is_ann ms.
Proof.
  intros He He' NP NP' Hn Hn' D.
  destruct (pump_refines_decor is_ann e He ts n NP Hn) as (ms & R & S1 & A1).
  destruct (pump_refines_decor is_ann e' He' ts' n' NP' Hn') as (ms' & R' & S2 & A2).
  exists ms, ms'. split; [exact R|]. split; [exact R'|].
  rewrite S1, S2, A1, A2. split; [apply pump_strip | apply annotations_stable]; exact D.
Qed.

(* ---- ... and over the real parser model: the tokens the parser model consumes are a function of
        (type, literal) of the pumped significant tokens (to_ptoks; positions are not in the parser
        model, its Offset field is whatever the projection derives from type and literal) *)
Section Parse.
Variable tok_of : str * str -> ParseBase.token.
Variable fok : ParseBase.str -> bool.      (* the float-literal oracle the parser model is parametrised by *)
Definition to_ptoks (ms : list meta) : list ParseBase.token := map tok_of (significant_real ms).

Theorem parse_inert_real (is_ann : str -> bool) e e' ts ts' n n' :
  is_eof e = true -> is_eof e' = true ->
  no_pragma ts -> no_pragma ts' -> (S (length ts) <= n)%nat -> (S (length ts') <= n')%nat ->
  decorate (absS is_ann e ts) (absS is_ann e' ts') ->
  exists ms ms', pump_all n e ts = OK ms /\ pump_all n' e' ts' = OK ms' /\
                 ParseDecl.parse_vcl fok (to_ptoks ms') = ParseDecl.parse_vcl fok (to_ptoks ms) /\
                 ParseDecl.parse_vcl_or_snippet fok (to_ptoks ms') = ParseDecl.parse_vcl_or_snippet fok (to_ptoks ms).
Proof.
  intros He He' NP NP' Hn Hn' D.
  destruct (pump_strip_real is_ann e e' ts ts' n n' He He' NP NP' Hn Hn' D) as (ms & ms' & R & R' & S & _).
  exists ms, ms'. split; [exact R|]. split; [exact R'|]. unfold to_ptoks. rewrite S. split; reflexivity.
Qed.
(* Composition with C02's parse_yield (builder parse): the tree the parser model builds from a DECORATED
   stream is the tree of the stripped stream, and its tokens (Yield.ystmt: every declaration, statement and
   expression once, in source order) are exactly the significant tokens of the decorated stream - no
   comment, line feed or blank is part of the tree, for EVERY program the parser model accepts.
   [body]: the pumped tokens without the final EOF meta (parse_vcl takes the tokens before EOF). *)
Definition body (ms : list meta) : list ParseBase.token := map tok_of (removelast (significant_real ms)).

Theorem decorated_parse_yield (is_ann : str -> bool) e e' ts ts' n n' :
  is_eof e = true -> is_eof e' = true ->
  no_pragma ts -> no_pragma ts' -> (S (length ts) <= n)%nat -> (S (length ts') <= n')%nat ->
  decorate (absS is_ann e ts) (absS is_ann e' ts') ->
  exists ms ms', pump_all n e ts = OK ms /\ pump_all n' e' ts' = OK ms' /\
    ParseDecl.parse_vcl fok (body ms') = ParseDecl.parse_vcl fok (body ms) /\
    forall v, ParseDecl.parse_vcl fok (body ms) = ParseBase.POK v -> ParseDeclYield.no_eof (body ms) = true ->
              ParseDecl.parse_vcl fok (body ms') = ParseBase.POK v /\
              body ms' = flat_map Yield.ystmt (Ast.vstmts v).
Proof.
  intros He He' NP NP' Hn Hn' D.
  destruct (pump_strip_real is_ann e e' ts ts' n n' He He' NP NP' Hn Hn' D) as (ms & ms' & R & R' & S & _).
  exists ms, ms'. split; [exact R|]. split; [exact R'|].
  assert (B : body ms' = body ms) by (unfold body; rewrite S; reflexivity).
  split; [rewrite B; reflexivity|]. intros v Hv Hn0. rewrite B. split; [exact Hv|].
  apply (ParseDeclYield.parse_vcl_yield fok _ _ Hv Hn0).
Qed.
End Parse.

(* inserting a real ordinary COMMENT token anywhere in a real stream is a decoration *)
Lemma real_insert_comment (is_ann : str -> bool) e t1 t2 c :
  Forall (fun t => is_eof t = false) t1 ->
  is_type T_COMMENT c = true -> is_ann (tlit c) = false ->
  decorate (absS is_ann e (t1 ++ t2)) (absS is_ann e (t1 ++ c :: t2)).
Proof.
  intros F Hc Ha.
  assert (Hcut : forall x, cut e (t1 ++ x) = t1 ++ cut e x).
  { induction F as [|t r Ht _ IH]; intros x; [reflexivity|]. cbn [app cut]. rewrite Ht, IH. reflexivity. }
  unfold absS. rewrite !Hcut, !map_app. cbn [cut].
  assert (E : is_eof c = false).
  { unfold is_eof. unfold is_type in Hc. rewrite (str_eqb_eq _ _ Hc). vm_compute. reflexivity. }
  rewrite E. cbn [map].
  assert (Ab : abs is_ann c = Cmt).
  { unfold abs. destruct (is_type T_LF c) eqn:L.
    - unfold is_type in L, Hc. rewrite (str_eqb_eq _ _ Hc) in L. vm_compute in L. discriminate.
    - rewrite Hc, Ha. reflexivity. }
  rewrite Ab. apply d_cmt.
Qed.

(* witness: `set /* c */ x ;` vs `set x ;` as lexer-model tokens (types from Gen/Tokens.v); "c" is ordinary *)
Definition ex_tok (ty : str) (l : N) (p : N) : token := mkTok ty [l] 1 p.
Definition ex_eof : token := mkTok T_EOF [] 2 1.
Definition ex_plain : list token := [ex_tok T_SET 115 1; ex_tok T_IDENT 120 5; ex_tok T_SEMICOLON 59 6].
Definition ex_decorated : list token :=
  [ex_tok T_SET 115 1; ex_tok T_COMMENT 99 5; ex_tok T_LF 10 9; ex_tok T_IDENT 120 1; ex_tok T_SEMICOLON 59 2].

Example real_example :
  (do ms <- pump_all 10 ex_eof ex_decorated; OK (significant_real ms)) =
  (do ms <- pump_all 10 ex_eof ex_plain; OK (significant_real ms))
  /\ decorate (absS (fun _ => false) ex_eof ex_plain) (absS (fun _ => false) ex_eof ex_decorated).
Proof.
  split; [vm_compute; reflexivity|].
  eapply d_trans.
  - exact (real_insert_comment (fun _ => false) ex_eof [ex_tok T_SET 115 1] [ex_tok T_IDENT 120 1; ex_tok T_SEMICOLON 59 2]
             (ex_tok T_COMMENT 99 5) ltac:(repeat constructor) eq_refl eq_refl).
  - vm_compute. exact (d_lf_free [Sig (T_SET, [115%N]); Cmt] [Sig (T_IDENT, [120%N]); Sig (T_SEMICOLON, [59%N]); Sig (T_EOF, [])] eq_refl).
Qed.

(* witness for decorated_parse_yield: `sub f { esi ; }` and `sub /* c */ f {` LF `esi ; }` through the real
   pump and the real parser model; the token-type names of the lexer model are decoded by their spelling *)
Definition ex_type_of (ty : str) : TokenTypes.ttype :=
  match find (fun t => str_eqb (map (fun a => N.of_nat (Ascii.nat_of_ascii a)) (String.list_ascii_of_string (TokenTypes.tname t))) ty)
             TokenTypes.all_ttypes with
  | Some t => t
  | None => TokenTypes.T_ILLEGAL
  end.
Definition ex_tok_of (k : str * str) : ParseBase.token :=
  ParseBase.Tok (ex_type_of (fst k)) (map (fun n => Bytes.n2b n) (snd k)) 0.
Definition ex_sub : list token :=
  [mkTok T_SUBROUTINE [115;117;98] 1 1; mkTok T_IDENT [102] 1 5; mkTok T_LEFT_BRACE [123] 1 7;
   mkTok T_ESI [101;115;105] 1 9; mkTok T_SEMICOLON [59] 1 13; mkTok T_RIGHT_BRACE [125] 1 15]%N.
Definition ex_sub_decorated : list token :=
  [mkTok T_SUBROUTINE [115;117;98] 1 1; mkTok T_COMMENT [99] 1 5; mkTok T_IDENT [102] 1 13; mkTok T_LEFT_BRACE [123] 1 15;
   mkTok T_LF [10] 1 16; mkTok T_ESI [101;115;105] 2 3; mkTok T_SEMICOLON [59] 2 7; mkTok T_RIGHT_BRACE [125] 2 9]%N.

Example decorated_parse_example :
  match pump_all 20 ex_eof ex_sub, pump_all 20 ex_eof ex_sub_decorated with
  | OK ms, OK ms' =>
    match ParseDecl.parse_vcl (fun _ => true) (body ex_tok_of ms) with
    | ParseBase.POK v => ParseDecl.parse_vcl (fun _ => true) (body ex_tok_of ms') = ParseBase.POK v
                         /\ length (Ast.vstmts v) = 1%nat
    | _ => False
    end
  | _, _ => False
  end.
Proof. vm_compute. split; reflexivity. Qed.
