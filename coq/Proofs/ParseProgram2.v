(* program_roundtrip, part 2: canonical simple statements. *)
From Coq Require Import String.
From Coq Require Import List NArith ZArith Bool Lia.
From Falco Require Import Base.Bytes Gen.TokenTypes Model.ParseKinds Gen.ParserTables
  Model.ParseBase Model.Ast Model.ParseLit Model.ParseExpr Model.ParseStmt Model.Yield
  Proofs.ParseTables Proofs.ParseExprYield Proofs.ParseExprMono Proofs.ParseExprTotal
  Proofs.ParsePratt Proofs.ParseRoundtrip Proofs.ParseProgram.
Import ListNotations.
Local Open Scope parse_scope.

Lemma assign_doc t : mem t assignment_operators = doc_assignment t.
Proof. apply (proj1 tables_are_documented t). Qed.

Lemma closer_semi x : typ x = T_SEMICOLON -> closer x. Proof. intros H. unfold closer. rewrite H. reflexivity. Qed.
Lemma closer_rp x : typ x = T_RIGHT_PAREN -> closer x. Proof. intros H. unfold closer. rewrite H. reflexivity. Qed.
Lemma closer_comma x : typ x = T_COMMA -> closer x. Proof. intros H. unfold closer. rewrite H. reflexivity. Qed.
Lemma closer_colon x : typ x = T_COLON -> closer x. Proof. intros H. unfold closer. rewrite H. reflexivity. Qed.

Section P.
Variable fok : str -> bool.
Notation cexpr := (cexpr fok).

Definition hdt (l : list token) : token := hd eof_tok l.

Lemma cexpr_hd e : cexpr e -> exists k, doc_prefix (typ (hdt (yexpr e))) = Some k.
Proof. intros [H _]. apply (canon_hd_prefix fok e H). Qed.

Lemma cexpr_hd_not e t : cexpr e -> doc_prefix t = None -> typ (hdt (yexpr e)) <> t.
Proof. intros H Ht E. destruct (cexpr_hd e H) as [k Hk]. rewrite E, Ht in Hk. discriminate. Qed.

Lemma yexpr_split e : exists x r, yexpr e = x :: r /\ hdt (yexpr e) = x.
Proof. pose proof (yexpr_nonempty e). destruct (yexpr e) as [|x r]; [congruence|]. exists x, r. split; reflexivity. Qed.

(* arguments of `call f(...)`: every item but the last carries its comma *)
Fixpoint citems (items : list (expr * option token)) : Prop :=
  match items with
  | [] => True
  | (e, c) :: rest =>
      cexpr e /\ match c with Some t => typ t = T_COMMA | None => rest = [] end /\ citems rest
  end.

Definition ccode (c : expr) (nx : token) : Prop :=
  match c with
  | EInt t v => typ t = T_INT /\ conv_integer false (lit t) = Some v
  | EIdent t => typ t = T_IDENT /\ typ nx <> T_LEFT_PAREN
  | ECall f lp a rp => typ f = T_IDENT /\ typ lp = T_LEFT_PAREN /\ typ rp = T_RIGHT_PAREN /\ canon_args fok a
  | _ => False
  end.

Definition csimple (s : stmt) (nx : token) : Prop :=
  match s with
  | SSet kw id op v semi =>
      typ kw = T_SET /\ typ id = T_IDENT /\ doc_assignment (typ op) = true /\ cexpr v /\ typ semi = T_SEMICOLON
  | SAdd kw id op v semi =>
      typ kw = T_ADD /\ typ id = T_IDENT /\ doc_assignment (typ op) = true /\ cexpr v /\ typ semi = T_SEMICOLON
  | SUnset kw id semi => typ kw = T_UNSET /\ typ id = T_IDENT /\ typ semi = T_SEMICOLON
  | SRemove kw id semi => typ kw = T_REMOVE /\ typ id = T_IDENT /\ typ semi = T_SEMICOLON
  | SGoto kw id semi => typ kw = T_GOTO /\ typ id = T_IDENT /\ typ semi = T_SEMICOLON
  | SEsi kw semi => typ kw = T_ESI /\ typ semi = T_SEMICOLON
  | SRestart kw semi => typ kw = T_RESTART /\ typ semi = T_SEMICOLON
  | SLog kw v semi => typ kw = T_LOG /\ cexpr v /\ typ semi = T_SEMICOLON
  | SSynthetic kw v semi => typ kw = T_SYNTHETIC /\ cexpr v /\ typ semi = T_SEMICOLON
  | SSyntheticB64 kw v semi => typ kw = T_SYNTHETIC_BASE64 /\ cexpr v /\ typ semi = T_SEMICOLON
  | SDeclare kw loc name ty v semi =>
      typ kw = T_DECLARE /\ typ loc = T_IDENT /\ str_eqb (lit loc) (b_ "local") = true
      /\ typ name = T_IDENT /\ typ ty = T_IDENT
      /\ match v with None => True | Some (eq, e) => typ eq = T_ASSIGN /\ cexpr e end
      /\ typ semi = T_SEMICOLON
  | SCall kw sub a semi =>
      typ kw = T_CALL /\ typ sub = T_IDENT
      /\ match a with
         | None => True
         | Some (lp, items, rp) => typ lp = T_LEFT_PAREN /\ typ rp = T_RIGHT_PAREN /\ citems items
         end
      /\ typ semi = T_SEMICOLON
  | SError kw code arg semi =>
      typ kw = T_ERROR /\ typ semi = T_SEMICOLON
      /\ match code, arg with
         | None, None => True
         | None, Some _ => False
         | Some c, None => ccode c semi
         | Some c, Some a => ccode c (hdt (yexpr a)) /\ cexpr a
         end
  | SReturn kw v semi =>
      typ kw = T_RETURN /\ typ semi = T_SEMICOLON
      /\ match v with
         | None => True
         | Some (None, e, None) => cexpr e /\ typ (hdt (yexpr e)) <> T_LEFT_PAREN
         | Some (Some lp, e, Some rp) => typ lp = T_LEFT_PAREN /\ typ rp = T_RIGHT_PAREN /\ cexpr e
         | _ => False
         end
  | SInclude kw m v semi =>
      typ kw = T_INCLUDE /\ typ m = T_STRING /\ string_value m = Some v
      /\ match semi with Some s => typ s = T_SEMICOLON | None => typ nx <> T_SEMICOLON end
  | _ => False
  end.

Ltac ok_here := eexists; reflexivity.

Lemma peek_is_app pv c l r t : l <> [] -> peek_is (St pv (c :: l ++ r)) t = ttype_eqb (typ (hdt l)) t.
Proof. intros H. destruct l; [congruence | reflexivity]. Qed.

Lemma passign_rt mk kw id op v semi pv rest :
  typ id = T_IDENT -> doc_assignment (typ op) = true -> cexpr v -> typ semi = T_SEMICOLON ->
  okst (passign fok mk (St pv (kw :: id :: op :: yexpr v ++ semi :: rest))) (mk kw id op v semi) (semi :: rest).
Proof.
  intros Hid Hop Hv Hs. unfold passign. rewrite (expect_cons _ _ _ _ _ Hid). cbn [pbind].
  unfold peek. cbn [toks tl hd]. rewrite assign_doc, Hop. cbn [negb].
  rewrite !next_cons.
  destruct (pe_rt fok v (Some op) semi rest Hv (closer_semi _ Hs)) as [pv' E]. rewrite E. cbn [pbind].
  destruct (yexpr_split v) as [x [r [Ey _]]].
  rewrite (semi_cons _ _ _ _ Hs). cbn [pbind]. rewrite !cur_cons. ok_here.
Qed.

Lemma pkw_ident_rt mk kw id semi pv rest :
  typ id = T_IDENT -> typ semi = T_SEMICOLON ->
  okst (pkw_ident mk (St pv (kw :: id :: semi :: rest))) (mk kw id semi) (semi :: rest).
Proof.
  intros Hid Hs. unfold pkw_ident. rewrite (expect_cons _ _ _ _ _ Hid). cbn [pbind].
  rewrite (semi_cons _ _ _ _ Hs). cbn [pbind]. rewrite !cur_cons. ok_here.
Qed.

Lemma pkw_semi_rt mk kw semi pv rest :
  typ semi = T_SEMICOLON -> pkw_semi mk (St pv (kw :: semi :: rest)) = POK (mk kw semi, St (Some kw) (semi :: rest)).
Proof. intros Hs. unfold pkw_semi. rewrite (semi_cons _ _ _ _ Hs). reflexivity. Qed.

Lemma pkw_expr_rt mk kw v semi pv rest :
  cexpr v -> typ semi = T_SEMICOLON ->
  okst (pkw_expr fok mk (St pv (kw :: yexpr v ++ semi :: rest))) (mk kw v semi) (semi :: rest).
Proof.
  intros Hv Hs. unfold pkw_expr. rewrite next_cons.
  destruct (pe_rt fok v (Some kw) semi rest Hv (closer_semi _ Hs)) as [pv' E]. rewrite E. cbn [pbind].
  rewrite (semi_cons _ _ _ _ Hs). cbn [pbind]. rewrite !cur_cons. ok_here.
Qed.

Lemma pdeclare_rt kw loc name ty v semi pv rest :
  typ loc = T_IDENT -> str_eqb (lit loc) (b_ "local") = true -> typ name = T_IDENT -> typ ty = T_IDENT ->
  match v with None => True | Some (eq, e) => typ eq = T_ASSIGN /\ cexpr e end -> typ semi = T_SEMICOLON ->
  okst (pdeclare fok (St pv (ystmt (SDeclare kw loc name ty v semi) ++ rest)))
       (SDeclare kw loc name ty v semi) (semi :: rest).
Proof.
  intros H1 H2 H3 H4 Hv Hs. unfold pdeclare. cbn [ystmt app].
  rewrite (expect_cons _ _ _ _ _ H1). cbn [pbind]. rewrite cur_cons, H2. cbn [negb].
  rewrite (expect_cons _ _ _ _ _ H3). cbn [pbind]. rewrite (expect_cons _ _ _ _ _ H4). cbn [pbind].
  destruct v as [[eq e]|].
  - destruct Hv as [Heq He]. cbn [app]. rewrite <- app_assoc. cbn [app].
    rewrite peek_is_cons, Heq, ttype_eqb_refl. rewrite !next_cons.
    destruct (pe_rt fok e (Some eq) semi rest He (closer_semi _ Hs)) as [pv' E]. rewrite E. cbn [pbind].
    rewrite (semi_cons _ _ _ _ Hs). cbn [pbind]. rewrite !cur_cons. ok_here.
  - cbn [app]. rewrite peek_is_cons, Hs. cbn [ttype_eqb tcode N.eqb].
    replace (ttype_eqb T_SEMICOLON T_ASSIGN) with false by reflexivity.
    rewrite (semi_cons _ _ _ _ Hs). cbn [pbind]. rewrite !cur_cons. ok_here.
Qed.

Lemma ycallarg_nonempty it : ycallarg it <> [].
Proof. destruct it as [e c]. unfold ycallarg. cbn. pose proof (yexpr_nonempty e). destruct (yexpr e); [congruence | discriminate]. Qed.

Lemma pcall_args_rt : forall items n pv c rp rest acc,
  citems items -> typ rp = T_RIGHT_PAREN -> (length items < n)%nat ->
  okst (pcall_args fok n (St pv (c :: flat_map ycallarg items ++ rp :: rest)) acc)
       (rev acc ++ items) (lastt (c :: flat_map ycallarg items) :: rp :: rest).
Proof.
  induction items as [|[e cm] items IH]; intros n pv c rp rest acc Hc Hrp Hn.
  - destruct n; [simpl in Hn; lia|]. cbn [pcall_args flat_map app].
    rewrite peek_is_cons, Hrp, ttype_eqb_refl. cbn [orb]. rewrite app_nil_r. eexists. reflexivity.
  - destruct n; [simpl in Hn; lia|]. destruct Hc as [He [Hcm Hr]].
    cbn [pcall_args flat_map]. change (ycallarg (e, cm)) with (yexpr e ++ ytok cm). rewrite <- !app_assoc.
    assert (Hx1 : ttype_eqb (typ (hdt (yexpr e))) T_RIGHT_PAREN = false).
    { apply ttype_eqb_neq. apply cexpr_hd_not; auto. }
    assert (Hx2 : ttype_eqb (typ (hdt (yexpr e))) T_EOF = false).
    { apply ttype_eqb_neq. apply cexpr_hd_not; auto. }
    rewrite !peek_is_app by apply yexpr_nonempty. rewrite Hx1, Hx2. cbn [orb]. rewrite next_cons.
    destruct cm as [cm|].
    + cbn [ytok app].
      destruct (pe_rt fok e (Some c) cm (flat_map ycallarg items ++ rp :: rest) He (closer_comma _ Hcm)) as [pv' E].
      rewrite E. cbn [pbind]. rewrite peek_is_cons, Hcm, ttype_eqb_refl. rewrite next_cons, cur_cons.
      destruct (IH n (Some (lastt (yexpr e))) cm rp rest ((e, Some cm) :: acc) Hr Hrp ltac:(simpl in Hn; lia)) as [pv2 E2].
      rewrite E2. exists pv2. f_equal. f_equal.
      * cbn [rev]. rewrite <- app_assoc. reflexivity.
      * unfold lastt.
        change (c :: yexpr e ++ cm :: flat_map ycallarg items) with ((c :: yexpr e) ++ (cm :: flat_map ycallarg items)).
        rewrite last_app_ne by discriminate. reflexivity.
    + subst items. cbn [ytok app flat_map].
      destruct (pe_rt fok e (Some c) rp rest He (closer_rp _ Hrp)) as [pv' E].
      rewrite E. cbn [pbind]. rewrite peek_is_cons, Hrp.
      replace (ttype_eqb T_RIGHT_PAREN T_COMMA) with false by reflexivity.
      rewrite peek_is_cons, Hrp, ttype_eqb_refl. cbn [negb].
      destruct n; [simpl in Hn; lia|]. cbn [pcall_args]. rewrite peek_is_cons, Hrp, ttype_eqb_refl. cbn [orb].
      assert (L1 : lastt (c :: yexpr e ++ []) = lastt (yexpr e)).
      { rewrite app_nil_r. unfold lastt. change (c :: yexpr e) with ([c] ++ yexpr e).
        apply last_app_ne. apply yexpr_nonempty. }
      exists pv'. cbn [rev app]. rewrite L1. reflexivity.
Qed.

Lemma flat_map_len_ge {A} (f : A -> list token) l : (forall a, f a <> []) -> (length l <= length (flat_map f l))%nat.
Proof.
  intros Hf. induction l as [|a l IH]; [simpl; lia|]. cbn [flat_map]. rewrite app_length.
  specialize (Hf a). destruct (f a); [congruence | simpl; lia].
Qed.

Lemma pcall_rt kw sub a semi pv rest :
  typ sub = T_IDENT ->
  match a with
  | None => True
  | Some (lp, items, rp) => typ lp = T_LEFT_PAREN /\ typ rp = T_RIGHT_PAREN /\ citems items
  end -> typ semi = T_SEMICOLON ->
  okst (pcall fok (St pv (ystmt (SCall kw sub a semi) ++ rest))) (SCall kw sub a semi) (semi :: rest).
Proof.
  intros Hsub Ha Hs. unfold pcall. destruct a as [[[lp items] rp]|].
  - destruct Ha as [Hlp [Hrp Hi]].
    assert (En : ystmt (SCall kw sub (Some (lp, items, rp)) semi) ++ rest
                 = kw :: sub :: lp :: flat_map ycallarg items ++ rp :: semi :: rest).
    { cbn [ystmt app]. rewrite <- !app_assoc. reflexivity. }
    rewrite En. rewrite (expect_cons _ _ _ _ _ Hsub). cbn [pbind].
    rewrite peek_is_cons, Hlp, ttype_eqb_refl. rewrite next_cons.
    match goal with |- context [pcall_args fok ?n _ []] => set (n0 := n) end.
    destruct (pcall_args_rt items n0 (Some sub) lp rp (semi :: rest) [] Hi Hrp) as [pv' E].
    { subst n0. unfold toks. cbn [length]. rewrite !app_length. pose proof (flat_map_len_ge ycallarg items ycallarg_nonempty). cbn [length]. lia. }
    rewrite E. cbn [pbind rev app]. rewrite peek_is_cons, Hrp, ttype_eqb_refl. cbn [negb].
    rewrite next_cons. rewrite (semi_cons _ _ _ _ Hs). cbn [pbind]. rewrite !cur_cons. ok_here.
  - cbn [ystmt app]. rewrite (expect_cons _ _ _ _ _ Hsub). cbn [pbind].
    rewrite peek_is_cons, Hs. replace (ttype_eqb T_SEMICOLON T_LEFT_PAREN) with false by reflexivity.
    rewrite (semi_cons _ _ _ _ Hs). cbn [pbind]. rewrite !cur_cons. ok_here.
Qed.

Lemma preturn_rt kw v semi pv rest :
  typ semi = T_SEMICOLON ->
  match v with
  | None => True
  | Some (None, e, None) => cexpr e /\ typ (hdt (yexpr e)) <> T_LEFT_PAREN
  | Some (Some lp, e, Some rp) => typ lp = T_LEFT_PAREN /\ typ rp = T_RIGHT_PAREN /\ cexpr e
  | _ => False
  end ->
  okst (preturn fok (St pv (ystmt (SReturn kw v semi) ++ rest))) (SReturn kw v semi) (semi :: rest).
Proof.
  intros Hs Hv. unfold preturn.
  destruct v as [[[[lp|] e] [rp|]]|]; try contradiction.
  - destruct Hv as [Hlp [Hrp He]].
    assert (En : ystmt (SReturn kw (Some (Some lp, e, Some rp)) semi) ++ rest
                 = kw :: lp :: yexpr e ++ rp :: semi :: rest).
    { cbn [ystmt ytok app]. rewrite <- !app_assoc. reflexivity. }
    rewrite En.
    rewrite peek_is_cons, Hlp. replace (ttype_eqb T_LEFT_PAREN T_SEMICOLON) with false by reflexivity.
    rewrite peek_is_cons, Hlp, ttype_eqb_refl. rewrite !next_cons.
    destruct (pe_rt fok e (Some lp) rp (semi :: rest) He (closer_rp _ Hrp)) as [pv' E]. rewrite E. cbn [pbind].
    rewrite peek_is_cons, Hrp, ttype_eqb_refl. cbn [xorb]. rewrite next_cons.
    rewrite (semi_cons _ _ _ _ Hs). cbn [pbind]. rewrite !cur_cons. ok_here.
  - destruct Hv as [He Hnl].
    assert (En : ystmt (SReturn kw (Some (None, e, None)) semi) ++ rest = kw :: yexpr e ++ semi :: rest).
    { cbn [ystmt ytok app]. rewrite app_nil_r, <- app_assoc. reflexivity. }
    rewrite En.
    assert (Hns : typ (hdt (yexpr e)) <> T_SEMICOLON) by (apply cexpr_hd_not; auto).
    rewrite !peek_is_app by apply yexpr_nonempty.
    apply ttype_eqb_neq in Hns. apply ttype_eqb_neq in Hnl. rewrite Hns, Hnl.
    rewrite next_cons.
    destruct (pe_rt fok e (Some kw) semi rest He (closer_semi _ Hs)) as [pv' E]. rewrite E. cbn [pbind].
    rewrite peek_is_cons, Hs. replace (ttype_eqb T_SEMICOLON T_RIGHT_PAREN) with false by reflexivity.
    cbn [xorb]. rewrite (semi_cons _ _ _ _ Hs). cbn [pbind]. rewrite !cur_cons. ok_here.
  - cbn [ystmt app]. rewrite peek_is_cons, Hs, ttype_eqb_refl. rewrite next_cons, !cur_cons. ok_here.
Qed.

Lemma pinclude_rt kw m v semi pv rest :
  typ m = T_STRING -> string_value m = Some v ->
  match semi with Some s => typ s = T_SEMICOLON | None => typ (hdt rest) <> T_SEMICOLON end ->
  okst (pinclude (St pv (ystmt (SInclude kw m v semi) ++ rest))) (SInclude kw m v semi)
       (lastt (ystmt (SInclude kw m v semi)) :: rest).
Proof.
  intros Hm Hv Hs. unfold pinclude. cbn [ystmt app].
  destruct semi as [s|]; cbn [ytok app].
  - rewrite (expect_cons _ _ _ _ _ Hm). cbn [pbind]. rewrite (pstring_value _ _ _ _ Hv). cbn [pbind].
    rewrite peek_is_cons, Hs, ttype_eqb_refl. rewrite next_cons, !cur_cons. ok_here.
  - rewrite (expect_cons _ _ _ _ _ Hm). cbn [pbind]. rewrite (pstring_value _ _ _ _ Hv). cbn [pbind].
    change (peek_is (St (Some kw) (m :: rest)) T_SEMICOLON) with (ttype_eqb (typ (hdt rest)) T_SEMICOLON).
    apply ttype_eqb_neq in Hs. rewrite Hs. rewrite !cur_cons. ok_here.
Qed.

Lemma perror_rt kw code arg semi pv rest :
  typ semi = T_SEMICOLON ->
  match code, arg with
  | None, None => True
  | None, Some _ => False
  | Some c, None => ccode c semi
  | Some c, Some a => ccode c (hdt (yexpr a)) /\ cexpr a
  end ->
  okst (perror fok (St pv (ystmt (SError kw code arg semi) ++ rest))) (SError kw code arg semi) (semi :: rest).
Proof.
  intros Hs Hc. unfold perror.
  destruct code as [c|].
  2:{ destruct arg; [contradiction|]. cbn [ystmt yopt app]. unfold peek. cbn [toks tl hd]. rewrite Hs. cbn [pbind].
      rewrite peek_is_cons, Hs, ttype_eqb_refl. cbn [negb pbind].
      rewrite (semi_cons _ _ _ _ Hs). cbn [pbind]. rewrite !cur_cons. ok_here. }
  (* the token after the code and the code's own condition *)
  set (tl_ := yopt yexpr arg ++ semi :: rest).
  assert (Hcc : ccode c (hdt tl_) /\ match arg with Some a => cexpr a | None => True end).
  { subst tl_. destruct arg as [a|]; cbn [yopt app].
    - destruct Hc as [H1 H2]. split; [|exact H2]. destruct (yexpr_split a) as [x [r [Ey Ex]]].
      rewrite Ey. cbn. rewrite <- Ex. exact H1.
    - split; [exact Hc | exact I]. }
  destruct Hcc as [Hcode Harg].
  assert (Hcode_rt : exists pv1,
    (match typ (peek (St pv (kw :: yexpr c ++ tl_))) with
     | T_INT => do (e, s) <- pinteger (next (St pv (kw :: yexpr c ++ tl_))); POK (Some e, s)
     | T_IDENT =>
         if peek_is (next (St pv (kw :: yexpr c ++ tl_))) T_LEFT_PAREN
         then do (e, s') <- pcallexpr fok (cur (next (St pv (kw :: yexpr c ++ tl_))))
                                      (next (next (St pv (kw :: yexpr c ++ tl_)))); POK (Some e, s')
         else POK (Some (EIdent (cur (next (St pv (kw :: yexpr c ++ tl_))))), next (St pv (kw :: yexpr c ++ tl_)))
     | T_SEMICOLON => POK (None, St pv (kw :: yexpr c ++ tl_))
     | _ => err_peek E_unexpected (St pv (kw :: yexpr c ++ tl_))
     end) = POK (Some c, St pv1 (lastt (yexpr c) :: tl_))).
  { destruct c; try contradiction; cbn [ccode yexpr app] in *.
    - (* ident *) destruct Hcode as [Ht Hnl]. unfold peek. cbn [toks tl hd]. rewrite Ht. rewrite next_cons.
      unfold peek_is, peek. cbn [toks tl hd]. fold (hdt tl_). apply ttype_eqb_neq in Hnl. rewrite Hnl.
      eexists. reflexivity.
    - (* int *) destruct Hcode as [Ht Hv]. unfold peek. cbn [toks tl hd]. rewrite Ht. rewrite next_cons.
      unfold pinteger, pint. cbn [prev cur toks hd]. rewrite (conv_integer_any _ _ _ Hv). cbn [pbind].
      eexists. reflexivity.
    - (* call *) destruct Hcode as [Hf [Hlp [Hrp Ca]]]. unfold peek. cbn [toks tl hd]. rewrite Hf. rewrite next_cons.
      rewrite <- app_assoc. cbn [app]. rewrite peek_is_cons, Hlp, ttype_eqb_refl. rewrite next_cons, cur_cons.
      rewrite (pcallexpr_rt fok f lp a rp (Some f) tl_ Ca Hrp). cbn [pbind].
      eexists. f_equal. f_equal. f_equal. unfold lastt.
      change (f :: lp :: yargs a ++ [rp]) with ((f :: lp :: yargs a) ++ [rp]). rewrite last_last. reflexivity. }
  destruct Hcode_rt as [pv1 E1].
  assert (En : ystmt (SError kw (Some c) arg semi) ++ rest = kw :: yexpr c ++ tl_).
  { subst tl_. cbn [ystmt yopt app]. rewrite <- !app_assoc. reflexivity. }
  rewrite En, E1. cbn [pbind]. subst tl_.
  destruct arg as [a|]; cbn [yopt app].
  - assert (Hns : typ (hdt (yexpr a)) <> T_SEMICOLON) by (apply cexpr_hd_not; auto).
    rewrite peek_is_app by apply yexpr_nonempty. apply ttype_eqb_neq in Hns. rewrite Hns.
    cbn [negb]. rewrite next_cons.
    destruct (pe_rt fok a (Some (lastt (yexpr c))) semi rest Harg (closer_semi _ Hs)) as [pv' E]. rewrite E. cbn [pbind].
    rewrite (semi_cons _ _ _ _ Hs). cbn [pbind]. rewrite !cur_cons. ok_here.
  - cbn [app]. rewrite peek_is_cons, Hs, ttype_eqb_refl. cbn [negb pbind].
    rewrite (semi_cons _ _ _ _ Hs). cbn [pbind]. rewrite !cur_cons. ok_here.
Qed.

(* all the statements dispatched by psimple *)
Lemma simple_rt s pv rest :
  csimple s (hdt rest) ->
  exists r, psimple fok (St pv (ystmt s ++ rest)) = Some r /\ okst r s (lastt (ystmt s) :: rest).
Proof.
  intros Hc. destruct s; cbn [csimple] in Hc; try contradiction.
  - destruct Hc as [Hk [H1 [H2 [H3 H4]]]]. eexists. split.
    + unfold psimple. cbn [ystmt app]. rewrite cur_cons, Hk. reflexivity.
    + cbn [ystmt]. replace (lastt (kw :: id :: op :: yexpr v ++ [semi])) with semi
        by (symmetry; unfold lastt; change (kw :: id :: op :: yexpr v ++ [semi]) with ((kw :: id :: op :: yexpr v) ++ [semi]); apply last_last).
      cbn [app]. rewrite <- app_assoc. apply passign_rt; auto.
  - destruct Hc as [Hk [H1 [H2 [H3 H4]]]]. eexists. split.
    + unfold psimple. cbn [ystmt app]. rewrite cur_cons, Hk. reflexivity.
    + cbn [ystmt]. replace (lastt (kw :: id :: op :: yexpr v ++ [semi])) with semi
        by (symmetry; unfold lastt; change (kw :: id :: op :: yexpr v ++ [semi]) with ((kw :: id :: op :: yexpr v) ++ [semi]); apply last_last).
      cbn [app]. rewrite <- app_assoc. apply passign_rt; auto.
  - destruct Hc as [Hk [H1 H2]]. eexists. split.
    + unfold psimple. cbn [ystmt app]. rewrite cur_cons, Hk. reflexivity.
    + apply pkw_ident_rt; auto.
  - destruct Hc as [Hk [H1 H2]]. eexists. split.
    + unfold psimple. cbn [ystmt app]. rewrite cur_cons, Hk. reflexivity.
    + apply pkw_ident_rt; auto.
  - destruct Hc as [Hk [H1 [H2 [H3 [H4 [H5 H6]]]]]]. eexists. split.
    + unfold psimple. cbn [ystmt app]. rewrite cur_cons, Hk. reflexivity.
    + replace (lastt (ystmt (SDeclare kw loc name ty v semi))) with semi.
      * apply pdeclare_rt; auto.
      * cbn [ystmt]. unfold lastt.
        change (kw :: loc :: name :: ty :: match v with Some (eq, e) => eq :: yexpr e | None => [] end ++ [semi])
          with ((kw :: loc :: name :: ty :: match v with Some (eq, e) => eq :: yexpr e | None => [] end) ++ [semi]).
        symmetry. apply last_last.
  - destruct Hc as [Hk [H1 [H2 H3]]]. eexists. split.
    + unfold psimple. cbn [ystmt app]. rewrite cur_cons, Hk. reflexivity.
    + replace (lastt (ystmt (SCall kw sub a semi))) with semi.
      * apply pcall_rt; auto.
      * cbn [ystmt]. unfold lastt.
        match goal with |- _ = last (kw :: sub :: ?m ++ [semi]) _ =>
          change (kw :: sub :: m ++ [semi]) with ((kw :: sub :: m) ++ [semi]) end.
        symmetry. apply last_last.
  - destruct Hc as [Hk [H1 H2]]. eexists. split.
    + unfold psimple. cbn [ystmt app]. rewrite cur_cons, Hk. reflexivity.
    + replace (lastt (ystmt (SError kw code arg semi))) with semi.
      * apply perror_rt; auto.
      * cbn [ystmt]. unfold lastt. rewrite app_assoc.
        change (kw :: (yopt yexpr code ++ yopt yexpr arg) ++ [semi]) with ((kw :: yopt yexpr code ++ yopt yexpr arg) ++ [semi]).
        symmetry. apply last_last.
  - destruct Hc as [Hk H1]. eexists. split.
    + unfold psimple. cbn [ystmt app]. rewrite cur_cons, Hk. reflexivity.
    + cbn [ystmt app]. rewrite (pkw_semi_rt _ _ _ _ _ H1). ok_here.
  - destruct Hc as [Hk H1]. eexists. split.
    + unfold psimple. cbn [ystmt app]. rewrite cur_cons, Hk. reflexivity.
    + cbn [ystmt app]. rewrite (pkw_semi_rt _ _ _ _ _ H1). ok_here.
  - destruct Hc as [Hk [H1 H2]]. eexists. split.
    + unfold psimple. cbn [ystmt app]. rewrite cur_cons, Hk. reflexivity.
    + replace (lastt (ystmt (SReturn kw v semi))) with semi.
      * apply preturn_rt; auto.
      * cbn [ystmt]. unfold lastt.
        match goal with |- _ = last (kw :: ?m ++ [semi]) _ => change (kw :: m ++ [semi]) with ((kw :: m) ++ [semi]) end.
        symmetry. apply last_last.
  - destruct Hc as [Hk [H1 H2]]. eexists. split.
    + unfold psimple. cbn [ystmt app]. rewrite cur_cons, Hk. reflexivity.
    + cbn [ystmt]. replace (lastt (kw :: yexpr v ++ [semi])) with semi
        by (symmetry; unfold lastt; change (kw :: yexpr v ++ [semi]) with ((kw :: yexpr v) ++ [semi]); apply last_last).
      cbn [app]. rewrite <- app_assoc. apply pkw_expr_rt; auto.
  - destruct Hc as [Hk [H1 H2]]. eexists. split.
    + unfold psimple. cbn [ystmt app]. rewrite cur_cons, Hk. reflexivity.
    + cbn [ystmt]. replace (lastt (kw :: yexpr v ++ [semi])) with semi
        by (symmetry; unfold lastt; change (kw :: yexpr v ++ [semi]) with ((kw :: yexpr v) ++ [semi]); apply last_last).
      cbn [app]. rewrite <- app_assoc. apply pkw_expr_rt; auto.
  - destruct Hc as [Hk [H1 H2]]. eexists. split.
    + unfold psimple. cbn [ystmt app]. rewrite cur_cons, Hk. reflexivity.
    + cbn [ystmt]. replace (lastt (kw :: yexpr v ++ [semi])) with semi
        by (symmetry; unfold lastt; change (kw :: yexpr v ++ [semi]) with ((kw :: yexpr v) ++ [semi]); apply last_last).
      cbn [app]. rewrite <- app_assoc. apply pkw_expr_rt; auto.
  - destruct Hc as [Hk [H1 H2]]. eexists. split.
    + unfold psimple. cbn [ystmt app]. rewrite cur_cons, Hk. reflexivity.
    + apply pkw_ident_rt; auto.
  - destruct Hc as [Hk [H1 [H2 H3]]]. eexists. split.
    + unfold psimple. cbn [ystmt app]. rewrite cur_cons, Hk. reflexivity.
    + apply pinclude_rt; auto.
Qed.

End P.
