(* C09 - decorations are invisible to ReadPeek: neither the significant tokens nor the
   annotation comments (with their line-feed flags) change. *)
From Coq Require Import List Bool NArith.
From Falco Require Import Model.Decor.
Import ListNotations.

Section Generic.
Context {K A : Type}.

(* the line-feed flag is irrelevant when no annotation follows before the next significant token *)
Lemma flag_irrelevant : forall (ts : list (tok K A)) lf lf' acc,
  no_ann_ahead ts = true -> pump_go lf acc ts = pump_go lf' acc ts.
Proof.
  induction ts as [|t r IH]; intros lf lf' acc H; [reflexivity|].
  destruct t; cbn in *; try discriminate; auto.
Qed.

(* processing a prefix *)
Lemma insert_cmt : forall (t1 t2 : list (tok K A)) lf acc,
  pump_go lf acc (t1 ++ Cmt :: t2) = pump_go lf acc (t1 ++ t2).
Proof.
  induction t1 as [|t r IH]; intros t2 lf acc; [reflexivity|].
  destruct t; cbn; rewrite ?IH; reflexivity.
Qed.

Lemma insert_blank : forall (t1 t2 : list (tok K A)) lf acc,
  pump_go lf acc (t1 ++ Blank :: t2) = pump_go lf acc (t1 ++ t2).
Proof.
  induction t1 as [|t r IH]; intros t2 lf acc; [reflexivity|].
  destruct t; cbn; rewrite ?IH; reflexivity.
Qed.

Lemma insert_lf_free : forall (t1 t2 : list (tok K A)) lf acc,
  no_ann_ahead t2 = true ->
  pump_go lf acc (t1 ++ LF :: t2) = pump_go lf acc (t1 ++ t2).
Proof.
  induction t1 as [|t r IH]; intros t2 lf acc H.
  - cbn. apply flag_irrelevant. exact H.
  - destruct t; cbn; rewrite ?IH; auto.
Qed.

Lemma insert_lf_seen : forall (t1 t2 : list (tok K A)) lf acc,
  flag_after lf t1 = true ->
  pump_go lf acc (t1 ++ LF :: t2) = pump_go lf acc (t1 ++ t2).
Proof.
  induction t1 as [|t r IH]; intros t2 lf acc H.
  - cbn in *. subst. reflexivity.
  - destruct t; cbn in *; rewrite ?IH; auto.
Qed.

Theorem pump_decorate : forall ts ts' : list (tok K A), decorate ts ts' -> pump ts' = pump ts.
Proof.
  unfold pump. induction 1.
  - reflexivity.
  - symmetry. assumption.
  - etransitivity; eassumption.
  - apply insert_cmt.
  - apply insert_blank.
  - apply insert_lf_free. assumption.
  - apply insert_lf_seen. assumption.
Qed.

Theorem pump_strip : forall ts ts' : list (tok K A), decorate ts ts' -> significant ts' = significant ts.
Proof. intros. unfold significant. f_equal. apply pump_decorate. assumption. Qed.

Theorem annotations_stable : forall ts ts' : list (tok K A), decorate ts ts' -> annotations ts' = annotations ts.
Proof. intros. unfold annotations. f_equal. apply pump_decorate. assumption. Qed.

(* every consumer that is a function of the significant tokens and the annotations is inert *)
Section Core.
Variable R : Type.
Variable parse_core : list K -> R.                              (* the parser core *)
Variable lint_core : list K -> list (list (A * bool)) -> R.     (* linter / interpreter: + annotations *)

Theorem parse_core_inert : forall ts ts' : list (tok K A),
  decorate ts ts' -> parse_core (significant ts') = parse_core (significant ts).
Proof. intros. f_equal. apply pump_strip. assumption. Qed.

Theorem lint_core_inert : forall ts ts' : list (tok K A),
  decorate ts ts' ->
  lint_core (significant ts') (annotations ts') = lint_core (significant ts) (annotations ts).
Proof. intros ts ts' H. rewrite (pump_strip _ _ H), (annotations_stable _ _ H). reflexivity. Qed.
End Core.

(* moving an ordinary comment from one gap to another is a decoration *)
Lemma move_comment : forall t1 t2 t3 : list (tok K A),
  decorate (t1 ++ Cmt :: t2 ++ t3) (t1 ++ t2 ++ Cmt :: t3).
Proof.
  intros. eapply d_trans.
  - apply d_sym. apply d_cmt.
  - replace (t1 ++ t2 ++ Cmt :: t3) with ((t1 ++ t2) ++ Cmt :: t3) by (rewrite <- app_assoc; reflexivity).
    replace (t1 ++ t2 ++ t3) with ((t1 ++ t2) ++ t3) by (rewrite <- app_assoc; reflexivity).
    apply d_cmt.
Qed.

End Generic.

(* ---- witnesses *)
(* `case "a" : ... case "a" /* x */ :` -- tokens: case=1 "a"=2 colon=3 *)
Definition dup_plain : list (tok N N) := [Sig 1%N; Blank; Sig 2%N; Sig 3%N; LF; Sig 1%N; Blank; Sig 2%N; Sig 3%N].
Definition dup_commented : list (tok N N) := [Sig 1%N; Blank; Sig 2%N; Sig 3%N; LF; Sig 1%N; Blank; Sig 2%N; Blank; Cmt; Sig 3%N].

Example dup_is_decoration : decorate dup_plain dup_commented.
Proof.
  unfold dup_plain, dup_commented.
  eapply d_trans.
  - exact (d_blank [Sig 1%N; Blank; Sig 2%N; Sig 3%N; LF; Sig 1%N; Blank; Sig 2%N] [Sig 3%N]).
  - exact (d_cmt [Sig 1%N; Blank; Sig 2%N; Sig 3%N; LF; Sig 1%N; Blank; Sig 2%N; Blank] [Sig 3%N]).
Qed.

Example pump_example :
  pump [Cmt; LF; Ann 7%N; LF; Sig 1%N; Blank; Cmt; Sig 2%N; Ann 8%N; LF; Cmt; Ann 9%N; Sig 3%N]
  = [(1%N, [(7%N, true)]); (2%N, []); (3%N, [(8%N, false); (9%N, true)])].
Proof. reflexivity. Qed.

(* A decision taken on rendered text is NOT inert: the rendering of the token that follows the
   comment changes (the parser moves such a comment to the preceding label as its trailing
   comment; either way one of the two labels renders differently).  With the comparison of
   renderings the two `case "a"` labels of the decorated variant are different labels; with the
   comparison of values (the repair) they are the same in both. *)
Theorem rendered_text_refuted :
  exists ts ts' : list (tok N N), decorate ts ts' /\ rendered ts' <> rendered ts.
Proof.
  exists dup_plain, dup_commented. split; [apply dup_is_decoration|]. cbn. discriminate.
Qed.

(* an insertion of a line feed in front of an annotation that had none is NOT a decoration in the
   sense above, and indeed changes what the linter sees: the side condition of d_lf_* is needed *)
Theorem lf_before_annotation_refuted :
  exists t1 t2 : list (tok N N), annotations (t1 ++ LF :: t2) <> annotations (t1 ++ t2).
Proof. exists [Sig 1%N], [Ann 5%N; Sig 2%N]. cbn. discriminate. Qed.
