(* parse_expr_yield: a successful expression parse consumed exactly the tokens of the returned
   tree, in order (Go cursor convention: on return cur is the LAST token of the expression). *)
From Coq Require Import List NArith ZArith Bool Lia.
From Falco Require Import Base.Bytes Gen.TokenTypes Model.ParseKinds Gen.ParserTables
  Model.ParseBase Model.Ast Model.ParseLit Model.ParseExpr Model.Yield Proofs.ParseTables.
Import ListNotations.
Local Open Scope parse_scope.

Lemma pbind_ok {A B} (r : pres A) (f : A -> pres B) b :
  pbind r f = POK b -> exists a, r = POK a /\ f a = POK b.
Proof. destruct r; simpl; intros H; try discriminate; eauto. Qed.

Ltac binv H :=
  let a := fresh "a" in let Ha := fresh "Ha" in
  apply pbind_ok in H; destruct H as [a [Ha H]].

(* ---------- the window *)
Lemma toks_cur st : toks st <> [] -> toks st = cur st :: after st.
Proof. unfold cur, after. destruct (toks st); [congruence | reflexivity]. Qed.

Lemma cur_not_eof st : typ (cur st) <> T_EOF -> toks st = cur st :: after st.
Proof.
  intros H. apply toks_cur. intros E. apply H. unfold cur. rewrite E. reflexivity.
Qed.

Lemma peek_is_true st t : peek_is st t = true -> typ (peek st) = t.
Proof. unfold peek_is. apply ttype_eqb_eq. Qed.
Lemma cur_is_true st t : cur_is st t = true -> typ (cur st) = t.
Proof. unfold cur_is. apply ttype_eqb_eq. Qed.

Lemma peek_next st : peek st = cur (next st).
Proof. reflexivity. Qed.
Lemma after_next st : toks (next st) = after st.
Proof. reflexivity. Qed.

Lemma peek_not_eof st : typ (peek st) <> T_EOF -> after st = peek st :: after (next st).
Proof.
  intros H. rewrite peek_next in *. rewrite <- after_next. apply cur_not_eof. exact H.
Qed.

Lemma expect_ok st t st' :
  expect st t = POK st' -> t <> T_EOF ->
  st' = next st /\ typ (cur st') = t /\ after st = cur st' :: after st'.
Proof.
  unfold expect, expect_peek. destruct (peek_is st t) eqn:E; [|discriminate].
  intros H Ht. inversion H; subst st'. apply peek_is_true in E.
  split; [reflexivity|]. split; [exact E|].
  apply peek_not_eof. congruence.
Qed.

Lemma prefix_registered st k :
  assoc (typ (cur st)) prefix_parsers = Some k -> toks st = cur st :: after st.
Proof.
  intros H. apply cur_not_eof. intros E. rewrite E in H. rewrite prefix_doc in H. discriminate.
Qed.

(* ---------- one-step unfoldings *)
Section Y.
Variable fok : str -> bool.
Notation pexpr := (pexpr fok).
Notation ploop := (ploop fok).
Notation pargs := (pargs fok).
Notation pargtail := (pargtail fok).

Lemma yexpr_nonempty e : yexpr e <> [].
Proof.
  induction e; simpl; try discriminate.
  - destruct (yexpr e1); [congruence | discriminate].
  - destruct (yexpr e1); [congruence | discriminate].
  - destruct (yexpr e); discriminate.
Qed.

Lemma plong_yield st o s c v st' :
  plong st = POK (o, s, c, v, st') -> toks st = o :: s :: c :: after st' /\ typ o = typ (cur st).
Proof.
  unfold plong. destruct (peek_is st T_STRING) eqn:E1; simpl; [|discriminate].
  destruct (pstring (next st)) eqn:Es; try discriminate.
  destruct (peek_is (next st) T_CLOSE_LONG_STRING) eqn:E2; simpl; [|discriminate].
  destruct (str_eqb (lit (cur st)) (lit (peek (next st)))); simpl; [|discriminate].
  intros H. inversion H; subst. clear H.
  apply peek_is_true in E1. apply peek_is_true in E2.
  assert (H1 : after st = peek st :: after (next st)) by (apply peek_not_eof; congruence).
  assert (H2 : after (next st) = peek (next st) :: after (next (next st))) by (apply peek_not_eof; congruence).
  split; [|reflexivity].
  assert (H0 : toks st <> []).
  { intros E. unfold after in H1. rewrite E in H1. discriminate. }
  rewrite (toks_cur st H0), H1, H2. reflexivity.
Qed.

Definition yield_e (n : nat) : Prop :=
  forall prec st e st', pexpr n prec st = POK (e, st') -> toks st = yexpr e ++ after st'.
Definition yield_l (n : nat) : Prop :=
  forall prec l st e st', ploop n prec l st = POK (e, st') ->
    exists m, yexpr e = yexpr l ++ m /\ after st = m ++ after st'.
Definition yield_a (n : nat) : Prop :=
  forall st a st', pargs n st = POK (a, st') ->
    after st = yargs a ++ toks st' /\ toks st' = cur st' :: after st'.
Definition yield_t (n : nat) : Prop :=
  forall st m st', pargtail n st = POK (m, st') -> after st = ytail m ++ after st'.

Lemma leaf_ok st (e : expr) :
  toks st = cur st :: after st -> yexpr e = [cur st] -> toks st = yexpr e ++ after st.
Proof. intros H1 H2. rewrite H2. exact H1. Qed.

(* the prefix methods, for any recursive call that satisfies the yield property *)
Lemma pprefix_yield rec k st lft st1 :
  (forall prec s e s', rec prec s = POK (e, s') -> toks s = yexpr e ++ after s') ->
  toks st = cur st :: after st ->
  pprefix fok rec k st = POK (lft, st1) -> toks st = yexpr lft ++ after st1.
Proof.
  intros IHe Hc Ha. destruct k; cbn [pprefix] in Ha.
  - inversion Ha; subst. apply leaf_ok; auto.
  - binv Ha. inversion Ha; subst. apply leaf_ok; auto.
  - binv Ha. destruct a as [[[[o s] c] v] st2]. inversion Ha; subst.
    apply plong_yield in Ha0. destruct Ha0 as [Ha0 _]. exact Ha0.
  - unfold pinteger in Ha. binv Ha. inversion Ha; subst. apply leaf_ok; auto.
  - unfold pfloat in Ha. destruct (fok _); [|discriminate]. inversion Ha; subst. apply leaf_ok; auto.
  - unfold prtime in Ha. destruct (rtime_value _); [|discriminate].
    destruct (fok _); [|discriminate]. inversion Ha; subst. apply leaf_ok; auto.
  - binv Ha. destruct a as [r st2]. inversion Ha; subst.
    apply IHe in Ha0. rewrite after_next in Ha0. rewrite Hc, Ha0. reflexivity.
  - inversion Ha; subst. apply leaf_ok; auto.
  - binv Ha. destruct a as [r st2]. binv Ha. inversion Ha; subst.
    apply IHe in Ha0. rewrite after_next in Ha0.
    apply expect_ok in Ha1; [|discriminate]. destruct Ha1 as [_ [_ Ha1]].
    rewrite Hc, Ha0, Ha1. simpl. rewrite <- app_assoc. reflexivity.
  - binv Ha. rename a into s1. binv Ha. destruct a as [c s2]. binv Ha. rename a into s3.
    binv Ha. destruct a as [t s4]. binv Ha. rename a into s5. binv Ha. destruct a as [e0 s6].
    binv Ha. rename a into s7. inversion Ha; subst.
    apply expect_ok in Ha0; [|discriminate]. destruct Ha0 as [_ [_ E1]].
    apply IHe in Ha1. rewrite after_next in Ha1.
    apply expect_ok in Ha2; [|discriminate]. destruct Ha2 as [_ [_ E3]].
    apply IHe in Ha3. rewrite after_next in Ha3.
    apply expect_ok in Ha4; [|discriminate]. destruct Ha4 as [_ [_ E5]].
    apply IHe in Ha5. rewrite after_next in Ha5.
    apply expect_ok in Ha6; [|discriminate]. destruct Ha6 as [_ [_ E7]].
    rewrite Hc, E1, Ha1, E3, Ha3, E5, Ha5, E7. simpl.
    repeat (rewrite <- app_assoc; simpl). reflexivity.
Qed.

(* the infix methods: st1 = next st, cur st1 = the operator / first token of the right operand *)
Lemma pinfix_yield rec recargs k l st1 l2 st2 :
  (forall prec s e s', rec prec s = POK (e, s') -> toks s = yexpr e ++ after s') ->
  (forall s a s', recargs s = POK (a, s') -> after s = yargs a ++ toks s' /\ toks s' = cur s' :: after s') ->
  toks st1 = cur st1 :: after st1 ->
  pinfix rec recargs k l st1 = POK (l2, st2) ->
  exists m, yexpr l2 = yexpr l ++ m /\ toks st1 = m ++ after st2.
Proof.
  intros IHe IHa Hp Ha. destruct k as [|[]|]; cbn [pinfix] in Ha.
  - binv Ha. destruct a as [r s]. inversion Ha; subst.
    apply IHe in Ha0. rewrite after_next in Ha0.
    exists (cur st1 :: yexpr r). split; [reflexivity|].
    rewrite Hp. simpl. rewrite Ha0. reflexivity.
  - binv Ha. destruct a as [r s]. inversion Ha; subst.
    apply IHe in Ha0. rewrite after_next in Ha0.
    exists (cur st1 :: yexpr r). split; [reflexivity|].
    rewrite Hp. simpl. rewrite Ha0. reflexivity.
  - binv Ha. destruct a as [r s]. inversion Ha; subst.
    apply IHe in Ha0.
    exists (yexpr r). split; [reflexivity|]. exact Ha0.
  - destruct l; try discriminate.
    binv Ha. destruct a as [ar s]. inversion Ha; subst.
    apply IHa in Ha0. destruct Ha0 as [E1 E2].
    exists (cur st1 :: yargs ar ++ [cur st2]). split.
    + reflexivity.
    + rewrite Hp. simpl. rewrite E1, E2, <- app_assoc. reflexivity.
Qed.

Lemma yield_all : forall n, yield_e n /\ yield_l n /\ yield_a n /\ yield_t n.
Proof.
  induction n as [|n [IHe [IHl [IHa IHt]]]].
  { split; [|split; [|split]]; unfold yield_e, yield_l, yield_a, yield_t; intros; discriminate. }
  assert (He : yield_e (S n)).
  { red. intros prec st e st' H. cbn [ParseExpr.pexpr] in H.
    destruct (assoc (typ (cur st)) prefix_parsers) as [k|] eqn:Ek; [|discriminate].
    pose proof (prefix_registered st k Ek) as Hc.
    binv H. destruct a as [lft st1].
    apply (pprefix_yield _ _ _ _ _ IHe Hc) in Ha.
    apply IHl in H. destruct H as [m [H1 H2]].
    rewrite Ha, H2, H1, app_assoc. reflexivity. }
  assert (Hl : yield_l (S n)).
  { red. intros prec l st e st' H. cbn [ParseExpr.ploop] in H.
    destruct (peek_is st T_SEMICOLON || negb (prec <? prec_of (peek st))%N).
    { inversion H; subst. exists []. rewrite app_nil_r. split; reflexivity. }
    destruct (assoc (typ (peek st)) infix_parsers) as [k|] eqn:Ek.
    2:{ destruct (assoc (typ (peek st)) postfix_parsers) as [[]|] eqn:Eq.
        2:{ inversion H; subst. exists []. rewrite app_nil_r. split; reflexivity. }
        apply IHl in H. destruct H as [m [H1 H2]]. simpl in H1.
        assert (Hp : after st = peek st :: after (next st)).
        { apply peek_not_eof. intros E. rewrite E, postfix_doc in Eq. discriminate. }
        exists (cur (next st) :: m). split.
        - rewrite H1, <- app_assoc. reflexivity.
        - rewrite Hp, H2. reflexivity. }
    assert (Hp : toks (next st) = cur (next st) :: after (next st)).
    { apply cur_not_eof. rewrite <- peek_next. intros E. rewrite E, infix_doc in Ek. discriminate. }
    binv H. destruct a as [l2 st2].
    apply (pinfix_yield _ _ _ _ _ _ _ IHe IHa Hp) in Ha.
    destruct Ha as [m1 [X1 X2]]. rewrite after_next in X2.
    apply IHl in H. destruct H as [m2 [H1 H2]].
    exists (m1 ++ m2). split.
    - rewrite H1, X1, app_assoc. reflexivity.
    - rewrite X2, H2, app_assoc. reflexivity. }
  assert (Hargs : yield_a (S n)).
  { red. intros st a st' H. cbn [ParseExpr.pargs] in H.
    destruct (peek_is st T_RIGHT_PAREN) eqn:E.
    { inversion H; subst. apply peek_is_true in E. split; [reflexivity|].
      apply cur_not_eof. rewrite <- peek_next. congruence. }
    binv H. destruct a0 as [e s1]. binv H. destruct a0 as [m s2]. binv H. inversion H; subst.
    apply IHe in Ha. rewrite after_next in Ha. apply IHt in Ha0.
    apply expect_ok in Ha1; [|discriminate]. destruct Ha1 as [E1 [_ E2]].
    assert (E3 : toks st' = cur st' :: after st').
    { subst st'. rewrite after_next. exact E2. }
    simpl. rewrite Ha, Ha0, <- app_assoc, E2, E3. split; reflexivity. }
  assert (Htail : yield_t (S n)).
  { red. intros st m st' H. cbn [ParseExpr.pargtail] in H.
    destruct (peek_is st T_COMMA) eqn:E.
    2:{ inversion H; subst. reflexivity. }
    apply peek_is_true in E.
    assert (Hp : after st = peek st :: after (next st)) by (apply peek_not_eof; congruence).
    binv H. destruct a as [e s2]. binv H. destruct a as [m2 s3]. inversion H; subst.
    apply IHe in Ha. rewrite after_next in Ha. apply IHt in Ha0.
    simpl. rewrite Hp, Ha, Ha0, <- app_assoc. reflexivity. }
  exact (conj He (conj Hl (conj Hargs Htail))).
Qed.

(* the theorem: ParseExpression consumed exactly the tokens of the tree it returns *)
Theorem pexpr_yield n prec st e st' :
  pexpr n prec st = POK (e, st') -> toks st = yexpr e ++ after st' /\ yexpr e <> [].
Proof.
  intros H. split; [apply (proj1 (yield_all n)) in H; exact H | apply yexpr_nonempty].
Qed.

Theorem parse_expr_yield prec st e st' :
  parse_expr fok prec st = POK (e, st') -> toks st = yexpr e ++ after st' /\ yexpr e <> [].
Proof. apply pexpr_yield. Qed.

Lemma pexpr_consumes n prec st e st' :
  pexpr n prec st = POK (e, st') -> length (after st') < length (toks st).
Proof.
  intros H. apply pexpr_yield in H. destruct H as [H1 H2]. rewrite H1, app_length.
  destruct (yexpr e); [congruence | simpl; lia].
Qed.

Lemma ploop_consumes n prec l st e st' :
  ploop n prec l st = POK (e, st') -> length (after st') <= length (after st).
Proof.
  intros H. apply (proj1 (proj2 (yield_all n))) in H. destruct H as [m [_ H]].
  rewrite H, app_length. lia.
Qed.

Lemma pargs_consumes n st a st' :
  pargs n st = POK (a, st') -> length (after st') < length (after st).
Proof.
  intros H. apply (proj1 (proj2 (proj2 (yield_all n)))) in H. destruct H as [H1 H2].
  rewrite H1, app_length, H2. simpl. lia.
Qed.

Lemma pargtail_consumes n st m st' :
  pargtail n st = POK (m, st') -> length (after st') <= length (after st).
Proof.
  intros H. apply (proj2 (proj2 (proj2 (yield_all n)))) in H. rewrite H, app_length. lia.
Qed.

End Y.
