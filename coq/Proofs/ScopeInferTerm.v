(* C11 - inferSubroutineScopes terminates: the number of set scope bits, summed over the
   subroutines, strictly increases in every round that reports a change, and it is bounded by
   (number of scope bits) * (number of subroutines). *)
From Coq Require Import List Arith Bool NArith PArith Lia.
From Falco Require Import Base.Res Model.ScopeInfer Proofs.ScopeInferLfp.
Import ListNotations.

Fixpoint ppop (p : positive) : nat :=
  match p with xH => 1 | xO q => ppop q | xI q => S (ppop q) end.
Definition popcount (n : N) : nat := match n with N0 => 0 | Npos p => ppop p end.

Lemma ppop_pos p : 1 <= ppop p.
Proof. induction p; cbn; lia. Qed.

Lemma ppop_sub : forall p q, Pos.lor p q = q -> ppop p <= ppop q /\ (p <> q -> ppop p < ppop q).
Proof.
  induction p as [p IH|p IH|]; destruct q as [q|q|]; cbn; intros H; try discriminate.
  - injection H as H. destruct (IH _ H) as [A B]. split; [lia|].
    intros Hne. assert (p <> q) by congruence. specialize (B H0). lia.
  - injection H as H. destruct (IH _ H) as [A B]. split; lia.
  - injection H as H. destruct (IH _ H) as [A B]. split; [lia|].
    intros Hne. assert (p <> q) by congruence. specialize (B H0). lia.
  - pose proof (ppop_pos q). split; lia.
  - split; [lia|congruence].
Qed.

Lemma popcount_sub a b : sub a b -> popcount a <= popcount b /\ (a <> b -> popcount a < popcount b).
Proof.
  unfold sub. destruct a as [|p], b as [|q]; cbn; intros H.
  - split; [lia|congruence].
  - pose proof (ppop_pos q). split; lia.
  - discriminate.
  - injection H as H. destruct (ppop_sub _ _ H) as [A B]. split; [exact A|].
    intros Hne. apply B. congruence.
Qed.

Fixpoint sum_over (f : name -> nat) (l : list name) : nat :=
  match l with [] => 0 | n :: r => f n + sum_over f r end.

Lemma sum_over_ext f f' l : (forall x, In x l -> f x = f' x) -> sum_over f l = sum_over f' l.
Proof.
  induction l as [|a l IH]; cbn; intros H; [reflexivity|].
  rewrite (H a) by auto. rewrite IH; auto.
Qed.

Lemma sum_over_point f f' l b :
  NoDup l -> In b l -> f b < f' b -> (forall x, x <> b -> f x = f' x) ->
  sum_over f l < sum_over f' l.
Proof.
  induction l as [|a l IH]; intros ND Hin Hlt Hoth; [destruct Hin|].
  inversion ND as [|? ? Hna ND']; subst. cbn.
  destruct Hin as [->|Hin].
  - rewrite (sum_over_ext f f' l); [lia|].
    intros x Hx. apply Hoth. intro E. subst. contradiction.
  - assert (a <> b) by (intro E; subst; contradiction).
    rewrite (Hoth a) by assumption. specialize (IH ND' Hin Hlt Hoth). lia.
Qed.

Lemma sum_over_bound f l B : (forall x, In x l -> f x <= B) -> sum_over f l <= B * length l.
Proof.
  induction l as [|a l IH]; cbn; intros H; [lia|].
  specialize (IH (fun x Hx => H x (or_intror Hx))). specialize (H a (or_introl eq_refl)). nia.
Qed.

Section Term.
Variable present explicit : name -> bool.
Variable callees : name -> list name.
Variable subs : list name.                       (* the keys of ctx.Subroutines *)
Variable top : N.                                (* union of all scope bits *)
Hypothesis subs_nodup : NoDup subs.
Hypothesis present_subs : forall n, present n = true <-> In n subs.

Notation stepc := (step_callee present explicit).
Notation stepr := (step_caller present explicit callees).
Notation round' := (round present explicit callees).
Notation infer' := (infer present explicit callees).

Definition bounded (s : state) : Prop := forall n, In n subs -> sub (s n) top.
Definition weight (s : state) : nat := sum_over (fun n => popcount (s n)) subs.

Lemma weight_bound s : bounded s -> weight s <= popcount top * length subs.
Proof.
  intros Hb. apply sum_over_bound. intros x Hx. apply popcount_sub. apply Hb. exact Hx.
Qed.

Definition T (pc : Prop) (x y : state * bool) : Prop :=
  pc -> bounded (fst x) ->
  bounded (fst y) /\ weight (fst x) <= weight (fst y) /\
  (snd y = true -> snd x = true \/ weight (fst x) < weight (fst y)).

Lemma T_refl pc x : T pc x x.
Proof. intros _ Hb. repeat split; auto. Qed.
Lemma T_trans pc x y z : T pc x y -> T pc y z -> T pc x z.
Proof.
  intros H1 H2 Hp Hb. destruct (H1 Hp Hb) as (B1 & W1 & F1). destruct (H2 Hp B1) as (B2 & W2 & F2).
  repeat split; [exact B2 | lia |].
  intros Hz. destruct (F2 Hz) as [Hy|Hlt]; [destruct (F1 Hy) as [Hx|Hlt]; [auto | right; lia] | right; lia].
Qed.

Lemma step_callee_T c x b : T (present c = true) x (stepc c x b).
Proof.
  destruct x as [s ch].
  destruct (step_callee_spec present explicit c s ch b) as [[E _] | (E & Eb & Pb & Hne)]; rewrite E.
  - apply T_refl.
  - intros Pc Hb. cbn [fst snd] in *.
    apply present_subs in Pc. apply present_subs in Pb.
    repeat split.
    + intros n Hn. destruct (Nat.eq_dec n b) as [->|Hnb].
      * rewrite upd_same. apply sub_lub; apply Hb; assumption.
      * rewrite upd_other by assumption. apply Hb. exact Hn.
    + apply Nat.lt_le_incl. unfold weight. apply sum_over_point with (b := b); auto.
      * rewrite upd_same. apply popcount_sub; [apply sub_lor_l | congruence].
      * intros x Hx. rewrite upd_other by assumption. reflexivity.
    + intros _. right. unfold weight. apply sum_over_point with (b := b); auto.
      * rewrite upd_same. apply popcount_sub; [apply sub_lor_l | congruence].
      * intros x Hx. rewrite upd_other by assumption. reflexivity.
Qed.

Lemma step_caller_T x c : T True x (stepr x c).
Proof.
  destruct x as [s ch]. unfold step_caller.
  destruct (present c) eqn:Pc; cbn [negb orb]; [|apply T_refl].
  destruct (N.eqb (s c) 0); [apply T_refl|].
  assert (H : T (true = true) (s, ch) (fold_left (stepc c) (callees c) (s, ch))).
  { apply fold_left_rel with (P := fun _ => True).
    - apply T_refl.
    - apply T_trans.
    - intros a b _. pose proof (step_callee_T c a b) as H. rewrite Pc in H. exact H.
    - apply Forall_forall. auto. }
  intros _ Hb. apply H; auto.
Qed.

Lemma round_T order s : T True (s, false) (round' order s).
Proof.
  unfold round. apply fold_left_rel with (P := fun _ => True).
  - apply T_refl.
  - apply T_trans.
  - intros a b _. apply step_caller_T.
  - apply Forall_forall. auto.
Qed.

Lemma infer_terminates_gen :
  forall fuel orders i s,
    bounded s -> popcount top * length subs - weight s < fuel ->
    exists r, infer' fuel orders i s = OK r.
Proof.
  induction fuel as [|f IH]; intros orders i s Hb Hlt; [lia|].
  cbn [infer]. destruct (round' (orders i) s) as [s1 ch] eqn:E.
  pose proof (round_T (orders i) s I Hb) as H. rewrite E in H. cbn [fst snd] in H.
  destruct H as (B1 & W1 & F1).
  destruct ch; [|eauto].
  destruct (F1 eq_refl) as [Hx|Hw]; [discriminate|].
  pose proof (weight_bound s1 B1). apply IH; [exact B1 | lia].
Qed.

(* at most popcount top * |subs| changing rounds, whatever orders the runtime picks *)
Theorem infer_terminates :
  forall orders s0, bounded s0 ->
    exists r, infer' (S (popcount top * length subs)) orders 0 s0 = OK r.
Proof.
  intros. apply infer_terminates_gen; [assumption | lia].
Qed.
End Term.
