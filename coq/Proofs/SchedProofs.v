(* C18: every lock-respecting interleaving of handlers `Acquire; body; Release` is equivalent to
   serving the requests one at a time in the order in which they acquired the lock. *)
From Coq Require Import List Arith Bool Lia Permutation.
From Falco Require Import Model.Sched.
Import ListNotations.

Section Proofs.
  Variables (S R : Type).
  Notation step := (step S R).
  Notation config := (config S R).

  Lemma upd_same {A} (f : nat -> A) i x : upd f i x i = x.
  Proof. unfold upd. rewrite Nat.eqb_refl. reflexivity. Qed.
  Lemma upd_other {A} (f : nat -> A) i j x : j <> i -> upd f i x j = f j.
  Proof. unfold upd. intros H. apply Nat.eqb_neq in H. rewrite H. reflexivity. Qed.

  Lemma run_body_app (a b : list step) s r :
    run_body (a ++ b) s r = let (s1, r1) := run_body a s r in run_body b s1 r1.
  Proof.
    revert s r. induction a as [|x a IH]; intros s r; [reflexivity|].
    destruct x; cbn [app run_body]; apply IH.
  Qed.

  Variable bodies : list (list step).
  Hypothesis Hb : Forall (fun b => forallb (is_body_step) b = true) bodies.
  Variable s0 : S.
  Let n := length bodies.
  Let B := fun i => nth i bodies [].
  Let threads := map (handler) bodies.
  Let full := fun i => nth i threads [].

  Lemma full_lt i : i < n -> full i = handler (B i).
  Proof.
    intros H. unfold full, threads, B.
    rewrite (nth_indep _ [] (handler [])) by (rewrite map_length; exact H).
    apply map_nth.
  Qed.
  Lemma full_ge i : n <= i -> full i = [].
  Proof. intros H. unfold full, threads. apply nth_overflow. rewrite map_length. exact H. Qed.

  Lemma B_body i : forallb (is_body_step) (B i) = true.
  Proof.
    unfold B. destruct (lt_dec i (length bodies)) as [H|H].
    - rewrite Forall_forall in Hb. apply Hb. apply nth_In. exact H.
    - rewrite nth_overflow by lia. reflexivity.
  Qed.

  Lemma seq_final_app o1 o2 s : seq_final B (o1 ++ o2) s = seq_final B o2 (seq_final B o1 s).
  Proof. unfold seq_final. apply fold_left_app. Qed.

  Lemma seq_resp_app_in o1 o2 s i : In i o1 -> seq_resp B (o1 ++ o2) s i = seq_resp B o1 s i.
  Proof.
    revert s. induction o1 as [|j o1 IH]; intros s Hi; [destruct Hi|].
    cbn [app seq_resp]. destruct (Nat.eqb j i) eqn:E; [reflexivity|].
    apply IH. destruct Hi as [->|Hi]; [rewrite Nat.eqb_refl in E; discriminate|exact Hi].
  Qed.

  Lemma seq_resp_app_last o1 s h :
    ~ In h o1 -> seq_resp B (o1 ++ [h]) s h = snd (run_body (B h) (seq_final B o1 s) None).
  Proof.
    revert s. induction o1 as [|j o1 IH]; intros s Hn.
    - cbn. rewrite Nat.eqb_refl. reflexivity.
    - cbn [app seq_resp]. destruct (Nat.eqb j h) eqn:E.
      + apply Nat.eqb_eq in E. subst. exfalso. apply Hn. left. reflexivity.
      + rewrite IH by (intros H; apply Hn; right; exact H). reflexivity.
  Qed.

  Lemma NoDup_app_one (l : list nat) x : NoDup l -> ~ In x l -> NoDup (l ++ [x]).
  Proof.
    intros Hl Hx. apply (Permutation_NoDup (Permutation_cons_append l x)). constructor; assumption.
  Qed.

  Definition Inv (c : config) : Prop :=
    NoDup (acq c) /\ (forall i, In i (acq c) -> i < n) /\
    (forall i, ~ In i (acq c) -> code c i = full i /\ resp c i = None) /\
    match lock c with
    | None =>
        (forall i, In i (acq c) -> code c i = [] /\ resp c i = seq_resp B (acq c) s0 i) /\
        st c = seq_final B (acq c) s0
    | Some h =>
        exists order' pre suf,
          acq c = order' ++ [h] /\ B h = pre ++ suf /\ code c h = suf ++ [Release] /\
          (forall i, In i order' -> code c i = [] /\ resp c i = seq_resp B order' s0 i) /\
          (st c, resp c h) = run_body pre (seq_final B order' s0) None
    end.

  Lemma inv_init : Inv (init threads s0).
  Proof.
    unfold Inv, init. cbn [acq lock code resp st].
    split; [constructor|]. split; [intros i []|]. split; [intros i _; split; reflexivity|].
    split; [intros i []|reflexivity].
  Qed.

  Lemma inv_tick i c c' : Inv c -> tick i c = Some c' -> Inv c'.
  Proof.
    intros (Hnd & Hlt & Hout & Hl) Ht. unfold tick in Ht.
    destruct (lock c) as [h|] eqn:El.
    - (* somebody holds the lock *)
      destruct Hl as (o' & pre & suf & Ha & HB & Hc & Hin & Hs).
      assert (Hnh : ~ In h o').
      { rewrite Ha in Hnd. apply NoDup_remove_2 in Hnd. rewrite app_nil_r in Hnd. exact Hnd. }
      assert (Hha : In h (acq c)) by (rewrite Ha; apply in_or_app; right; left; reflexivity).
      assert (Hoth : forall j, ~ In j (acq c) -> j <> h) by (intros j Hj ->; exact (Hj Hha)).
      destruct (Nat.eq_dec i h) as [->|Hne].
      + rewrite Hc in Ht. destruct suf as [|x suf].
        * (* Release *)
          cbn [app] in Ht. rewrite Nat.eqb_refl in Ht. inversion Ht; subst c'; clear Ht.
          rewrite app_nil_r in HB.
          unfold Inv. cbn [acq lock code resp st].
          split; [exact Hnd|]. split; [exact Hlt|].
          split. { intros j Hj. rewrite upd_other by (apply Hoth; exact Hj). apply Hout; exact Hj. }
          split.
          -- intros j Hj. rewrite Ha in Hj. apply in_app_or in Hj. destruct Hj as [Hj|[<-|[]]].
             ++ rewrite upd_other by (intros ->; exact (Hnh Hj)). rewrite Ha, seq_resp_app_in by exact Hj.
                apply Hin; exact Hj.
             ++ rewrite upd_same. split; [reflexivity|].
                rewrite Ha, seq_resp_app_last by exact Hnh. rewrite HB, <- Hs. reflexivity.
          -- rewrite Ha, seq_final_app. cbn [seq_final fold_left]. rewrite HB. fold (seq_final B o' s0). rewrite <- Hs. reflexivity.
        * (* a body step *)
          assert (Hx : is_body_step x = true).
          { pose proof (B_body h) as Hbh. rewrite HB, forallb_app in Hbh. apply andb_true_iff in Hbh.
            destruct Hbh as [_ Hbh]. cbn [forallb] in Hbh. apply andb_true_iff in Hbh. tauto. }
          cbn [app] in Ht.
          assert (HB' : B h = (pre ++ [x]) ++ suf) by (rewrite <- app_assoc; exact HB).
          destruct x as [| |f|g]; try discriminate Hx; inversion Ht; subst c'; clear Ht;
            unfold Inv; cbn [acq lock code resp st];
            (split; [exact Hnd|]); (split; [exact Hlt|]).
          -- split. { intros j Hj. rewrite upd_other by (apply Hoth; exact Hj). apply Hout; exact Hj. }
             exists o', (pre ++ [Act f]), suf.
             split; [exact Ha|]. split; [exact HB'|]. split; [apply upd_same|].
             split. { intros j Hj. rewrite upd_other by (intros ->; exact (Hnh Hj)). apply Hin; exact Hj. }
             rewrite run_body_app, <- Hs. reflexivity.
          -- split. { intros j Hj. rewrite !upd_other by (apply Hoth; exact Hj). apply Hout; exact Hj. }
             exists o', (pre ++ [Respond g]), suf.
             split; [exact Ha|]. split; [exact HB'|]. split; [apply upd_same|].
             split. { intros j Hj. rewrite !upd_other by (intros ->; exact (Hnh Hj)). apply Hin; exact Hj. }
             rewrite upd_same, run_body_app, <- Hs. reflexivity.
      + (* another thread is scheduled while the lock is held: it can only be blocked or finished *)
        exfalso. destruct (in_dec Nat.eq_dec i (acq c)) as [Hi|Hi].
        * rewrite Ha in Hi. apply in_app_or in Hi. destruct Hi as [Hi|[Hi|[]]]; [|congruence].
          destruct (Hin i Hi) as [Hci _]. rewrite Hci in Ht. discriminate.
        * destruct (Hout i Hi) as [Hci _]. rewrite Hci in Ht.
          destruct (lt_dec i n) as [Hlti|Hge].
          -- rewrite full_lt in Ht by exact Hlti. cbn in Ht. discriminate.
          -- rewrite full_ge in Ht by lia. discriminate.
    - (* the lock is free: only a thread that has not started can move, and it acquires *)
      destruct Hl as (Hin & Hs).
      destruct (in_dec Nat.eq_dec i (acq c)) as [Hi|Hi].
      { destruct (Hin i Hi) as [Hci _]. rewrite Hci in Ht. discriminate. }
      destruct (Hout i Hi) as [Hci Hri]. rewrite Hci in Ht.
      destruct (lt_dec i n) as [Hlti|Hge]; [|rewrite full_ge in Ht by lia; discriminate].
      rewrite full_lt in Ht by exact Hlti. cbn [handler] in Ht. inversion Ht; subst c'; clear Ht.
      unfold Inv. cbn [acq lock code resp st].
      assert (Hnew : forall j, ~ In j (acq c ++ [i]) -> ~ In j (acq c) /\ j <> i).
      { intros j Hj. split; [intros Hx; apply Hj; apply in_or_app; left; exact Hx|].
        intros ->. apply Hj. apply in_or_app. right. left. reflexivity. }
      split. { apply NoDup_app_one; assumption. }
      split. { intros j Hj. apply in_app_or in Hj. destruct Hj as [Hj|[<-|[]]]; auto. }
      split. { intros j Hj. destruct (Hnew j Hj) as [Hj1 Hj2]. rewrite upd_other by exact Hj2. apply Hout; exact Hj1. }
      exists (acq c), [], (B i).
      split; [reflexivity|]. split; [reflexivity|]. split; [apply upd_same|].
      split. { intros j Hj. rewrite upd_other by (intros ->; exact (Hi Hj)). apply Hin; exact Hj. }
      cbn [run_body]. rewrite Hs, Hri. reflexivity.
  Qed.
End Proofs.
