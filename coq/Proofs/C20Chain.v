(* C20 - from per-token steps to the whole token list (Lex.tokens), and through the parser's
   token pump (Model/Pump.v): the significant tokens, in order. *)
From Coq Require Import List NArith ZArith Bool Lia Arith.
From Coq Require Import Strings.Byte.
From Falco Require Import Base.Res Base.Bytes Base.Utf8 Gen.Tokens Model.Lex Model.Pump
  Proofs.LexProgress Proofs.C20Lex.
From Falco Require Model.LexParse Model.ParseBase Proofs.PumpTotal.
Import ListNotations.

(* a text as a chain of NextToken steps; it ends exactly at the end of the input *)
Inductive chain : list byte -> list (token -> Prop) -> Prop :=
| ch_nil : chain [] []
| ch_cons : forall seg after (P : token -> Prop) Ps,
    seg <> [] -> (forall t, P t -> is_eof t = false) ->
    stepP seg after P -> chain after Ps -> chain (seg ++ after) (P :: Ps).

Lemma chain_len s Ps : chain s Ps -> (length Ps <= length s)%nat.
Proof.
  induction 1 as [|seg after P Ps Hne _ _ _ IH]; [simpl; lia|].
  rewrite app_length. simpl. destruct seg; [congruence|]. simpl. lia.
Qed.

Lemma lex_loop_chain s Ps : chain s Ps -> forall outer inner st,
  at_bytes st s -> (length Ps < outer)%nat -> (length s + 2 <= inner)%nat ->
  exists ts e, lex_loop outer inner st = OK (ts ++ [e]) /\ Forall2 (fun P t => P t) Ps ts /\
               is_eof e = true /\ Forall (fun t => is_eof t = false) ts.
Proof.
  induction 1 as [|seg after P Ps Hne Hneof Hstep Hch IH]; intros outer inner st Hab Ho Hi.
  - destruct outer; [simpl in Ho; lia|].
    destruct (next_token_eof inner st Hab ltac:(lia)) as (e & st' & R & He).
    cbn [lex_loop]. rewrite R. cbn [bind]. rewrite He.
    exists [], e. split; [reflexivity|]. split; [constructor|]. split; [exact He | constructor].
  - destruct outer; [simpl in Ho; lia|].
    destruct (Hstep inner st Hab Hi) as (tok & st' & R & HP & Hab').
    cbn [lex_loop]. rewrite R. cbn [bind]. rewrite (Hneof tok HP).
    destruct (IH outer inner st' Hab') as (ts & e & R2 & HF & He & Hne2).
    + simpl in Ho. lia.
    + rewrite app_length in Hi. lia.
    + rewrite R2. exists (tok :: ts), e. split; [reflexivity|]. split; [constructor; assumption|].
      split; [exact He|]. constructor; [exact (Hneof tok HP) | exact Hne2].
Qed.

Lemma init_at s : at_bytes (init s) s.
Proof. unfold init. apply read_char_to; reflexivity. Qed.

Theorem tokens_chain s Ps : chain s Ps ->
  exists ts e, tokens s = OK (ts ++ [e]) /\ Forall2 (fun P t => P t) Ps ts /\
               is_eof e = true /\ Forall (fun t => is_eof t = false) ts.
Proof.
  intros H. unfold tokens, lex_all. pose proof (chain_len s Ps H).
  apply (lex_loop_chain s Ps H); [apply init_at | unfold lex_fuel; lia | unfold lex_fuel; lia].
Qed.

(* ---- the pump ---- *)
Definition junk (t : token) : bool := is_type T_LF t || is_type T_COMMENT t.
(* a token the pump does not treat specially (no C! / W!, no pragma) *)
Definition plain (t : token) : bool := negb (is_type T_FASTLY_CONTROL t) && negb (is_type T_PRAGMA t).

Fixpoint dropjunk (ts : list token) : list token :=
  match ts with t :: r => if junk t then dropjunk r else ts | [] => [] end.

Lemma dropjunk_len ts : (length (dropjunk ts) <= length ts)%nat.
Proof. induction ts as [|t r IH]; simpl; [lia|]. destruct (junk t); simpl; lia. Qed.

Lemma forallb_skipn {A} (p : A -> bool) k : forall l, forallb p l = true -> forallb p (skipn k l) = true.
Proof.
  induction k as [|k IH]; intros l H; [exact H|]. destruct l as [|x l]; [reflexivity|].
  simpl in *. apply andb_true_iff in H. apply IH. tauto.
Qed.

Lemma dropjunk_plain ts : forallb plain ts = true -> forallb plain (dropjunk ts) = true.
Proof.
  induction ts as [|t r IH]; simpl; intros H; [reflexivity|].
  apply andb_true_iff in H. destruct H as [Ht Hr]. destruct (junk t); [exact (IH Hr)|]. simpl. rewrite Ht, Hr. reflexivity.
Qed.

Section Stream.
  Variable e : token.
  Hypothesis He : is_eof e = true.

  Lemma e_ttype : ttype e = T_EOF.
  Proof. apply PumpTotal.str_eqb_eq. exact He. Qed.

  Lemma e_is ty : is_type ty e = str_eqb T_EOF ty.
  Proof. unfold is_type. rewrite e_ttype. reflexivity. Qed.

  Lemma e_not_junk : junk e = false.
  Proof. unfold junk. rewrite !e_is. reflexivity. Qed.

  (* skip_lf eats line feeds in front: what is left is a suffix with the same first significant token *)
  Lemma skip_lf_spec : forall ts n cnt, (length ts < n)%nat ->
    exists c k, skip_lf n e ts cnt = OK (c, skipn k ts) /\ dropjunk (skipn k ts) = dropjunk ts.
  Proof.
    induction ts as [|t r IH]; intros n cnt Hn; (destruct n; [simpl in Hn; lia|]); cbn [skip_lf s_peek s_next snd].
    - rewrite e_is. cbn. exists cnt, 0%nat. split; reflexivity.
    - destruct (is_type T_LF t) eqn:E.
      + destruct (IH n (cnt + 1)%N) as (c & k & R & D); [simpl in Hn; lia|].
        rewrite R. exists c, (S k). split; [reflexivity|].
        cbn [skipn]. rewrite D. simpl. unfold junk. rewrite E. reflexivity.
      + exists cnt, 0%nat. split; reflexivity.
  Qed.

  (* ReadPeek returns the first token that is no line feed and no comment *)
  Lemma read_peek_spec : forall n ts level lead lf prev,
    (length ts < n)%nat -> forallb plain ts = true ->
    exists m lv, match dropjunk ts with
                 | [] => exists ts1, read_peek n e ts level lead lf prev = OK (m, ts1, lv) /\ mtok m = e
                 | t :: r => read_peek n e ts level lead lf prev = OK (m, r, lv) /\ mtok m = t
                 end.
  Proof.
    induction n as [|n IH]; intros ts level lead lf prev Hn Hpl; [lia|].
    cbn [read_peek]. destruct ts as [|t r]; cbn [s_next].
    - rewrite !e_is. cbn. eexists _, _. exists []. split; reflexivity.
    - pose proof Hpl as Hpl0. simpl in Hpl. apply andb_true_iff in Hpl. destruct Hpl as [Ht Hr].
      unfold plain in Ht. apply andb_true_iff in Ht. destruct Ht as [Hfc Hpr].
      apply negb_true_iff in Hfc, Hpr.
      destruct (is_type T_LF t) eqn:ELF.
      + destruct (skip_lf_spec r n prev) as (c & k & R & D); [simpl in Hn; lia|].
        rewrite R. cbn [bind].
        destruct (IH (skipn k r) level lead true c) as (m & lv & H).
        * pose proof (skipn_length k r). simpl in Hn. lia.
        * apply forallb_skipn. exact Hr.
        * exists m, lv. cbn [dropjunk]. unfold junk at 1. rewrite ELF. cbn [orb]. rewrite <- D. exact H.
      + destruct (is_type T_COMMENT t) eqn:ECM.
        * destruct (IH r level (lead ++ [mkC t lf prev]) lf 0%N) as (m & lv & H); [simpl in Hn; lia | exact Hr|].
          exists m, lv. cbn [dropjunk]. unfold junk at 1. rewrite ELF, ECM. cbn [orb]. exact H.
        * rewrite Hfc, Hpr. cbn [dropjunk]. unfold junk. rewrite ELF, ECM. cbn [orb].
          eexists _, _. split; reflexivity.
  Qed.

  Definition sig (t : token) : bool := negb (junk t).

  Lemma dropjunk_app ts : dropjunk (ts ++ [e]) = match dropjunk ts with [] => [e] | l => l ++ [e] end.
  Proof.
    induction ts as [|t r IH]; simpl.
    - rewrite e_not_junk. reflexivity.
    - destruct (junk t); [exact IH | reflexivity].
  Qed.

  Lemma filter_dropjunk ts : filter sig ts = match dropjunk ts with [] => [] | t :: r => t :: filter sig r end.
  Proof.
    induction ts as [|t r IH]; simpl; [reflexivity|]. unfold sig at 1. destruct (junk t) eqn:E; simpl; [exact IH|].
    reflexivity.
  Qed.

  Lemma dropjunk_hd ts t r : dropjunk ts = t :: r -> junk t = false /\ (length r < length ts)%nat /\
    (forallb plain ts = true -> forallb plain r = true) /\
    (Forall (fun x => is_eof x = false) ts -> is_eof t = false /\ Forall (fun x => is_eof x = false) r).
  Proof.
    induction ts as [|x l IH]; simpl; intros H; [discriminate|].
    destruct (junk x) eqn:E.
    - destruct (IH H) as (A & B & C & D). split; [exact A|]. split; [lia|]. split.
      + intros Hp. apply andb_true_iff in Hp. apply C. tauto.
      + intros Hf. inversion Hf; subst. apply D. assumption.
    - injection H as -> ->. split; [exact E|]. split; [lia|]. split.
      + intros Hp. apply andb_true_iff in Hp. tauto.
      + intros Hf. inversion Hf; subst. auto.
  Qed.

  (* the pump delivers the significant tokens, in order, then the EOF token *)
  Lemma pump_loop_spec : forall k ts outer inner level,
    (length ts <= k)%nat -> (length ts < outer)%nat -> (length ts + 1 < inner)%nat ->
    forallb plain ts = true -> Forall (fun t => is_eof t = false) ts ->
    exists ms, pump_loop outer inner e (ts ++ [e]) level = OK ms /\
               LexParse.to_ptoks ms = map LexParse.conv (filter sig ts).
  Proof.
    induction k as [|k IH]; intros ts outer inner level Hk Ho Hi Hpl Hne.
    - destruct ts; [|simpl in Hk; lia]. destruct outer; [lia|].
      cbn [pump_loop app].
      destruct (read_peek_spec inner [e] level [] false 0%N) as (m & lv & H); [simpl; lia | simpl; unfold plain; rewrite !e_is; reflexivity|].
      simpl dropjunk in H. rewrite e_not_junk in H. destruct H as [R Hm].
      rewrite R. cbn [bind]. rewrite Hm, He. exists [m]. split; [reflexivity|].
      simpl. rewrite Hm, He. reflexivity.
    - destruct outer; [lia|]. cbn [pump_loop].
      assert (Hple : forallb plain (ts ++ [e]) = true).
      { rewrite forallb_app, Hpl. simpl. unfold plain. rewrite !e_is. reflexivity. }
      destruct (read_peek_spec inner (ts ++ [e]) level [] false 0%N) as (m & lv & H); [rewrite app_length; simpl; lia | exact Hple|].
      rewrite dropjunk_app in H. rewrite filter_dropjunk.
      destruct (dropjunk ts) as [|t r] eqn:ED.
      + destruct H as [R Hm]. rewrite R. cbn [bind]. rewrite Hm, He. exists [m]. split; [reflexivity|].
        simpl. rewrite Hm, He. reflexivity.
      + cbn [app] in H. destruct H as [R Hm]. rewrite R. cbn [bind].
        destruct (dropjunk_hd ts t r ED) as (Hj & Hlen & Hp' & Hn').
        destruct (Hn' Hne) as [Hteof Hrne]. rewrite Hm, Hteof.
        destruct (IH r outer inner lv) as (ms & R2 & HT); [lia | lia | lia | exact (Hp' Hpl) | exact Hrne|].
        rewrite R2. exists (m :: ms). split; [reflexivity|].
        simpl. rewrite Hm, Hteof, HT. reflexivity.
  Qed.
End Stream.

(* the parser's tokens of a source text that is a chain of plain tokens *)
Theorem pump_chain s Ps :
  chain s Ps -> (forall P t, In P Ps -> P t -> plain t = true) ->
  exists ts ms, Forall2 (fun P t => P t) Ps ts /\ pump s = OK ms /\
                LexParse.to_ptoks ms = map LexParse.conv (filter sig ts).
Proof.
  intros Hch Hplain. destruct (tokens_chain s Ps Hch) as (ts & e & Htok & HF & He & Hne).
  exists ts. unfold pump. rewrite Htok. cbn [bind]. rewrite rev_app_distr. cbn [rev app].
  assert (Hpl : forallb plain ts = true).
  { clear - HF Hplain. induction HF as [|P t Ps ts HP HF IH]; [reflexivity|]. simpl.
    rewrite (Hplain P t (or_introl eq_refl) HP). apply IH. intros P' t' Hin. apply Hplain. right. exact Hin. }
  unfold pump_all. rewrite app_length. cbn [length].
  destruct (pump_loop_spec e He (length ts) ts (S (length ts + 1)) (S (length ts + 1)) 0%Z) as (ms & R & HT); try lia; try assumption.
  exists ms. split; [exact HF|]. split; [exact R | exact HT].
Qed.
