(* C20 - end to end over the lexer model (C01) and the parser model (C02): the text of a
   generated dictionary lexes into the expected tokens and parses into a table declaration whose
   decoded keys and values are the dictionary's. *)
From Coq Require Import List NArith ZArith Bool Lia Arith.
From Coq Require Import Strings.Byte.
From Falco Require Import Base.Res Base.Bytes Base.Utf8 Proofs.Utf8Proofs Gen.Tokens Model.Lex Model.Pump
  Proofs.LexProgress Proofs.C20Classes Proofs.C20Lex Proofs.C20Chain.
From Falco Require Model.Escape Proofs.EscapeProofs Gen.TokenTypes Model.ParseBase Model.ParseLit Model.Ast Model.Yield
  Model.ParseDecl Model.LexParse Proofs.ParsePratt Proofs.ParseProgram4 Proofs.ParseProgram5.
Import ListNotations.
Local Open Scope N_scope.

Module E := Escape.
Module EP := EscapeProofs.
Module PB := ParseBase.
Module TT := TokenTypes.

(* ---- projections ---- *)
Definition ptok := (str * str * N)%type.
Definition isp (p : ptok) : token -> Prop := fun t => proj t = p.
Definition pconv (p : ptok) : PB.token := PB.Tok (LexParse.ttype_of (fst (fst p))) (enc_all (snd (fst p))) (snd p).
Definition pjunk (p : ptok) : bool := str_eqb (fst (fst p)) T_LF || str_eqb (fst (fst p)) T_COMMENT.
Definition pty_ok (p : ptok) : bool :=
  negb (str_eqb (fst (fst p)) T_EOF) && negb (str_eqb (fst (fst p)) T_FASTLY_CONTROL) && negb (str_eqb (fst (fst p)) T_PRAGMA).

Lemma isp_not_eof p t : pty_ok p = true -> isp p t -> is_eof t = false.
Proof.
  destruct p as [[ty l] o]. unfold pty_ok, isp, proj, is_eof. cbn [fst snd]. intros H E. injection E as E1 _ _. rewrite E1.
  apply andb_true_iff in H. destruct H as [H _]. apply andb_true_iff in H. destruct H as [H _]. apply negb_true_iff in H. exact H.
Qed.

Lemma isp_plain p t : pty_ok p = true -> isp p t -> plain t = true.
Proof.
  destruct p as [[ty l] o]. unfold pty_ok, isp, proj, plain, is_type. cbn [fst snd]. intros H E. injection E as E1 _ _. rewrite E1.
  apply andb_true_iff in H. destruct H as [H H3]. apply andb_true_iff in H. destruct H as [_ H2]. rewrite H2, H3. reflexivity.
Qed.

Lemma forall2_isp ps : forall ts, Forall2 (fun P t => P t) (map isp ps) ts -> map proj ts = ps.
Proof.
  induction ps as [|p ps IH]; intros ts H; inversion H; subst; [reflexivity|].
  simpl. rewrite (IH _ H4). unfold isp in H2. rewrite H2. reflexivity.
Qed.

Lemma conv_proj t : LexParse.conv t = pconv (proj t).
Proof. reflexivity. Qed.

Lemma sig_proj t : sig t = negb (pjunk (proj t)).
Proof. reflexivity. Qed.

Lemma conv_filter ts : map LexParse.conv (filter sig ts) = map pconv (filter (fun p => negb (pjunk p)) (map proj ts)).
Proof.
  induction ts as [|t ts IH]; [reflexivity|]. simpl. rewrite sig_proj.
  destruct (pjunk (proj t)); simpl; [exact IH | rewrite IH, conv_proj; reflexivity].
Qed.

(* a chain of projected steps gives the parser's tokens *)
Theorem ptoks_of_chain s ps :
  chain s (map isp ps) -> forallb pty_ok ps = true ->
  exists ms, pump s = OK ms /\ LexParse.to_ptoks ms = map pconv (filter (fun p => negb (pjunk p)) ps).
Proof.
  intros Hch Hok.
  destruct (pump_chain s (map isp ps) Hch) as (ts & ms & HF & Hp & HT).
  - intros P t Hin HP. apply in_map_iff in Hin. destruct Hin as (p & <- & Hin).
    rewrite forallb_forall in Hok. exact (isp_plain p t (Hok p Hin) HP).
  - exists ms. split; [exact Hp|]. rewrite HT, conv_filter, (forall2_isp ps ts HF). reflexivity.
Qed.

Lemma chain_step seg after p ps :
  seg <> [] -> pty_ok p = true -> step seg after p -> chain after (map isp ps) -> chain (seg ++ after) (map isp (p :: ps)).
Proof.
  intros Hne Hok Hs Hc. cbn [map]. apply ch_cons; [exact Hne | intros t; apply isp_not_eof; exact Hok | exact Hs | exact Hc].
Qed.

Lemma chain_step_eq s seg after p ps :
  s = seg ++ after -> seg <> [] -> pty_ok p = true -> step seg after p -> chain after (map isp ps) ->
  chain s (map isp (p :: ps)).
Proof. intros ->. apply chain_step. Qed.

Ltac seg_eq := cbn [app]; rewrite <- ?app_assoc; cbn [app]; reflexivity.

(* ---- the parser model's escape decoder undoes the quoting ---- *)
Lemma pdecode_step r : valid_scalar r = true -> r <> 0 -> forall n rest,
  ParseLit.dec_esc (S n) (enc_all (EP.qrune r) ++ rest) = ParseLit.pcons (enc_rune r) (ParseLit.dec_esc n rest).
Proof.
  intros Hv Hz n rest. unfold EP.qrune.
  destruct (r =? 37) eqn:E1; [apply N.eqb_eq in E1; subst r; reflexivity|].
  destruct (r =? 34) eqn:E2; [apply N.eqb_eq in E2; subst r; reflexivity|].
  destruct (r =? 10) eqn:E3; [apply N.eqb_eq in E3; subst r; reflexivity|].
  destruct (r =? 13) eqn:E4; [apply N.eqb_eq in E4; subst r; reflexivity|].
  unfold enc_all. cbn [flat_map]. rewrite app_nil_r.
  cbn [ParseLit.dec_esc]. pose proof (enc_rune_len r) as Hl.
  destruct (enc_rune r ++ rest) eqn:E.
  { destruct (enc_rune r); [simpl in Hl; lia | discriminate]. }
  rewrite <- E. rewrite (dec_enc_rune r _ Hv). rewrite EP.skipn_app_len.
  replace (r =? 0) with false by lia. rewrite E1. reflexivity.
Qed.

Lemma pdecode_quoted rs : forall n,
  forallb valid_scalar rs = true -> forallb (fun r => negb (r =? 0)) rs = true ->
  (length rs < n)%nat ->
  ParseLit.dec_esc n (enc_all (flat_map EP.qrune rs)) = PB.POK (enc_all rs).
Proof.
  induction rs as [|r rs IH]; intros n Hv Hz Hn.
  - destruct n; [simpl in Hn; lia|]. reflexivity.
  - simpl in Hv, Hz. apply andb_true_iff in Hv. destruct Hv as [Hr Hrs]. apply andb_true_iff in Hz. destruct Hz as [Hz Hzs].
    destruct n; [simpl in Hn; lia|].
    cbn [flat_map]. rewrite EP.enc_all_app. rewrite (pdecode_step r Hr ltac:(lia)).
    rewrite IH; [reflexivity | exact Hrs | exact Hzs | simpl in Hn; lia].
Qed.

Theorem pdecode_escape s : EP.no_nul s -> EP.valid_utf8 s -> ParseLit.decode_escapes (E.vcl_quote s) = PB.POK s.
Proof.
  intros Hn (rs & Hv & ->). unfold ParseLit.decode_escapes.
  pose proof (EP.length_quote_ge (enc_all rs)) as H1. pose proof (EP.length_enc_all_ge rs) as H2.
  rewrite (EP.quote_enc_all rs Hv) in *.
  apply pdecode_quoted; [exact Hv | apply EP.nonzero_runes; exact Hn | lia].
Qed.

(* ---- the quoted text as the runes the lexer reads ---- *)
Definition qrunes (s : list byte) : str := flat_map EP.qrune (dec_all s).

Lemma text_runes s : EP.text_ok s ->
  forallb valid_scalar (dec_all s) = true /\ s = enc_all (dec_all s) /\
  forallb (fun r => negb (r =? 0)) (dec_all s) = true.
Proof.
  intros [Hn (rs & Hv & ->)]. rewrite (dec_enc_all rs Hv). split; [exact Hv|]. split; [reflexivity|].
  apply EP.nonzero_runes. exact Hn.
Qed.

Lemma quote_runes s : EP.text_ok s -> E.vcl_quote s = enc_all (qrunes s).
Proof.
  intros H. destruct (text_runes s H) as (Hv & He & _). unfold qrunes. rewrite He at 1. apply EP.quote_enc_all. exact Hv.
Qed.

Lemma qrunes_body s : EP.text_ok s -> forallb body_ok (qrunes s) = true.
Proof.
  intros H. destruct (text_runes s H) as (Hv & _ & Hz). unfold qrunes.
  pose proof (EP.qrunes_ok (dec_all s) Hv Hz) as Hq. apply forallb_forall. intros q Hin.
  rewrite forallb_forall in Hq. specialize (Hq q Hin). unfold EP.qok in Hq. unfold body_ok; cls.
  repeat (apply andb_true_iff in Hq; destruct Hq as [Hq ?]). rewrite Hq. cbn [andb]. 
  apply andb_true_iff. split; assumption.
Qed.

(* ---- steps of the dictionary template ---- *)
Ltac starter_tac := split; [unfold ascii; cbn; lia | reflexivity].

Lemma step_lf after : step [x0a] after (T_LF, [10], 0).
Proof. apply (step_of_cstep [] [x0a] after); [reflexivity | cbn; starter_tac | apply cstep_lf]. Qed.

Lemma step_string ws qs after : forallb blank ws = true -> forallb body_ok qs = true ->
  step (ws ++ x22 :: enc_all qs ++ [x22]) after (T_STRING, qs, 2).
Proof.
  intros Hws Hq. apply (step_of_cstep ws (x22 :: enc_all qs ++ [x22]) after); [exact Hws | cbn; starter_tac | apply cstep_string; exact Hq].
Qed.

Lemma step_colon after : step [x3a] after (T_COLON, [58], 0).
Proof. apply (step_of_cstep [] [x3a] after); [reflexivity | cbn; starter_tac | apply cstep_colon]. Qed.
Lemma step_comma after : step [x2c] after (T_COMMA, [44], 0).
Proof. apply (step_of_cstep [] [x2c] after); [reflexivity | cbn; starter_tac | apply cstep_comma]. Qed.
Lemma step_semi ws after : forallb blank ws = true -> step (ws ++ [x3b]) after (T_SEMICOLON, [59], 0).
Proof. intros H. apply (step_of_cstep ws [x3b] after); [exact H | cbn; starter_tac | apply cstep_semi]. Qed.
Lemma step_rbrace ws after : forallb blank ws = true -> step (ws ++ [x7d]) after (T_RIGHT_BRACE, [125], 0).
Proof. intros H. apply (step_of_cstep ws [x7d] after); [exact H | cbn; starter_tac | apply cstep_rbrace]. Qed.
Lemma step_lbrace ws c t : forallb blank ws = true -> is_delim (b2n c) = false -> b2n c <> 34 ->
  step (ws ++ [x7b]) (c :: t) (T_LEFT_BRACE, [123], 0).
Proof. intros H Hd Hq. apply (step_of_cstep ws [x7b] (c :: t)); [exact H | cbn; starter_tac | apply cstep_lbrace; assumption]. Qed.

Lemma step_ident ws name after : forallb blank ws = true -> name_ok name = true -> id_end after ->
  step (ws ++ name) after (lookup_ident (map b2n name), map b2n name, 0).
Proof.
  intros H Hn He. apply (step_of_cstep ws name after); [exact H | | apply cstep_ident; assumption].
  unfold name_ok in Hn. apply andb_true_iff in Hn. destruct Hn as [Hn _]. apply andb_true_iff in Hn. destruct Hn as [Hid Hf].
  destruct name as [|c nm]; [discriminate|]. cbn [app]. split.
  - apply idchar_ascii. simpl in Hid. apply andb_true_iff in Hid. tauto.
  - unfold letterb in Hf; cls in Hf. cls. lia.
Qed.

(* one item:  LF  sp sp "k"  :  sp "v"  ,  *)
Definition item_ps (k v : list byte) : list ptok :=
  [(T_LF, [10], 0); (T_STRING, qrunes k, 2); (T_COLON, [58], 0); (T_STRING, qrunes v, 2); (T_COMMA, [44], 0)].

Lemma render_item_segs k v : EP.text_ok k -> EP.text_ok v ->
  E.render_item E.vcl_quote (k, v) =
  [x0a] ++ ([x20; x20] ++ x22 :: enc_all (qrunes k) ++ [x22]) ++ [x3a] ++ ([x20] ++ x22 :: enc_all (qrunes v) ++ [x22]) ++ [x2c].
Proof.
  intros Hk Hv. unfold E.render_item. cbn [fst snd]. rewrite (quote_runes k Hk), (quote_runes v Hv).
  cbn [app]. rewrite <- !app_assoc. reflexivity.
Qed.

Lemma chain_item k v tail ps : EP.text_ok k -> EP.text_ok v -> chain tail (map isp ps) ->
  chain (E.render_item E.vcl_quote (k, v) ++ tail) (map isp (item_ps k v ++ ps)).
Proof.
  intros Hk Hv Hc. rewrite (render_item_segs k v Hk Hv). unfold item_ps. cbn [app].
  eapply (chain_step_eq _ [x0a]); [seg_eq | discriminate | reflexivity | apply step_lf|].
  eapply (chain_step_eq _ ([x20; x20] ++ x22 :: enc_all (qrunes k) ++ [x22]));
    [seg_eq | discriminate | reflexivity | apply step_string; [reflexivity | apply qrunes_body; exact Hk]|].
  eapply (chain_step_eq _ [x3a]); [seg_eq | discriminate | reflexivity | apply step_colon|].
  eapply (chain_step_eq _ ([x20] ++ x22 :: enc_all (qrunes v) ++ [x22]));
    [seg_eq | discriminate | reflexivity | apply step_string; [reflexivity | apply qrunes_body; exact Hv]|].
  eapply (chain_step_eq _ [x2c]); [seg_eq | discriminate | reflexivity | apply step_comma|].
  exact Hc.
Qed.

Lemma chain_items items : forall tail ps,
  Forall (fun kv => EP.text_ok (fst kv) /\ EP.text_ok (snd kv)) items -> chain tail (map isp ps) ->
  chain (flat_map (E.render_item E.vcl_quote) items ++ tail) (map isp (flat_map (fun kv => item_ps (fst kv) (snd kv)) items ++ ps)).
Proof.
  induction items as [|[k v] items IH]; intros tail ps H Hc; [exact Hc|].
  inversion H as [|? ? [Hk Hv] Hrest]; subst. cbn [flat_map fst snd].
  rewrite <- !app_assoc. apply chain_item; [exact Hk | exact Hv|]. apply IH; assumption.
Qed.

(* ---- the whole dictionary ---- *)
Definition b_table : list byte := [x74; x61; x62; x6c; x65].
Definition b_STRING : list byte := [x53; x54; x52; x49; x4e; x47].
Definition tail_ps : list ptok := [(T_LF, [10], 0); (T_RIGHT_BRACE, [125], 0); (T_LF, [10], 0)].

Definition dict_ps (name : list byte) (items : list (list byte * list byte)) : list ptok :=
  [(T_LF, [10], 0); (T_TABLE, map b2n b_table, 0); (T_IDENT, map b2n name, 0); (T_IDENT, map b2n b_STRING, 0);
   (T_LEFT_BRACE, [123], 0)] ++ flat_map (fun kv => item_ps (fst kv) (snd kv)) items ++ tail_ps.

(* a dictionary / ACL name: letters, digits, underscores, a letter first, no keyword *)
Definition ident_name (name : list byte) : Prop :=
  name_ok name = true /\ lookup_ident (map b2n name) = T_IDENT.

Lemma id_end_space t : id_end (x20 :: t).
Proof. cbn. repeat split; try reflexivity; try (unfold ascii; cbn; lia); cbn; lia. Qed.

Lemma chain_tail : chain [x0a; x7d; x0a] (map isp tail_ps).
Proof.
  unfold tail_ps.
  eapply (chain_step_eq _ [x0a]); [seg_eq | discriminate | reflexivity | apply step_lf|].
  eapply (chain_step_eq _ ([] ++ [x7d])); [seg_eq | discriminate | reflexivity | apply step_rbrace; reflexivity|].
  eapply (chain_step_eq _ [x0a] []); [seg_eq | discriminate | reflexivity | apply step_lf|].
  apply ch_nil.
Qed.

Lemma items_head items tl : exists t, flat_map (E.render_item E.vcl_quote) items ++ x0a :: tl = x0a :: t.
Proof. destruct items as [|[k v] items]; [eexists; reflexivity|]. cbn [flat_map]. unfold E.render_item. cbn [app]. eexists. reflexivity. Qed.

Theorem chain_dict name items :
  ident_name name -> Forall (fun kv => EP.text_ok (fst kv) /\ EP.text_ok (snd kv)) items ->
  chain (E.render_dict name items) (map isp (dict_ps name items)).
Proof.
  intros [Hn Hl] Hit. unfold E.render_dict, E.render_dict_with, E.bs_table_open, E.bs_close, dict_ps. cbn [app].
  eapply (chain_step_eq _ [x0a]); [seg_eq | discriminate | reflexivity | apply step_lf|].
  eapply (chain_step_eq _ ([] ++ b_table) (x20 :: _)); [seg_eq | discriminate | reflexivity | |].
  { exact (step_ident [] b_table _ eq_refl eq_refl (id_end_space _)). }
  eapply (chain_step_eq _ ([x20] ++ name) (x20 :: _)); [seg_eq | | reflexivity | |].
  { destruct name; [discriminate Hn | discriminate]. }
  { rewrite <- Hl. apply step_ident; [reflexivity | exact Hn | apply id_end_space]. }
  eapply (chain_step_eq _ ([x20] ++ b_STRING) (x20 :: _)); [seg_eq | discriminate | reflexivity | |].
  { exact (step_ident [x20] b_STRING _ eq_refl eq_refl (id_end_space _)). }
  destruct (items_head items [x7d; x0a]) as (t & Ht).
  eapply (chain_step_eq _ ([x20] ++ [x7b]) (x0a :: t)); [cbn [app]; rewrite <- Ht; reflexivity | discriminate | reflexivity | |].
  { apply step_lbrace; [reflexivity | reflexivity | cbn; lia]. }
  rewrite <- Ht. apply chain_items; [exact Hit | apply chain_tail].
Qed.

(* ---- the parser's tokens and the table declaration ---- *)
Lemma enc_all_ascii l : Forall ascii l -> enc_all (map b2n l) = l.
Proof.
  induction l as [|b l IH]; intros H; [reflexivity|]. inversion H; subst.
  cbn [map]. change (enc_all (b2n b :: map b2n l)) with (enc_rune (b2n b) ++ enc_all (map b2n l)).
  rewrite (IH H3). rewrite EP.enc_rune_low by exact H2. rewrite n2b_b2n. reflexivity.
Qed.

Lemma name_ascii name : name_ok name = true -> Forall ascii name.
Proof.
  unfold name_ok. intros H. apply andb_true_iff in H. destruct H as [H _]. apply andb_true_iff in H. destruct H as [H _].
  apply forall_idchar_ascii. exact H.
Qed.

Definition tk_table : PB.token := PB.Tok TT.T_TABLE b_table 0.
Definition tk_ident (n : list byte) : PB.token := PB.Tok TT.T_IDENT n 0.
Definition tk_lbrace : PB.token := PB.Tok TT.T_LEFT_BRACE [x7b] 0.
Definition tk_rbrace : PB.token := PB.Tok TT.T_RIGHT_BRACE [x7d] 0.
Definition tk_colon : PB.token := PB.Tok TT.T_COLON [x3a] 0.
Definition tk_comma : PB.token := PB.Tok TT.T_COMMA [x2c] 0.
Definition tk_string (s : list byte) : PB.token := PB.Tok TT.T_STRING (E.vcl_quote s) 2.

Definition item_prop (kv : list byte * list byte) : Ast.tprop :=
  Ast.TProp (Ast.EString (tk_string (fst kv)) (fst kv)) tk_colon (Ast.EString (tk_string (snd kv)) (snd kv)) (Some tk_comma).

Definition dict_decl (name : list byte) (items : list (list byte * list byte)) : Ast.stmt :=
  Ast.DTable tk_table (tk_ident name) (Some (tk_ident b_STRING)) tk_lbrace (map item_prop items) tk_rbrace.

Definition nj (p : ptok) : bool := negb (pjunk p).

Lemma filter_item k v rest :
  filter nj (item_ps k v ++ rest) =
  (T_STRING, qrunes k, 2) :: (T_COLON, [58], 0) :: (T_STRING, qrunes v, 2) :: (T_COMMA, [44], 0) :: filter nj rest.
Proof. reflexivity. Qed.

Lemma ptoks_items items : Forall (fun kv => EP.text_ok (fst kv) /\ EP.text_ok (snd kv)) items ->
  map pconv (filter nj (flat_map (fun kv => item_ps (fst kv) (snd kv)) items)) =
  flat_map Yield.ytprop (map item_prop items).
Proof.
  induction items as [|[k v] items IH]; intros H; [reflexivity|]. inversion H as [|? ? [Hk Hv] Hr]; subst.
  cbn [flat_map map fst snd]. rewrite filter_item. cbn [map]. rewrite (IH Hr).
  unfold item_prop at 1. cbn [Yield.ytprop Yield.yexpr Yield.ytok app fst snd].
  unfold pconv. cbn [fst snd]. rewrite <- (quote_runes k Hk), <- (quote_runes v Hv). reflexivity.
Qed.

Lemma filter_head (name : list byte) rest :
  filter nj ((T_LF, [10], 0) :: (T_TABLE, map b2n b_table, 0) :: (T_IDENT, map b2n name, 0) ::
             (T_IDENT, map b2n b_STRING, 0) :: (T_LEFT_BRACE, [123], 0) :: rest) =
  (T_TABLE, map b2n b_table, 0) :: (T_IDENT, map b2n name, 0) :: (T_IDENT, map b2n b_STRING, 0) :: (T_LEFT_BRACE, [123], 0)
  :: filter nj rest.
Proof. reflexivity. Qed.

Lemma ptoks_dict name items : ident_name name ->
  Forall (fun kv => EP.text_ok (fst kv) /\ EP.text_ok (snd kv)) items ->
  map pconv (filter nj (dict_ps name items)) = Yield.ystmt (dict_decl name items).
Proof.
  intros [Hn _] Hit. unfold dict_ps, dict_decl. cbn [Yield.ystmt Yield.ytok app].
  rewrite filter_head, filter_app. cbn [map]. rewrite map_app, (ptoks_items items Hit).
  unfold pconv at 1 2 3 4. cbn [fst snd].
  rewrite (enc_all_ascii name (name_ascii name Hn)).
  reflexivity.
Qed.

(* the dictionary as a canonical program of the parser model *)
Lemma dict_canonical fok name items :
  Forall (fun kv => EP.text_ok (fst kv) /\ EP.text_ok (snd kv)) items ->
  ParseProgram5.cprog fok [dict_decl name items].
Proof.
  intros Hit. cbn [ParseProgram5.cprog]. split; [|exact I].
  unfold dict_decl. cbn [ParseProgram5.cdeclx]. repeat split; try reflexivity.
  induction items as [|[k v] items IH]; [exact I|]. inversion Hit as [|? ? [[Hk1 Hk2] [Hv1 Hv2]] Hr]; subst.
  cbn [map ParseProgram4.ctprops]. split; [|exact (IH Hr)].
  unfold item_prop. cbn [ParseProgram4.ctprop ParseProgram4.ckey ParseProgram4.ctval fst snd].
  unfold ParsePratt.string_value, tk_string. cbn [PB.off PB.lit PB.typ].
  rewrite (pdecode_escape k Hk1 Hk2), (pdecode_escape v Hv1 Hv2). repeat split; reflexivity.
Qed.

(* what the parsed program says *)
Definition prop_kv (p : Ast.tprop) : list byte * list byte :=
  match p with
  | Ast.TProp (Ast.EString _ k) _ (Ast.EString _ x) _ => (k, x)
  | _ => ([], [])
  end.
Definition items_of (v : Ast.vcl) : list (list byte * list byte) :=
  match Ast.vstmts v with
  | [Ast.DTable _ _ _ _ ps _] => map prop_kv ps
  | _ => []
  end.
Lemma prop_kv_items items : map prop_kv (map item_prop items) = items.
Proof. induction items as [|[k v] items IH]; [reflexivity|]. cbn [map item_prop prop_kv fst snd]. rewrite IH. reflexivity. Qed.
Definition table_name_of (v : Ast.vcl) : list byte :=
  match Ast.vstmts v with [Ast.DTable _ nm _ _ _ _] => PB.lit nm | _ => [] end.

Theorem table_parses_real fok name items :
  ident_name name -> Forall (fun kv => EP.text_ok (fst kv) /\ EP.text_ok (snd kv)) items ->
  exists v, LexParse.parse_source fok LexParse.MVcl (E.render_dict name items) = PB.POK v /\
            items_of v = items /\ table_name_of v = name /\ Ast.vstmts v = [dict_decl name items].
Proof.
  intros Hn Hit.
  destruct (ptoks_of_chain _ _ (chain_dict name items Hn Hit)) as (ms & Hp & HT).
  { unfold dict_ps. rewrite !forallb_app. cbn [forallb]. 
    assert (Hi : forallb pty_ok (flat_map (fun kv => item_ps (fst kv) (snd kv)) items) = true).
    { clear. induction items as [|[k v] items IH]; [reflexivity|]. cbn [flat_map]. rewrite forallb_app, IH. reflexivity. }
    rewrite Hi. reflexivity. }
  exists (Ast.Vcl [dict_decl name items] false). unfold LexParse.parse_source. rewrite Hp. unfold LexParse.parse_mode.
  change (fun p => negb (pjunk p)) with nj in HT. rewrite HT, (ptoks_dict name items Hn Hit).
  pose proof (ParseProgram5.program_roundtrip fok [dict_decl name items] (dict_canonical fok name items Hit)) as R.
  cbn [flat_map] in R. rewrite app_nil_r in R. rewrite R.
  split; [reflexivity|]. split; [|split; reflexivity].
  unfold items_of, dict_decl. cbn [Ast.vstmts]. apply prop_kv_items.
Qed.
