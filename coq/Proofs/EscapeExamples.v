(* C20 - witnesses: the templates before the repair (values interpolated as they are) do not
   round-trip; concrete non-trivial instances of the theorems' hypotheses. *)
From Coq Require Import List NArith Bool String.
From Coq Require Import Strings.Byte.
From Falco Require Import Base.Res Base.Bytes Base.Utf8 Model.Escape Proofs.EscapeProofs.
Import ListNotations.
Local Open Scope string_scope.

Definition bs (s : string) : bytes := list_byte_of_string s.

(* a%20b as a dictionary key is decoded to `a b` by the parser *)
Lemma unquoted_refuted_percent :
  exists name items, parse_table (render_dict_raw name items) <> OK items /\
                     parse_table (render_dict_raw name items) = OK [(bs "a b", bs "v")].
Proof. exists (bs "d"), [(bs "a%20b", bs "v")]. split; vm_compute; [discriminate | reflexivity]. Qed.

(* a value containing a double quote makes the generated table unparsable *)
Lemma unquoted_refuted_dquote :
  exists name items, parse_table (render_dict_raw name items) = Err.
Proof. exists (bs "d"), [(bs "k", bs "say ""hi""")]. vm_compute. reflexivity. Qed.

(* a line feed in an ACL comment: the rest of the comment is on a line of its own *)
Lemma raw_comment_refuted :
  exists e, count_occ Byte.byte_eq_dec (render_entry_with (fun c => c) e) c_lf = 2%nat /\
            count_occ Byte.byte_eq_dec (render_entry_with clean_comment e) c_lf = 1%nat.
Proof.
  exists {| a_neg := true; a_ip := bs "192.0.2.0"; a_mask := Some 24%N; a_comment := (bs "office" ++ [c_lf] ++ bs """6.6.6.6"";")%list |}.
  split; vm_compute; reflexivity.
Qed.

(* the same inputs through the repaired rendering *)
Example quoted_witness :
  parse_table (render_dict (bs "d") [(bs "a%20b", bs "say ""hi"""); (bs "100%", (bs "x" ++ [c_lf] ++ bs "y{}")%list); (bs "", bs "")])
  = OK [(bs "a%20b", bs "say ""hi"""); (bs "100%", (bs "x" ++ [c_lf] ++ bs "y{}")%list); (bs "", bs "")].
Proof. vm_compute. reflexivity. Qed.

Example text_ok_witness : text_ok (bs "a%20b""" ++ enc_all [233%N; 26085%N; 128512%N])%list.
Proof.
  split.
  - unfold no_nul. vm_compute. intros H. repeat (destruct H as [H|H]; [discriminate H|]). exact H.
  - exists ([97; 37; 50; 48; 98; 34; 233; 26085; 128512]%N). split; vm_compute; reflexivity.
Qed.

Example render_witness :
  render_director (bs "my-dir") 1 3 50 [bs "my-backend"; bs "b.2"] =
  ([c_lf] ++ bs "director my_dir random {" ++ [c_lf; x09] ++ bs ".retries = 3;" ++
   [c_lf; x09] ++ bs ".quorum = 50%;" ++
   [c_lf; x09] ++ bs "{ .backend = F_my_backend; .weight = 1; }" ++
   [c_lf; x09] ++ bs "{ .backend = F_b_2; .weight = 1; }" ++ [c_lf] ++ bs "}" ++ [c_lf])%list.
Proof. vm_compute. reflexivity. Qed.
