(* A position designates a place of its source line: if the text at (l, c) starts with txt, then
   line l of the source consists of c - 1 characters followed by the rest of the line from that
   place on, which begins with txt (up to the end of the line). *)
From Coq Require Import List NArith Bool Lia Arith.
From Falco Require Import Base.Bytes Base.Utf8 Model.Lex Model.LexSpec Model.LexLines.
Import ListNotations.
Local Open Scope N_scope.

Lemma split_head : forall rest cur, nth_error (split_lines rest cur) 0 = Some (rev cur ++ line_head rest).
Proof.
  induction rest as [|r t IH]; intros cur; cbn [split_lines line_head].
  - rewrite app_nil_r. reflexivity.
  - destruct (r =? 10).
    + rewrite app_nil_r. reflexivity.
    + rewrite IH. cbn [rev]. rewrite <- app_assoc. reflexivity.
Qed.

Lemma split_at : forall pre rest cur l0 l c,
  fold_left advance pre (l0, N.of_nat (length cur) + 1) = (l, c) ->
  l0 <= l /\
  exists a, nth_error (split_lines (pre ++ rest) cur) (N.to_nat (l - l0)) = Some (a ++ line_head rest) /\
            N.of_nat (length a) + 1 = c.
Proof.
  induction pre as [|r p IH]; intros rest cur l0 l c H.
  - cbn in H. injection H as <- <-. split; [lia|].
    rewrite N.sub_diag. cbn [N.to_nat app]. exists (rev cur). split; [apply split_head|].
    rewrite rev_length. reflexivity.
  - cbn [fold_left app split_lines] in *. unfold advance at 2 in H. cbn [fst snd] in H.
    destruct (r =? 10) eqn:E.
    + destruct (IH rest [] (l0 + 1) l c) as (Hle & a & Hn & Hc); [exact H|].
      split; [lia|]. exists a. split; [|exact Hc].
      replace (N.to_nat (l - l0)) with (S (N.to_nat (l - (l0 + 1)))) by lia. exact Hn.
    + destruct (IH rest (r :: cur) l0 l c) as (Hle & a & Hn & Hc).
      { cbn [length]. replace (N.of_nat (S (length cur)) + 1) with (N.of_nat (length cur) + 1 + 1) by lia. exact H. }
      split; [exact Hle|]. exists a. auto.
Qed.

Theorem get_line_spec rs l c txt :
  at_text rs (l, c) txt ->
  exists a suf, get_line rs l = Some (a ++ line_head (txt ++ suf)) /\ N.of_nat (length a) + 1 = c /\ 1 <= l.
Proof.
  intros (pre & suf & -> & Hp). unfold end_pos in Hp.
  destruct (split_at pre (txt ++ suf) [] 1 l c Hp) as (Hle & a & Hn & Hc).
  exists a, suf. unfold get_line. replace (l =? 0) with false by (symmetry; apply N.eqb_neq; lia).
  auto.
Qed.

From Falco Require Import Base.Res Gen.Tokens Proofs.LexLocated.

(* for the tokens of the lexer whose surface form is their literal: the token's line, after
   (column - 1) characters, continues with the token's literal *)
Theorem token_line_spec s ts t :
  tokens s = OK ts -> In t ts -> plain_b (ttype t) = true ->
  exists a suf, get_line (dec_all s) (tline t) = Some (a ++ line_head (tlit t ++ suf)) /\
                N.of_nat (length a) + 1 = tpos t.
Proof.
  intros T Hin Hp. pose proof (lex_located s ts t T Hin) as D.
  unfold designates, is_eof in D. unfold plain_b in Hp.
  repeat (apply andb_true_iff in Hp as [Hp ?]).
  repeat match goal with H : negb _ = true |- _ => apply negb_true_iff in H end.
  rewrite Hp, H1, H0, H in D. destruct D as [_ A].
  destruct (get_line_spec _ _ _ _ A) as (a & suf & G & C & _). eauto.
Qed.

Example get_line_example :
  get_line [97; 98; 10; 32; 32; 99; 100; 10] 2 = Some [32; 32; 99; 100]
  /\ get_line [97; 10] 2 = Some [] /\ get_line [97; 10] 3 = None /\ get_line [] 1 = Some [].
Proof. vm_compute. repeat split. Qed.
