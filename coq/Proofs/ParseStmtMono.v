(* More fuel never changes a result of the statement cluster that is not "out of fuel". *)
From Coq Require Import String.
From Coq Require Import List NArith ZArith Bool Lia.
From Falco Require Import Base.Bytes Gen.TokenTypes Model.ParseKinds Gen.ParserTables
  Model.ParseBase Model.Ast Model.ParseLit Model.ParseExpr Model.ParseStmt Proofs.ParseExprMono.
Import ListNotations.
Local Open Scope parse_scope.

Section M.
Variable fok : str -> bool.

Definition F_stmt (rb : pstate -> pres (blockr * pstate)) (rif rsw : pstate -> pres (stmt * pstate)) (st0 : pstate) :=
  let st := next st0 in
  match psimple fok st with
  | Some r => r
  | None =>
    match typ (cur st) with
    | T_LEFT_BRACE => do (b, st') <- rb st; let '(lb, ss, rb) := b in POK (SBlock lb ss rb, st')
    | T_IF => rif st
    | T_SWITCH => rsw st
    | T_BREAK => pkw_semi SBreak st
    | T_FALLTHROUGH => pkw_semi SFallthrough st
    | T_IDENT =>
        if peek_is st T_LEFT_PAREN then pfuncall fok st
        else match pgotodest st with Some r => POK r | None => err_cur E_unexpected st end
    | _ => err_cur E_unexpected st
    end
  end.

Definition F_block (rl : pstate -> list stmt -> pres (list stmt * pstate)) (st : pstate) : pres (blockr * pstate) :=
  do (ss, st1) <- rl st []; let st2 := next st1 in POK ((cur st, ss, cur st2), st2).

Definition F_loop (rs : pstate -> pres (stmt * pstate)) (rl : pstate -> list stmt -> pres (list stmt * pstate)) st acc :=
  if peek_is st T_RIGHT_BRACE then POK (rev acc, st)
  else do (s, st1) <- rs st;
       if is_break_or_fallthrough s then err_prev E_unexpected st1 else rl st1 (s :: acc).

Definition F_cond {A} (rb : pstate -> pres (blockr * pstate)) (k : pstate -> token -> expr -> token -> blockr -> pstate -> pres A) st :=
  do st1 <- expect st T_LEFT_PAREN;
  do (c, st2) <- parse_expr fok P_LOWEST (next st1);
  do st3 <- expect st2 T_RIGHT_PAREN;
  do st4 <- expect st3 T_LEFT_BRACE;
  do (b, st5) <- rb st4;
  k st (cur st1) c (cur st3) b st5.

Lemma pstmt_F n st0 : pstmt fok (S n) st0 = F_stmt (pblock fok n) (pif fok n) (pswitch fok n) st0.
Proof. reflexivity. Qed.
Lemma pblock_F n st : pblock fok (S n) st = F_block (pblock_loop fok n) st.
Proof. reflexivity. Qed.
Lemma ploop_F n st acc : pblock_loop fok (S n) st acc = F_loop (pstmt fok n) (pblock_loop fok n) st acc.
Proof. reflexivity. Qed.
Lemma pif_F n st :
  pif fok (S n) st =
  F_cond (pblock fok n) (fun st lp c rp b st5 =>
    let '(lb, ss, rb) := b in
    do (r, st6) <- pif_chain fok n st5 [];
    POK (SIf (cur st) lp c rp lb ss rb (fst r) (snd r), st6)) st.
Proof. reflexivity. Qed.
Lemma pelif_F n k1 k2 st :
  pelif fok (S n) k1 k2 st =
  F_cond (pblock fok n) (fun st lp c rp b st5 => let '(lb, ss, rb) := b in POK (Elif k1 k2 lp c rp lb ss rb, st5)) st.
Proof. reflexivity. Qed.

Definition F_chain (rel : token -> option token -> pstate -> pres (elif * pstate))
  (rb : pstate -> pres (blockr * pstate))
  (rc : pstate -> list elif -> pres ((list elif * option (token * token * list stmt * token)) * pstate)) st acc :=
  match typ (peek st) with
  | T_ELSE =>
      let st1 := next st in
      if peek_is st1 T_IF then
        let st2 := next st1 in
        do (e, st3) <- rel (cur st1) (Some (cur st2)) st2; rc st3 (e :: acc)
      else
        do st2 <- expect st1 T_LEFT_BRACE;
        do (b, st3) <- rb st2;
        let '(lb, ss, rb) := b in POK ((rev acc, Some (cur st1, lb, ss, rb)), st3)
  | T_ELSEIF | T_ELSIF =>
      let st1 := next st in
      do (e, st2) <- rel (cur st1) None st1; rc st2 (e :: acc)
  | _ => POK ((rev acc, None), st)
  end.
Lemma pchain_F n st acc : pif_chain fok (S n) st acc = F_chain (pelif fok n) (pblock fok n) (pif_chain fok n) st acc.
Proof. reflexivity. Qed.

Definition F_switch (rcs : pstate -> list scase -> Z -> pres ((list scase * Z) * pstate)) st :=
  do st1 <- expect st T_LEFT_PAREN;
  let st2 := next st1 in
  do (ctl, st3) <-
    (if peek_is st2 T_LEFT_PAREN then pcallexpr fok (cur st2) (next st2)
     else if cur_is st2 T_IDENT then POK (EIdent (cur st2), st2)
     else if negb (cur_is st2 T_TRUE) && negb (cur_is st2 T_FALSE) && negb (cur_is st2 T_STRING)
          then err_cur E_unexpected st2
     else parse_expr fok P_LOWEST st2);
  do st4 <- expect st3 T_RIGHT_PAREN;
  do st5 <- expect st4 T_LEFT_BRACE;
  do (r, st6) <- rcs st5 [] (-1)%Z;
  let '(cases, dflt) := r in
  match rev cases with
  | [] => err_peek E_empty_switch st6
  | Case _ _ body _ :: _ =>
    match rev body with
    | [] => PCrash
    | ls :: _ =>
      if is_fallthrough ls then err_prev E_final_fallthrough st6
      else
        let st7 := next st6 in
        POK (SSwitch (cur st) (cur st1) ctl (cur st4) (cur st5) cases dflt (cur st7), st7)
    end
  end.
Lemma pswitch_F n st : pswitch fok (S n) st = F_switch (pcases fok n) st.
Proof. reflexivity. Qed.

Definition F_cases (rca : pstate -> pres (scase * pstate)) (rcs : pstate -> list scase -> Z -> pres ((list scase * Z) * pstate)) st acc dflt :=
  if peek_is st T_RIGHT_BRACE then POK ((rev acc, dflt), st)
  else
    let st1 := next st in
    do (cl, st2) <- rca st1;
    do dflt' <-
      (if is_default cl then
         (if negb (dflt =? -1)%Z then err_cur E_multi_default st1
          else POK (Z.of_nat (length acc)))
       else POK dflt);
    if existsb (dup_case cl) acc then err_peek E_dup_case st1
    else rcs st2 (cl :: acc) dflt'.
Lemma pcases_F n st acc d : pcases fok (S n) st acc d = F_cases (pcase fok n) (pcases fok n) st acc d.
Proof. reflexivity. Qed.

Definition F_case (rcb : pstate -> list stmt -> pres (list stmt * pstate)) st :=
  do (h, st1) <-
    match typ (cur st) with
    | T_CASE =>
        let s := next st in
        match typ (cur s) with
        | T_STRING => do (e, s') <- parse_expr fok P_LOWEST s; POK (CCase (cur st) (CTEq e), s')
        | T_REGEX_MATCH =>
            do (e, s') <- parse_expr fok P_PREFIX (next s); POK (CCase (cur st) (CTRegex (cur s) e), s')
        | _ => err_cur E_unexpected s
        end
    | T_DEFAULT => POK (CDefault (cur st), st)
    | _ => err_cur E_unexpected st
    end;
  match expect_peek st1 T_COLON with
  | None => err_cur E_missing_colon st1
  | Some st2 =>
    do (body, st3) <- rcb st2 [];
    match prev_is st3 T_BREAK with
    | None => PCrash
    | Some true => POK (Case h (cur st2) body false, st3)
    | Some false =>
      match prev_is st3 T_FALLTHROUGH with
      | Some true => POK (Case h (cur st2) body true, st3)
      | _ => err_prev E_unexpected st3
      end
    end
  end.
Lemma pcase_F n st : pcase fok (S n) st = F_case (pcase_body fok n) st.
Proof. reflexivity. Qed.

Definition F_body (rs : pstate -> pres (stmt * pstate)) (rcb : pstate -> list stmt -> pres (list stmt * pstate)) st acc :=
  if peek_is st T_CASE || peek_is st T_DEFAULT || peek_is st T_RIGHT_BRACE then POK (rev acc, st)
  else do (s, st1) <- rs st; rcb st1 (s :: acc).
Lemma pbody_F n st acc : pcase_body fok (S n) st acc = F_body (pstmt fok n) (pcase_body fok n) st acc.
Proof. reflexivity. Qed.

Ltac lea H :=
  repeat first
  [ apply le_refl
  | apply H
  | apply le_bind
  | (let a := fresh "a" in intro a; repeat match goal with p : (_ * _)%type |- _ => destruct p end;
     cbn beta iota) ].

Definition Mall n :=
  (forall st, le (pstmt fok n st) (pstmt fok (S n) st)) /\
  (forall st, le (pblock fok n st) (pblock fok (S n) st)) /\
  (forall st acc, le (pblock_loop fok n st acc) (pblock_loop fok (S n) st acc)) /\
  (forall st, le (pif fok n st) (pif fok (S n) st)) /\
  (forall st acc, le (pif_chain fok n st acc) (pif_chain fok (S n) st acc)) /\
  (forall k1 k2 st, le (pelif fok n k1 k2 st) (pelif fok (S n) k1 k2 st)) /\
  (forall st, le (pswitch fok n st) (pswitch fok (S n) st)) /\
  (forall st acc d, le (pcases fok n st acc d) (pcases fok (S n) st acc d)) /\
  (forall st, le (pcase fok n st) (pcase fok (S n) st)) /\
  (forall st acc, le (pcase_body fok n st acc) (pcase_body fok (S n) st acc)).

Lemma stmt_mono_step : forall n, Mall n.
Proof.
  induction n as [|n IH].
  { unfold Mall. refine (conj _ (conj _ (conj _ (conj _ (conj _ (conj _ (conj _ (conj _ (conj _ _)))))))));
      intros; intros H; exfalso; apply H; reflexivity. }
  destruct IH as [IHs [IHb [IHl [IHif [IHch [IHel [IHsw [IHcs [IHca IHcb]]]]]]]]].
  unfold Mall. refine (conj _ (conj _ (conj _ (conj _ (conj _ (conj _ (conj _ (conj _ (conj _ _))))))))).
  - intros st. rewrite !pstmt_F. unfold F_stmt. cbn zeta.
    destruct (psimple fok (next st)); [apply le_refl|].
    destruct (typ (cur (next st))); try apply le_refl.
    + apply le_bind; [apply IHb|]. intros [[[lb ss] rb] s']. apply le_refl.
    + apply IHif.
    + apply IHsw.
  - intros st. rewrite !pblock_F. unfold F_block. apply le_bind; [apply IHl|]. intros [ss s1]. apply le_refl.
  - intros st acc. rewrite !ploop_F. unfold F_loop. destruct (peek_is st T_RIGHT_BRACE); [apply le_refl|].
    apply le_bind; [apply IHs|]. intros [s s1]. destruct (is_break_or_fallthrough s); [apply le_refl | apply IHl].
  - intros st. rewrite !pif_F. unfold F_cond.
    apply le_bind; [apply le_refl|]. intros s1. apply le_bind; [apply le_refl|]. intros [c s2].
    apply le_bind; [apply le_refl|]. intros s3. apply le_bind; [apply le_refl|]. intros s4.
    apply le_bind; [apply IHb|]. intros [[[lb ss] rb] s5].
    apply le_bind; [apply IHch|]. intros [r s6]. apply le_refl.
  - intros st acc. rewrite !pchain_F. unfold F_chain. destruct (typ (peek st)); try apply le_refl.
    + cbn zeta. destruct (peek_is (next st) T_IF).
      * apply le_bind; [apply IHel|]. intros [e s3]. apply IHch.
      * apply le_bind; [apply le_refl|]. intros s2. apply le_bind; [apply IHb|]. intros [[[lb ss] rb] s3]. apply le_refl.
    + cbn zeta. apply le_bind; [apply IHel|]. intros [e s2]. apply IHch.
    + cbn zeta. apply le_bind; [apply IHel|]. intros [e s2]. apply IHch.
  - intros k1 k2 st. rewrite !pelif_F. unfold F_cond.
    apply le_bind; [apply le_refl|]. intros s1. apply le_bind; [apply le_refl|]. intros [c s2].
    apply le_bind; [apply le_refl|]. intros s3. apply le_bind; [apply le_refl|]. intros s4.
    apply le_bind; [apply IHb|]. intros [[[lb ss] rb] s5]. apply le_refl.
  - intros st. rewrite !pswitch_F. unfold F_switch.
    apply le_bind; [apply le_refl|]. intros s1. cbn zeta.
    apply le_bind; [apply le_refl|]. intros [ctl s3].
    apply le_bind; [apply le_refl|]. intros s4. apply le_bind; [apply le_refl|]. intros s5.
    apply le_bind; [apply IHcs|]. intros [[cases d] s6]. apply le_refl.
  - intros st acc d. rewrite !pcases_F. unfold F_cases. destruct (peek_is st T_RIGHT_BRACE); [apply le_refl|].
    cbn zeta. apply le_bind; [apply IHca|]. intros [cl s2].
    apply le_bind; [apply le_refl|]. intros d'. destruct (existsb _ acc); [apply le_refl | apply IHcs].
  - intros st. rewrite !pcase_F. unfold F_case.
    apply le_bind; [apply le_refl|]. intros [h s1].
    destruct (expect_peek s1 T_COLON); [|apply le_refl].
    apply le_bind; [apply IHcb|]. intros [body s3]. apply le_refl.
  - intros st acc. rewrite !pbody_F. unfold F_body. destruct (_ || _); [apply le_refl|].
    apply le_bind; [apply IHs|]. intros [s s1]. apply IHcb.
Qed.

Lemma pblock_mono_any n m st : pblock fok n st <> PFuel -> n <= m -> pblock fok m st = pblock fok n st.
Proof.
  intros H Hle. induction Hle; [reflexivity|].
  rewrite (proj1 (proj2 (stmt_mono_step m)) st); [exact IHHle | rewrite IHHle; exact H].
Qed.
Lemma pif_mono_any n m st : pif fok n st <> PFuel -> n <= m -> pif fok m st = pif fok n st.
Proof.
  intros H Hle. induction Hle; [reflexivity|].
  rewrite (proj1 (proj2 (proj2 (proj2 (stmt_mono_step m)))) st); [exact IHHle | rewrite IHHle; exact H].
Qed.

End M.

Section M2.
Variable fok : str -> bool.
Lemma pswitch_mono_any n m st : pswitch fok n st <> PFuel -> n <= m -> pswitch fok m st = pswitch fok n st.
Proof.
  intros H Hle. induction Hle; [reflexivity|].
  rewrite (proj1 (proj2 (proj2 (proj2 (proj2 (proj2 (proj2 (stmt_mono_step fok m))))))) st); [exact IHHle | rewrite IHHle; exact H].
Qed.
End M2.
