(* C05 - the simulator side of the operator table as a model: Model/InterpAssign.v against the observed
   table (every cell), against builder eval's value model Model/Assign.v (scalar types), and the inclusion
   linter model => simulator model stated over the MODELS on the whole finite product. *)
From Coq Require Import NArith ZArith List String Bool Floats.SpecFloat.
From Falco Require Import Base.Res Base.Bytes Base.TablesBase Model.Float Model.Acl Model.Val Model.Assign.
From Falco Require Import Model.LintTables Model.LintOps Model.TablesDomain Model.InterpAssign.
From Falco Require Import Gen.ObsOps Gen.KnownGaps.
Import ListNotations.
Local Open Scope string_scope.

Lemma forallb2_lift' : forall A B (f : A -> B -> bool) (la : list A) (lb : list B),
  forallb (fun a => forallb (f a) lb) la = true -> forall a b, In a la -> In b lb -> f a b = true.
Proof.
  intros A B f la lb H a b Ha Hb.
  rewrite forallb_forall in H. specialize (H a Ha). rewrite forallb_forall in H. exact (H b Hb).
Qed.

(* ---- model = observed simulator, every cell of 23 operators x 10 target types x existing (value type, form) *)
Definition interp_model_check (r : string * string * N * N) (c : N * string * string) : bool :=
  match r, c with (op, lty, lint, interp), (p, rty, form) =>
    Bool.eqb (interp_op_model op lty rty form) (N.testbit interp p)
  end.

Theorem interp_assign_model_eq_observed : forall op lty lint interp p rty form,
  In (op, lty, lint, interp) obs_ops -> In (p, rty, form) op_cells_existing ->
  interp_op_model op lty rty form = N.testbit interp p.
Proof.
  assert (H : forallb (fun r => forallb (interp_model_check r) op_cells_existing) obs_ops = true)
    by (vm_cast_no_check (eq_refl true)).
  intros op lty lint interp p rty form Hr Hc.
  pose proof (forallb2_lift' _ _ _ _ _ H _ _ Hr Hc) as C. apply eqb_prop. exact C.
Qed.

(* ---- linter model => simulator model, over the models alone: every operator, every target type, every cell *)
Definition lor_' (a : bool) (b : unit -> bool) : bool := if a then true else b tt.
Definition models_check (ol : string * string) (c : N * string * string) : bool :=
  match ol, c with (op, lty), (p, rty, form) =>
    if lint_op_model op lty rty form
    then lor_' (interp_op_model op lty rty form) (fun _ => gap_covers "op-interp" op lty p)
    else true
  end.

Theorem lint_sub_interp_ops_models : forall op lty p rty form,
  In op all_ops -> In lty op_types -> In (p, rty, form) op_cells_existing ->
  lint_op_model op lty rty form = true ->
  interp_op_model op lty rty form = true \/ gap_covers "op-interp" op lty p = true.
Proof.
  assert (H : forallb (fun ol => forallb (models_check ol) op_cells_existing) op_rows = true)
    by (vm_cast_no_check (eq_refl true)).
  intros op lty p rty form Ho Hl Hc Hlint.
  assert (Hin : In (op, lty) op_rows).
  { unfold op_rows. apply in_flat_map. exists op. split; [exact Ho|]. apply in_map. exact Hl. }
  pose proof (forallb2_lift' _ _ _ _ _ H _ _ Hin Hc) as C. unfold models_check in C.
  rewrite Hlint in C. unfold lor_' in C.
  destruct (interp_op_model op lty rty form); [left; reflexivity|right; exact C].
Qed.

(* ---- the decision table agrees with the value model of the scalar types (Model/Assign.v, tied to
   interpreter/assign by the C07/C08 correspondence runs): for non-degenerate operands, doAssign returns
   no error exactly when do_assign_ok says so *)
Definition the_addr : addr := mkAddr V4 3221225993%N.
Definition any_address (_ : str) : option addr := Some the_addr.
Definition sample (left : bool) (t : vtype) : val :=
  match t with
  | Val.TInt => VInt (if left then 42 else 7)%Z false false false
  | Val.TFloat => VFloat (f_of_int (if left then 40 else 2)%Z) false false false
  | Val.TStr => VStr [] false
  | Val.TBool => VBool true
  | Val.TRTime => VRTime ((if left then 3600 else 90) * Second)%Z
  | Val.TTime => VTime 62135596800%Z 0%Z false
  | Val.TIp => VIp (Some the_addr) false
  | Val.TBackend => VBackend (Some [])
  | Val.TAcl => VAcl [] []
  end.
Definition scalar_types : list vtype := [Val.TInt; Val.TFloat; Val.TStr; Val.TBool; Val.TRTime; Val.TTime; Val.TIp; Val.TBackend].
Definition vt_of (t : vtype) : vt :=
  match t with Val.TInt => SInteger | Val.TFloat => SFloat | Val.TStr => SString | Val.TBool => SBool | Val.TRTime => SRTime
             | Val.TTime => STime | Val.TIp => SIp | Val.TBackend => SBackend | Val.TAcl => SAcl end.
(* TIME and IP have no literal form in VCL *)
Definition has_literal (t : vtype) : bool := match t with Val.TTime | Val.TIp => false | _ => true end.
Definition op_name (o : aop) : string :=
  match o with OpSet => "=" | OpAdd => "+=" | OpSub => "-=" | OpMul => "*=" | OpDiv => "/=" | OpRem => "%="
  | OpOr => "|=" | OpAnd => "&=" | OpXor => "^=" | OpShl => "<<=" | OpShr => ">>=" | OpRol => "rol=" | OpRor => "ror="
  | OpLOr => "||=" | OpLAnd => "&&=" end.
Definition is_aok (r : ares) : bool := match r with AOk _ => true | _ => false end.

Definition value_model_check (o : aop) (lt rt : vtype) (lit : bool) : bool :=
  (lit && negb (has_literal rt))
  || Bool.eqb (is_aok (assign any_address o (sample true lt) (mkOp (sample false rt) lit)))
              (do_assign_ok (op_name o) (vt_of lt) (vt_of rt) lit).

Theorem interp_assign_agrees_with_value_model : forall o lt rt lit,
  In o all_aops -> In lt scalar_types -> In rt scalar_types -> (lit = true -> has_literal rt = true) ->
  is_aok (assign any_address o (sample true lt) (mkOp (sample false rt) lit))
  = do_assign_ok (op_name o) (vt_of lt) (vt_of rt) lit.
Proof.
  assert (H : forallb (fun o => forallb (fun lt => forallb (fun rt => forallb (value_model_check o lt rt) [true; false])
                scalar_types) scalar_types) all_aops = true) by (vm_compute; reflexivity).
  intros o lt rt lit Ho Hl Hr Hlit.
  rewrite forallb_forall in H. specialize (H o Ho).
  rewrite forallb_forall in H. specialize (H lt Hl).
  rewrite forallb_forall in H. specialize (H rt Hr).
  rewrite forallb_forall in H.
  assert (Hb : In lit [true; false]) by (destruct lit; simpl; auto).
  specialize (H lit Hb). unfold value_model_check in H.
  apply orb_true_iff in H. destruct H as [H|H].
  - apply andb_true_iff in H. destruct H as [H1 H2]. subst lit. rewrite (Hlit eq_refl) in H2. discriminate.
  - apply eqb_prop. exact H.
Qed.
