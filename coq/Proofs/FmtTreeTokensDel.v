(* C03, tree level, converse direction (explicit_string_concat = false): the TOKEN-level removal of
   an infix "+" that is followed by a token that can start a juxtaposed operand produces, on the
   tokens of a canonical tree, exactly the tokens of [unmark e]: every explicit concatenation whose
   right operand can be juxtaposed becomes a juxtaposition, the others keep their "+". *)
From Coq Require Import String.
From Coq Require Import List NArith ZArith Bool Lia.
From Falco Require Import Base.Bytes Gen.TokenTypes Model.ParseKinds Gen.ParserTables
  Model.ParseBase Model.Ast Model.ParseLit Model.ParseExpr Model.Yield
  Proofs.ParseTables Proofs.ParseExprYield Proofs.ParsePratt Proofs.FmtTreeExpr Proofs.FmtTreeTokens.
Import ListNotations.
Local Open Scope N_scope.

Definition is_plus (t : ttype) : bool := match t with T_PLUS => true | _ => false end.

(* [pe]: the previous token ends an operand, so a "+" here is the infix one *)
Fixpoint del_plus (pe : bool) (ts : list token) : list token :=
  match ts with
  | [] => []
  | t :: r =>
      if pe && is_plus (typ t) && t_juxt (typ (hd eof_tok r)) then del_plus false r
      else t :: del_plus (t_opend (typ t)) r
  end.

Lemma del_keep pe (t : token) r :
  (pe = true -> is_plus (typ t) = false) -> del_plus pe (t :: r) = t :: del_plus (t_opend (typ t)) r.
Proof.
  intros H. cbn [del_plus]. destruct pe; [rewrite (H eq_refl)|]; reflexivity.
Qed.

Lemma del_keep_ty pe (t : token) r (ty : ttype) :
  typ t = ty -> is_plus ty = false -> del_plus pe (t :: r) = t :: del_plus (t_opend ty) r.
Proof. intros <- H. apply del_keep. auto. Qed.

Lemma del_single pe t : del_plus pe [t] = [t].
Proof. cbn [del_plus hd]. change (t_juxt (typ eof_tok)) with false. now rewrite andb_false_r. Qed.

Lemma del_plus_app : forall a pe b, a <> [] -> is_plus (typ (last a eof_tok)) = false ->
  del_plus pe (a ++ b) = del_plus pe a ++ del_plus (t_opend (typ (last a eof_tok))) b.
Proof.
  induction a as [|t a IH]; intros pe b Hne Hl; [congruence|].
  destruct a as [|y a].
  - cbn [app last] in *. rewrite del_single. rewrite del_keep by auto. reflexivity.
  - change (last (t :: y :: a) eof_tok) with (last (y :: a) eof_tok) in *.
    change ((t :: y :: a) ++ b) with (t :: (y :: a) ++ b).
    cbn [del_plus]. change (hd eof_tok ((y :: a) ++ b)) with y. change (hd eof_tok (y :: a)) with y.
    destruct (pe && is_plus (typ t) && t_juxt (typ y)).
    + apply IH; [discriminate|exact Hl].
    + rewrite (IH (t_opend (typ t)) b); [reflexivity|discriminate|exact Hl].
Qed.

Lemma opend_not_plus t : t_opend t = true -> is_plus t = false.
Proof. destruct t; simpl; intros H; try discriminate; reflexivity. Qed.
Lemma juxt_not_plus t : t_juxt t = true -> is_plus t = false.
Proof. destruct t; simpl; intros H; try discriminate; reflexivity. Qed.
Lemma ident_not_plus t : doc_prefix t = Some PK_ParseIdent -> is_plus t = false.
Proof. destruct t; simpl; intros H; try discriminate; reflexivity. Qed.
Lemma infix_not_plus t : doc_infix t = Some IK_ParseInfixExpression -> is_plus t = false /\ t_opend t = false.
Proof. destruct t; simpl; intros H; try discriminate; split; reflexivity. Qed.

Section K.
Variable fok : str -> bool.
Notation canon := (canon fok).
Notation canon_args := (canon_args fok).
Notation canon_tail := (canon_tail fok).

Definition headok (pe : bool) (e : expr) : Prop := pe = true -> is_plus (typ (head e)) = false.

Lemma dstep e : canon e ->
  (forall pe, headok pe e -> del_plus pe (yexpr e) = yexpr (unmark e)) ->
  forall pe b, headok pe e -> del_plus pe (yexpr e ++ b) = yexpr (unmark e) ++ del_plus true b.
Proof.
  intros Hc IH pe b Hh. pose proof (canon_last_opend fok e Hc) as Hl.
  rewrite del_plus_app; [|apply yexpr_nonempty|now apply opend_not_plus].
  now rewrite Hl, IH.
Qed.

Lemma headok_false e : headok false e.
Proof. intros H; discriminate. Qed.

Lemma del_plus_tree :
  (forall e, canon e -> forall pe, headok pe e -> del_plus pe (yexpr e) = yexpr (unmark e))
  /\ (forall a, canon_args a -> forall rp, del_plus false (yargs a ++ [rp]) = yargs (unmark_args a) ++ [rp])
  /\ (forall m, canon_tail m -> forall rp, del_plus true (ytail m ++ [rp]) = ytail (unmark_tail m) ++ [rp]).
Proof.
  apply expr_args_ind; intros;
    cbn [ParsePratt.canon ParsePratt.canon_args ParsePratt.canon_tail unmark unmark_args unmark_tail
         yexpr yargs ytail] in *.
  - apply del_single.
  - apply del_single.
  - apply del_single.
  - apply del_single.
  - apply del_single.
  - apply del_single.
  - (* long string *) destruct H as (Ho & Hs & Hc & _).
    rewrite (del_keep_ty _ o _ _ Ho) by reflexivity. rewrite (del_keep_ty _ s _ _ Hs) by reflexivity.
    now rewrite del_single.
  - (* prefix *) destruct H0 as (Hop & Hr & _). destruct (prefix_op_sep op Hop) as [_ O].
    rewrite del_keep by exact H1. rewrite O. now rewrite (H Hr false (headok_false r)).
  - (* group *) destruct H0 as (Hlp & Hrp & Hr & _).
    rewrite (del_keep_ty _ lp _ _ Hlp) by reflexivity. cbn [t_opend].
    rewrite (dstep r Hr (H Hr) false _ (headok_false r)). now rewrite del_single.
  - (* if *) destruct H2 as (Hkw & Hlp & Hc1 & Hc2 & Hrp & (Cc & _) & (Ct & _) & (Ce & _)).
    rewrite (del_keep_ty _ kw _ _ Hkw) by reflexivity. cbn [t_opend]. f_equal.
    rewrite (del_keep_ty _ lp _ _ Hlp) by reflexivity. cbn [t_opend]. f_equal.
    rewrite (dstep c Cc (H Cc) false _ (headok_false c)). f_equal.
    rewrite (del_keep_ty _ c1 _ _ Hc1) by reflexivity. cbn [t_opend]. f_equal.
    rewrite (dstep t Ct (H0 Ct) false _ (headok_false t)). f_equal.
    rewrite (del_keep_ty _ c2 _ _ Hc2) by reflexivity. cbn [t_opend]. f_equal.
    rewrite (dstep e Ce (H1 Ce) false _ (headok_false e)). f_equal. apply del_single.
  - (* infix *) destruct H1 as (Hop & Hl & Hr & _).
    assert (Hh : headok pe l).
    { intros E. specialize (H2 E). unfold head in *. cbn [yexpr] in H2.
      now rewrite hd_app_ne in H2 by apply yexpr_nonempty. }
    rewrite (dstep l Hl (H Hl) pe _ Hh).
    destruct explicit.
    + apply explicit_is_plus in Hop. cbn [del_plus]. rewrite Hop. cbn [andb is_plus]. fold (head r).
      destruct (t_juxt (typ (head r))); cbn [yexpr].
      * now rewrite (H0 Hr false (headok_false r)).
      * cbn [t_opend]. now rewrite (H0 Hr false (headok_false r)).
    + destruct (infix_not_plus _ Hop) as [P O].
      rewrite del_keep by (intros _; exact P). rewrite O. cbn [yexpr].
      now rewrite (H0 Hr false (headok_false r)).
  - (* juxtaposition *) destruct H1 as (Hl & Hr & _ & _ & Hj).
    assert (Hh : headok pe l).
    { intros E. specialize (H2 E). unfold head in *. cbn [yexpr] in H2.
      now rewrite hd_app_ne in H2 by apply yexpr_nonempty. }
    rewrite (dstep l Hl (H Hl) pe _ Hh). f_equal. apply (H0 Hr).
    intros _. apply juxt_not_plus. unfold t_juxt, head. now rewrite Hj.
  - (* postfix *) destruct H0 as (Hop & Hl & _).
    assert (Hh : headok pe l).
    { intros E. specialize (H1 E). unfold head in *. cbn [yexpr] in H1.
      now rewrite hd_app_ne in H1 by apply yexpr_nonempty. }
    rewrite (dstep l Hl (H Hl) pe _ Hh). now rewrite del_single.
  - (* call *) destruct H0 as (Hf & Hlp & Hrp & Ha).
    rewrite del_keep by (intros _; now apply ident_not_plus). f_equal.
    rewrite (del_keep_ty _ lp _ _ Hlp) by reflexivity. cbn [t_opend]. f_equal. apply (H Ha).
  - apply del_single.
  - (* args *) destruct H1 as ((He & _) & Hm). rewrite <- !app_assoc.
    rewrite (dstep e He (H He) false _ (headok_false e)). f_equal. apply (H0 Hm).
  - apply del_single.
  - destruct H1 as (Hc & (He & _) & Hm). cbn [app].
    rewrite (del_keep_ty _ comma _ _ Hc) by reflexivity. cbn [t_opend]. f_equal. rewrite <- !app_assoc.
    rewrite (dstep e He (H He) false _ (headok_false e)). f_equal. apply (H0 Hm).
Qed.

(* the token-level removal on the tokens of a canonical tree = the tokens of [unmark e] *)
Theorem del_plus_yexpr e : canon e -> del_plus false (yexpr e) = yexpr (unmark e).
Proof. intros H. exact (proj1 del_plus_tree e H false (headok_false e)). Qed.

End K.
