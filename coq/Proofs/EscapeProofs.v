(* C20 - quoting, string lexing, escape decoding, table round trip. *)
From Coq Require Import List NArith ZArith Lia Bool ZifyBool ZifyN ZifyNat.
From Coq Require Import Strings.Byte.
From Falco Require Import Base.Res Base.Bytes Base.Utf8 Proofs.Utf8Proofs Model.Escape.
Import ListNotations.
Local Open Scope N_scope.
Ltac Zify.zify_post_hook ::= Z.div_mod_to_equations.

Definition no_nul (s : bytes) : Prop := ~ In x00 s.
Definition valid_utf8 (s : bytes) : Prop := exists rs, forallb valid_scalar rs = true /\ s = enc_all rs.

(* ---- bytes of an encoded rune ---- *)
Lemma byte_eqb_n a b : byte_eqb a b = (b2n a =? b2n b).
Proof. reflexivity. Qed.

Lemma enc_rune_low r : r < 128 -> enc_rune r = [n2b r].
Proof.
  intros H. unfold enc_rune.
  replace (valid_scalar r) with true by (unfold valid_scalar; lia).
  replace (r <? 128) with true by lia. reflexivity.
Qed.

Definition high (b : byte) : bool := 128 <=? b2n b.

Lemma enc_rune_high r : valid_scalar r = true -> 128 <= r -> forallb high (enc_rune r) = true.
Proof.
  intros Hv H. unfold enc_rune. rewrite Hv. unfold valid_scalar in Hv. unfold high.
  replace (r <? 128) with false by lia.
  destruct (r <? 2048) eqn:H2; [cbn [forallb]; rewrite !b2n_n2b_small by lia; lia|].
  destruct (r <? 65536) eqn:H3; [cbn [forallb]; rewrite !b2n_n2b_small by lia; lia|].
  cbn [forallb]. rewrite !b2n_n2b_small by lia. lia.
Qed.

Lemma quote_byte_high b : high b = true -> quote_byte b = [b].
Proof.
  unfold high, quote_byte. intros H. rewrite !byte_eqb_n.
  change (b2n c_pct) with 37. change (b2n c_dq) with 34. change (b2n c_lf) with 10. change (b2n c_cr) with 13.
  replace (b2n b =? 37) with false by lia. replace (b2n b =? 34) with false by lia.
  replace (b2n b =? 10) with false by lia. replace (b2n b =? 13) with false by lia. reflexivity.
Qed.

Lemma quote_high s : forallb high s = true -> vcl_quote s = s.
Proof.
  induction s as [|b s IH]; simpl; intros H; [reflexivity|].
  apply andb_true_iff in H. destruct H as [Hb Hs]. rewrite (quote_byte_high b Hb), (IH Hs). reflexivity.
Qed.

Lemma vcl_quote_app a b : vcl_quote (a ++ b) = vcl_quote a ++ vcl_quote b.
Proof. unfold vcl_quote. apply flat_map_app. Qed.

(* the quoted text as runes *)
Definition qrune (r : N) : list N :=
  if r =? 37 then [37; 50; 53] else if r =? 34 then [37; 50; 50]
  else if r =? 10 then [37; 48; 65] else if r =? 13 then [37; 48; 68] else [r].

Lemma quote_enc_rune r : valid_scalar r = true -> vcl_quote (enc_rune r) = enc_all (qrune r).
Proof.
  intros Hv. destruct (r <? 128) eqn:Hl.
  - rewrite enc_rune_low by lia. unfold vcl_quote, qrune. cbn [flat_map]. rewrite app_nil_r.
    unfold quote_byte. rewrite !byte_eqb_n. rewrite b2n_n2b_small by lia.
    change (b2n c_pct) with 37. change (b2n c_dq) with 34. change (b2n c_lf) with 10. change (b2n c_cr) with 13.
    destruct (r =? 37) eqn:E1; [reflexivity|].
    destruct (r =? 34) eqn:E2; [reflexivity|].
    destruct (r =? 10) eqn:E3; [reflexivity|].
    destruct (r =? 13) eqn:E4; [reflexivity|].
    unfold enc_all. cbn [flat_map]. rewrite app_nil_r. rewrite enc_rune_low by lia. reflexivity.
  - rewrite (quote_high _ (enc_rune_high r Hv ltac:(lia))). unfold qrune.
    replace (r =? 37) with false by lia. replace (r =? 34) with false by lia.
    replace (r =? 10) with false by lia. replace (r =? 13) with false by lia.
    unfold enc_all. cbn [flat_map]. rewrite app_nil_r. reflexivity.
Qed.

Lemma enc_all_app a b : enc_all (a ++ b) = enc_all a ++ enc_all b.
Proof. unfold enc_all. apply flat_map_app. Qed.

Lemma quote_enc_all rs : forallb valid_scalar rs = true ->
  vcl_quote (enc_all rs) = enc_all (flat_map qrune rs).
Proof.
  induction rs as [|r rs IH]; intros H; [reflexivity|].
  simpl in H. apply andb_true_iff in H. destruct H as [Hr Hrs].
  change (enc_all (r :: rs)) with (enc_rune r ++ enc_all rs).
  rewrite vcl_quote_app, (quote_enc_rune r Hr), (IH Hrs).
  cbn [flat_map]. rewrite enc_all_app. reflexivity.
Qed.

(* properties of the runes of a quoted text *)
Definition qok (q : N) : bool := valid_scalar q && negb (q =? 34) && negb (q =? 0) && negb (q =? 10) && negb (q =? 13).

Lemma qrune_ok r : valid_scalar r = true -> r <> 0 -> forallb qok (qrune r) = true.
Proof.
  intros Hv Hz. unfold qrune.
  destruct (r =? 37) eqn:E1; [reflexivity|].
  destruct (r =? 34) eqn:E2; [reflexivity|].
  destruct (r =? 10) eqn:E3; [reflexivity|].
  destruct (r =? 13) eqn:E4; [reflexivity|].
  cbn [forallb]. unfold qok. rewrite Hv. lia.
Qed.

Lemma qrunes_ok rs : forallb valid_scalar rs = true -> forallb (fun r => negb (r =? 0)) rs = true ->
  forallb qok (flat_map qrune rs) = true.
Proof.
  induction rs as [|r rs IH]; intros H Hz; [reflexivity|].
  simpl in *. apply andb_true_iff in H. destruct H as [Hr Hrs]. apply andb_true_iff in Hz. destruct Hz as [Hz Hzs].
  rewrite forallb_app, (qrune_ok r Hr ltac:(lia)), (IH Hrs Hzs). reflexivity.
Qed.

(* NUL bytes and NUL runes *)
Lemma nonzero_runes rs : ~ In x00 (enc_all rs) -> forallb (fun r => negb (r =? 0)) rs = true.
Proof.
  induction rs as [|r rs IH]; intros H; [reflexivity|].
  change (enc_all (r :: rs)) with (enc_rune r ++ enc_all rs) in H.
  simpl. rewrite IH by (intros Hin; apply H; apply in_or_app; right; exact Hin).
  rewrite andb_true_r. destruct (r =? 0) eqn:E; [|reflexivity].
  exfalso. apply H. apply in_or_app. left. apply N.eqb_eq in E. subst r. left. reflexivity.
Qed.

(* ---- quote_no_dquote ---- *)
Definition plain_byte (b : byte) : bool := negb (byte_eqb b c_dq) && negb (byte_eqb b c_lf) && negb (byte_eqb b c_cr).

Lemma quote_byte_plain b : forallb plain_byte (quote_byte b) = true.
Proof.
  unfold quote_byte.
  destruct (byte_eqb b c_pct) eqn:E1; [reflexivity|].
  destruct (byte_eqb b c_dq) eqn:E2; [reflexivity|].
  destruct (byte_eqb b c_lf) eqn:E3; [reflexivity|].
  destruct (byte_eqb b c_cr) eqn:E4; [reflexivity|].
  cbn [forallb]. unfold plain_byte. rewrite E2, E3, E4. reflexivity.
Qed.

Theorem quote_no_dquote s : forallb plain_byte (vcl_quote s) = true.
Proof.
  induction s as [|b s IH]; [reflexivity|].
  change (vcl_quote (b :: s)) with (quote_byte b ++ vcl_quote s).
  rewrite forallb_app, quote_byte_plain, IH. reflexivity.
Qed.

Corollary quote_no_dquote_in s : ~ In c_dq (vcl_quote s) /\ ~ In c_lf (vcl_quote s) /\ ~ In c_cr (vcl_quote s).
Proof.
  pose proof (quote_no_dquote s) as H. rewrite forallb_forall in H.
  repeat split; intros Hin; specialize (H _ Hin); unfold plain_byte in H; rewrite !byte_eqb_n in H;
    cbn in H; discriminate.
Qed.

(* ---- lexing: the quoted text is exactly one string literal ---- *)
Lemma skipn_app_len {A} (a b : list A) : skipn (length a) (a ++ b) = b.
Proof. induction a as [|x a IH]; [reflexivity | exact IH]. Qed.

Lemma read_string_enc qs : forall n rest,
  forallb qok qs = true -> (length (enc_all qs) < n)%nat ->
  read_string_fuel n (enc_all qs ++ c_dq :: rest) = OK (enc_all qs, rest).
Proof.
  induction qs as [|q qs IH]; intros n rest H Hn.
  - destruct n; [simpl in Hn; lia|]. reflexivity.
  - simpl in H. apply andb_true_iff in H. destruct H as [Hq Hqs].
    unfold qok in Hq. repeat (apply andb_true_iff in Hq; destruct Hq as [Hq ?]).
    change (enc_all (q :: qs)) with (enc_rune q ++ enc_all qs) in *.
    destruct n; [simpl in Hn; lia|].
    rewrite <- app_assoc. cbn [read_string_fuel].
    pose proof (enc_rune_len q) as Hl.
    destruct (enc_rune q ++ enc_all qs ++ c_dq :: rest) eqn:E.
    { destruct (enc_rune q); [simpl in Hl; lia | discriminate]. }
    rewrite <- E. rewrite (dec_enc_rune q _ Hq). rewrite skipn_app_len.
    replace ((q =? 34) || (q =? 0)) with false by lia.
    rewrite IH; [reflexivity | exact Hqs | rewrite app_length in Hn; lia].
Qed.

Theorem lex_string_escape s rest : no_nul s -> valid_utf8 s ->
  read_string (vcl_quote s ++ c_dq :: rest) = OK (vcl_quote s, rest).
Proof.
  intros Hn (rs & Hv & ->). unfold read_string.
  rewrite (quote_enc_all rs Hv).
  apply read_string_enc.
  - apply qrunes_ok; [exact Hv | apply nonzero_runes; exact Hn].
  - rewrite app_length. simpl. lia.
Qed.

(* ---- decoding the quoted text gives the text back ---- *)
Lemma decode_step r : valid_scalar r = true -> r <> 0 -> forall n rest,
  decode_fuel (S n) (enc_all (qrune r) ++ rest) =
    match decode_fuel n rest with OK t => OK (enc_rune r ++ t) | Err => Err | Crash => Crash | OutOfFuel => OutOfFuel end.
Proof.
  intros Hv Hz n rest. unfold qrune.
  destruct (r =? 37) eqn:E1; [apply N.eqb_eq in E1; subst r; reflexivity|].
  destruct (r =? 34) eqn:E2; [apply N.eqb_eq in E2; subst r; reflexivity|].
  destruct (r =? 10) eqn:E3; [apply N.eqb_eq in E3; subst r; reflexivity|].
  destruct (r =? 13) eqn:E4; [apply N.eqb_eq in E4; subst r; reflexivity|].
  unfold enc_all. cbn [flat_map]. rewrite app_nil_r.
  cbn [decode_fuel]. pose proof (enc_rune_len r) as Hl.
  destruct (enc_rune r ++ rest) eqn:E.
  { destruct (enc_rune r); [simpl in Hl; lia | discriminate]. }
  rewrite <- E. rewrite (dec_enc_rune r _ Hv). rewrite skipn_app_len.
  replace (r =? 0) with false by lia. rewrite E1. reflexivity.
Qed.

Lemma decode_quoted rs : forall n,
  forallb valid_scalar rs = true -> forallb (fun r => negb (r =? 0)) rs = true ->
  (length rs < n)%nat ->
  decode_fuel n (enc_all (flat_map qrune rs)) = OK (enc_all rs).
Proof.
  induction rs as [|r rs IH]; intros n Hv Hz Hn.
  - destruct n; [simpl in Hn; lia|]. reflexivity.
  - simpl in Hv, Hz. apply andb_true_iff in Hv. destruct Hv as [Hr Hrs]. apply andb_true_iff in Hz. destruct Hz as [Hz Hzs].
    destruct n; [simpl in Hn; lia|].
    cbn [flat_map]. rewrite enc_all_app. rewrite (decode_step r Hr ltac:(lia)).
    rewrite IH; [reflexivity | exact Hrs | exact Hzs | simpl in Hn; lia].
Qed.

Lemma length_enc_all_ge rs : (length rs <= length (enc_all rs))%nat.
Proof.
  induction rs as [|r rs IH]; [simpl; lia|].
  change (enc_all (r :: rs)) with (enc_rune r ++ enc_all rs). rewrite app_length.
  pose proof (enc_rune_len r). simpl. lia.
Qed.

Lemma length_quote_ge s : (length s <= length (vcl_quote s))%nat.
Proof.
  induction s as [|b s IH]; [simpl; lia|].
  change (vcl_quote (b :: s)) with (quote_byte b ++ vcl_quote s). rewrite app_length.
  assert (1 <= length (quote_byte b))%nat.
  { unfold quote_byte. repeat (destruct (byte_eqb _ _)); simpl; lia. }
  simpl. lia.
Qed.

Theorem decode_escape s : no_nul s -> valid_utf8 s -> decode_string_escapes (vcl_quote s) = OK s.
Proof.
  intros Hn (rs & Hv & ->). unfold decode_string_escapes.
  pose proof (length_quote_ge (enc_all rs)) as H1. pose proof (length_enc_all_ge rs) as H2.
  rewrite (quote_enc_all rs Hv) in *.
  apply decode_quoted; [exact Hv | apply nonzero_runes; exact Hn | lia].
Qed.

(* fuel-insensitive forms used by the table parser *)
Lemma read_string_quoted s rest : no_nul s -> valid_utf8 s ->
  read_string (vcl_quote s ++ c_dq :: rest) = OK (vcl_quote s, rest).
Proof. exact (lex_string_escape s rest). Qed.

(* ---- tables ---- *)
Definition text_ok (s : bytes) : Prop := no_nul s /\ valid_utf8 s.

Lemma after_brace_app a t : ~ In x7b a -> after_brace (a ++ x7b :: t) = Some t.
Proof.
  induction a as [|b a IH]; intros H; simpl.
  - reflexivity.
  - destruct (byte_eqb b x7b) eqn:E.
    + apply byte_eqb_eq in E. subst. exfalso. apply H. left. reflexivity.
    + apply IH. intros Hin. apply H. right. exact Hin.
Qed.

Lemma parse_items_S n s :
  parse_items (S n) s =
    match skip_blank s with
    | b :: t =>
      if byte_eqb b x7d then OK []
      else if byte_eqb b c_dq then
        do kr <- read_string t;
        do k <- decode_string_escapes (fst kr);
        match skip_blank (snd kr) with
        | c :: t1 =>
          if byte_eqb c x3a then
            match skip_blank t1 with
            | d :: t2 =>
              if byte_eqb d c_dq then
                do vr <- read_string t2;
                do v <- decode_string_escapes (fst vr);
                match skip_blank (snd vr) with
                | e :: t3 =>
                  if byte_eqb e x2c then
                    do rest <- parse_items n t3; OK ((k, v) :: rest)
                  else if byte_eqb e x7d then OK [(k, v)]
                  else Err
                | [] => Err
                end
              else Err
            | [] => Err
            end
          else Err
        | [] => Err
        end
      else Err
    | [] => Err
    end.
Proof. reflexivity. Qed.

Lemma skip_blank_open rest : skip_blank (x0a :: x20 :: x20 :: x22 :: rest) = x22 :: rest.
Proof. reflexivity. Qed.
Lemma skip_blank_colon rest : skip_blank (x3a :: rest) = x3a :: rest.
Proof. reflexivity. Qed.
Lemma skip_blank_sp_dq rest : skip_blank (x20 :: x22 :: rest) = x22 :: rest.
Proof. reflexivity. Qed.
Lemma skip_blank_comma rest : skip_blank (x2c :: rest) = x2c :: rest.
Proof. reflexivity. Qed.

Lemma parse_items_render items : forall n,
  Forall (fun kv => text_ok (fst kv) /\ text_ok (snd kv)) items ->
  (length items < n)%nat ->
  parse_items n (flat_map (render_item vcl_quote) items ++ bs_close) = OK items.
Proof.
  induction items as [|[k v] items IH]; intros n H Hn.
  - destruct n; [simpl in Hn; lia|]. reflexivity.
  - inversion H as [|? ? [[Hk1 Hk2] [Hv1 Hv2]] Hrest]; subst. simpl fst in *. simpl snd in *.
    destruct n; [simpl in Hn; lia|].
    cbn [flat_map]. unfold render_item at 1. cbn [fst snd].
    rewrite <- !app_assoc. cbn [app].
    rewrite parse_items_S. rewrite skip_blank_open.
    replace (byte_eqb x22 x7d) with false by reflexivity.
    replace (byte_eqb x22 c_dq) with true by reflexivity.
    rewrite (read_string_quoted k _ Hk1 Hk2). cbn [bind fst snd].
    rewrite (decode_escape k Hk1 Hk2). cbn [bind].
    rewrite skip_blank_colon. replace (byte_eqb x3a x3a) with true by reflexivity.
    rewrite skip_blank_sp_dq. replace (byte_eqb x22 c_dq) with true by reflexivity.
    rewrite (read_string_quoted v _ Hv1 Hv2). cbn [bind fst snd].
    rewrite (decode_escape v Hv1 Hv2). cbn [bind].
    rewrite skip_blank_comma. replace (byte_eqb x2c x2c) with true by reflexivity.
    rewrite (IH n Hrest ltac:(simpl in Hn; lia)). reflexivity.
Qed.

Lemma length_flat_map_ge items : (length items <= length (flat_map (render_item vcl_quote) items))%nat.
Proof.
  induction items as [|kv items IH]; [simpl; lia|].
  cbn [flat_map]. rewrite app_length. unfold render_item at 1. rewrite !app_length. simpl. lia.
Qed.

Theorem table_roundtrip name items :
  ~ In x7b name ->
  Forall (fun kv => text_ok (fst kv) /\ text_ok (snd kv)) items ->
  parse_table (render_dict name items) = OK items.
Proof.
  intros Hname H. unfold parse_table, render_dict, render_dict_with, bs_table_open.
  replace (([x0a; x74; x61; x62; x6c; x65; x20] ++ name ++ [x20; x53; x54; x52; x49; x4e; x47; x20; x7b]) ++
           flat_map (render_item vcl_quote) items ++ bs_close)
    with (([x0a; x74; x61; x62; x6c; x65; x20] ++ name ++ [x20; x53; x54; x52; x49; x4e; x47; x20]) ++
          x7b :: (flat_map (render_item vcl_quote) items ++ bs_close))
    by (rewrite <- !app_assoc; reflexivity).
  rewrite after_brace_app.
  - apply parse_items_render; [exact H|].
    rewrite app_length. pose proof (length_flat_map_ge items). lia.
  - intros Hin. apply in_app_or in Hin. destruct Hin as [Hin|Hin].
    + simpl in Hin. repeat (destruct Hin as [Hin|Hin]; [discriminate Hin|]). exact Hin.
    + apply in_app_or in Hin. destruct Hin as [Hin|Hin]; [exact (Hname Hin)|].
      simpl in Hin. repeat (destruct Hin as [Hin|Hin]; [discriminate Hin|]). exact Hin.
Qed.

(* ---- ACL comments stay on their line ---- *)
Theorem acl_comment_one_line c : ~ In c_lf (clean_comment c) /\ ~ In c_cr (clean_comment c).
Proof.
  unfold clean_comment. split; intros Hin; apply in_map_iff in Hin; destruct Hin as (b & Hb & _);
    destruct (byte_eqb b c_cr) eqn:E1; destruct (byte_eqb b c_lf) eqn:E2; simpl in Hb;
    try discriminate Hb; subst b; rewrite ?byte_eqb_n in *; cbn in *; discriminate.
Qed.
