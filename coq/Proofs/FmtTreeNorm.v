(* C03, tree level: the DOCUMENTED normalisation of a parse tree under a formatter configuration
   ([norm_vcl]), and the bridge from parser tokens to the tokens of Model/FmtTok.v ([to_tok]; the
   same table as kind_of_name in ocaml/fmt_main.ml).  Definitions and the small lemmas that tie
   them to the proved theorems of FmtTreeExpr / FmtTreeTokens / FmtTreeStmt.  [norm_vcl] itself is
   only used in the statement C03_full_statement (Props/C03.v). *)
From Coq Require Import String.
From Coq Require Import List NArith ZArith Bool.
From Falco Require Import Base.Bytes Gen.TokenTypes Gen.ParserTables.
From Falco Require Model.FmtTok.
From Falco Require Import Model.ParseBase Model.Ast Model.Yield Proofs.ParseTables
  Proofs.FmtTreeExpr Proofs.FmtTreeTokens Proofs.FmtTreeTokensDel Proofs.FmtTreeStmt Proofs.FmtTreeBridge.
Import ListNotations.

(* ---------------------------------------------------------------- token bridge *)
Definition kind_of_ttype (t : ttype) : FmtTok.kind :=
  match t with
  | T_IDENT => FmtTok.KIdent | T_STRING => FmtTok.KString | T_OPEN_LONG_STRING => FmtTok.KOpenLong
  | T_CLOSE_LONG_STRING => FmtTok.KCloseLong | T_INT => FmtTok.KInt | T_FLOAT => FmtTok.KFloat
  | T_RTIME => FmtTok.KRTime | T_TRUE => FmtTok.KTrue | T_FALSE => FmtTok.KFalse
  | T_PERCENT => FmtTok.KPercent | T_PLUS => FmtTok.KPlus | T_LEFT_PAREN => FmtTok.KLParen
  | T_RIGHT_PAREN => FmtTok.KRParen | T_LEFT_BRACE => FmtTok.KLBrace | T_RIGHT_BRACE => FmtTok.KRBrace
  | T_SEMICOLON => FmtTok.KSemi | T_COMMA => FmtTok.KComma | T_COLON => FmtTok.KColon
  | T_DOT => FmtTok.KDot | T_IF => FmtTok.KIf | T_ELSE => FmtTok.KElse | T_ELSEIF => FmtTok.KElseIf
  | T_ELSIF => FmtTok.KElsIf | T_RETURN => FmtTok.KReturn | T_REMOVE => FmtTok.KRemove
  | T_UNSET => FmtTok.KUnset | T_SET => FmtTok.KSet | T_ADD => FmtTok.KAdd | T_DECLARE => FmtTok.KDeclare
  | T_ERROR => FmtTok.KError | T_LOG => FmtTok.KLog | T_SYNTHETIC => FmtTok.KSynthetic
  | T_SYNTHETIC_BASE64 => FmtTok.KSynthetic64 | T_CALL => FmtTok.KCall | T_CASE => FmtTok.KCase
  | T_DEFAULT => FmtTok.KDefault | T_SWITCH => FmtTok.KSwitch | T_SUBROUTINE => FmtTok.KSub
  | T_TABLE => FmtTok.KTable | T_ACL => FmtTok.KAcl | T_BACKEND => FmtTok.KBackend
  | T_DIRECTOR => FmtTok.KDirector | T_PENALTYBOX => FmtTok.KPenaltybox
  | T_RATECOUNTER => FmtTok.KRatecounter | T_IMPORT => FmtTok.KImport | T_INCLUDE => FmtTok.KInclude
  | _ => if mem t assignment_operators then FmtTok.KAssign (s2b (tname t)) else FmtTok.KOther (s2b (tname t))
  end.

Definition to_tok (t : token) : FmtTok.tok := FmtTok.Tok (kind_of_ttype (typ t)) (lit t).
Definition to_elts (ts : list token) : list FmtTok.elt := map (fun t => FmtTok.Sig (to_tok t)) ts.

(* on the expression kinds the bridge is the inverse of [kind_tt] *)
Lemma kind_of_kind_tt k ty : kind_tt k = Some ty -> kind_of_ttype ty = k.
Proof. destruct k; simpl; intros H; try discriminate; inversion H; reflexivity. Qed.

(* every token type agrees on the three predicates the "+" rule reads - except the keywords
   `error` / `restart` when they are used as NAMES inside an expression (the parser takes them as
   identifiers, Model/FmtTok.v [opend] does not: see notes/C03.md) *)
Lemma bridge_agree ty : ty <> T_ERROR -> ty <> T_RESTART ->
  FmtTok.juxt (kind_of_ttype ty) = t_juxt ty /\ FmtTok.opend (kind_of_ttype ty) = t_opend ty
  /\ FmtTok.kis (kind_of_ttype ty) FmtTok.KPlus = is_plus ty.
Proof. intros H1 H2. destruct ty; try congruence; repeat split; reflexivity. Qed.

(* the tokens the formatter writes, as parser tokens *)
Definition mk (t : ttype) (s : string) : token := Tok t (s2b s) 0.
Definition unset_tok := mk T_UNSET "unset".
Definition else_tok := mk T_ELSE "else".
Definition if_tok := mk T_IF "if".
Definition lparen_tok := mk T_LEFT_PAREN "(".
Definition rparen_tok := mk T_RIGHT_PAREN ")".
Definition comma_tok := mk T_COMMA ",".

Lemma inserted_tokens :
  to_tok plus_tok = FmtTok.t_plus /\ to_tok unset_tok = FmtTok.t_unset /\ to_tok else_tok = FmtTok.t_else
  /\ to_tok if_tok = FmtTok.t_if /\ to_tok lparen_tok = FmtTok.t_lparen
  /\ to_tok rparen_tok = FmtTok.t_rparen /\ to_tok comma_tok = FmtTok.t_comma.
Proof. repeat split; reflexivity. Qed.

(* ---------------------------------------------------------------- tree normalisation *)
Section N.
Variable c : FmtTok.fmt_config.

Definition nexpr (e : expr) : expr :=
  if FmtTok.explicit_string_concat c then mark_explicit e else unmark e.
Definition nargs (a : args) : args :=
  if FmtTok.explicit_string_concat c then mark_args a else unmark_args a.

(* [fn]: inside a subroutine that has a return type (no parentheses are added there) *)
Definition nret (fn : bool) (v : option (option token * expr * option token))
  : option (option token * expr * option token) :=
  match v with
  | None => None
  | Some (l, e, r) =>
      if FmtTok.return_statement_parenthesis c && negb fn then
        match l with
        | None => Some (Some lparen_tok, nexpr e, Some rparen_tok)
        | Some _ => Some (l, nexpr e, r)
        end
      else
        match l with
        | Some _ => if ttype_eqb (typ (head e)) T_LEFT_PAREN then Some (l, nexpr e, r)
                    else Some (None, nexpr e, None)
        | None => Some (None, nexpr e, None)
        end
  end.

Definition ndfield (f : dfield) : dfield :=
  match f with DField d k q v s => DField d k q (nexpr v) s end.
Definition ndprop (p : dprop) : dprop :=
  match p with DProp f => DProp (ndfield f) | DBackendObj lb fs rb => DBackendObj lb (map ndfield fs) rb end.
(* trailing comma: every table entry ends with one *)
Definition ntprop (p : tprop) : tprop :=
  match p with
  | TProp k cl v cm => TProp (nexpr k) cl (nexpr v) (match cm with Some x => Some x | None => Some comma_tok end)
  end.
Fixpoint nbprop (p : bprop) : bprop :=
  match p with
  | BProp d k q v s => BProp d k q (nexpr v) s
  | BProbe d k q lb ps rb => BProbe d k q lb (map nbprop ps) rb
  end.
Definition nhead (h : chead) : chead :=
  match h with
  | CCase kw (CTEq e) => CCase kw (CTEq (nexpr e))
  | CCase kw (CTRegex op e) => CCase kw (CTRegex op (nexpr e))
  | CDefault kw => CDefault kw
  end.

Fixpoint nstmt (fn : bool) (s : stmt) : stmt :=
  match s with
  | SSet kw id op v sm => SSet kw id op (nexpr v) sm
  | SAdd kw id op v sm => SAdd kw id op (nexpr v) sm
  | SRemove kw id sm => if FmtTok.should_use_unset c then SUnset unset_tok id sm else s
  | SDeclare kw lo nm ty v sm =>
      SDeclare kw lo nm ty (match v with Some (q, e) => Some (q, nexpr e) | None => None end) sm
  | SCall kw sb a sm =>
      SCall kw sb (match a with
                   | Some (_, [], _) => None                       (* call f(); -> call f; *)
                   | Some (lp, l, rp) => Some (lp, map (fun x => (nexpr (fst x), snd x)) l, rp)
                   | None => None
                   end) sm
  | SError kw code arg sm => SError kw (option_map nexpr code) (option_map nexpr arg) sm
  | SReturn kw v sm => SReturn kw (nret fn v) sm
  | SLog kw v sm => SLog kw (nexpr v) sm
  | SSynthetic kw v sm => SSynthetic kw (nexpr v) sm
  | SSyntheticB64 kw v sm => SSyntheticB64 kw (nexpr v) sm
  | SBlock lb b rb => SBlock lb (map (nstmt fn) b) rb
  | SFunCall f lp a rp sm => SFunCall f lp (nargs a) rp sm
  | SIf kw lp cnd rp lb b rb another els =>
      SIf kw lp (nexpr cnd) rp lb (map (nstmt fn) b) rb (map (nelif fn) another)
          (match els with
           | Some (k, lb', b', rb') => Some (k, lb', map (nstmt fn) b', rb')
           | None => None
           end)
  | SSwitch kw lp ctl rp lb cases d rb => SSwitch kw lp (nexpr ctl) rp lb (map (ncase fn) cases) d rb
  | DBackend kw nm lb ps rb => DBackend kw nm lb (map nbprop ps) rb
  | DDirector kw nm ty lb ps rb => DDirector kw nm ty lb (map ndprop ps) rb
  | DTable kw nm ty lb ps rb => DTable kw nm ty lb (map ntprop ps) rb
  | DSub kw nm params ret lb b rb =>
      DSub kw nm (match params with Some (_, [], _) => None | p => p end)   (* sub f() -> sub f *)
           ret lb (map (nstmt (match ret with Some _ => true | None => false end)) b) rb
  | DPenaltybox kw nm lb b rb => DPenaltybox kw nm lb (map (nstmt false) b) rb
  | DRatecounter kw nm lb b rb => DRatecounter kw nm lb (map (nstmt false) b) rb
  | _ => s
  end
with nelif (fn : bool) (e : elif) : elif :=
  match e with
  | Elif k1 k2 lp cnd rp lb b rb =>
      match k2 with
      | None => if FmtTok.else_if c then Elif else_tok (Some if_tok) lp (nexpr cnd) rp lb (map (nstmt fn) b) rb
                else Elif k1 None lp (nexpr cnd) rp lb (map (nstmt fn) b) rb
      | Some _ => Elif k1 k2 lp (nexpr cnd) rp lb (map (nstmt fn) b) rb
      end
  end
with ncase (fn : bool) (cs : scase) : scase :=
  match cs with Case h cl b ft => Case (nhead h) cl (map (nstmt fn) b) ft end.

(* the declarations keep their order (sort_declaration = false) *)
Definition norm_vcl (v : vcl) : vcl := Vcl (map (nstmt false) (vstmts v)) (vsnippet v).

End N.

(* the pieces of [nstmt] that the proved theorems are about *)
Lemma nstmt_remove c fn kw id sm :
  FmtTok.should_use_unset c = true -> nstmt c fn (SRemove kw id sm) = SUnset unset_tok id sm.
Proof. intros H. cbn [nstmt]. now rewrite H. Qed.

Lemma nelif_respell c fn k1 lp cnd rp lb rb :
  FmtTok.else_if c = true ->
  nelif c fn (Elif k1 None lp cnd rp lb [] rb) = Elif else_tok (Some if_tok) lp (nexpr c cnd) rp lb [] rb.
Proof. intros H. cbn [nelif map]. now rewrite H. Qed.

Lemma nret_add c e :
  FmtTok.return_statement_parenthesis c = true ->
  nret c false (Some (None, e, None)) = Some (Some lparen_tok, nexpr c e, Some rparen_tok).
Proof. intros H. unfold nret. now rewrite H. Qed.

Lemma nret_drop c fn lp e rp :
  FmtTok.return_statement_parenthesis c = false -> typ (head e) <> T_LEFT_PAREN ->
  nret c fn (Some (Some lp, e, Some rp)) = Some (None, nexpr c e, None).
Proof.
  intros H Hh. unfold nret. rewrite H. cbn [andb].
  apply ttype_eqb_neq in Hh. now rewrite Hh.
Qed.
