(* C05: the finite-domain theorems.  Every statement names its domain (a list computed from the
   regenerated linter tables, or an observed table whose keys are proved to be exactly that list)
   and is proved by vm_compute on a boolean check over the whole domain, lifted with
   forallb_forall.  This is a proof because the domains are finite and completely enumerated. *)
From Coq Require Import NArith List String Bool Ascii.
From Falco Require Import Base.TablesBase Model.ScopeMask Model.LintTables Model.LintOps Model.TablesDomain.
From Falco Require Import Gen.LintConsts Gen.LintVars Gen.LintDyn Gen.LintFuncs Gen.RefVars Gen.RefFuncs Gen.InterpFuncs.
From Falco Require Import Gen.ObsVars Gen.ObsFuncs Gen.ObsStmts Gen.ObsOps Gen.ObsWide Gen.KnownGaps.
Import ListNotations.
Local Open Scope N_scope.
Local Open Scope string_scope.

(* ================================================================ T: linter tables = reference tables *)

Lemma lint_vars_in_ref :
  forallb (fun kv => (fun n a => option_rel var_entry_agrees (Some a) (assoc n ref_vars)) (fst kv) (snd kv)) lint_var_flat = true.
Proof. vm_cast_no_check (eq_refl true). Qed.
Lemma ref_vars_in_lint :
  forallb (fun kv => (fun n (_ : refvar) => is_some (assoc n lint_var_flat)) (fst kv) (snd kv)) ref_vars = true.
Proof. vm_cast_no_check (eq_refl true). Qed.
(* no name is listed twice on either side (so `assoc` sees every entry) *)
Lemma var_names_nodup : nodup_str (map fst lint_var_flat) && nodup_str (map fst ref_vars) = true.
Proof. vm_cast_no_check (eq_refl true). Qed.

(* every name (any string): the linter's accessor and the reference entry exist together and agree on
   get type, set type, unset flag, scope mask and deprecation *)
Theorem lint_vars_eq_ref : forall name,
  option_rel var_entry_agrees (assoc name lint_var_flat) (assoc name ref_vars) = true.
Proof.
  intro name.
  destruct (assoc name lint_var_flat) as [a|] eqn:Ea.
  - exact (forallb_assoc_lift _ (fun n a => option_rel var_entry_agrees (Some a) (assoc n ref_vars)) _ _ _ lint_vars_in_ref Ea).
  - destruct (assoc name ref_vars) as [r|] eqn:Er; [|reflexivity].
    pose proof (forallb_assoc_lift _ (fun n (_ : refvar) => is_some (assoc n lint_var_flat)) _ _ _ ref_vars_in_lint Er) as C.
    cbv beta in C. rewrite Ea in C. discriminate.
Qed.

Lemma lint_funcs_in_ref :
  forallb (fun kv => (fun n a => option_rel func_entry_agrees (Some a) (assoc n ref_funcs)) (fst kv) (snd kv)) lint_func_flat = true.
Proof. vm_cast_no_check (eq_refl true). Qed.
Lemma ref_funcs_in_lint :
  forallb (fun kv => (fun n (_ : reffunc) => is_some (assoc n lint_func_flat)) (fst kv) (snd kv)) ref_funcs = true.
Proof. vm_cast_no_check (eq_refl true). Qed.
Lemma func_names_nodup : nodup_str (map fst lint_func_flat) && nodup_str (map fst ref_funcs) = true.
Proof. vm_cast_no_check (eq_refl true). Qed.

(* every name: argument-type signatures, return type, scope mask, presence of the table lookup hook *)
Theorem lint_funcs_eq_ref : forall name,
  option_rel func_entry_agrees (assoc name lint_func_flat) (assoc name ref_funcs) = true.
Proof.
  intro name.
  destruct (assoc name lint_func_flat) as [a|] eqn:Ea.
  - exact (forallb_assoc_lift _ (fun n a => option_rel func_entry_agrees (Some a) (assoc n ref_funcs)) _ _ _ lint_funcs_in_ref Ea).
  - destruct (assoc name ref_funcs) as [r|] eqn:Er; [|reflexivity].
    pose proof (forallb_assoc_lift _ (fun n (_ : reffunc) => is_some (assoc n lint_func_flat)) _ _ _ ref_funcs_in_lint Er) as C.
    cbv beta in C. rewrite Ea in C. discriminate.
Qed.

(* objects installed for declared backends / directors (dynamic.go) against the %any% reference entries *)
Definition dyn_entries : list (string * accessor) :=
  vflatten 3 "backend.%any%" lint_dyn_backend ++ vflatten 3 "director.%any%" lint_dyn_director.

Theorem lint_dyn_eq_ref : forall name a, In (name, a) dyn_entries ->
  option_rel var_entry_agrees (Some a) (assoc name ref_vars) = true \/ gap_covers "dyn-ref" name "" 0 = true.
Proof.
  assert (H : forallb (fun kv => option_rel var_entry_agrees (Some (snd kv)) (assoc (fst kv) ref_vars)
                                 || gap_covers "dyn-ref" (fst kv) "" 0) dyn_entries = true)
    by (vm_cast_no_check (eq_refl true)).
  intros name a Hin. rewrite forallb_forall in H. specialize (H _ Hin). cbn [fst snd] in H.
  apply orb_true_iff in H. exact H.
Qed.

(* ================================================================ T: interpreter function table vs linter function table *)


(* every function of the linter table exists in the simulator's table with the same scopes, is callable as
   a statement exactly when its linter return type is NeverType, and takes identifiers exactly at its ID positions *)
Theorem interp_funcs_agree_lint : forall name f, In (name, f) lint_func_flat ->
  (exists g, assoc name interp_funcs = Some g /\ interp_func_agrees f g = true)
  \/ gap_covers "func-table" name "" 0 = true.
Proof.
  assert (H : forallb (fun kv => match assoc (fst kv) interp_funcs with
                                 | Some g => interp_func_agrees (snd kv) g
                                 | None => false end || gap_covers "func-table" (fst kv) "" 0)
                      lint_func_flat = true) by (vm_cast_no_check (eq_refl true)).
  intros name f Hin. rewrite forallb_forall in H. specialize (H _ Hin). cbn [fst snd] in H.
  apply orb_true_iff in H. destruct H as [H|H]; [left|right; exact H].
  destruct (assoc name interp_funcs) as [g|]; [|discriminate]. exists g. split; [reflexivity|exact H].
Qed.

(* ================================================================ O: the observed tables cover exactly the domains *)
Theorem obs_vars_domain : map obs_var_key obs_vars = var_rows obs_http_names.
Proof. vm_compute. reflexivity. Qed.
Theorem obs_funcs_domain : map obs_func_key obs_funcs = func_rows.
Proof. vm_compute. reflexivity. Qed.
Theorem obs_stmts_domain : map (fun r => match r with (k, _, _) => k end) obs_stmts = stmt_kinds.
Proof. vm_compute. reflexivity. Qed.
Theorem obs_ops_domain : map obs_op_key obs_ops = op_rows.
Proof. vm_compute. reflexivity. Qed.
Theorem obs_var_types_domain :
  map fst obs_var_types = map (fun r => match r with (_, n, _) => n end)
                              (filter (fun r => match r with (_, _, op) => String.eqb op "get" end) (var_rows obs_http_names)).
Proof. vm_compute. reflexivity. Qed.

(* ================================================================ variables *)

Definition var_model_check (r : string * string * string * N * N * N) (p : N) : bool :=
  match r with (t, n, op, lint, interp, ctx) =>
    let m := lint_var_op the_ctx n op (lint_mode (mask_at p)) in
    Bool.eqb m (N.testbit ctx p) && Bool.eqb m (N.testbit lint p)
  end.

(* the lookup model (splitName + resolveVariablePath + scope test over the translated tree) gives, on every
   cell, the verdict of the real linter context called directly AND the verdict of the real linter on the
   one-use program *)
Theorem lint_vars_model_eq_observed : forall t n op lint interp ctx p,
  In (t, n, op, lint, interp, ctx) obs_vars -> In p positions45 ->
  lint_var_op the_ctx n op (lint_mode (mask_at p)) = N.testbit ctx p /\
  lint_var_op the_ctx n op (lint_mode (mask_at p)) = N.testbit lint p.
Proof.
  assert (H : forallb (fun r => forallb (var_model_check r) positions45) obs_vars = true) by (vm_cast_no_check (eq_refl true)).
  intros t n op lint interp ctx p Hr Hp.
  pose proof (forallb2_lift _ _ _ _ _ H _ _ Hr Hp) as C. unfold var_model_check in C.
  apply andb_true_iff in C. destruct C as [C1 C2].
  split; apply eqb_prop; assumption.
Qed.

Definition var_ref_row_check (r : string * string * string * N * N * N) : bool :=
  match r with (t, n, op, lint, interp, ctx) =>
    match assoc t ref_vars with
    | Some rv => forallb (fun p => lor_ (Bool.eqb (N.testbit lint p) (ref_var_allows rv op (mask_at p)))
                                        (fun _ => gap_covers "var-ref" n op p)) positions45
    | None => false
    end
  end.

(* the linter accepts the use exactly when the reference table allows the operation in every scope of the mask *)
Theorem lint_var_cells_eq_ref : forall t n op lint interp ctx p,
  In (t, n, op, lint, interp, ctx) obs_vars -> In p positions45 ->
  (exists rv, assoc t ref_vars = Some rv /\ N.testbit lint p = ref_var_allows rv op (mask_at p))
  \/ gap_covers "var-ref" n op p = true.
Proof.
  assert (H : forallb var_ref_row_check obs_vars = true) by (vm_cast_no_check (eq_refl true)).
  intros t n op lint interp ctx p Hr Hp.
  rewrite forallb_forall in H. specialize (H _ Hr). unfold var_ref_row_check in H.
  destruct (assoc t ref_vars) as [rv|]; [|discriminate].
  rewrite forallb_forall in H. specialize (H _ Hp).
  apply lor_true in H. destruct H as [C|C]; [left|right; exact C].
  exists rv. split; [reflexivity|apply eqb_prop; exact C].
Qed.

Definition var_interp_check (r : string * string * string * N * N * N) (p : N) : bool :=
  match r with (t, n, op, lint, interp, ctx) =>
    limp (N.testbit lint p) (N.testbit interp p) (fun _ => gap_covers "var-interp" n op p)
  end.

(* everything the linter accepts executes in the simulator, or is a recorded gap *)
Theorem lint_sub_interp_vars : forall t n op lint interp ctx p,
  In (t, n, op, lint, interp, ctx) obs_vars -> In p positions45 ->
  N.testbit lint p = true ->
  N.testbit interp p = true \/ gap_covers "var-interp" n op p = true.
Proof.
  assert (H : forallb (fun r => forallb (var_interp_check r) positions45) obs_vars = true) by (vm_cast_no_check (eq_refl true)).
  intros t n op lint interp ctx p Hr Hp Hl.
  pose proof (forallb2_lift _ _ _ _ _ H _ _ Hr Hp) as C. unfold var_interp_check in C.
  exact (limp_or _ _ _ C Hl).
Qed.

(* the exclusion is needed: a variable accepted by the linter in vcl_recv and undefined in the simulator *)
Theorem lint_sub_interp_vars_refuted : exists t n op lint interp ctx p,
  In (t, n, op, lint, interp, ctx) obs_vars /\ In p positions45 /\
  N.testbit lint p = true /\ N.testbit interp p = false.
Proof.
  destruct (find (fun r => match r with (_, _, _, lint, interp, _) => N.testbit (N.ldiff lint interp) 0 end) obs_vars)
    as [[[[[[t n] op] lint] interp] ctx]|] eqn:E.
  - exists t, n, op, lint, interp, ctx, 0.
    pose proof (find_some _ _ E) as [Hin Hb]. rewrite N.ldiff_spec in Hb. apply andb_true_iff in Hb.
    destruct Hb as [Hl Hi]. apply negb_true_iff in Hi.
    split; [exact Hin|]. split; [vm_compute; tauto|]. split; assumption.
  - vm_compute in E. discriminate.
Qed.

Definition var_type_check (r : string * list string) (s : N) : bool :=
  match r with (n, tys) =>
    match lint_get the_ctx n (lint_mode (N.shiftl 1 s)) with
    | None => true
    | Some t =>
      let it := nth (N.to_nat s) tys "-" in
      let lt := type_name t in
      lor_ (String.eqb it "-" || String.eqb it lt || (String.eqb lt "REQBACKEND" && String.eqb it "BACKEND"))
           (fun _ => gap_covers "var-type" n lt s)
    end
  end.

(* where the linter types a read of the variable and the simulator yields a value, the types are the same *)
Theorem lint_types_eq_interp : forall n tys s t,
  In (n, tys) obs_var_types -> In s positions9 ->
  lint_get the_ctx n (lint_mode (N.shiftl 1 s)) = Some t ->
  nth (N.to_nat s) tys "-" = "-" \/ nth (N.to_nat s) tys "-" = type_name t
  \/ (type_name t = "REQBACKEND" /\ nth (N.to_nat s) tys "-" = "BACKEND")
  \/ gap_covers "var-type" n (type_name t) s = true.
Proof.
  assert (H : forallb (fun r => forallb (var_type_check r) positions9) obs_var_types = true) by (vm_cast_no_check (eq_refl true)).
  intros n tys s t Hr Hs Hg.
  pose proof (forallb2_lift _ _ _ _ _ H _ _ Hr Hs) as C. unfold var_type_check in C. rewrite Hg in C.
  apply lor_true in C. destruct C as [C|C]; [|right; right; right; exact C].
  apply orb_true_iff in C. destruct C as [C|C].
  - apply orb_true_iff in C. destruct C as [C|C].
    + left. apply String.eqb_eq. exact C.
    + right. left. apply String.eqb_eq. exact C.
  - right. right. left. apply andb_true_iff in C. destruct C as [C1 C2].
    split; apply String.eqb_eq; assumption.
Qed.

(* ================================================================ built-in functions *)
Definition func_model_check (r : string * N * N * N) (p : N) : bool :=
  match r with (n, i, lint, interp) =>
    Bool.eqb (is_some (lint_get_function n (lint_mode (mask_at p)))) (N.testbit lint p)
  end.

(* one well-typed argument vector per declared signature: the program is accepted exactly when
   Context.GetFunction (model) finds the function available in every scope of the mask *)
Theorem lint_funcs_model_eq_observed : forall n i lint interp p,
  In (n, i, lint, interp) obs_funcs -> In p positions45 ->
  is_some (lint_get_function n (lint_mode (mask_at p))) = N.testbit lint p.
Proof.
  assert (H : forallb (fun r => forallb (func_model_check r) positions45) obs_funcs = true) by (vm_cast_no_check (eq_refl true)).
  intros n i lint interp p Hr Hp.
  pose proof (forallb2_lift _ _ _ _ _ H _ _ Hr Hp) as C. apply eqb_prop. exact C.
Qed.

Definition func_ref_row_check (r : string * N * N * N) : bool :=
  match r with (n, i, lint, interp) =>
    match assoc n ref_funcs with
    | Some rf => forallb (fun p => lor_ (Bool.eqb (N.testbit lint p) (ref_func_allows rf (mask_at p)))
                                        (fun _ => gap_covers "func-ref" n "" p)) positions45
    | None => false
    end
  end.

Theorem lint_func_cells_eq_ref : forall n i lint interp p,
  In (n, i, lint, interp) obs_funcs -> In p positions45 ->
  (exists rf, assoc n ref_funcs = Some rf /\ N.testbit lint p = ref_func_allows rf (mask_at p))
  \/ gap_covers "func-ref" n "" p = true.
Proof.
  assert (H : forallb func_ref_row_check obs_funcs = true) by (vm_cast_no_check (eq_refl true)).
  intros n i lint interp p Hr Hp.
  rewrite forallb_forall in H. specialize (H _ Hr). unfold func_ref_row_check in H.
  destruct (assoc n ref_funcs) as [rf|]; [|discriminate].
  rewrite forallb_forall in H. specialize (H _ Hp).
  apply lor_true in H. destruct H as [C|C]; [left|right; exact C].
  exists rf. split; [reflexivity|apply eqb_prop; exact C].
Qed.

Definition sig_name (i : N) : string := String (ascii_of_N (48 + i)) "".

Definition func_interp_check (r : string * N * N * N) (p : N) : bool :=
  match r with (n, i, lint, interp) =>
    limp (N.testbit lint p) (N.testbit interp p) (fun _ => gap_covers "func-interp" n (sig_name i) p)
  end.

Theorem lint_sub_interp_calls : forall n i lint interp p,
  In (n, i, lint, interp) obs_funcs -> In p positions45 ->
  N.testbit lint p = true ->
  N.testbit interp p = true \/ gap_covers "func-interp" n (sig_name i) p = true.
Proof.
  assert (H : forallb (fun r => forallb (func_interp_check r) positions45) obs_funcs = true) by (vm_cast_no_check (eq_refl true)).
  intros n i lint interp p Hr Hp Hl.
  pose proof (forallb2_lift _ _ _ _ _ H _ _ Hr Hp) as C. unfold func_interp_check in C.
  exact (limp_or _ _ _ C Hl).
Qed.

Theorem lint_sub_interp_calls_refuted : exists n i lint interp p,
  In (n, i, lint, interp) obs_funcs /\ In p positions45 /\
  N.testbit lint p = true /\ N.testbit interp p = false.
Proof.
  destruct (find (fun r => match r with (_, _, lint, interp) => N.testbit (N.ldiff lint interp) 0 end) obs_funcs)
    as [[[[n i] lint] interp]|] eqn:E.
  - exists n, i, lint, interp, 0.
    pose proof (find_some _ _ E) as [Hin Hb]. rewrite N.ldiff_spec in Hb. apply andb_true_iff in Hb.
    destruct Hb as [Hl Hi]. apply negb_true_iff in Hi.
    split; [exact Hin|]. split; [vm_compute; tauto|]. split; assumption.
  - vm_compute in E. discriminate.
Qed.

(* ================================================================ scope-restricted statements *)
Definition stmt_check (r : string * N * N) (p : N) : bool :=
  match r with (k, lint, interp) =>
    Bool.eqb (lint_stmt k (lint_mode (mask_at p))) (N.testbit lint p)
    && lor_ (Bool.eqb (N.testbit lint p) (forallb (ref_stmt k) (scopes_of (mask_at p)))) (fun _ => gap_covers "stmt-ref" k "" p)
    && limp (N.testbit lint p) (N.testbit interp p) (fun _ => gap_covers "stmt-interp" k "" p)
  end.

Lemma stmt_check_ok : forallb (fun r => forallb (stmt_check r) positions45) obs_stmts = true.
Proof. vm_cast_no_check (eq_refl true). Qed.

Theorem lint_stmts_model_eq_observed : forall k lint interp p,
  In (k, lint, interp) obs_stmts -> In p positions45 ->
  lint_stmt k (lint_mode (mask_at p)) = N.testbit lint p.
Proof.
  intros k lint interp p Hr Hp.
  pose proof (forallb2_lift _ _ _ _ _ stmt_check_ok _ _ Hr Hp) as C. unfold stmt_check in C.
  apply andb_true_iff in C. destruct C as [C _]. apply andb_true_iff in C. destruct C as [C _].
  apply eqb_prop. exact C.
Qed.

(* restart, error, esi, synthetic, synthetic.base64, return(action): accepted exactly when every scope of
   the mask allows the statement according to the documented table ref_stmt *)
Theorem lint_stmts_eq_ref : forall k lint interp p,
  In (k, lint, interp) obs_stmts -> In p positions45 ->
  N.testbit lint p = forallb (ref_stmt k) (scopes_of (mask_at p)) \/ gap_covers "stmt-ref" k "" p = true.
Proof.
  intros k lint interp p Hr Hp.
  pose proof (forallb2_lift _ _ _ _ _ stmt_check_ok _ _ Hr Hp) as C. unfold stmt_check in C.
  apply andb_true_iff in C. destruct C as [C _]. apply andb_true_iff in C. destruct C as [_ C].
  apply lor_true in C. destruct C as [C|C]; [left; apply eqb_prop; exact C|right; exact C].
Qed.

Theorem lint_sub_interp_stmts : forall k lint interp p,
  In (k, lint, interp) obs_stmts -> In p positions45 ->
  N.testbit lint p = true ->
  N.testbit interp p = true \/ gap_covers "stmt-interp" k "" p = true.
Proof.
  intros k lint interp p Hr Hp Hl.
  pose proof (forallb2_lift _ _ _ _ _ stmt_check_ok _ _ Hr Hp) as C. unfold stmt_check in C.
  apply andb_true_iff in C. destruct C as [_ C]. exact (limp_or _ _ _ C Hl).
Qed.

(* ================================================================ operators *)
Definition op_model_check (r : string * string * N * N) (c : N * string * string) : bool :=
  match r, c with (op, lty, lint, interp), (p, rty, form) =>
    Bool.eqb (lint_op_model op lty rty form) (N.testbit lint p)
  end.

(* the five lint*Operator functions and the comparison rules of lintInfixExpression, as Gallina functions of
   the operand types, give the real linter's verdict on every cell *)
Theorem lint_ops_model_eq_observed : forall op lty lint interp p rty form,
  In (op, lty, lint, interp) obs_ops -> In (p, rty, form) op_cells_existing ->
  lint_op_model op lty rty form = N.testbit lint p.
Proof.
  assert (H : forallb (fun r => forallb (op_model_check r) op_cells_existing) obs_ops = true) by (vm_cast_no_check (eq_refl true)).
  intros op lty lint interp p rty form Hr Hc.
  pose proof (forallb2_lift _ _ _ _ _ H _ _ Hr Hc) as C. apply eqb_prop. exact C.
Qed.

Definition op_ref_check (r : string * string * N * N) (c : N * string * string) : bool :=
  match r, c with (op, lty, lint, interp), (p, rty, form) =>
    lor_ (negb (mem_str op assign_ops))
         (fun _ => lor_ (Bool.eqb (N.testbit lint p) (ref_assign op lty rty form)) (fun _ => gap_covers "op-ref" op lty p))
  end.

(* the 15 assignment operators x 10 target types x existing (value type, form) cells: the linter's verdict
   is the entry of the assignment type table *)
Theorem lint_ops_eq_ref : forall op lty lint interp p rty form,
  In (op, lty, lint, interp) obs_ops -> In (p, rty, form) op_cells_base -> In op assign_ops ->
  N.testbit lint p = ref_assign op lty rty form \/ gap_covers "op-ref" op lty p = true.
Proof.
  assert (H : forallb (fun r => forallb (op_ref_check r) op_cells_base) obs_ops = true) by (vm_cast_no_check (eq_refl true)).
  intros op lty lint interp p rty form Hr Hc Hop.
  pose proof (forallb2_lift _ _ _ _ _ H _ _ Hr Hc) as C. unfold op_ref_check in C.
  assert (Hm : mem_str op assign_ops = true).
  { unfold mem_str. apply existsb_exists. exists op. split; [exact Hop|apply String.eqb_refl]. }
  rewrite Hm in C. cbn [negb lor_] in C.
  apply lor_true in C. destruct C as [C|C]; [left; apply eqb_prop; exact C|right; exact C].
Qed.

Definition op_interp_check (r : string * string * N * N) (c : N * string * string) : bool :=
  match r, c with (op, lty, lint, interp), (p, rty, form) =>
    limp (N.testbit lint p) (N.testbit interp p) (fun _ => gap_covers "op-interp" op lty p)
  end.

Theorem lint_sub_interp_ops : forall op lty lint interp p rty form,
  In (op, lty, lint, interp) obs_ops -> In (p, rty, form) op_cells_existing ->
  N.testbit lint p = true ->
  N.testbit interp p = true \/ gap_covers "op-interp" op lty p = true.
Proof.
  assert (H : forallb (fun r => forallb (op_interp_check r) op_cells_existing) obs_ops = true) by (vm_cast_no_check (eq_refl true)).
  intros op lty lint interp p rty form Hr Hc Hl.
  pose proof (forallb2_lift _ _ _ _ _ H _ _ Hr Hc) as C. unfold op_interp_check in C.
  exact (limp_or _ _ _ C Hl).
Qed.

(* (no refuting operator cell is left after the repairs 03854fd b725760 2268bae and the ACL-match repair:
   the known-gap disjunct of lint_sub_interp_ops is currently not used by any cell) *)

(* ================================================================ annotations of any width (3 scopes ... 9 scopes) *)
Theorem obs_wide_domain :
  map (fun r => match r with (n, op, _) => (n, op) end) obs_vars_wide
    = map (fun r => match r with (_, n, op) => (n, op) end) (var_rows obs_http_names) /\
  map fst obs_funcs_wide = map fst lint_func_flat /\
  map fst obs_stmts_wide = stmt_kinds /\
  forallb (fun m => mem_N m obs_wide_masks) three_scope_masks = true.
Proof. vm_compute. repeat split; reflexivity. Qed.

Definition wide_var_check (r : string * string * N) (m : N) : bool :=
  match r with (n, op, bits) => Bool.eqb (lint_var_op the_ctx n op (lint_mode m)) (N.testbit bits m) end.
Definition wide_func_check (r : string * N) (m : N) : bool :=
  match r with (n, bits) => Bool.eqb (is_some (lint_get_function n (lint_mode m))) (N.testbit bits m) end.
Definition wide_stmt_check (r : string * N) (m : N) : bool :=
  match r with (k, bits) =>
    Bool.eqb (lint_stmt k (lint_mode m)) (N.testbit bits m)
    && Bool.eqb (N.testbit bits m) (forallb (ref_stmt k) (scopes_of m)) end.

(* the models (whose scope tests are all_scopes_test, for which multi_scope_exact holds for any mask) give the
   real linter's verdict under every observed annotation mask of three or more scopes *)
Theorem lint_wide_model_eq_observed :
  (forall n op bits m, In (n, op, bits) obs_vars_wide -> In m obs_wide_masks ->
     lint_var_op the_ctx n op (lint_mode m) = N.testbit bits m) /\
  (forall n bits m, In (n, bits) obs_funcs_wide -> In m obs_wide_masks ->
     is_some (lint_get_function n (lint_mode m)) = N.testbit bits m) /\
  (forall k bits m, In (k, bits) obs_stmts_wide -> In m obs_wide_masks ->
     lint_stmt k (lint_mode m) = N.testbit bits m /\ N.testbit bits m = forallb (ref_stmt k) (scopes_of m)).
Proof.
  assert (H1 : forallb (fun r => forallb (wide_var_check r) obs_wide_masks) obs_vars_wide = true) by (vm_cast_no_check (eq_refl true)).
  assert (H2 : forallb (fun r => forallb (wide_func_check r) obs_wide_masks) obs_funcs_wide = true) by (vm_cast_no_check (eq_refl true)).
  assert (H3 : forallb (fun r => forallb (wide_stmt_check r) obs_wide_masks) obs_stmts_wide = true) by (vm_cast_no_check (eq_refl true)).
  split; [|split].
  - intros n op bits m Hr Hm. pose proof (forallb2_lift _ _ _ _ _ H1 _ _ Hr Hm) as C. apply eqb_prop. exact C.
  - intros n bits m Hr Hm. pose proof (forallb2_lift _ _ _ _ _ H2 _ _ Hr Hm) as C. apply eqb_prop. exact C.
  - intros k bits m Hr Hm. pose proof (forallb2_lift _ _ _ _ _ H3 _ _ Hr Hm) as C. unfold wide_stmt_check in C.
    apply andb_true_iff in C. destruct C as [C1 C2]. split; apply eqb_prop; assumption.
Qed.

(* ================================================================ the hypotheses are not vacuous *)
Example lint_sub_interp_vars_witness : exists t n op lint interp ctx p,
  In (t, n, op, lint, interp, ctx) obs_vars /\ In p positions45 /\
  N.testbit lint p = true /\ N.testbit interp p = true.
Proof.
  (* a two-scope annotation (position 9 = recv+hash) in which a variable is accepted and executes *)
  destruct (find (fun r => match r with (_, _, _, lint, interp, _) => N.testbit (N.land lint interp) 9 end) obs_vars)
    as [[[[[[t n] op] lint] interp] ctx]|] eqn:E.
  - exists t, n, op, lint, interp, ctx, 9.
    pose proof (find_some _ _ E) as [Hin Hb]. rewrite N.land_spec in Hb. apply andb_true_iff in Hb.
    split; [exact Hin|]. split; [vm_compute; tauto|]. exact Hb.
  - vm_compute in E. discriminate.
Qed.

Example lint_ops_eq_ref_witness : exists op lty lint interp p rty form,
  In (op, lty, lint, interp) obs_ops /\ In (p, rty, form) op_cells_base /\ In op assign_ops /\
  N.testbit lint p = true /\ ref_assign op lty rty form = true.
Proof.
  (* set var.l += <FLOAT variable>  with an INTEGER target: position 14*1+1 = 15 *)
  destruct (find (fun r => match r with (op, lty, lint, _) =>
                    String.eqb op "+=" && String.eqb lty "INTEGER" && N.testbit lint 15 end) obs_ops)
    as [[[[op lty] lint] interp]|] eqn:E.
  - pose proof (find_some _ _ E) as [Hin Hb].
    apply andb_true_iff in Hb. destruct Hb as [Hb Hl]. apply andb_true_iff in Hb. destruct Hb as [Ho Ht].
    apply String.eqb_eq in Ho. apply String.eqb_eq in Ht. subst op lty.
    exists "+=", "INTEGER", lint, interp, 15, "FLOAT", "local".
    split; [exact Hin|]. split; [vm_compute; tauto|]. split; [vm_compute; tauto|]. split; [exact Hl|vm_compute; reflexivity].
  - vm_compute in E. discriminate.
Qed.
