(* C08 - obligations over the data regenerated from the Go sources (Gen/EvalConst.v). *)
From Coq Require Import List Arith Bool Lia.
From Falco Require Import Base.Res Gen.EvalConst Model.Exec Proofs.ExecProofs.
Import ListNotations.

(* the guards the model assumes are present in the sources: both subroutine entry points check
   len(i.callStack) > maxCallStackExceedCount; restart; and restart() check the restart limit;
   include expansion consults the stack of modules being expanded *)
Lemma guard_sites : call_guard_sites = 2 /\ restart_guard_sites = 2 /\ include_guard_sites = 1.
Proof. repeat split; reflexivity. Qed.

(* the limits are the documented ones: Fastly allows three restarts; falco's call depth is 100 *)
Lemma limits : MaxVarnishRestarts = 3 /\ maxCallStackExceedCount = 100.
Proof. split; reflexivity. Qed.

Lemma depth_bound_gen : forall mr r n, 1 <= n ->
  exec_sub (chain n) mr r maxCallStackExceedCount 0 = if n <=? maxCallStackExceedCount then OK XNone else Err.
Proof. intros. now apply depth_bound. Qed.

Lemma restart_total_gen : forall subs,
  serve subs maxCallStackExceedCount MaxVarnishRestarts (S MaxVarnishRestarts) 0 <> OutOfFuel /\
  serve subs maxCallStackExceedCount MaxVarnishRestarts (S MaxVarnishRestarts) 0 <> Crash.
Proof. intros. apply restart_total. Qed.

Lemma restart_bound_gen : forall subs st n,
  serve subs maxCallStackExceedCount MaxVarnishRestarts (S MaxVarnishRestarts) 0 = OK (st, n) -> n <= MaxVarnishRestarts.
Proof. intros subs st n. apply restart_bound. Qed.

Lemma unconditional_restart_gen :
  serve [[XRestart]] maxCallStackExceedCount MaxVarnishRestarts (S MaxVarnishRestarts) 0 = Err /\
  serve [[XReturn XRestartSt]] maxCallStackExceedCount MaxVarnishRestarts (S MaxVarnishRestarts) 0 = Err.
Proof. exact (unconditional_restart_err 99 MaxVarnishRestarts). Qed.
