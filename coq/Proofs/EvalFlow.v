(* C07 - control flow of Model/Eval.v: if / else if / else executes exactly the first branch
   whose condition holds; switch selects the first matching case, runs fallthrough chains until a
   case that ends with break, and uses default only when nothing matches.  For every program,
   every store, every oracle. *)
From Coq Require Import List NArith ZArith Bool Lia.
From Falco Require Import Base.Res Base.Bytes Model.Float Model.Acl Model.Val Model.Assign Model.Oper
  Model.Concat Model.Eval.
Import ListNotations.

Section Flow.
Variable parse_ip : str -> option addr.
Variable re_match : str -> str -> option bool.

Notation ev := (eval_cexp parse_ip re_match).
Notation xblock := (exec_block parse_ip re_match).
Notation xstmt := (exec_stmt parse_ip re_match).

Definition scase := (option (bool * str) * list pstmt * bool)%type.

(* ---------------------------------------------------------------- the loops of exec_stmt, named *)

Fixpoint if_chain (s : store) (e : option (list pstmt)) (l : list (cexp * list pstmt)) : outcome :=
  match l with
  | [] => match e with Some b => xblock b s | None => Done s end
  | (c', b') :: rest =>
      match ev s c' with
      | OK o' => match truth o' with
                 | OK true => xblock b' s
                 | OK false => if_chain s e rest
                 | _ => Failed s
                 end
      | Crash => Panicked
      | _ => Failed s
      end
  end.

Lemma exec_if : forall c t elifs e s, xstmt (PIf c t elifs e) s = if_chain s e ((c, t) :: elifs).
Proof.
  intros c t elifs e s. cbn [if_chain].
  assert (H : forall l,
    (fix chain (l : list (cexp * list pstmt)) : outcome :=
       match l with
       | [] => match e with Some b => xblock b s | None => Done s end
       | (c', b') :: rest =>
           match ev s c' with
           | OK o' => match truth o' with
                      | OK true => xblock b' s
                      | OK false => chain rest
                      | _ => Failed s
                      end
           | Crash => Panicked
           | _ => Failed s
           end
       end) l = if_chain s e l).
  { induction l as [|[c' b'] l IH]; [reflexivity|]. cbn [if_chain]. rewrite <- IH. reflexivity. }
  rewrite <- H. reflexivity.
Qed.

Fixpoint sw_run (l : list scase) (s : store) : outcome :=
  match l with
  | [] => Failed s
  | (_, body, ft) :: rest =>
      match xblock body s with
      | Done s' => if ft then sw_run rest s' else Done s'
      | o' => o'
      end
  end.

Definition sw_test (control : operand) (t : option (bool * str)) : res bool :=
  match t with
  | None => OK false
  | Some (isre, lit) =>
      let right := mkOp (VStr lit false) true in
      match (if isre then regex parse_ip re_match control right else equal parse_ip control right) with
      | OK b => OK b
      | Crash => Crash
      | _ => Err
      end
  end.

Fixpoint sw_from (s : store) (l : list scase) (k : nat) : outcome :=
  match l with
  | [] => Done s
  | _ :: rest => match k with O => sw_run l s | S k' => sw_from s rest k' end
  end.

Fixpoint sw_scan (control : operand) (s : store) (cases : list scase) (dflt : option nat) (l : list scase) : outcome :=
  match l with
  | [] => match dflt with Some d => sw_from s cases d | None => Done s end
  | (t, body, ft) :: rest =>
      match sw_test control t with
      | OK true => sw_run l s
      | OK false => sw_scan control s cases dflt rest
      | Crash => Panicked
      | _ => Failed s
      end
  end.

Definition control_of (o : operand) : operand := mkOp (VStr (string_of (oval o)) false) false.

Lemma sw_run_eq : forall l s,
  (fix run (l : list scase) (s : store) : outcome :=
     match l with
     | [] => Failed s
     | (_, body, ft) :: rest =>
         match xblock body s with
         | Done s' => if ft then run rest s' else Done s'
         | o' => o'
         end
     end) l s = sw_run l s.
Proof. reflexivity. Qed.

Lemma exec_switch : forall ctl cases dflt s o, eval_rexp s ctl = OK o ->
  xstmt (PSwitch ctl cases dflt) s = sw_scan (control_of o) s cases dflt cases.
Proof.
  intros ctl cases dflt s o H.
  assert (Hfrom : forall l k,
    (fix from (l : list scase) (k : nat) : outcome :=
       match l with
       | [] => Done s
       | _ :: rest => match k with O => sw_run l s | S k' => from rest k' end
       end) l k = sw_from s l k).
  { induction l as [|c l IH]; intros k; [reflexivity|]. destruct k; [reflexivity|]. cbn [sw_from]. apply IH. }
  assert (Hscan : forall l,
    (fix scan (l : list scase) : outcome :=
       match l with
       | [] => match dflt with Some d => sw_from s cases d | None => Done s end
       | (t, body, ft) :: rest =>
           match sw_test (control_of o) t with
           | OK true => sw_run l s
           | OK false => scan rest
           | Crash => Panicked
           | _ => Failed s
           end
       end) l = sw_scan (control_of o) s cases dflt l).
  { induction l as [|[[t b] ft] l IH]; [reflexivity|]. cbn [sw_scan]. rewrite <- IH. reflexivity. }
  rewrite <- Hscan. cbn [exec_stmt]. rewrite H.
  destruct dflt as [d|]; [rewrite <- (Hfrom cases d)|]; reflexivity.
Qed.

(* ---------------------------------------------------------------- if / else if / else *)

Definition cond_is (s : store) (c : cexp) (b : bool) : Prop :=
  exists o, ev s c = OK o /\ truth o = OK b.

Lemma if_chain_skip s e pre : forall rest,
  Forall (fun cb => cond_is s (fst cb) false) pre -> if_chain s e (pre ++ rest) = if_chain s e rest.
Proof.
  induction pre as [|[c b] pre IH]; intros rest H; [reflexivity|].
  inversion H as [|x l [o [Ho Ht]] Hl]; subst. cbn in Ho, Ht. cbn [app if_chain]. rewrite Ho, Ht. now apply IH.
Qed.

(* the first branch whose condition holds is the one that runs - and only it *)
Theorem if_selects_first_true : forall c0 t0 elifs e s pre c b post,
  (c0, t0) :: elifs = pre ++ (c, b) :: post ->
  Forall (fun cb => cond_is s (fst cb) false) pre ->
  cond_is s c true ->
  xstmt (PIf c0 t0 elifs e) s = xblock b s.
Proof.
  intros c0 t0 elifs e s pre c b post Heq Hpre [o [Ho Ht]].
  rewrite exec_if, Heq, if_chain_skip by assumption. cbn [if_chain]. now rewrite Ho, Ht.
Qed.

(* when no condition holds the else branch runs, or nothing *)
Theorem if_else_when_all_false : forall c0 t0 elifs e s,
  Forall (fun cb => cond_is s (fst cb) false) ((c0, t0) :: elifs) ->
  xstmt (PIf c0 t0 elifs e) s = match e with Some b => xblock b s | None => Done s end.
Proof.
  intros c0 t0 elifs e s H. rewrite exec_if.
  rewrite <- (app_nil_r ((c0, t0) :: elifs)). now rewrite if_chain_skip.
Qed.

(* a condition that is neither a BOOL nor a STRING, or fails to evaluate, stops the program with an error *)
Theorem if_condition_error : forall c0 t0 elifs e s pre c b post,
  (c0, t0) :: elifs = pre ++ (c, b) :: post ->
  Forall (fun cb => cond_is s (fst cb) false) pre ->
  (ev s c = Err \/ exists o, ev s c = OK o /\ truth o = Err) ->
  xstmt (PIf c0 t0 elifs e) s = Failed s.
Proof.
  intros c0 t0 elifs e s pre c b post Heq Hpre H.
  rewrite exec_if, Heq, if_chain_skip by assumption. cbn [if_chain].
  destruct H as [H | [o [Ho Ht]]]; [now rewrite H | now rewrite Ho, Ht].
Qed.

(* ---------------------------------------------------------------- switch *)

Definition case_test (c : scase) : option (bool * str) := fst (fst c).

Lemma sw_scan_skip control s cases dflt pre : forall rest,
  Forall (fun c => sw_test control (case_test c) = OK false) pre ->
  sw_scan control s cases dflt (pre ++ rest) = sw_scan control s cases dflt rest.
Proof.
  induction pre as [|[[t b] ft] pre IH]; intros rest H; [reflexivity|].
  inversion H as [|x l Hx Hl]; subst. cbn in Hx. cbn [app sw_scan]. rewrite Hx. now apply IH.
Qed.

(* the first case whose test matches the control value is entered (default entries never match in the scan) *)
Theorem switch_selects_first_match : forall ctl dflt s o pre t body ft post,
  eval_rexp s ctl = OK o ->
  Forall (fun c => sw_test (control_of o) (case_test c) = OK false) pre ->
  sw_test (control_of o) t = OK true ->
  xstmt (PSwitch ctl (pre ++ (t, body, ft) :: post) dflt) s = sw_run ((t, body, ft) :: post) s.
Proof.
  intros ctl dflt s o pre t body ft post Ho Hpre Ht.
  rewrite (exec_switch _ _ _ _ _ Ho), sw_scan_skip by assumption. cbn [sw_scan]. now rewrite Ht.
Qed.

(* entering a case: its body runs; with fallthrough the next case's body follows (whatever its test,
   default included), with break the switch is over; an error in a body ends everything *)
Theorem switch_fallthrough_step : forall t body ft rest s,
  sw_run ((t, body, ft) :: rest) s =
  match xblock body s with
  | Done s' => if ft then sw_run rest s' else Done s'
  | o => o
  end.
Proof. reflexivity. Qed.

Lemma xblock_app : forall l1 l2 s,
  xblock (l1 ++ l2) s = match xblock l1 s with Done s' => xblock l2 s' | o => o end.
Proof.
  induction l1 as [|x l1 IH]; intros l2 s; [reflexivity|].
  cbn [app exec_block]. destruct (xstmt x s); try reflexivity. apply IH.
Qed.

(* a chain of fallthrough cases followed by a case that breaks runs all the bodies in order, as one block *)
Theorem switch_fallthrough_spec : forall chain tl bl rest s,
  Forall (fun c => snd c = true) chain ->
  sw_run (chain ++ (tl, bl, false) :: rest) s = xblock (flat_map (fun c => snd (fst c)) chain ++ bl) s.
Proof.
  induction chain as [|[[t b] ft] chain IH]; intros tl bl rest s H.
  - cbn. now destruct (xblock bl s).
  - inversion H as [|x l Hx Hl]; subst. cbn in Hx. subst ft.
    cbn [app flat_map fst snd sw_run]. rewrite <- app_assoc, xblock_app.
    destruct (xblock b s); try reflexivity. now apply IH.
Qed.

Lemma sw_from_skipn s : forall cases d, d < length cases -> sw_from s cases d = sw_run (skipn d cases) s.
Proof.
  induction cases as [|c cases IH]; intros d Hd; [cbn in Hd; lia|].
  destruct d as [|d]; [reflexivity|]. cbn [sw_from skipn]. apply IH. cbn in Hd. lia.
Qed.

(* default is used only when no test matches: then execution enters at the default's position *)
Theorem switch_default_spec : forall ctl cases dflt s o,
  eval_rexp s ctl = OK o ->
  Forall (fun c => sw_test (control_of o) (case_test c) = OK false) cases ->
  xstmt (PSwitch ctl cases dflt) s =
  match dflt with
  | Some d => if d <? length cases then sw_run (skipn d cases) s else Done s
  | None => Done s
  end.
Proof.
  intros ctl cases dflt s o Ho H.
  rewrite (exec_switch _ _ _ _ _ Ho). rewrite <- (app_nil_r cases) at 2. rewrite sw_scan_skip by assumption.
  cbn [sw_scan]. destruct dflt as [d|]; [|reflexivity].
  destruct (d <? length cases) eqn:E.
  - apply Nat.ltb_lt in E. now apply sw_from_skipn.
  - apply Nat.ltb_ge in E. clear -E. revert d E. induction cases as [|c cases IH]; intros d E; [reflexivity|].
    destruct d; [cbn in E; lia|]. cbn [sw_from]. apply IH. cbn in E. lia.
Qed.

End Flow.

(* ---------------------------------------------------------------- witnesses *)
Definition nore : str -> str -> option bool := fun _ _ => Some false.
Definition noip : str -> option addr := fun _ => None.
Definition bI (z : Z) := VInt z false false false.
Definition sA : str := [Byte.x61].
Definition sB : str := [Byte.x62].

(* if (var.0 < 1) {v1=1} else if (var.0 < 10) {v1=2} else if (var.0 < 100) {v1=3} else {v1=4}  with var.0 = 5 *)
Example ex_if_second_branch :
  exec_block noip nore
    [PDeclare 0 TInt; PDeclare 1 TInt; PSet 0 OpSet (RLit (bI 5));
     PIf (EInfix BLt (EOp (RVar 0)) (EOp (RLit (bI 1)))) [PSet 1 OpSet (RLit (bI 1))]
         [(EInfix BLt (EOp (RVar 0)) (EOp (RLit (bI 10))), [PSet 1 OpSet (RLit (bI 2))]);
          (EInfix BLt (EOp (RVar 0)) (EOp (RLit (bI 100))), [PSet 1 OpSet (RLit (bI 3))])]
         (Some [PSet 1 OpSet (RLit (bI 4))])] []
  = Done [(0%nat, bI 5); (1%nat, bI 2)].
Proof. reflexivity. Qed.

(* switch (var.0) { case "b": v1 += 1; fallthrough; case "a": v1 += 10; fallthrough; default: v1 += 100; break; case "c": v1 += 1000; break; }
   with var.0 = "a": enters at "a", falls through default, stops: 110 *)
Example ex_switch_fallthrough :
  exec_block noip nore
    [PDeclare 0 TStr; PDeclare 1 TInt; PSet 0 OpSet (RLit (VStr sA false));
     PSwitch (RVar 0)
       [(Some (false, sB), [PSet 1 OpAdd (RLit (bI 1))], true);
        (Some (false, sA), [PSet 1 OpAdd (RLit (bI 10))], true);
        (None, [PSet 1 OpAdd (RLit (bI 100))], false);
        (Some (false, [Byte.x63]), [PSet 1 OpAdd (RLit (bI 1000))], false)] (Some 2%nat)] []
  = Done [(0%nat, VStr sA false); (1%nat, bI 110)].
Proof. reflexivity. Qed.
